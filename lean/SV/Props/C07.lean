/-
C07 — each layer is served as a correct overlayfs lower directory of the OCI layer.

Only property theorems and their non-vacuity examples live here.  Model: SV/Model/Overlay.lean
(fs/layer/node.go readdir / Lookup / Getxattr / Listxattr / inodeOf* / state, plus `serve`, `ociApply`,
`overlayMerge` on whole layers).

Directory level: `d : Dir` is any directory as the metadata reader shows it (any children, root or not),
`s : NodeSt` any state of the two caches Lookup consults (`Inv d s` holds for every state reachable by
any history of Readdir / Lookup calls with or without go-fuse adopting the result: `history_reaches_inv`).
Layer level: stacks of layers of any shape inside the stated domain (`LayerOK`).

`readdir` models node.go after 545b9cc (whiteouts whose target Lookup never resolves are not listed);
`readdirOld` is the listing before that repair, kept for the three documented counterexamples.
-/
import SV.Lemmas.Overlay

namespace SV.Props.C07
open SV.Overlay

/-! ## Histories: the caches never change an answer -/

/-- Every state reached by any history of calls on a fresh node satisfies the cache invariant. -/
theorem history_reaches_inv (d : Dir) (ops : List Op) : Inv d (runSt d {} ops) :=
  runSt_inv ops (inv_init d)

/-- For every history of Readdir / Lookup calls in any order (Lookup before or after the listing is
memoised, before or after go-fuse cached the child), every answer is the answer a fresh node gives.
(`stable` only forgets the attr mode/rdev fields of a whiteout answer, which go-fuse's `setEntryOut`
overrides with the S_IFCHR StableAttr.  `Op.valid`: a LOOKUP carries a non-empty name.) -/
theorem history_independent (d : Dir) (ops : List Op) (hv : ∀ o ∈ ops, o.valid = true) :
    (run d {} ops).map Ans.stable = ops.map (pureAns d) :=
  run_stable ops hv (inv_init d)

/-- The restriction to non-empty names is needed: with a child named exactly `.wh.`, `Lookup("")` finds
that whiteout before the listing is memoised and answers ENOENT afterwards (the kernel never sends it). -/
theorem history_independent_needs_valid :
    ∃ d : Dir, (lookupSt d (readdirSt d {}).1 []).2.stable ≠ (lookupSt d {} []).2 :=
  ⟨⟨false, 1, 2, S_IFDIR, 0, [], [⟨".wh.".toList, 3, S_IFREG, 0⟩]⟩, by decide⟩

/-- `readdir` fails (EIO) only when an id is too large for an inode number. -/
theorem readdir_total (d : Dir) (h : ∀ c ∈ d.children, c.id ≤ maxU32 - 3) : (readdir d).isSome :=
  readdir_isSome h

/-! ## Listing and lookup agree -/

/-- Full strength: for every directory, every cache state (memoised or not, children cached or not) and
every name other than `.`, `..` and the state directory of the root: listed ⇔ lookup succeeds, with the
same inode and type. -/
theorem listing_lookup_agree (d : Dir) (s : NodeSt) (ents : List DirEnt) (n : Str)
    (hnd : NoDupNames d) (hi : Inv d s) (h : readdir d = some ents) (hpl : Plain d n) :
    ((readdirSt d s).2 = some ents) ∧
    ((∃ e ∈ ents, e.name = n) ↔ (lookupSt d s n).2.ok = true) ∧
    (∀ e ∈ ents, e.name = n →
      (lookupSt d s n).2.ino? = some e.ino ∧ (lookupSt d s n).2.stype = e.mode &&& S_IFMT) := by
  have hs := lookupSt_eq_pure hi n hpl.1
  have hok : (lookupSt d s n).2.ok = (lookupPure d n).ok := by rw [← hs, stable_ok]
  have hino : (lookupSt d s n).2.ino? = (lookupPure d n).ino? := by rw [← hs, stable_ino]
  have hty : (lookupSt d s n).2.stype = (lookupPure d n).stype := by rw [← hs, stable_stype]
  refine ⟨by rw [readdirSt_ans hi, h], ⟨?_, ?_⟩, ?_⟩
  · rintro ⟨e, he, hen⟩
    rw [hok]; exact (listed_lookup hnd h hpl he hen).1
  · intro hl
    rw [hok] at hl; exact lookup_listed h hpl hl
  · intro e he hen
    rw [hino, hty]; exact (listed_lookup hnd h hpl he hen).2

/-! ### The listing before 545b9cc (`readdirOld`): documented counterexamples -/

/-- A directory `foo` holding the single whiteout `.wh..wh.foo` (a name beginning with `.wh.`). -/
def cexDotWh : Dir :=
  ⟨false, 100, 3, S_IFDIR ||| 0o755, 0, [], [⟨".wh..wh.foo".toList, 5, S_IFREG ||| 0o644, 0⟩]⟩

/-- The root holding the whiteout `.wh..prefetch.landmark`. -/
def cexLandmark : Dir :=
  ⟨true, 100, 1, S_IFDIR ||| 0o755, 0, [],
    [⟨".wh..prefetch.landmark".toList, 2, S_IFREG ||| 0o644, 0⟩, ⟨".no.prefetch.landmark".toList, 3, S_IFREG, 0⟩]⟩

/-- A directory holding files named exactly `.wh.`, `.wh..` and `.wh...`. -/
def cexEmptyDots : Dir :=
  ⟨false, 100, 3, S_IFDIR ||| 0o755, 0, [],
    [⟨".wh.".toList, 5, S_IFREG, 0⟩, ⟨".wh..".toList, 6, S_IFREG, 0⟩, ⟨".wh...".toList, 7, S_IFREG, 0⟩]⟩

/-- Before the repair `.wh..wh.foo` made Readdir list `.wh.foo`, which Lookup refuses; now nothing but the
dot entries is listed. -/
theorem old_readdir_dotwh_counterexample :
    (∃ e ∈ (readdirOld cexDotWh).getD [], e.name = ".wh.foo".toList ∧ isWh e.name = true) ∧
    (lookupPure cexDotWh ".wh.foo".toList).ok = false ∧ Plain cexDotWh ".wh.foo".toList ∧
    readdir cexDotWh = some dotEnts := by
  refine ⟨⟨⟨".wh.foo".toList, S_IFCHR, 429496729608⟩, by decide, rfl, rfl⟩, by decide, by unfold Plain; decide, by rfl⟩

/-- Before the repair a root whiteout of a landmark name made Readdir list the landmark name in `/`. -/
theorem old_readdir_landmark_counterexample :
    (∃ e ∈ (readdirOld cexLandmark).getD [], e.name = prefetchLandmark) ∧
    (lookupPure cexLandmark prefetchLandmark).ok = false ∧ Plain cexLandmark prefetchLandmark ∧
    readdir cexLandmark = some dotEnts := by
  refine ⟨⟨⟨prefetchLandmark, S_IFCHR, 429496729605⟩, by decide, rfl⟩, by decide, by unfold Plain; decide, by rfl⟩

/-- Before the repair files named `.wh.`, `.wh..`, `.wh...` made Readdir list an entry with the empty name
and character-device entries named `.` and `..`. -/
theorem old_readdir_empty_dot_counterexample :
    (∃ e ∈ (readdirOld cexEmptyDots).getD [], e.name = []) ∧
    (∃ e ∈ (readdirOld cexEmptyDots).getD [], e.name = dot ∧ e.mode = S_IFCHR) ∧
    (∃ e ∈ (readdirOld cexEmptyDots).getD [], e.name = dotdot ∧ e.mode = S_IFCHR) ∧
    readdir cexEmptyDots = some dotEnts := by
  refine ⟨⟨⟨[], S_IFCHR, 429496729608⟩, by decide, rfl⟩, ⟨⟨dot, S_IFCHR, 429496729609⟩, by decide, rfl, rfl⟩,
    ⟨⟨dotdot, S_IFCHR, 429496729610⟩, by decide, rfl, rfl⟩, by rfl⟩

/-! ## Marker files, landmarks and the TOC are hidden -/

/-- Full strength: no listed name begins with `.wh.` (so neither whiteout files nor the opaque marker are
ever listed) and no landmark name is listed in the root — for every directory. -/
theorem markers_hidden (d : Dir) (ents : List DirEnt) (e : DirEnt)
    (h : readdir d = some ents) (he : e ∈ ents) :
    isWh e.name = false ∧ e.name ≠ opaqueMarker ∧ (d.isRoot && isLandmark e.name) = false :=
  listed_names_clean h he

/-- Every listed entry is one of the two dot entries, a real child under its own name, or the whiteout of a
name Lookup resolves (non-empty, not `.`/`..`, not a `.wh.` name, not a landmark name in the root). -/
theorem listed_entries_wellformed (d : Dir) (ents : List DirEnt) (e : DirEnt)
    (h : readdir d = some ents) (he : e ∈ ents) :
    e ∈ dotEnts ∨ (∃ c ∈ d.children, c.name = e.name ∧ isNormal d.isRoot c.name = true) ∨
      (badTarget d.isRoot e.name = false ∧ ∃ c ∈ d.children, c.name = mkWh e.name) :=
  listed_wh_target_valid h he

/-- And the hidden names are not reachable by Lookup either, in any cache state. -/
theorem markers_not_lookupable (d : Dir) (s : NodeSt) (n : Str)
    (h : isWh n = true ∨ (d.isRoot && isLandmark n) = true) : (lookupSt d s n).2 = .enoent := by
  unfold lookupSt
  rcases h with h | h
  · by_cases h1 : (d.isRoot && isLandmark n) = true <;> simp [h1, h]
  · simp [h]

/-- The TOC entry never appears in the root of a layer made by the builder (which drops a root entry of
that name from the source tar), unless the source tar whites it out explicitly. -/
theorem toc_hidden (d : Dir) (ents : List DirEnt) (prioritized : Bool) (src : List Str)
    (hsrc : ∀ c ∈ d.children, c.name ∈ builderRootNames prioritized src)
    (hnw : mkWh tocTarName ∉ src) (h : readdir d = some ents) : ∀ e ∈ ents, e.name ≠ tocTarName :=
  toc_not_listed prioritized src hsrc hnw h

/-! ## Whiteouts -/

/-- `.wh.n` without a real `n` is served as exactly one entry `n`: a character device whose inode is the
one of the `.wh.` entry; Lookup (any cache state) returns a whiteout node with that inode, type S_IFCHR,
and its Getattr reports S_IFCHR with device 0/0.  A real `n` is listed as itself whether or not `.wh.n`
exists; with neither, nothing named `n` is listed. -/
theorem whiteout_translation (d : Dir) (s : NodeSt) (ents : List DirEnt) (n : Str)
    (hnd : NoDupNames d) (hi : Inv d s) (h : readdir d = some ents) (hne : n ≠ [])
    (hd : isDots n = false) (hl : (d.isRoot && isLandmark n) = false) (hw : isWh n = false)
    (hs : (d.isRoot && n == stateDirName) = false) :
    match getChild d.children n, getChild d.children (mkWh n) with
    | none, some w =>
      ∃ ino, inodeOfID d.base w.id = some ino ∧ (⟨n, S_IFCHR, ino⟩ : DirEnt) ∈ ents ∧
        (∀ e ∈ ents, e.name = n → e = ⟨n, S_IFCHR, ino⟩) ∧
        (lookupSt d s n).2.stable = .whiteout w.id S_IFCHR ino 0 ∧
        getattrOf (lookupSt d s n).2 = some (S_IFCHR, ino, 0)
    | some c, _ =>
      ∃ ino, inodeOfID d.base c.id = some ino ∧ (⟨n, c.mode, ino⟩ : DirEnt) ∈ ents ∧
        (∀ e ∈ ents, e.name = n → e = ⟨n, c.mode, ino⟩)
    | none, none => ∀ e ∈ ents, e.name ≠ n := by
  cases hg1 : getChild d.children n with
  | some c => exact real_listed hnd h hd hl hw hg1
  | none =>
    cases hg2 : getChild d.children (mkWh n) with
    | none => exact absent_not_listed h hd hw hg1 hg2
    | some w =>
      obtain ⟨ino, h1, h2, h3, h4, h5⟩ := whiteout_listed hnd h hne hd hl hw hs hg2 hg1
      refine ⟨ino, h1, h2, h3, ?_, ?_⟩
      · rw [lookupSt_eq_pure hi n hne, h4]
      · rw [← stable_getattr, lookupSt_eq_pure hi n hne]; exact h5

/-- A whiteout `.wh.t` whose target `t` Lookup never resolves (the empty name, `.`, `..`, a name that itself
begins with `.wh.`, a landmark name in the root) yields no entry: whatever is listed under the name `t` is
one of the two dot entries or a real child named `t` — and for a `.wh.` name or a root landmark name,
nothing at all. -/
theorem whiteout_of_unresolvable_target_hidden (d : Dir) (ents : List DirEnt) (t : Str)
    (h : readdir d = some ents) (hb : badTarget d.isRoot t = true) :
    (∀ e ∈ ents, e.name = t →
      e ∈ dotEnts ∨ ∃ c ∈ d.children, c.name = t ∧ isNormal d.isRoot c.name = true) ∧
    (isWh t = true ∨ (d.isRoot && isLandmark t) = true → ∀ e ∈ ents, e.name ≠ t) := by
  refine ⟨fun e he hen => unresolvable_target_not_listed h hb he hen, ?_⟩
  intro hwl e he hen
  obtain ⟨h1, _, h3⟩ := listed_names_clean h he
  rw [hen] at h1 h3
  rcases hwl with hw | hl
  · rw [h1] at hw; cases hw
  · rw [h3] at hl; cases hl

/-! ## Opaque directories, all three modes -/

/-- A directory is opaque exactly when it has the marker child; then `Getxattr` answers "y" for exactly
the xattr names of the configured mode (trusted: `trusted.overlay.opaque`; user: `user.overlay.opaque`;
all: both) and for no other name, `Listxattr` lists exactly those names in front of the entry's own
xattrs; a directory without marker only shows the entry's own xattrs. -/
theorem opaque_translation (om : OpaqueMode) (d : Dir) (x : Str) (dl : Nat) :
    (isOpaque d = true ↔ ∃ c ∈ d.children, c.name = opaqueMarker) ∧
    (opaqueXattrs .trusted = [xTrusted] ∧ opaqueXattrs .user = [xUser] ∧ opaqueXattrs .all = [xTrusted, xUser]) ∧
    (x ∈ opaqueXattrs om → isOpaque d = true →
      getxattr om d x dl = if dl < 1 then .erange 1 else .ok 1 opaqueXattrValue) ∧
    (x ∉ opaqueXattrs om ∨ isOpaque d = false →
      getxattr om d x dl =
        match xlookup d.xattrs x with
        | some v => if dl < blen v then .erange (blen v) else .ok (blen v) v
        | none => .enodata) ∧
    (listxattrNames om d = (if isOpaque d = true then opaqueXattrs om else []) ++ d.xattrs.map (·.1)) :=
  ⟨isOpaque_iff, ⟨rfl, rfl, rfl⟩, fun hx ho => getxattr_opaque hx ho dl, fun h => getxattr_plain h dl,
    listxattrNames_eq om d⟩

/-- In user-only mode `trusted.overlay.opaque` is not synthesised (and vice versa). -/
theorem opaque_mode_separation : xTrusted ∉ opaqueXattrs .user ∧ xUser ∉ opaqueXattrs .trusted := by decide

/-! ## Inode numbers -/

/-- Inode numbers are a function of (base inode, id) only — hence identical across repeated calls —,
injective in both, never 0 and never one of the two numbers reserved for the state directory and the
stat file (of any layer). -/
theorem inode_unique_stable (b b' i j x : Nat) (h1 : inodeOfID b i = some x) :
    (inodeOfID b' j = some x → b = b' ∧ i = j) ∧
    x ≠ inodeOfState b' ∧ x ≠ inodeOfStatFile b' ∧ x ≠ 0 ∧ inodeOfState b ≠ inodeOfStatFile b' :=
  ⟨fun h2 => inodeOfID_inj h1 h2, (inodeOfID_ne_reserved (b' := b') h1).1,
    (inodeOfID_ne_reserved (b' := b') h1).2.1, (inodeOfID_ne_reserved (b' := b') h1).2.2,
    by rw [inodeOfState_eq, inodeOfStatFile_eq]; omega⟩

/-- Within one listing, two entries with the same inode come from the same metadata id (hard links). -/
theorem listing_inodes_unique (d : Dir) (ents : List DirEnt) (h : readdir d = some ents)
    (e1 e2 : DirEnt) (h1 : e1 ∈ ents) (h2 : e2 ∈ ents) (hne : e1 ∉ dotEnts) (hne2 : e2 ∉ dotEnts)
    (hino : e1.ino = e2.ino) :
    ∃ c1 ∈ d.children, ∃ c2 ∈ d.children, c1.id = c2.id ∧
      inodeOfID d.base c1.id = some e1.ino ∧ inodeOfID d.base c2.id = some e2.ino := by
  have src : ∀ e ∈ ents, e ∉ dotEnts → ∃ c ∈ d.children, inodeOfID d.base c.id = some e.ino := by
    intro e he hd
    rcases (mem_readdir h e).mp he with hdot | ⟨c, hc, _, hce⟩ | ⟨c, hc, t, _, _, _, hce⟩
    · exact absurd hdot hd
    · exact ⟨c, hc, (normalEnt_eq hce).2.2⟩
    · exact ⟨c, hc, (whEnt_eq hce).2.2⟩
  obtain ⟨c1, hc1, hi1⟩ := src e1 h1 hne
  obtain ⟨c2, hc2, hi2⟩ := src e2 h2 hne2
  exact ⟨c1, hc1, c2, hc2, (inodeOfID_inj hi1 (hino ▸ hi2)).2, hi1, hi2⟩

/-! ## State directory and stat file (shape) -/

/-- For a layer blob of positive size the stat file is produced, has the keys `digest`, `size`,
`fetchedSize` exactly once with the layer's values; the state directory lists exactly that file and
its Lookup agrees with its listing. -/
theorem stat_json_wellformed (l : LayerInfo) (h : 0 < l.size) :
    (∃ fs, statFields l = some fs ∧
      lookupKid fs "digest".toList = some (.str l.digest) ∧
      lookupKid fs "size".toList = some (.int l.size) ∧
      lookupKid fs "fetchedSize".toList = some (.int l.fetched) ∧
      (fs.map (·.1)).Nodup) ∧
    stateReaddir l = [⟨l.digest ++ ".json".toList, statFileMode, inodeOfStatFile l.base⟩] ∧
    (∀ n, (∃ e ∈ stateReaddir l, e.name = n) ↔ stateLookup l n = .ok (statFileMode, inodeOfStatFile l.base)) := by
  obtain ⟨fs, hfs, r⟩ := statFields_some h
  refine ⟨⟨fs, hfs, r⟩, rfl, ?_⟩
  intro n
  simp only [stateReaddir, List.mem_cons, List.mem_nil_iff, or_false, exists_eq_left, stateLookup, hfs]
  by_cases hn : n = statFileName l
  · simp [hn]
  · simp [hn]
    exact fun h => hn h.symm

/-! ## Composition: overlay of the served layers = OCI application of the layer tars -/

/-- Per directory (name level): for every stack of layer directories in the domain (top first; `isRoot`
says whether they are the — landmark-stripped — roots) and every name, looking the name up through the
served directories with the overlayfs rules gives the served form of what OCI application leaves at that
name, and that is the child of the applied directory. -/
theorem overlay_equals_oci_dir (om : OpaqueMode) (kx : KX) (hc : compat om kx = true) (isRoot : Bool)
    (tl : List DirT) (hok : OkDirs kx tl) (hlm : NoLandmarkKids isRoot tl) (x : Str) :
    descend kx x (tl.map (serveDir om isRoot)) = (sub x tl).serve om ∧
    lookupKid (kidsOf (appliedOf tl)) x = (sub x tl).tree :=
  ⟨descend_serve hc isRoot x hok hlm, applied_child x hok⟩

/-- Whole trees: for every non-empty stack of layers in the domain, every opaque mode that covers the
xattr namespace the kernel reads, the overlay mount of the served layers and the root filesystem obtained
by applying the layer tars in order are the same finite map from paths to nodes. -/
theorem overlay_equals_oci (om : OpaqueMode) (kx : KX) (hc : compat om kx = true) (layers : List DirT)
    (hne : layers ≠ []) (hok : ∀ d ∈ layers, LayerOK kx d) :
    overlayMerge kx (layers.map fun d => serveRoot om d.tree) = ociRootFs (layers.map DirT.tree) := by
  funext p
  rw [ociRootFs_eq layers hne]
  unfold overlayMerge
  rw [served_stack]
  exact ovl_eq_applied hc p (layers_ok hok) (layers_noLandmark layers)

/-- The `serve` of the composition theorem is the directory-level `readdir` (the function compared with
node.go call by call): at every directory of a layer tree, root or not, a name other than `.`/`..` is listed
by `readdir` on that directory's node exactly when the served tree has it. -/
theorem serve_is_readdir (om : OpaqueMode) (isRoot : Bool) (base : Nat) (a : Attr) (kids : List (Str × Tree))
    (ents : List DirEnt) (h : readdir (dirOfTree isRoot base a kids) = some ents) (x : Str)
    (hx : isDots x = false) :
    (∃ e ∈ ents, e.name = x) ↔
      (lookupKid (serveKids om isRoot (servedKidsOf isRoot kids) (servedKidsOf isRoot kids)) x).isSome = true :=
  serve_matches_readdir om isRoot base a kids h x hx

/-! ## The hypotheses of `overlay_equals_oci` are needed -/

private def fA (id tag : Nat) : Attr := ⟨id, S_IFREG ||| 0o644, 0, [], tag⟩
private def dA (id tag : Nat) : Attr := ⟨id, S_IFDIR ||| 0o755, 0, [], tag⟩

/-- Lower layer: `x/a`, `f`, `d/a`. -/
def cexLower : DirT :=
  (dA 1 1, [("x".toList, .dir (dA 2 1) [("a".toList, .file (fA 3 1))]), ("f".toList, .file (fA 4 1)),
            ("d".toList, .dir (dA 5 1) [("a".toList, .file (fA 6 1))])])

/-- The excluded shape: a whiteout `.wh.x` next to a directory `x`.  OCI application drops the lower `x/a`,
the overlay mount of the served layers still shows it. -/
theorem overlay_equals_oci_needs_domain :
    ∃ layers : List DirT, layers ≠ [] ∧
      overlayMerge .trusted (layers.map fun d => serveRoot .all d.tree) ≠ ociRootFs (layers.map DirT.tree) := by
  refine ⟨[cexLower, (dA 1 2, [(".wh.x".toList, .file (fA 2 2)),
      ("x".toList, .dir (dA 3 2) [("b".toList, .file (fA 4 2))])])], by simp, ?_⟩
  intro h
  have := congrFun h ["x".toList, "a".toList]
  revert this; decide

/-- A real 0/0 character device in a layer is a whiteout to overlayfs but a device node to OCI. -/
theorem overlay_equals_oci_needs_no_real_whiteout_dev :
    ∃ layers : List DirT, layers ≠ [] ∧
      overlayMerge .trusted (layers.map fun d => serveRoot .all d.tree) ≠ ociRootFs (layers.map DirT.tree) := by
  refine ⟨[cexLower, (dA 1 2, [("f".toList, .file ⟨2, S_IFCHR, 0, [], 2⟩)])], by simp, ?_⟩
  intro h
  have := congrFun h ["f".toList]
  revert this; decide

/-- A real directory that itself carries the kernel's opaque xattr is opaque to overlayfs only. -/
theorem overlay_equals_oci_needs_no_real_opaque_xattr :
    ∃ layers : List DirT, layers ≠ [] ∧
      overlayMerge .trusted (layers.map fun d => serveRoot .all d.tree) ≠ ociRootFs (layers.map DirT.tree) := by
  refine ⟨[cexLower, (dA 1 2, [("d".toList, .dir ⟨2, S_IFDIR ||| 0o755, 0, [(xTrusted, opaqueXattrValue)], 2⟩ [])])],
    by simp, ?_⟩
  intro h
  have := congrFun h ["d".toList, "a".toList]
  revert this; decide

/-- The served mode must cover the namespace the kernel reads: user-only xattrs under a kernel that reads
`trusted.overlay.opaque` leave opaque directories transparent. -/
theorem overlay_equals_oci_needs_compat :
    ∃ layers : List DirT, layers ≠ [] ∧ (∀ d ∈ layers, LayerOK .trusted d) ∧
      overlayMerge .trusted (layers.map fun d => serveRoot .user d.tree) ≠ ociRootFs (layers.map DirT.tree) := by
  refine ⟨[cexLower, (dA 1 2, [("d".toList, .dir (dA 2 2) [(opaqueMarker, .file (fA 3 2))])])], by simp, ?_, ?_⟩
  · intro d hd
    simp only [List.mem_cons, List.mem_nil_iff, or_false] at hd
    rcases hd with rfl | rfl <;> (unfold LayerOK; decide)
  · intro h
    have := congrFun h ["d".toList, "a".toList]
    revert this; decide

/-! ## Non-vacuity -/

/-- A root directory with a real entry, a live whiteout, a whiteout shadowed by a real entry, the opaque
marker, a landmark and an xattr of its own. -/
def exDir : Dir :=
  ⟨true, 7, 1, S_IFDIR ||| 0o755, 0, [("user.foo".toList, "bar".toList)],
    [⟨"a".toList, 2, S_IFREG ||| 0o644, 0⟩, ⟨".wh.gone".toList, 3, S_IFREG, 0⟩, ⟨".wh.a".toList, 4, S_IFREG, 0⟩,
     ⟨opaqueMarker, 5, S_IFREG, 0⟩, ⟨noPrefetchLandmark, 6, S_IFREG, 0⟩]⟩

example : NoDupNames exDir := by unfold NoDupNames; decide
example : readdir exDir = some [⟨dot, S_IFDIR, 0⟩, ⟨dotdot, S_IFDIR, 0⟩, ⟨"a".toList, S_IFREG ||| 0o644, 30064771077⟩,
    ⟨"gone".toList, S_IFCHR, 30064771078⟩] := by rfl
example : lookupPure exDir "gone".toList = .whiteout 3 S_IFCHR 30064771078 0 := by decide
example : Plain exDir "gone".toList ∧ Plain exDir "a".toList := by unfold Plain; decide
example : isOpaque exDir = true ∧ getxattr .user exDir xUser 8 = .ok 1 opaqueXattrValue ∧
    getxattr .user exDir xTrusted 8 = .enodata ∧ getxattr .all exDir xTrusted 0 = .erange 1 := by decide
/-- a history: lookup before the listing, readdir, the same lookups again (one served from go-fuse's child map) -/
example : (run exDir {} [.lookup "gone".toList true, .lookup "nope".toList false, .readdir,
      .lookup "gone".toList false, .lookup "nope".toList false]).map Ans.stable =
    [.res (.whiteout 3 S_IFCHR 30064771078 0), .res .enoent, .list (readdir exDir),
     .res (.whiteout 3 S_IFCHR 30064771078 0), .res .enoent] := by rfl
example : statFields ⟨1, .all, "sha256:ab".toList, 10, 5, []⟩ ≠ none := by decide

/-- A two-layer stack in the domain: the upper layer whites out `x/a`, adds `x/b`, removes `f`, and makes
`d` opaque. -/
def exUpper : DirT :=
  (dA 1 2, [("x".toList, .dir (dA 2 2) [(".wh.a".toList, .file (fA 3 2)), ("b".toList, .file (fA 4 2))]),
            (".wh.f".toList, .file (fA 5 2)),
            ("d".toList, .dir (dA 6 2) [(opaqueMarker, .file (fA 7 2)), ("q".toList, .file (fA 8 2))]),
            (noPrefetchLandmark, .file (fA 9 2))])

example : ∀ d ∈ [cexLower, exUpper], LayerOK .trusted d := by
  intro d hd
  simp only [List.mem_cons, List.mem_nil_iff, or_false] at hd
  rcases hd with rfl | rfl <;> (unfold LayerOK; decide)
example : compat .all .trusted = true ∧ compat .trusted .trusted = true ∧ compat .user .user = true ∧
    compat .user .trusted = false := by decide
example :
    let m := overlayMerge .trusted ([cexLower, exUpper].map fun d => serveRoot .trusted d.tree)
    m ["x".toList, "a".toList] = none ∧ m ["x".toList, "b".toList] = some (.file (fA 4 2)) ∧
    m ["f".toList] = none ∧ m ["d".toList, "a".toList] = none ∧ m ["d".toList, "q".toList] = some (.file (fA 8 2)) ∧
    m ["d".toList] = some (.dir (dA 6 2)) ∧ m [noPrefetchLandmark] = none ∧ m [] = some (.dir (dA 1 2)) := by
  decide

end SV.Props.C07
