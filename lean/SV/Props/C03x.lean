import SV.Model.DigestPool
/-!
# C03x — a failed session leaves nothing behind (seeded change C03-E)

The property is quantified over every blob the writer produces, hence also over the blob produced
right after (or while) OTHER sessions of the process failed in the middle of a chunk.  Over the model
`SV.DigestPool` (digester state = bytes absorbed since the last Reset; pool with an arbitrary `Get`
oracle; histories = arbitrary interleavings of succeeding / failing chunk copies of any sessions):

* `history_digests_exact`  for the discipline of /repo (`fresh`) and for a pool that is Reset before
  every put, in EVERY history every successful chunk copy takes its digest over exactly its own bytes
  and the pool stays clean;
* `failed_sessions_leave_no_trace`  what a history records does not depend on the (arbitrary, possibly
  failing) history that ran before it in the process;
* `dirty_put_breaks_digest`  the discipline of the seeded change (put without Reset on the error path)
  does NOT have the property: a two-step history (a failing copy, then a successful one of another
  session) records a digest over other bytes.  This is the scenario of the fault stream of the harness.
-/
namespace SV.Props.C03x
open SV.DigestPool

/-- The disciplines that Reset (or never share). -/
def Resets : Disc → Prop
  | .fresh => True
  | .pooled b => b = true

theorem get_clean (d : Disc) (pool : List Bytes) (pick : Nat) (h : Clean pool) :
    (poolGet d pool pick).1 = [] ∧ Clean (poolGet d pool pick).2 := by
  cases d with
  | fresh => exact ⟨rfl, h⟩
  | pooled b =>
    simp only [poolGet]
    split
    · exact ⟨rfl, h⟩
    · refine ⟨?_, ?_⟩
      · cases hq : pool[(pick - 1) % pool.length]? with
        | none => rfl
        | some x => exact h x (List.mem_of_getElem? hq)
      · intro p hp
        exact h p (List.mem_of_mem_eraseIdx hp)

/-- One chunk copy under a resetting discipline on a clean pool: the digest is over exactly the chunk's
bytes (or the session aborts), and the pool is clean again. -/
theorem chunkStep_exact (d : Disc) (hd : Resets d) (pool : List Bytes) (c : ChunkOp) (h : Clean pool) :
    (chunkStep d pool c).1 = (expected c).2 ∧ Clean (chunkStep d pool c).2 := by
  have hg := get_clean d pool c.pick h
  have cons_clean : Clean ([] :: (poolGet d pool c.pick).2) := by
    intro p hp
    cases hp with
    | head => rfl
    | tail _ hp => exact hg.2 p hp
  cases d with
  | fresh =>
    cases hf : c.failAt with
    | none => simp [chunkStep, expected, hf, poolGet]; exact h
    | some k => simp [chunkStep, expected, hf, poolGet]; exact h
  | pooled b =>
    have hb : b = true := hd
    subst hb
    cases hf : c.failAt with
    | none =>
      refine ⟨?_, ?_⟩
      · simp only [chunkStep, expected, hf, hg.1, List.nil_append]
      · simpa only [chunkStep, hf] using cons_clean
    | some k =>
      refine ⟨?_, ?_⟩
      · simp only [chunkStep, expected, hf]
      · simpa only [chunkStep, hf] using cons_clean

/-- **Every history**: arbitrary interleaving of chunk copies of arbitrary sessions, each succeeding or
failing after any number of bytes, arbitrary `sync.Pool` oracle.  Under a resetting discipline every
chunk copy records exactly what the property demands, and the pool ends clean. -/
theorem history_digests_exact (d : Disc) (hd : Resets d) (h : List ChunkOp) :
    ∀ pool, Clean pool → (runHist d pool h).1 = h.map expected ∧ Clean (runHist d pool h).2 := by
  induction h with
  | nil => intro pool hp; exact ⟨rfl, hp⟩
  | cons c cs ih =>
    intro pool hp
    have hs := chunkStep_exact d hd pool c hp
    have hr := ih (chunkStep d pool c).2 hs.2
    refine ⟨?_, ?_⟩
    · simp only [runHist, List.map_cons, hr.1]
      congr 1
      show (c.sess, (chunkStep d pool c).1) = expected c
      rw [hs.1]
      rfl
    · simpa only [runHist] using hr.2

/-- **Isolation**: what a history records is independent of whatever ran (and failed) before it in the
same process. -/
theorem failed_sessions_leave_no_trace (d : Disc) (hd : Resets d) (before h : List ChunkOp) :
    (runHist d (runHist d [] before).2 h).1 = (runHist d [] h).1 := by
  have hnil : Clean ([] : List Bytes) := by intro p hp; cases hp
  have hb := (history_digests_exact d hd before [] hnil).2
  rw [(history_digests_exact d hd h _ hb).1, (history_digests_exact d hd h [] hnil).1]

/-- The seeded discipline (no Reset on the error path) violates the property: session 1 fails after 2
of 3 bytes, then session 2 copies the one-byte chunk `[9]` successfully and records a digest over
`[1, 2, 9]`. -/
theorem dirty_put_breaks_digest :
    ∃ h : List ChunkOp, (runHist (.pooled false) [] h).1 ≠ h.map expected := by
  refine ⟨[{ sess := 1, data := [1, 2, 3], failAt := some 2 }, { sess := 2, data := [9], pick := 1 }], ?_⟩
  decide

/-- Non-vacuity: the same history under the discipline of /repo records the right bytes. -/
example : (runHist .fresh [] [{ sess := 1, data := [1, 2, 3], failAt := some 2 }, { sess := 2, data := [9], pick := 1 }]).1
    = [(1, none), (2, some [9])] := by decide

end SV.Props.C03x
