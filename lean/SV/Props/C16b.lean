/-
C16b — the FUSE node layer of store/fs.go (rootnode / refnode / layernode / blobnode / info / pool
nodes, `fs.newInodeWithID`, `idMap`) on top of the LayerManager of C16.

Model: `SV.StoreFs` (store/fs.go handlers + the go-fuse v2 inode bookkeeping that decides when they and
`OnForget` run).  All theorems are about the state after an ARBITRARY history `run T init h` of FUSE
requests (LOOKUP of any name in any directory node, FORGET of any count, CREATE, RMDIR — requests no
kernel can send are answered `badreq` and change nothing), each LOOKUP with its own registry oracle.

What the code does (and the theorems say): the use count of (ref, TOC digest) is NOT tied to the
life time of nodes — it is incremented by CREATE "use" in the layer directory and decremented by RMDIR
of the layer directory in the ref directory; LOOKUP and FORGET never touch it.
-/
import SV.Lemmas.StoreFs
import SV.Props.C16

namespace SV.Props.C16b
open SV.Store SV.StoreFs

/-! ## (1) Refinement: the LayerManager only ever sees LayerManager histories -/

theorem reachable_step (T : Truth) (x : Store.St) (op : Store.Op) (h : Store.Reachable T x) :
    Store.Reachable T (Store.step T x op).1 := by
  obtain ⟨ops, rfl⟩ := h
  exact ⟨ops ++ [op], by simp [Store.run, List.foldl_append]⟩

/-- After ANY history of FUSE requests the LayerManager is in a state that a history of its own
operations (lookup / info / use / release) produces — every C16 theorem (counts never negative, a
layer in use is never dropped, the last release resets, …) therefore holds behind the FUSE layer, in
whatever order the kernel looks up, forgets, creates and removes. -/
theorem layer_manager_refined (T : Truth) (h : List StoreFs.Op) :
    Store.Reachable T (StoreFs.run T StoreFs.init h).lm := by
  have := StoreFs.run_induct T (fun s => J s ∧ Store.Reachable T s.lm) h
    (fun s op hp => by
      obtain ⟨hJ, hl⟩ := step_spec T s op hp.1
      refine ⟨hJ, ?_⟩
      rcases hl with e | ⟨sop, e⟩
      · rw [e]; exact hp.2
      · rw [e]; exact reachable_step T _ sop hp.2)
    StoreFs.init ⟨J_init, ⟨[], rfl⟩⟩
  exact this.2

/-- Corollary (C16 `count_nonneg` behind FUSE): every stored use count is at least 1. -/
theorem counts_positive (T : Truth) (h : List StoreFs.Op) (r t : Nat) (c : Int)
    (hc : Store.cnt (StoreFs.run T StoreFs.init h).lm r t = some c) : 1 ≤ c := by
  obtain ⟨ops, e⟩ := layer_manager_refined T h
  rw [e] at hc
  exact (SV.Props.C16.count_nonneg T ops r t).1 c hc

/-! ## (1b) Which requests change a use count -/

/-- FORGET never touches the LayerManager: a layer is neither released nor kept because the kernel
forgets (or keeps) its nodes. -/
theorem forget_keeps_layer_manager (T : Truth) (s : StoreFs.St) (i k : Nat) :
    (StoreFs.step T s (.forget i k)).1.lm = s.lm := by
  simp only [StoreFs.step]
  split
  · split
    · exact (removeRef_le s i k false).lm
    · rfl
  · rfl

theorem newNode_lm (s : StoreFs.St) (p : Nat) (nm : Name) (k : Kind) : (newNode s p nm k).1.lm = s.lm := by
  unfold newNode; split <;> rfl

/-- LOOKUP — of any name, in any directory, successful or not, whatever the registry answers — leaves
every use count (and the refPool counts) as they are. -/
theorem lookup_keeps_counts (T : Truth) (h : List StoreFs.Op) (o : Oracle) (p : Nat) (nm : Name) :
    (StoreFs.step T (StoreFs.run T StoreFs.init h) (.lookup o p nm)).1.lm.refcounter =
      (StoreFs.run T StoreFs.init h).lm.refcounter ∧
    (StoreFs.step T (StoreFs.run T StoreFs.init h) (.lookup o p nm)).1.lm.pool =
      (StoreFs.run T StoreFs.init h).lm.pool := by
  have hI := reach_inv T _ (layer_manager_refined T h)
  generalize StoreFs.run T StoreFs.init h = s at *
  have hlk : ∀ r t, (Store.lookup T o s.lm r t).1.refcounter = s.lm.refcounter ∧
      (Store.lookup T o s.lm r t).1.pool = s.lm.pool := fun r t =>
    ⟨(lookup_inv_ext T o s.lm r t hI).2.rc, (lookup_inv_ext T o s.lm r t hI).2.pl⟩
  have hin : ∀ r t, (Store.info T o s.lm r t).1.refcounter = s.lm.refcounter ∧
      (Store.info T o s.lm r t).1.pool = s.lm.pool := fun r t =>
    ⟨(info_fields T o s.lm r t).2.1, (info_fields T o s.lm r t).2.2.2.2.2⟩
  simp only [StoreFs.step]
  split
  · exact ⟨rfl, rfl⟩
  · rw [(rootLookup_lm s nm)]; exact ⟨rfl, rfl⟩
  · split
    · rename_i r _; rw [refLookup_lm]; exact ⟨rfl, rfl⟩
    · rename_i r t _
      rcases layerLookup_lm T o s p r t nm with e | e | e
      · rw [e]; exact ⟨rfl, rfl⟩
      · rw [e]; exact hlk r t
      · rw [e]; exact hin r t
    · exact ⟨rfl, rfl⟩
    · exact ⟨rfl, rfl⟩

/-- CREATE "use" in a layer directory the kernel holds adds exactly one use of (ref, TOC digest) —
also when nothing was ever looked up below it — and touches no other count; the node tree, the inode
numbers and the reply (ENOENT) do not depend on it. -/
theorem create_use_counts_one (T : Truth) (s : StoreFs.St) (p : Nat) (n : Node) (r t : Nat)
    (hh : held s p = some (some n)) (hk : n.kind = .layer r t) (r' t' : Nat) :
    Store.cnt (StoreFs.step T s (.create p (.leaf .use))).1.lm r' t' =
      (if r' = r ∧ t' = t then some ((Store.cnt s.lm r t).getD 0 + 1) else Store.cnt s.lm r' t') ∧
    (StoreFs.step T s (.create p (.leaf .use))).1.nodes = s.nodes ∧
    (StoreFs.step T s (.create p (.leaf .use))).1.nodeMap = s.nodeMap ∧
    (StoreFs.step T s (.create p (.leaf .use))).2 = .enoent := by
  simp only [StoreFs.step, hh, hk, if_true]
  refine ⟨use_cnt s.lm r t r' t', ?_, ?_, ?_⟩ <;> first | rfl | trivial

/-! ## (5) Rmdir -/

/-- RMDIR of a name in a ref directory, as coded: a name that is no digest is EINVAL and changes
nothing; for a digest the LayerManager state is exactly the one `release` leaves, the answer is EIO
when `release` fails and ENOENT otherwise ("released"), and the tree is only touched when the count
reached 0. -/
theorem rmdir_semantics (s : StoreFs.St) (p r : Nat) (nm : Name) :
    (∀ t, nm = .toc t →
      (refRmdir s p r nm).1.lm = (Store.release s.lm r t).1 ∧
      (refRmdir s p r nm).2 = (match (Store.release s.lm r t).2 with
        | .count _ => .enoent
        | _ => .eio) ∧
      (∀ c, (Store.release s.lm r t).2 = .count c → c ≠ 0 →
        (refRmdir s p r nm).1.nodes = s.nodes ∧ (refRmdir s p r nm).1.nodeMap = s.nodeMap) ∧
      ((Store.release s.lm r t).2 = .err →
        (refRmdir s p r nm).1.nodes = s.nodes ∧ (refRmdir s p r nm).1.nodeMap = s.nodeMap)) ∧
    ((∀ t, nm ≠ .toc t) → refRmdir s p r nm = (s, .einval)) := by
  constructor
  · rintro t rfl
    unfold refRmdir
    dsimp only
    generalize Store.release s.lm r t = q
    obtain ⟨lm, res⟩ := q
    cases res <;> dsimp only
    case count c =>
      refine ⟨?_, rfl, ?_, (fun h => by cases h)⟩
      · split
        · exact (rmdirCleanup_le { s with lm := lm } p (.toc t)).lm
        · rfl
      · intro c' hc hne
        cases hc
        rw [if_neg hne]; exact ⟨rfl, rfl⟩
    all_goals exact ⟨rfl, rfl, (fun _ h => by cases h), (fun _ => ⟨rfl, rfl⟩)⟩
  · intro hn
    unfold refRmdir
    split
    · rename_i t; exact absurd rfl (hn t)
    · rfl

/-- The last RMDIR (count 1 → 0) through a ref directory the kernel holds — whatever the kernel still
holds or has forgotten below it: answered ENOENT, the count and the cached layer are gone, `Done()` was
called on that instance, and a later resolution of the same (ref, TOC digest) (registry answering)
succeeds with a NEW instance that is not `Done()` — C16 `last_release_resets` behind the FUSE layer. -/
theorem last_rmdir_resets (T : Truth) (hfun : T.Functional) (h : List StoreFs.Op) (p : Nat) (n : Node)
    (r t : Nat) (l : Layer)
    (hh : held (StoreFs.run T StoreFs.init h) p = some (some n)) (hk : n.kind = .ref r)
    (hc : Store.cnt (StoreFs.run T StoreFs.init h).lm r t = some 1)
    (hl : Store.lay (StoreFs.run T StoreFs.init h).lm r t = some l) :
    (StoreFs.step T (StoreFs.run T StoreFs.init h) (.rmdir p (.toc t))).2 = .enoent ∧
    Store.cnt (StoreFs.step T (StoreFs.run T StoreFs.init h) (.rmdir p (.toc t))).1.lm r t = none ∧
    Store.lay (StoreFs.step T (StoreFs.run T StoreFs.init h) (.rmdir p (.toc t))).1.lm r t = none ∧
    l.id ∈ (StoreFs.step T (StoreFs.run T StoreFs.init h) (.rmdir p (.toc t))).1.lm.done ∧
    ∀ o : Oracle, (r ∈ (StoreFs.run T StoreFs.init h).lm.disk ∨ o.manifest r = true) →
      o.layer r l.digest = true →
      ∃ l', (Store.lookup T o
          (StoreFs.step T (StoreFs.run T StoreFs.init h) (.rmdir p (.toc t))).1.lm r t).2 = .layer l' ∧
        l'.id ≠ l.id := by
  obtain ⟨ops, e⟩ := layer_manager_refined T h
  generalize StoreFs.run T StoreFs.init h = s at *
  have hstep : StoreFs.step T s (.rmdir p (.toc t)) = refRmdir s p r (.toc t) := by
    simp only [StoreFs.step, hh, hk]
  rw [hstep]
  obtain ⟨k1, k2, _, _⟩ := (rmdir_semantics s p r (.toc t)).1 t rfl
  rw [e] at hc hl
  obtain ⟨g1, g2, g3, g4, _, _, g7⟩ := SV.Props.C16.last_release_resets T hfun ops r t l hc hl
  rw [← e] at g1 g2 g3 g4 g7
  rw [k1, k2, g1]
  refine ⟨rfl, g2, g3, g4, ?_⟩
  intro o hm ho
  obtain ⟨l', h1, h2, _⟩ := g7 o hm ho
  exact ⟨l', h1, h2⟩

/-! ## (3) Inode numbers -/

/-- `idMap.get` hands out the SMALLEST number `≥ 1` that is not allocated (never 0, never an allocated
one, never above 2³²−1). -/
theorem idGet_fresh_minimal (m : IdMap) (i : Nat) (h : idGet m = some i) :
    i ∉ m ∧ 1 ≤ i ∧ i ≤ maxU32 ∧ ∀ j, 1 ≤ j → j < i → j ∈ m :=
  idGet_spec m i h

/-- `idMap.remove` makes the number reusable: it is no longer allocated, nothing else is freed, and the
next `get` returns a number that is not larger. -/
theorem idRemove_reusable (m : IdMap) (id : Nat) (h1 : 1 ≤ id) :
    id ∉ idRemove m id ∧ (∀ j, j ≠ id → (j ∈ idRemove m id ↔ j ∈ m)) ∧
    ∀ j, idGet (idRemove m id) = some j → j ≤ id := by
  refine ⟨fun h => ((idRemove_spec m id id).mp h).2 rfl, ?_, ?_⟩
  · intro j hj; rw [idRemove_spec]; exact ⟨fun h => h.1, fun h => ⟨h, hj⟩⟩
  · intro j hj
    obtain ⟨_, _, _, hmin⟩ := idGet_spec _ _ hj
    apply Classical.byContradiction
    intro hlt
    have := hmin id h1 (by omega)
    exact ((idRemove_spec m id id).mp this).2 rfl

/-- After ANY request history: the inode numbers of all nodes that exist (held by the kernel, linked in
the tree, or both) are pairwise distinct; every such number (other than those of `diff` directories,
which live above 2³²) is still allocated in `nodeMap` — so `newInodeWithID` can never hand out the number
of a live node, and `OnForget` never frees the number of a node that is still there; and go-fuse's
`addNewChild` never found a DIFFERENT inode under the StableAttr of the one a handler returned (no node
is silently replaced by another one). -/
theorem inode_numbers_unique_and_allocated (T : Truth) (h : List StoreFs.Op) :
    (StoreFs.run T StoreFs.init h).nodes.Pairwise (fun a b => a.ino ≠ b.ino) ∧
    (∀ n, n ∈ (StoreFs.run T StoreFs.init h).nodes → n.kind.isDiff = false →
      n.ino ∈ (StoreFs.run T StoreFs.init h).nodeMap ∧ 1 ≤ n.ino ∧ n.ino ≤ maxU32) ∧
    (∀ n, n ∈ (StoreFs.run T StoreFs.init h).nodes → n.kind.isDiff = true → maxU32 < n.ino) ∧
    (StoreFs.run T StoreFs.init h).clash = false := by
  have hJ := StoreFs.run_induct T J h (fun s op hp => (step_spec T s op hp).1) StoreFs.init J_init
  refine ⟨hJ.uniq, ?_, ?_, hJ.noclash⟩
  · intro n hn hk
    have := hJ.alloc n hn hk
    exact ⟨this, hJ.npos _ this, hJ.small _ this⟩
  · intro n hn hk
    obtain ⟨b, e, hb⟩ := hJ.diffI n hn hk
    rw [e]; exact diffIno_big b (hJ.lpos b hb)

/-- A node that newInodeWithID creates gets a number no existing node has (one-step form, for every
state that satisfies the invariant). -/
theorem new_node_number_is_fresh (s : StoreFs.St) (hJ : J s) (id : Nat) (hg : idGet s.nodeMap = some id)
    (n : Node) (hn : n ∈ s.nodes) : n.ino ≠ id := by
  obtain ⟨hnm, _, hle, _⟩ := idGet_spec _ _ hg
  intro e
  cases hd : n.kind.isDiff with
  | false => exact hnm (e ▸ hJ.alloc n hn hd)
  | true =>
    obtain ⟨b, hb, hbm⟩ := hJ.diffI n hn hd
    have := diffIno_big b (hJ.lpos b hbm)
    omega

/-! ## (4) A failing LOOKUP -/

/-- A LOOKUP that does not answer with an entry (EINVAL: not a reference / not a digest; EIO: unknown
image, unknown digest, registry error, failed verification, no id; ENOENT: "use" and unknown file names;
a request no kernel sends) creates no node, links nothing, allocates no inode number and — after any
history — changes no use count. -/
theorem failed_lookup_creates_nothing (T : Truth) (h : List StoreFs.Op) (o : Oracle) (p : Nat) (nm : Name)
    (hf : ∀ i ino, (StoreFs.step T (StoreFs.run T StoreFs.init h) (.lookup o p nm)).2 ≠ .entry i ino) :
    (StoreFs.step T (StoreFs.run T StoreFs.init h) (.lookup o p nm)).1.nodes =
      (StoreFs.run T StoreFs.init h).nodes ∧
    (StoreFs.step T (StoreFs.run T StoreFs.init h) (.lookup o p nm)).1.nodeMap =
      (StoreFs.run T StoreFs.init h).nodeMap ∧
    (StoreFs.step T (StoreFs.run T StoreFs.init h) (.lookup o p nm)).1.lm.refcounter =
      (StoreFs.run T StoreFs.init h).lm.refcounter := by
  refine ⟨?_, ?_, (lookup_keeps_counts T h o p nm).1⟩
  · exact (failed_lookup_tree T _ o p nm hf).1
  · exact (failed_lookup_tree T _ o p nm hf).2

/-! ## Non-vacuity: concrete histories -/

def T0 : Truth := ⟨fun r => if r = 0 then some [(10, 20), (11, 21)] else none⟩
def hy : Oracle := Oracle.healthy

/-- lookup ref 0 / digest 20 / blob, use it, forget the blob node, release: the hypotheses of
`last_rmdir_resets` are met before the RMDIR (ref directory = node 2 is held, count 1, layer cached). -/
def h0 : List StoreFs.Op :=
  [.lookup hy 1 (.ref 0), .lookup hy 2 (.toc 20), .lookup hy 3 (.leaf .blob), .create 3 (.leaf .use),
   .forget 4 1]

example : (StoreFs.run T0 StoreFs.init h0).nodeMap = [3, 2, 1] := by decide
example : Store.cnt (StoreFs.run T0 StoreFs.init h0).lm 0 20 = some 1 := by decide
example : (Store.lay (StoreFs.run T0 StoreFs.init h0).lm 0 20).isSome = true := by decide
example : (StoreFs.step T0 (StoreFs.run T0 StoreFs.init h0) (.rmdir 2 (.toc 20))).2 = .enoent := by decide
/-- the released layer directory (held by the kernel: node 3) left the tree, the forgotten blob node
freed its number, the ref directory (held) and the layer directory keep theirs -/
example : (StoreFs.step T0 (StoreFs.run T0 StoreFs.init h0) (.rmdir 2 (.toc 20))).1.nodeMap = [2, 1] := by
  decide
/-- a failing lookup: digest 99 is in no image -/
example : (StoreFs.step T0 (StoreFs.run T0 StoreFs.init [.lookup hy 1 (.ref 0), .lookup hy 2 (.toc 99)])
    (.lookup hy 3 (.leaf .diff))).2 = .eio := by decide
example : idGet [1, 2, 4] = some 3 := by decide
example : idGet (idRemove [1, 2, 3] 2) = some 2 := by decide

/-! ## (2) No leak after the kernel forgot everything — NOT true of the code as it is -/

/-- The statement one would like: once no layer is used and the kernel holds no node, every node that
still exists is linked in a directory (and so, by `inode_numbers_unique_and_allocated`, every allocated
number belongs to a reachable node).  Kept as the full statement; it does not hold, see below. -/
def NoLeak (T : Truth) : Prop :=
  ∀ h : List StoreFs.Op,
    ((StoreFs.run T StoreFs.init h).nodes.all fun n => n.lookups == 0) = true →
    (StoreFs.run T StoreFs.init h).lm.refcounter = [] →
    ∀ n, n ∈ (StoreFs.run T StoreFs.init h).nodes → n.parent ≠ none

/-- the kernel still holds the layer directory (node 3) when its last use is released; a LOOKUP in
that — now unlinked — directory makes a new PERSISTENT child (info, node 5); then the kernel forgets
everything. -/
def hleak : List StoreFs.Op :=
  [.lookup hy 1 (.ref 0), .lookup hy 2 (.toc 20), .lookup hy 3 (.leaf .blob), .create 3 (.leaf .use),
   .rmdir 2 (.toc 20), .lookup hy 3 (.leaf .info), .forget 5 1, .forget 4 1, .forget 3 1, .forget 2 1]

/-- Candidate finding, as a proved fact about the model (the implementation behaves the same, op by
op): nothing is used, the kernel holds nothing, yet the unlinked layer directory and its persistent
child stay for ever — `RmAllChildren` ran before the child was made and nobody runs it again — and
their inode numbers 2 and 4 stay allocated in `nodeMap`. -/
theorem lookup_in_released_layer_dir_leaks :
    ((StoreFs.run T0 StoreFs.init hleak).nodes.all fun n => n.lookups == 0) = true ∧
    (StoreFs.run T0 StoreFs.init hleak).lm.refcounter = [] ∧
    (StoreFs.run T0 StoreFs.init hleak).nodeMap = [4, 2] ∧
    ((StoreFs.run T0 StoreFs.init hleak).nodes.map fun n => (n.id, n.ino, n.persistent, n.parent)) =
      [(3, 2, false, none), (5, 4, true, some 3)] := by decide

theorem noLeak_fails : ¬ NoLeak T0 := by
  intro h
  have := h hleak (by decide) (by decide) ⟨3, .layer 0 20, 2, 0, false, none, .toc 20⟩ (by decide)
  exact this rfl

end SV.Props.C16b
