/-
C12b — the HOLDER side of C12: `fs/fs.go` `filesystem.Mount` / `Check` / `Unmount` and the bookkeeping
of `fs.layer[mountpoint]` (model: SV/Model/FsMount.lean, which embeds the resolver model of C12).

`mount` is `filesystem.Mount` as it is since fix 62b0917 (the deferred failure branch deletes the
entry this Mount registered, then `Done()`); all theorems are about it.  `mountOld` is the code before
the fix (the entry registered before a failing FUSE step stays): it only appears in the counterexample
`failed_fuse_mount_leaves_stale_entry` / `failed_fuse_mount_witness`.

Only property theorems and their non-vacuity examples live here.

Vocabulary.  `FsMount.run ops` is the state after the history `ops` (Mount with ANY input/oracles, Check,
Unmount, the early-error paths, timer expiry of either cache) from `NewFilesystem`.  A holder is a closure
`tok` of the resolver's layer cache; `isLive T tok`: it has not been called; `liveToks T`: number of
un-called closures = outstanding references to layers; `liveEntries s`: entries of `fs.layer` whose
closure is un-called.  The helper lemmas (what each step does to the closures, the invariant `MInv` of
reachable states) are in SV/Lemmas/FsMount.lean.
-/
import SV.Lemmas.FsMount
import SV.Props.C12

namespace SV.Props.C12b
open SV.FsMount SV.LayerLife SV.Refcount

/-! ## the resolver part is a C12 state -/

/-- The resolver part of every reachable holder-side state is a state reached by a `LayerLife`
history: all C12 theorems apply to it. -/
theorem ll_refines (ops : List FsMount.Op) :
    ∃ lops : List LayerLife.Op, (FsMount.run ops).ll = LayerLife.run lops := by
  obtain ⟨l, e⟩ := reaches_runFrom ops (s := {}) MInv.init
  exact ⟨l, e⟩

/-! ## (1) what an entry of `fs.layer` holds -/

/-- Every entry of `fs.layer` holds an unreleased reference, after ANY history (since fix 62b0917
also after failing FUSE mounts). -/
theorem entries_live (ops : List FsMount.Op) (mp tok : Nat)
    (hm : lookup mp (FsMount.run ops).layer = some tok) :
    isLive (FsMount.run ops).ll.lc.core.toks tok = true :=
  allLive_run ops (mp, tok) (lookup_mem hm)

/-- (1c) the former, weaker form (name kept). -/
theorem entries_live_of_fuseOk (ops : List FsMount.Op) (_h : fuseOk ops = true) (mp tok : Nat)
    (hm : lookup mp (FsMount.run ops).layer = some tok) :
    isLive (FsMount.run ops).ll.lc.core.toks tok = true :=
  entries_live ops mp tok hm

theorem all_entries_live_count (ops : List FsMount.Op) :
    liveEntries (FsMount.run ops) = (FsMount.run ops).layer.length :=
  List.countP_eq_length.2 (allLive_run ops)

/-- (1a) Every entry of `fs.layer` has an open layer (not closed, reader open, blob reference not
given back); its `Check()` passes whenever the connectivity probe does, and `fs.Check` on the
mountpoint succeeds iff the probe or the refresh succeeds. -/
theorem entry_layer_open (ops : List FsMount.Op) (mp tok : Nat)
    (hm : lookup mp (FsMount.run ops).layer = some tok) :
    ∃ lid l, layerOfTok (FsMount.run ops).ll tok = some lid ∧ (FsMount.run ops).ll.layers[lid]? = some l ∧
      l.closed = false ∧ l.readerClosed = false ∧ l.blobDone = 0 ∧
      (∀ probe, holderCheck (FsMount.run ops).ll tok probe = probe) ∧
      (∀ probe reg, check (FsMount.run ops) mp probe reg = if probe || reg then .ok else .errCheck) := by
  have hl := entries_live ops mp tok hm
  obtain ⟨lops, e⟩ := ll_refines ops
  have inv : Inv (FsMount.run ops).ll none := by rw [e]; exact Inv.run lops
  obtain ⟨tk, ht, hn⟩ := isLive_some hl
  rw [e] at ht
  obtain ⟨lid, l, bid, b, h1, h2, h3, h4, _, _, h7, _, _, _, _, _, _, h14⟩ :=
    SV.Props.C12.held_layer_open lops tok tk ht hn
  rw [← e] at h1 h2 h14
  have hc : ∀ probe, holderCheck (FsMount.run ops).ll tok probe = probe := by
    intro probe
    simp only [holderCheck, h1]
    exact layerCheck_open inv h2 h3 probe
  refine ⟨lid, l, h1, h2, h3, h4, h7, hc, ?_⟩
  intro probe reg
  simp only [check, hm, hc, h14]
  cases probe <;> cases reg <;> rfl

/-- (1a) in its former form, with the (now redundant) hypothesis that the reference is unreleased. -/
theorem live_entry_layer_open (ops : List FsMount.Op) (mp tok : Nat)
    (hm : lookup mp (FsMount.run ops).layer = some tok)
    (_hl : isLive (FsMount.run ops).ll.lc.core.toks tok = true) :
    ∃ lid l, layerOfTok (FsMount.run ops).ll tok = some lid ∧ (FsMount.run ops).ll.layers[lid]? = some l ∧
      l.closed = false ∧ l.readerClosed = false ∧ l.blobDone = 0 ∧
      (∀ probe, holderCheck (FsMount.run ops).ll tok probe = probe) ∧
      (∀ probe reg, check (FsMount.run ops) mp probe reg = if probe || reg then .ok else .errCheck) :=
  entry_layer_open ops mp tok hm

/-- (1b) Exactly one reference per entry: the entries' holders are pairwise different, and so are the
mountpoints. -/
theorem entries_distinct (ops : List FsMount.Op) :
    ((FsMount.run ops).layer.map (·.2)).Nodup ∧ ((FsMount.run ops).layer.map (·.1)).Nodup :=
  ⟨(MInv.run ops).toks, (MInv.run ops).keys⟩

/-! ## (2) Mount -/

/-- (2) A failed Mount releases exactly what it acquired: the number of outstanding references is
unchanged, no holder's state changes (closures created by the call are all released), the kernel
mount table is unchanged; `fs.layer` is unchanged, except that a failing FUSE step leaves the
mountpoint without entry. -/
theorem failed_mount_restores (ops : List FsMount.Op) (mp : Nat) (i : MountIn)
    (hf : (mount (FsMount.run ops) mp i).2 ≠ .ok) :
    let s := FsMount.run ops
    let s' := (mount s mp i).1
    liveToks s'.ll.lc.core.toks = liveToks s.ll.lc.core.toks ∧
    (∀ tok, isLive s'.ll.lc.core.toks tok = isLive s.ll.lc.core.toks tok) ∧
    s'.kmounts = s.kmounts ∧
    s'.layer = (if (mount s mp i).2 = .errFuse then erase mp s.layer else s.layer) := by
  intro s s'
  have hf' : (mount s mp i).2 ≠ .ok := hf
  obtain ⟨Y, hT, _, hc⟩ := mount_spec s mp i (MInv.run ops)
  have hT' : s'.ll.lc.core.toks = s.ll.lc.core.toks ++ Y := hT
  rcases hc with ⟨h, _⟩ | ⟨h, _, hY, hL, hK⟩ | ⟨h, hY, hL, hK⟩
  · exact absurd h hf'
  · refine ⟨by rw [hT', liveToks_append, hY]; rfl,
      fun tok => by rw [hT']; exact isLive_append_dead _ _ hY tok, hK, ?_⟩
    rw [if_pos h]; exact hL
  · refine ⟨by rw [hT', liveToks_append, hY]; rfl,
      fun tok => by rw [hT']; exact isLive_append_dead _ _ hY tok, hK, ?_⟩
    have hne : (mount s mp i).2 ≠ .errFuse := by
      rcases h with h | h <;> (rw [h]; intro hh; cases hh)
    rw [if_neg hne]; exact hL

/-- A failed Mount on a mountpoint that was not registered leaves `fs.layer` exactly as it was. -/
theorem failed_mount_leaves_map (ops : List FsMount.Op) (mp : Nat) (i : MountIn)
    (hfree : lookup mp (FsMount.run ops).layer = none)
    (hf : (mount (FsMount.run ops) mp i).2 ≠ .ok) :
    (mount (FsMount.run ops) mp i).1.layer = (FsMount.run ops).layer := by
  have h : (mount (FsMount.run ops) mp i).1.layer =
      (if (mount (FsMount.run ops) mp i).2 = .errFuse then erase mp (FsMount.run ops).layer
       else (FsMount.run ops).layer) := (failed_mount_restores ops mp i hf).2.2.2
  rw [h, erase_of_lookup_none hfree]
  exact ite_self _

/-- "A failed Mount leaves `fs.layer` as it was", without the premise that the mountpoint is free —
still FALSE in one corner: -/
def FailedMountLeavesMapFull : Prop :=
  ∀ ops mp i, (mount (FsMount.run ops) mp i).2 ≠ .ok →
    (mount (FsMount.run ops) mp i).1.layer = (FsMount.run ops).layer

/-- … a failing FUSE step on a mountpoint registered by an EARLIER Mount: the earlier entry was
overwritten (fs.go 336-338) and the deferred branch then deletes the entry; the earlier Mount's
reference stays outstanding with no entry (the leak of `double_mount_leaks`). -/
theorem failed_remount_drops_earlier_entry : ¬ FailedMountLeavesMapFull := by
  intro h
  have := h [.mount 1 { name := 0, o := ⟨true, true, true, true⟩ }] 1
    { name := 0, o := ⟨true, true, true, true⟩, fuse := false } (by decide)
  revert this
  decide

theorem failed_remount_witness :
    let ops : List FsMount.Op := [.mount 1 { name := 0, o := ⟨true, true, true, true⟩ }]
    let m := mount (FsMount.run ops) 1 { name := 0, o := ⟨true, true, true, true⟩, fuse := false }
    (FsMount.run ops).layer = [(1, 0)] ∧ m.2 = .errFuse ∧ m.1.layer = [] ∧
    liveToks m.1.ll.lc.core.toks = 1 ∧ isLive m.1.ll.lc.core.toks 0 = true ∧ m.1.kmounts = [1] := by
  decide

/-- The same statement for the code BEFORE fix 62b0917 (`mountOld`), even restricted to a free
mountpoint — FALSE: -/
def FailedMountLeavesMapOld : Prop :=
  ∀ ops mp i, lookup mp (FsMount.run ops).layer = none → (mountOld (FsMount.run ops) mp i).2 ≠ .ok →
    (mountOld (FsMount.run ops) mp i).1.layer = (FsMount.run ops).layer

/-- … when the FUSE mount failed, the entry written before it stayed in `fs.layer` although its
reference had been released by the deferred `Done()` (the defect fixed by 62b0917). -/
theorem failed_fuse_mount_leaves_stale_entry : ¬ FailedMountLeavesMapOld := by
  intro h
  have := h [] 1 { name := 0, o := ⟨true, true, true, true⟩, fuse := false } (by decide) (by decide)
  revert this
  decide

/-- The witness spelled out (old code): result `errFuse`, the stale entry `(1, 0)`, whose closure is called. -/
theorem failed_fuse_mount_witness :
    let m := mountOld (FsMount.run []) 1 { name := 0, o := ⟨true, true, true, true⟩, fuse := false }
    m.2 = .errFuse ∧ m.1.layer = [(1, 0)] ∧ isLive m.1.ll.lc.core.toks 0 = false ∧
    liveToks m.1.ll.lc.core.toks = 0 ∧ m.1.kmounts = [] := by
  decide

/-- The same input with the code as it is now: no entry is left. -/
theorem failed_fuse_mount_fixed :
    let m := mount (FsMount.run []) 1 { name := 0, o := ⟨true, true, true, true⟩, fuse := false }
    m.2 = .errFuse ∧ m.1.layer = [] ∧ liveToks m.1.ll.lc.core.toks = 0 ∧ m.1.kmounts = [] := by
  decide

/-- A successful Mount adds exactly one reference, owned by the new entry; other mountpoints keep
their entries. -/
theorem mount_ok_acquires_one (ops : List FsMount.Op) (mp : Nat) (i : MountIn)
    (h : (mount (FsMount.run ops) mp i).2 = .ok) :
    let s := FsMount.run ops
    let s' := (mount s mp i).1
    liveToks s'.ll.lc.core.toks = liveToks s.ll.lc.core.toks + 1 ∧
    ∃ tok, lookup mp s'.layer = some tok ∧ s.ll.lc.core.toks.length ≤ tok ∧
      isLive s'.ll.lc.core.toks tok = true ∧
      (∀ mp', mp' ≠ mp → lookup mp' s'.layer = lookup mp' s.layer) := by
  intro s s'
  have h0 : (mount s mp i).2 = .ok := h
  obtain ⟨Y, hT, _, hc⟩ := mount_spec s mp i (MInv.run ops)
  have hT' : s'.ll.lc.core.toks = s.ll.lc.core.toks ++ Y := hT
  rcases hc with ⟨_, _, hY, tok, hge, hlive, hL, _⟩ | ⟨h', _⟩ | ⟨h', _⟩
  · have hL' : s'.layer = insert mp tok s.layer := hL
    refine ⟨by rw [hT', liveToks_append, hY], tok, ?_, hge, hlive, ?_⟩
    · rw [hL']; exact lookup_insert_self _ _ _
    · intro mp' hne; rw [hL']; exact lookup_insert_ne hne _ _
  · rw [h0] at h'; cases h'
  · rcases h' with h' | h' <;> (rw [h0] at h'; cases h')

/-- `RootNode` never fails inside Mount: the layer is held, hence open (C12), and the verify /
skip-verify step that succeeded installed a reader. -/
theorem mount_never_rootnode_error (ops : List FsMount.Op) (mp : Nat) (i : MountIn) :
    (mount (FsMount.run ops) mp i).2 ≠ .errRootNode := by
  obtain ⟨Y, _, _, hc⟩ := mount_spec (FsMount.run ops) mp i (MInv.run ops)
  intro h
  rcases hc with ⟨h', _⟩ | ⟨h', _⟩ | ⟨h' | h', _⟩ <;> (rw [h] at h'; cases h')

/-! ## (3) Unmount -/

/-- (3) Unmount of a registered mountpoint removes that entry and releases that entry's reference —
no other entry, no other holder; the result is ok or the unmount syscall's error (returned AFTER the
release). -/
theorem unmount_releases_own (ops : List FsMount.Op) (mp tok : Nat)
    (hm : lookup mp (FsMount.run ops).layer = some tok) :
    let s := FsMount.run ops
    let s' := (unmount s mp).1
    lookup mp s'.layer = none ∧ (∀ mp', mp' ≠ mp → lookup mp' s'.layer = lookup mp' s.layer) ∧
    isLive s'.ll.lc.core.toks tok = false ∧
    (∀ t, t ≠ tok → isLive s'.ll.lc.core.toks t = isLive s.ll.lc.core.toks t) ∧
    liveToks s'.ll.lc.core.toks + (if isLive s.ll.lc.core.toks tok then 1 else 0) =
      liveToks s.ll.lc.core.toks ∧
    ((unmount s mp).2 = .ok ∨ (unmount s mp).2 = .errUmount) :=
  unmount_releases (FsMount.run ops) mp tok hm

/-! ## (5) Check and the early-error paths change nothing -/

theorem check_changes_nothing (s : FsMount.State) (mp : Nat) (p r : Bool) :
    (FsMount.step s (.check mp p r)).1 = s := rfl

theorem mountNoSrc_changes_nothing (s : FsMount.State) (mp : Nat) :
    (FsMount.step s (.mountNoSrc mp)).1 = s ∧ (FsMount.step s (.mountNoSrc mp)).2 = .errSrc := ⟨rfl, rfl⟩

theorem unmountEmpty_changes_nothing (s : FsMount.State) :
    (FsMount.step s .unmountEmpty).1 = s ∧ (FsMount.step s .unmountEmpty).2 = .errEmpty := ⟨rfl, rfl⟩


theorem unknown_mountpoint_is_error (s : FsMount.State) (mp : Nat) (hm : lookup mp s.layer = none) :
    (unmount s mp).2 = .errNotMounted ∧ (unmount s mp).1.layer = s.layer ∧
    (unmount s mp).1.ll.lc.core.toks = s.ll.lc.core.toks ∧
    (unmount s mp).1.ll.layers = s.ll.layers ∧ (unmount s mp).1.ll.fsDirs = s.ll.fsDirs ∧
    (unmount s mp).1.kmounts = s.kmounts ∧ ∀ p r, check s mp p r = .errNotRegistered := by
  simp [unmount, check, hm]

/-! ## (4) global accounting -/

/-- (4) Without a Mount on a mountpoint that is already registered, the outstanding references to
layers are exactly the unreleased entries of `fs.layer`. -/
theorem accounting (ops : List FsMount.Op) (h : noRemount {} ops = true) :
    liveToks (FsMount.run ops).ll.lc.core.toks = liveEntries (FsMount.run ops) :=
  acct_runFrom ops MInv.init h rfl

/-- … which are ALL entries (see `entries_live`). -/
theorem accounting_entries (ops : List FsMount.Op) (h : noRemount {} ops = true) :
    liveToks (FsMount.run ops).ll.lc.core.toks = (FsMount.run ops).layer.length := by
  rw [accounting ops h, all_entries_live_count]

/-- the former, weaker form (name kept). -/
theorem accounting_fuseOk (ops : List FsMount.Op) (h : noRemount {} ops = true) (_h2 : fuseOk ops = true) :
    liveToks (FsMount.run ops).ll.lc.core.toks = (FsMount.run ops).layer.length :=
  accounting_entries ops h

/-- Hypothesis-free: no reference is released twice / no entry counts a reference that does not
exist — the unreleased entries never exceed the outstanding references. -/
theorem no_double_release (ops : List FsMount.Op) :
    liveEntries (FsMount.run ops) ≤ liveToks (FsMount.run ops).ll.lc.core.toks :=
  gap_runFrom ops MInv.init (Nat.le_refl 0)

/-- The accounting equation without the `noRemount` premise — FALSE: -/
def AccountingFull : Prop :=
  ∀ ops, liveToks (FsMount.run ops).ll.lc.core.toks = liveEntries (FsMount.run ops)

/-- … a second Mount on a registered mountpoint overwrites the entry without releasing the reference
it held (fs.go 336-338): two outstanding references, one entry. -/
theorem double_mount_leaks : ¬ AccountingFull := by
  intro h
  have := h [.mount 1 { name := 0, o := ⟨true, true, true, true⟩ },
             .mount 1 { name := 0, o := ⟨true, true, true, true⟩ }]
  revert this
  decide

/-- The witness spelled out; after `Unmount` one reference is still outstanding and the map is empty. -/
theorem double_mount_witness :
    let ops : List FsMount.Op := [.mount 1 { name := 0, o := ⟨true, true, true, true⟩ },
                                  .mount 1 { name := 0, o := ⟨true, true, true, true⟩ }]
    liveToks (FsMount.run ops).ll.lc.core.toks = 2 ∧ (FsMount.run ops).layer = [(1, 1)] ∧
    liveToks (FsMount.run (ops ++ [.unmount 1])).ll.lc.core.toks = 1 ∧
    (FsMount.run (ops ++ [.unmount 1])).layer = [] := by
  decide

/-! ## non-vacuity -/

/-- A history satisfying `noRemount` and `fuseOk`: two mounts of one layer (with a neighbouring layer
pre-resolved) on two mountpoints — two entries, two references, one shared layer object. -/
example :
    let i : MountIn := { name := 0, o := ⟨true, true, true, true⟩, neigh := [(1, ⟨true, true, true, true⟩)] }
    let ops : List FsMount.Op := [.mount 1 i, .mount 2 i]
    noRemount {} ops = true ∧ fuseOk ops = true ∧ (FsMount.run ops).layer.length = 2 ∧
    liveToks (FsMount.run ops).ll.lc.core.toks = 2 ∧
    (FsMount.run ops).layer.map (fun p => layerOfTok (FsMount.run ops).ll p.2) = [some 0, some 0] ∧
    (FsMount.run ops).kmounts = [2, 1] := by
  decide

/-- Failing steps exist: verify, resolve, FUSE; and Unmount of a registered mountpoint succeeds. -/
example : (mount {} 1 { name := 0, o := ⟨true, true, true, true⟩, toc := .wrong }).2 = .errVerify := by decide
example : (mount {} 1 { name := 0, o := ⟨true, true, false, true⟩ }).2 = .errResolve := by decide
example : (mount {} 1 { name := 0, o := ⟨true, true, true, true⟩, fuse := false }).2 = .errFuse ∧
    (mount {} 1 { name := 0, o := ⟨true, true, true, true⟩, fuse := false }).1.layer = [] := by decide
example : (mount {} 1 { name := 0, o := ⟨true, true, true, true⟩ }).2 = .ok := by decide
example :
    (unmount (FsMount.run [.mount 1 { name := 0, o := ⟨true, true, true, true⟩ }]) 1).2 = .ok ∧
    lookup 1 (FsMount.run [.mount 1 { name := 0, o := ⟨true, true, true, true⟩ }]).layer = some 0 := by decide
/-- A failing Mount (verify) and a failing FUSE step in the middle of a history satisfying `noRemount`. -/
example :
    let ops : List FsMount.Op := [.mount 1 { name := 0, o := ⟨true, true, true, true⟩ },
      .mount 2 { name := 0, o := ⟨true, true, true, true⟩, toc := .wrong },
      .mount 3 { name := 0, o := ⟨true, true, true, true⟩, fuse := false }, .unmount 1]
    noRemount {} ops = true ∧ fuseOk ops = false ∧ (FsMount.run ops).layer = [] ∧
    liveToks (FsMount.run ops).ll.lc.core.toks = 0 := by
  decide

end SV.Props.C12b
