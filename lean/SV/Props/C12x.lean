import SV.Lemmas.CacheDir

/-!
# C12x — a released cache handle stays gone under writers that are still in flight (seeded change C12-E)

C12: "Once every holder has released a layer … both cache directories are gone".  The layer model
(`SV.Model.LayerLife`) keeps one flag per cache handle that `Close` clears; it has no writers, so nothing could
set it again.  `SV.Model.CacheDir` adds them: any number of writers, each anywhere inside
`Add … closed-check … MkdirAll … Rename`, interleaved action by action with `Close` and with each other.
-/

namespace SV.Props.C12x
open SV.Model.CacheDir

/-- For EVERY history `pre` of the handle before the release and EVERY continuation `ops` of the writers that
are still in flight afterwards (late commits in any interleaving, aborts, new `Add`s, further `Close`s): if at the
release no writer stood between its closed-check and its `MkdirAll`, the directory never comes back, no wip file
and no chunk file exists, and the handle stays closed. -/
theorem released_dir_stays_gone (pre ops : List Op)
    (hopen : (run true pre).closed = false) (hwin : NoWindow (run true pre)) :
    (run true (pre ++ Op.close :: ops)).closed = true ∧ (run true (pre ++ Op.close :: ops)).dir = false ∧
    (run true (pre ++ Op.close :: ops)).files = 0 ∧ ∀ b ∈ (run true (pre ++ Op.close :: ops)).wip, b = false := by
  rw [run_append]
  have g := gone_run (close_gone hopen hwin) ops
  exact ⟨g.closed, g.dir, g.files, g.wip⟩

/-- A released handle accepts nothing: `Add` fails, a late `Commit` stops at its closed-check, `MkdirAll` is never
reached, a `Rename` that was already past the check fails (its wip file is gone). -/
theorem released_accepts_nothing (s : State) (g : Gone s) (w : Nat) :
    (step true s .add).2 = .err ∧ (step true s (.check w)).2 ≠ .ok ∧
    (step true s (.mkdir w)).2 = .disabled ∧ (step true s (.rename w)).2 ≠ .ok := by
  refine ⟨by simp [step, g.closed], ?_, ?_, ?_⟩
  · simp only [step]; split
    · rw [if_pos g.closed]; simp
    · simp
  · have := gone_no_mkdir g w
    simp [step, this]
  · simp only [step]; split
    · have : (s.wip[w]? = some true && s.dir) = false := by simp [g.dir]
      simp only [this]; simp
    · simp

/-- non-vacuity: a history with three writers in flight (one not yet committing, one already past its
`MkdirAll`, one aborted) meets the hypotheses -/
example : (run true [.add, .add, .add, .check 1, .mkdir 1, .abort 2]).closed = false ∧
    NoWindow (run true [.add, .add, .add, .check 1, .mkdir 1, .abort 2]) := by
  refine ⟨by decide, ?_⟩
  intro p hp
  have : p = .opened ∨ p = .made ∨ p = .done := by
    simpa [run, runFrom, step, atCheck, atMkdir] using hp
  rcases this with h | h | h <;> simp [h]

/-- …and the late commit of the first writer then fails without touching the file system -/
example : (run true [.add, .add, .add, .check 1, .mkdir 1, .abort 2, .close, .check 0, .mkdir 0, .rename 0, .rename 1]).dir = false := by
  decide

/-- the window hypothesis is needed (residual window of the repository order: check, `Close`, `MkdirAll`) -/
example : (run true [.add, .check 0, .close, .mkdir 0]).dir = true := by decide

/-- the order matters: with the closed-check AFTER `MkdirAll` (shape of C12-E) every late commit brings the
directory back although no writer was inside any window at the release -/
example : (run false [.add]).closed = false ∧ (run false [.add, .close, .mkdir 0, .check 0]).dir = true ∧
    (run false [.add, .close, .mkdir 0, .check 0]).closed = true := by decide

end SV.Props.C12x
