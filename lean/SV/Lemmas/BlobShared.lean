/-
Helper lemmas for C06 part C: the shared single-flight path and the split `Cache`
(`SV/Model/BlobShared.lean`).  Core-only.
-/
import SV.Model.BlobShared
import SV.Lemmas.Blob

namespace SV.Blob
open SV.Region

/-! ### more about `bytesWriter` -/

theorem BW.ext' {w1 w2 : BW} (h1 : w1.dest = w2.dest) (h2 : w1.destOff = w2.destOff)
    (h3 : w1.current = w2.current) : w1 = w2 := by
  cases w1; cases w2; simp_all

/-- Any split of the stream into `Write` calls is the same as one `Write` of the whole stream. -/
theorem BW.fold_eq_write (ps : List Bytes) (w : BW) : ps.foldl BW.write w = w.write ps.flatten := by
  obtain ⟨f1, f2, f3, f4⟩ := BW.fold_spec ps w
  obtain ⟨g1, g2, g3⟩ := BW.write_fields w ps.flatten
  apply BW.ext'
  · apply List.ext_getElem?
    intro j
    rw [f4 j, BW.write_getElem? w ps.flatten j]
  · rw [f1, g1]
  · rw [f2, g2]

/-- A fresh writer that receives a stream reaching past its window holds exactly the window. -/
theorem BW.write_full (w : BW) (d : Bytes) (h0 : w.current = 0)
    (h : w.destOff + w.dest.length ≤ d.length) :
    (w.write d).dest = slice d w.destOff w.dest.length := by
  apply List.ext_getElem?
  intro j
  rw [BW.write_getElem? w d j, h0]
  unfold slice
  rw [List.getElem?_take, List.getElem?_drop]
  by_cases hj : j < w.dest.length
  · rw [if_pos ⟨by omega, by omega, hj⟩, if_pos hj]; congr 1
  · rw [if_neg (by omega), if_neg hj, List.getElem?_eq_none (by omega)]

/-- A writer whose stream position is past its window ignores further writes. -/
theorem BW.write_complete (w : BW) (p : Bytes) (h : w.destOff + w.dest.length ≤ w.current) :
    (w.write p).dest = w.dest := by
  apply List.ext_getElem?
  intro j
  rw [BW.write_getElem? w p j, if_neg (by omega)]

/-! ### writers -/

theorem Writers.get_mem {ws : Writers} {c : Chunk} {w : BW} (h : ws.get c = some w) :
    (c, w) ∈ ws := by
  unfold Writers.get at h
  rw [Option.map_eq_some_iff] at h
  obtain ⟨kv, hkv, rfl⟩ := h
  have hp := List.find?_some hkv
  simp only [decide_eq_true_eq] at hp
  have hm := List.mem_of_find?_eq_some hkv
  rw [← hp]; exact hm

theorem Writers.get_ne_none {ws : Writers} {c : Chunk} (h : c ∈ ws.map (·.1)) :
    ws.get c ≠ none := by
  obtain ⟨kv, hkv, rfl⟩ := List.mem_map.mp h
  unfold Writers.get
  intro hn
  rw [Option.map_eq_none_iff, List.find?_eq_none] at hn
  exact hn kv hkv (by simp)

theorem Writers.mem_set {ws : Writers} {c : Chunk} {w : BW} {cw : Chunk × BW}
    (h : cw ∈ ws.set c w) : (cw = (c, w) ∧ ∃ kv ∈ ws, kv.1 = c) ∨ (cw ∈ ws ∧ cw.1 ≠ c) := by
  unfold Writers.set at h
  obtain ⟨kv, hkv, rfl⟩ := List.mem_map.mp h
  by_cases hk : kv.1 = c
  · rw [if_pos hk]; exact Or.inl ⟨rfl, kv, hkv, hk⟩
  · rw [if_neg hk]; exact Or.inr ⟨hkv, hk⟩

theorem Writers.keys_set (ws : Writers) (c : Chunk) (w : BW) :
    (ws.set c w).map (·.1) = ws.map (·.1) := by
  unfold Writers.set
  rw [List.map_map]
  apply List.map_congr_left
  intro kv _
  simp only [Function.comp]
  split
  · rename_i h; exact h.symm
  · rfl

/-! ### writer invariant (all-or-nothing cache reads) -/

/-- The writer of chunk `c` is set up for `ReadAt(o, n)` and is either untouched or has received a
complete, correct stream. -/
def WOK (B : Bytes) (o n : Nat) (cw : Chunk × BW) : Prop :=
  cw.2.destOff = (place o n cw.1).lower ∧ cw.2.dest.length = (place o n cw.1).expected ∧
  (cw.2.current = 0 ∨
    (cw.2.destOff + cw.2.dest.length ≤ cw.2.current ∧
      cw.2.dest = slice B (cw.1.b + (place o n cw.1).lower) (place o n cw.1).expected))

/-- The writer has received a complete, correct stream. -/
def WDone (B : Bytes) (o n : Nat) (cw : Chunk × BW) : Prop :=
  cw.2.destOff = (place o n cw.1).lower ∧ cw.2.dest.length = (place o n cw.1).expected ∧
  cw.2.destOff + cw.2.dest.length ≤ cw.2.current ∧
  cw.2.dest = slice B (cw.1.b + (place o n cw.1).lower) (place o n cw.1).expected

theorem WDone.wok {B : Bytes} {o n : Nat} {cw : Chunk × BW} (h : WDone B o n cw) : WOK B o n cw :=
  ⟨h.1, h.2.1, Or.inr h.2.2⟩

theorem wok_newWriter (B : Bytes) (o n : Nat) (c : Chunk) : WOK B o n (c, newWriter o n c) :=
  ⟨rfl, by simp [newWriter], Or.inl rfl⟩

/-- Writing the true, complete chunk data completes the writer (or leaves a completed one alone). -/
theorem wdone_write (B : Bytes) (o n : Nat) (c : Chunk) (w : BW) (d : Bytes)
    (hw : WOK B o n (c, w)) (hd : d = slice B c.b c.size) (hlen : d.length = c.size)
    (hb : (place o n c).lower + (place o n c).expected ≤ c.size) :
    WDone B o n (c, w.write d) := by
  obtain ⟨h1, h2, h3⟩ := hw
  simp only at h1 h2 h3
  obtain ⟨f1, f2, f3⟩ := BW.write_fields w d
  refine ⟨by simp only; rw [f1, h1], by simp only; rw [f3, h2], ?_, ?_⟩
  · simp only; rw [f1, f2, f3]
    rcases h3 with h3 | h3 <;> omega
  · simp only
    rcases h3 with h3 | ⟨h3, h4⟩
    · rw [BW.write_full w d h3 (by omega), h1, h2, hd, slice_slice _ _ _ _ _ hb]
    · rw [BW.write_complete w d h3]; exact h4

/-- All writers with key `c` are done. -/
def DoneKey (B : Bytes) (o n : Nat) (ws : Writers) (c : Chunk) : Prop :=
  ∀ cw ∈ ws, cw.1 = c → WDone B o n cw

/-- Writers set-up: keys are the missing chunks, every writer is fresh or done. -/
def WsOK (B : Bytes) (o n : Nat) (missing : List Chunk) (ws : Writers) : Prop :=
  ws.map (·.1) = missing ∧ ∀ cw ∈ ws, WOK B o n cw

theorem wsOK_set {B : Bytes} {o n : Nat} {missing : List Chunk} {ws : Writers} {c : Chunk} {w : BW}
    (h : WsOK B o n missing ws) (hw : WOK B o n (c, w)) : WsOK B o n missing (ws.set c w) := by
  refine ⟨by rw [Writers.keys_set]; exact h.1, ?_⟩
  intro cw hcw
  rcases Writers.mem_set hcw with ⟨rfl, _⟩ | ⟨hm, _⟩
  · exact hw
  · exact h.2 cw hm

theorem doneKey_set {B : Bytes} {o n : Nat} {ws : Writers} {c c' : Chunk} {w : BW}
    (hw : WDone B o n (c, w)) (h : DoneKey B o n ws c') : DoneKey B o n (ws.set c w) c' := by
  intro cw hcw hk
  rcases Writers.mem_set hcw with ⟨rfl, _⟩ | ⟨hm, _⟩
  · exact hw
  · exact h cw hm hk

theorem doneKey_set_self {B : Bytes} {o n : Nat} {ws : Writers} {c : Chunk} {w : BW}
    (hw : WDone B o n (c, w)) : DoneKey B o n (ws.set c w) c := by
  intro cw hcw hk
  rcases Writers.mem_set hcw with ⟨rfl, _⟩ | ⟨_, hne⟩
  · exact hw
  · exact absurd hk hne

theorem doneKey_set_same {B : Bytes} {o n : Nat} {ws : Writers} {c c' : Chunk} {w : BW}
    (hm : (c, w) ∈ ws) (h : DoneKey B o n ws c') : DoneKey B o n (ws.set c w) c' := by
  intro cw hcw hk
  rcases Writers.mem_set hcw with ⟨rfl, _⟩ | ⟨hm', _⟩
  · exact h (c, w) hm hk
  · exact h cw hm' hk

theorem gridChunk_slice_length (P : Params) (B : Bytes) (hc : 0 < P.chunk) (hB : B.length = P.size)
    (c : Chunk) (hg : GridChunk P c) : (slice B c.b c.size).length = c.size := by
  have := hg.le hc
  rw [slice_length]; simp only [Chunk.size]; omega

/-- `copyFetchedChunks` for one chunk when cache reads are all-or-nothing (`CacheOK`): a failure
leaves the writer untouched, a success completes it. -/
theorem copyChunk_exact (P : Params) (B : Bytes) (hc : 0 < P.chunk) (hB : B.length = P.size)
    (o n : Nat) (cache : Cache) (hcache : CacheOK P B cache) (c : Chunk) (w : BW)
    (hw : WOK B o n (c, w))
    (hb : (place o n c).lower + (place o n c).expected ≤ c.size) :
    ((copyChunk cache c w).2 = false → (copyChunk cache c w).1 = w) ∧
    ((copyChunk cache c w).2 = true → WDone B o n (c, (copyChunk cache c w).1)) := by
  unfold copyChunk
  cases hget : cache.get c with
  | none => exact ⟨fun _ => rfl, fun h => by simp at h⟩
  | some d =>
    obtain ⟨hd, hg⟩ := hcache c d hget
    have hlen : d.length = c.size := by rw [hd]; exact gridChunk_slice_length P B hc hB c hg
    simp only
    rw [List.take_of_length_le (by omega)]
    refine ⟨fun h => ?_, fun _ => wdone_write B o n c w d hw hd hlen hb⟩
    simp only [decide_eq_false_iff_not] at h
    omega

theorem copyInOrder_exact (P : Params) (B : Bytes) (hc : 0 < P.chunk) (hB : B.length = P.size)
    (o n : Nat) (missing : List Chunk)
    (hb : ∀ c ∈ missing, (place o n c).lower + (place o n c).expected ≤ c.size)
    (cache : Cache) (hcache : CacheOK P B cache) :
    ∀ (order : List Chunk) (ws : Writers), WsOK B o n missing ws →
      WsOK B o n missing (copyInOrder cache ws order).1 ∧
      (∀ c', DoneKey B o n ws c' → DoneKey B o n (copyInOrder cache ws order).1 c') ∧
      ((copyInOrder cache ws order).2 = true →
        ∀ c ∈ order, DoneKey B o n (copyInOrder cache ws order).1 c) := by
  intro order
  induction order with
  | nil => intro ws h; exact ⟨h, fun _ h' => h', fun _ c hc' => by simp at hc'⟩
  | cons c rest ih =>
    intro ws hws
    unfold copyInOrder
    cases hget : ws.get c with
    | none =>
      simp only
      obtain ⟨i1, i2, i3⟩ := ih ws hws
      refine ⟨i1, i2, ?_⟩
      intro hok c' hc'
      rcases List.mem_cons.mp hc' with rfl | hc'
      · intro cw hcw hk
        have : c' ∈ ws.map (·.1) := by
          rw [hws.1, ← i1.1]; exact List.mem_map.mpr ⟨cw, hcw, hk⟩
        exact absurd hget (Writers.get_ne_none this)
      · exact i3 hok c' hc'
    | some w =>
      simp only
      have hm := Writers.get_mem hget
      have hcm : c ∈ missing := by rw [← hws.1]; exact List.mem_map.mpr ⟨(c, w), hm, rfl⟩
      obtain ⟨e1, e2⟩ := copyChunk_exact P B hc hB o n cache hcache c w (hws.2 _ hm) (hb c hcm)
      rcases hcc : copyChunk cache c w with ⟨w', ok⟩
      rw [hcc] at e1 e2
      cases ok with
      | false =>
        simp only
        have : w' = w := e1 rfl
        subst this
        exact ⟨wsOK_set hws (hws.2 _ hm), fun c' h' => doneKey_set_same hm h',
          fun h => by simp at h⟩
      | true =>
        simp only
        have hd : WDone B o n (c, w') := e2 rfl
        obtain ⟨i1, i2, i3⟩ := ih (ws.set c w') (wsOK_set hws hd.wok)
        refine ⟨i1, fun c' h' => i2 c' (doneKey_set hd h'), ?_⟩
        intro hok c' hc'
        rcases List.mem_cons.mp hc' with rfl | hc'
        · exact i2 c' (doneKey_set_self hd)
        · exact i3 hok c' hc'

/-- The leader's own `fetchRegions` writes: every delivered chunk that has a writer completes it. -/
theorem applyGot_exact (P : Params) (B : Bytes) (hc : 0 < P.chunk) (hB : B.length = P.size)
    (o n : Nat) (missing : List Chunk)
    (hb : ∀ c ∈ missing, (place o n c).lower + (place o n c).expected ≤ c.size) :
    ∀ (got : List (Chunk × Bytes)) (ws : Writers), Exact P B got → WsOK B o n missing ws →
      WsOK B o n missing (applyGot ws got) ∧
      (∀ c', DoneKey B o n ws c' → DoneKey B o n (applyGot ws got) c') ∧
      (∀ cd ∈ got, DoneKey B o n (applyGot ws got) cd.1) := by
  intro got
  induction got with
  | nil => intro ws _ h; exact ⟨h, fun _ h' => h', fun cd hcd => by simp at hcd⟩
  | cons cd rest ih =>
    intro ws hex hws
    obtain ⟨c, d⟩ := cd
    have hex' : Exact P B rest := fun cd' h' => hex cd' (List.mem_cons_of_mem _ h')
    unfold applyGot
    cases hget : ws.get c with
    | none =>
      simp only
      obtain ⟨i1, i2, i3⟩ := ih ws hex' hws
      refine ⟨i1, i2, ?_⟩
      intro cd' hcd'
      rcases List.mem_cons.mp hcd' with rfl | hcd'
      · intro cw hcw hk
        have : c ∈ ws.map (·.1) := by
          rw [hws.1, ← i1.1]; exact List.mem_map.mpr ⟨cw, hcw, hk⟩
        exact absurd hget (Writers.get_ne_none this)
      · exact i3 cd' hcd'
    | some w =>
      simp only
      have hm := Writers.get_mem hget
      have hcm : c ∈ missing := by rw [← hws.1]; exact List.mem_map.mpr ⟨(c, w), hm, rfl⟩
      obtain ⟨hd, hg⟩ := hex (c, d) (List.mem_cons_self ..)
      simp only at hd hg
      have hlen : d.length = c.size := by rw [hd]; exact gridChunk_slice_length P B hc hB c hg
      have hdone : WDone B o n (c, w.write d) :=
        wdone_write B o n c w d (hws.2 _ hm) hd hlen (hb c hcm)
      obtain ⟨i1, i2, i3⟩ := ih (ws.set c (w.write d)) hex' (wsOK_set hws hdone.wok)
      refine ⟨i1, fun c' h' => i2 c' (doneKey_set hdone h'), ?_⟩
      intro cd' hcd'
      rcases List.mem_cons.mp hcd' with rfl | hcd'
      · exact i2 c (doneKey_set_self hdone)
      · exact i3 cd' hcd'

/-! ### the caller's buffer -/

/-- Writing, for each chunk, the exact piece at its place gives an exact buffer prefix
(`assemble_tiles` for explicit writers). -/
theorem assembleW_tiles (B : Bytes) (o n k : Nat) (hk : k ≤ n) (hB : o + k ≤ B.length)
    (hits : List (Chunk × Bytes)) (ws : Writers) :
    ∀ (cs : List Chunk) (a : Nat) (buf : Bytes),
      buf.length = n →
      Tiles a (cs.map (place o n)) k →
      (∀ c ∈ cs, segFor o n hits ws c = slice B (o + (place o n c).base) (place o n c).expected) →
      buf.take a = slice B o a →
      (assembleW o n hits ws buf cs).take k = slice B o k ∧
        (assembleW o n hits ws buf cs).length = n := by
  intro cs
  induction cs with
  | nil =>
    intro a buf hlen ht _ hpre
    simp only [List.map_nil, Tiles] at ht
    subst ht
    exact ⟨hpre, hlen⟩
  | cons c cs ih =>
    intro a buf hlen ht hex hpre
    simp only [List.map_cons, Tiles] at ht
    obtain ⟨hbase, ht'⟩ := ht
    have hle := Tiles.le ht'
    have hseg := hex c (List.mem_cons_self ..)
    unfold assembleW
    rw [hseg]
    have hsl : (slice B (o + (place o n c).base) (place o n c).expected).length
        = (place o n c).expected := by
      rw [slice_length]; omega
    apply ih (a + (place o n c).expected)
    · rw [writeAt_length _ _ _ (by rw [hsl]; omega)]; exact hlen
    · exact ht'
    · intro c' hc'; exact hex c' (List.mem_cons_of_mem _ hc')
    · have := writeAt_take buf (place o n c).base
        (slice B (o + (place o n c).base) (place o n c).expected) (by omega)
      rw [hsl] at this
      rw [← hbase, this, hbase, hpre, ← hbase, slice_append]

/-- Static facts about a prepared `ReadAt(o, n)`. -/
structure PendOK (P : Params) (B : Bytes) (o n : Nat) (cs : List Chunk)
    (hits : List (Chunk × Bytes)) (missing : List Chunk) : Prop where
  tiles : Tiles 0 (cs.map (place o n)) (min n (P.size - o))
  inB : o + min n (P.size - o) ≤ B.length
  hitsOK : ∀ cd ∈ hits, WindowOK B o n cd
  total : ∀ c ∈ cs, (∃ d, (c, d) ∈ hits) ∨ c ∈ missing
  bound : ∀ c ∈ missing, (place o n c).lower + (place o n c).expected ≤ c.size

theorem segFor_exact (P : Params) (B : Bytes) (o n : Nat) (cs : List Chunk)
    (hits : List (Chunk × Bytes)) (missing : List Chunk) (ws : Writers)
    (hp : PendOK P B o n cs hits missing) (hws : WsOK B o n missing ws)
    (hdone : ∀ c ∈ missing, DoneKey B o n ws c) :
    ∀ c ∈ cs, segFor o n hits ws c = slice B (o + (place o n c).base) (place o n c).expected := by
  intro c hc
  unfold segFor
  cases hf : hits.find? (fun kv => decide (kv.1 = c)) with
  | some kv =>
    simp only
    have hm := List.mem_of_find?_eq_some hf
    have hk := List.find?_some hf
    simp only [decide_eq_true_eq] at hk
    have := hp.hitsOK kv hm
    unfold WindowOK at this
    rw [hk] at this
    exact this
  | none =>
    simp only
    rw [List.find?_eq_none] at hf
    have hcm : c ∈ missing := by
      rcases hp.total c hc with ⟨d, hd⟩ | h
      · exact absurd (by simp) (hf (c, d) hd)
      · exact h
    cases hg : ws.get c with
    | none => exact absurd hg (Writers.get_ne_none (by rw [hws.1]; exact hcm))
    | some w =>
      simp only
      have := hdone c hcm (c, w) (Writers.get_mem hg) rfl
      rw [this.2.2.2]
      congr 1
      simp only [place]; omega

theorem finish_exact (P : Params) (B : Bytes) (pd : Pending)
    (hp : PendOK P B pd.o pd.n pd.cs pd.hits pd.missing) (hws : WsOK B pd.o pd.n pd.missing pd.ws)
    (hdone : ∀ c ∈ pd.missing, DoneKey B pd.o pd.n pd.ws c) :
    ∃ buf, finish P pd = .ok (min pd.n (P.size - pd.o)) buf ∧ buf.length = pd.n ∧
      buf.take (min pd.n (P.size - pd.o)) = slice B pd.o (min pd.n (P.size - pd.o)) := by
  have := assembleW_tiles B pd.o pd.n (min pd.n (P.size - pd.o)) (by omega) hp.inB pd.hits pd.ws
    pd.cs 0 (List.replicate pd.n 0) (by simp) hp.tiles
    (segFor_exact P B pd.o pd.n pd.cs pd.hits pd.missing pd.ws hp hws hdone) (by simp [slice])
  refine ⟨_, ?_, this.2, this.1⟩
  unfold finish
  rw [adjust_eq]

/-! ### cache loss -/

def Loss.isTrunc : Loss → Bool
  | .trunc _ _ => true
  | .evict _ => false

theorem lose_invQ (P : Params) (Q : Chunk → Bytes → Prop) :
    ∀ (loss : List Loss) (s : St), InvQ P Q s →
      ((∀ l ∈ loss, l.isTrunc = false) ∨ TruncClosed Q) →
      InvQ P Q { s with cache := loss.foldl Cache.lose s.cache } := by
  intro loss
  induction loss with
  | nil => intro s hs _; exact hs
  | cons l loss ih =>
    intro s hs hT
    have hT' : (∀ l ∈ loss, l.isTrunc = false) ∨ TruncClosed Q := by
      rcases hT with h | h
      · exact Or.inl (fun l' h' => h l' (List.mem_cons_of_mem _ h'))
      · exact Or.inr h
    have h1 : InvQ P Q { s with cache := s.cache.lose l } := by
      cases l with
      | evict c => exact (dropEntry_specQ P Q s hs c).1
      | trunc c k =>
        rcases hT with h | h
        · have := h (.trunc c k) (List.mem_cons_self ..); simp [Loss.isTrunc] at this
        · exact (truncEntry_specQ P Q h s hs c k).1
    exact ih { s with cache := s.cache.lose l } h1 hT'

/-! ### the shared fetch before commit c4f4279 (no writer restart) is exact when cache reads are
all-or-nothing -/

/-- A round with honest replies in which the cache loses entries only as a whole. -/
def Round.OK (B : Bytes) : Round → Prop
  | .lead r => HonestReply B r
  | .follow lr loss _ => HonestReply B lr ∧ ∀ l ∈ loss, l.isTrunc = false

/-- A round with honest replies (any cache loss, truncation included). -/
def Round.Honest (B : Bytes) : Round → Prop
  | .lead r => HonestReply B r
  | .follow lr _ _ => HonestReply B lr

instance (B : Bytes) : (r : Round) → Decidable (r.OK B)
  | .lead r => by unfold Round.OK; infer_instance
  | .follow _ _ _ => by unfold Round.OK; infer_instance

instance (B : Bytes) : (r : Round) → Decidable (r.Honest B)
  | .lead r => by unfold Round.Honest; infer_instance
  | .follow _ _ _ => by unfold Round.Honest; infer_instance

/-- A successful result is the right count and the right bytes. -/
def SharedExact (P : Params) (B : Bytes) (o n : Nat) (out : SharedOut) : Prop :=
  ∀ k buf, out = .ok k buf → k = min n (P.size - o) ∧ buf.length = n ∧
    buf.take k = slice B o k

theorem sharedExact_finish (P : Params) (B : Bytes) (pd : Pending)
    (hp : PendOK P B pd.o pd.n pd.cs pd.hits pd.missing) (hws : WsOK B pd.o pd.n pd.missing pd.ws)
    (hdone : ∀ c ∈ pd.missing, DoneKey B pd.o pd.n pd.ws c) :
    SharedExact P B pd.o pd.n (finish P pd) := by
  obtain ⟨buf, h1, h2, h3⟩ := finish_exact P B pd hp hws hdone
  intro k buf' h
  rw [h1] at h
  cases h
  exact ⟨rfl, h2, h3⟩

theorem fetchRangeSharedOld_exact (P : Params) (B : Bytes) (hc : 0 < P.chunk)
    (hB : B.length = P.size) :
    ∀ (script : List Round) (pd : Pending) (s : St),
      PendOK P B pd.o pd.n pd.cs pd.hits pd.missing → WsOK B pd.o pd.n pd.missing pd.ws →
      Inv P B s → (∀ r ∈ script, r.OK B) →
      Inv P B (fetchRangeSharedOld P pd s script).1 ∧ CovSub s (fetchRangeSharedOld P pd s script).1 ∧
      SharedExact P B pd.o pd.n (fetchRangeSharedOld P pd s script).2 := by
  intro script
  induction script with
  | nil =>
    intro pd s _ _ hs _
    exact ⟨hs, CovSub.refl s, by intro k buf h; simp [fetchRangeSharedOld] at h⟩
  | cons round rest ih =>
    intro pd s hp hws hs hr
    have hround := hr round (List.mem_cons_self ..)
    cases round with
    | lead reply =>
      simp only [fetchRangeSharedOld]
      obtain ⟨h1, h2, h3⟩ := fetchMissing_spec P B _ (goodQ_exact P B) hc s pd.missing reply
        ((inv_iff P B s).mp hs) hround
      generalize fetchMissing P s pd.missing reply = R at h1 h2 h3
      obtain ⟨s1, r1⟩ := R
      cases r1 with
      | none => exact ⟨(inv_iff P B _).mpr h1, h2, by intro k buf h; simp at h⟩
      | some got =>
        simp only
        obtain ⟨hex, hall⟩ := h3 got rfl
        obtain ⟨a1, _, a3⟩ := applyGot_exact P B hc hB pd.o pd.n pd.missing hp.bound got pd.ws hex hws
        refine ⟨(inv_iff P B _).mpr h1, h2, ?_⟩
        apply sharedExact_finish P B { pd with ws := applyGot pd.ws got } hp a1
        intro c hcm
        obtain ⟨cd, hcd, rfl⟩ := hall c hcm
        exact a3 cd hcd
    | follow lr loss order =>
      obtain ⟨hlr, hloss⟩ := hround
      simp only [fetchRangeSharedOld]
      split
      · exact ⟨hs, CovSub.refl s, by intro k buf h; simp at h⟩
      · rename_i hperm
        have hperm : order.Perm pd.missing := by
          rw [← List.isPerm_iff]; simpa using hperm
        obtain ⟨h1, h2, _⟩ := fetchMissing_spec P B _ (goodQ_exact P B) hc s pd.missing lr
          ((inv_iff P B s).mp hs) hlr
        generalize fetchMissing P s pd.missing lr = R at h1 h2
        obtain ⟨s1, r1⟩ := R
        cases r1 with
        | none => exact ⟨(inv_iff P B _).mpr h1, h2, by intro k buf h; simp at h⟩
        | some got =>
          simp only
          have h1' := lose_invQ P _ loss s1 h1 (Or.inl hloss)
          have hinv : Inv P B { s1 with cache := loss.foldl Cache.lose s1.cache } :=
            (inv_iff P B _).mpr h1'
          have hsub : CovSub s { s1 with cache := loss.foldl Cache.lose s1.cache } := h2
          obtain ⟨c1, c2, c3⟩ := copyInOrder_exact P B hc hB pd.o pd.n pd.missing hp.bound
            (loss.foldl Cache.lose s1.cache) hinv.cacheOK order pd.ws hws
          rcases hco : copyInOrder (loss.foldl Cache.lose s1.cache) pd.ws order with ⟨ws', ok⟩
          rw [hco] at c1 c2 c3
          cases ok with
          | true =>
            simp only
            refine ⟨hinv, hsub, ?_⟩
            apply sharedExact_finish P B { pd with ws := ws' } hp c1
            intro c hcm
            exact c3 rfl c (hperm.mem_iff.mpr hcm)
          | false =>
            simp only
            obtain ⟨i1, i2, i3⟩ := ih { pd with ws := ws' }
              { s1 with cache := loss.foldl Cache.lose s1.cache } hp c1 hinv
              (fun r h => hr r (List.mem_cons_of_mem _ h))
            exact ⟨i1, CovSub.trans hsub i2, i3⟩

/-- The prepared read: what `prepareChunksForRead` leaves. -/
def prepared (s : St) (o n : Nat) (cs : List Chunk) : Pending :=
  { o := o, n := n, cs := cs, hits := (classify o n s.cache cs).1,
    missing := (classify o n s.cache cs).2,
    ws := (classify o n s.cache cs).2.map fun c => (c, newWriter o n c) }

theorem readAtShared_unfold (P : Params) (s : St) (o n : Nat) (script : List Round)
    (hc : 0 < P.chunk) (h : ¬ (n = 0 ∨ o > P.size)) :
    readAtShared P s o n script =
      let pd := prepared s o n (chunksFrom P (o + n - 1) (P.size + 1) (floorU o P.chunk))
      if pd.missing.isEmpty then (s, finish P pd) else fetchRangeShared P pd s script := by
  unfold readAtShared
  rw [if_neg h, walk_readAt P hc]
  rfl

theorem readAtSharedOld_unfold (P : Params) (s : St) (o n : Nat) (script : List Round)
    (hc : 0 < P.chunk) (h : ¬ (n = 0 ∨ o > P.size)) :
    readAtSharedOld P s o n script =
      let pd := prepared s o n (chunksFrom P (o + n - 1) (P.size + 1) (floorU o P.chunk))
      if pd.missing.isEmpty then (s, finish P pd) else fetchRangeSharedOld P pd s script := by
  unfold readAtSharedOld
  rw [if_neg h, walk_readAt P hc]
  rfl

theorem wsOK_prepared (B : Bytes) (s : St) (o n : Nat) (cs : List Chunk) :
    WsOK B o n (prepared s o n cs).missing (prepared s o n cs).ws := by
  refine ⟨?_, ?_⟩
  · simp only [prepared, List.map_map]
    conv => rhs; rw [← List.map_id (classify o n s.cache cs).2]
    apply List.map_congr_left
    intro c _; rfl
  · intro cw hcw
    simp only [prepared] at hcw
    obtain ⟨c, _, rfl⟩ := List.mem_map.mp hcw
    exact wok_newWriter B o n c

theorem pendOK_prepared (P : Params) (B : Bytes) (Q : Chunk → Bytes → Prop) (hQ : GoodQ P B Q)
    (hc : 0 < P.chunk) (hB : B.length = P.size) (s : St) (hs : InvQ P Q s) (o n : Nat)
    (hn : 0 < n) (ho : o ≤ P.size) :
    let pd := prepared s o n (chunksFrom P (o + n - 1) (P.size + 1) (floorU o P.chunk))
    PendOK P B pd.o pd.n pd.cs pd.hits pd.missing := by
  simp only [prepared]
  obtain ⟨hcl1, hcl2, hcl3⟩ := classify_spec o n s.cache
    (chunksFrom P (o + n - 1) (P.size + 1) (floorU o P.chunk))
  refine ⟨?_, by omega, ?_, hcl3, ?_⟩
  · have := tiles_readAt P hc o n hn ho
    rwa [adjust_eq] at this
  · intro cd hcd
    obtain ⟨hget, _, hhit⟩ := hcl1 cd hcd
    exact windowOK_of_prefix B o n cd.1 cd.2 (hQ.pre _ _ (hs.cacheQ cd.1 cd.2 hget)) hhit
  · intro c hcm
    exact (place_bounds P hc o n hn ho c (hcl2 c hcm)).2.2

/-- `ReadAt` on the shared path before commit c4f4279: with all-or-nothing cache reads (strong invariant, whole-entry
losses only) every successful result is exact, whatever the rounds. -/
theorem readAtSharedOld_exact (P : Params) (B : Bytes) (hc : 0 < P.chunk) (hB : B.length = P.size)
    (s : St) (hs : Inv P B s) (o n : Nat) (script : List Round) (hr : ∀ r ∈ script, r.OK B) :
    Inv P B (readAtSharedOld P s o n script).1 ∧ CovSub s (readAtSharedOld P s o n script).1 ∧
    SharedExact P B o n (readAtSharedOld P s o n script).2 := by
  by_cases h : n = 0 ∨ o > P.size
  · unfold readAtSharedOld
    rw [if_pos h]
    refine ⟨hs, CovSub.refl s, ?_⟩
    intro k buf hk
    cases hk
    have : min n (P.size - o) = 0 := by omega
    rw [this]
    exact ⟨rfl, by simp, by simp [slice]⟩
  · rw [readAtSharedOld_unfold P s o n script hc h]
    have hp := pendOK_prepared P B _ (goodQ_exact P B) hc hB s ((inv_iff P B s).mp hs) o n
      (by omega) (by omega)
    have hws := wsOK_prepared B s o n (chunksFrom P (o + n - 1) (P.size + 1) (floorU o P.chunk))
    simp only at hp ⊢
    split
    · rename_i hemp
      refine ⟨hs, CovSub.refl s, ?_⟩
      apply sharedExact_finish P B _ hp hws
      intro c hcm
      rw [List.isEmpty_iff] at hemp
      rw [hemp] at hcm
      simp at hcm
    · exact fetchRangeSharedOld_exact P B hc hB script _ s hp hws hs hr

/-! ### progress of the retry loop -/

/-- A round in which this caller leads always terminates, and ignores the rest of the script. -/
theorem fetchRangeShared_lead (P : Params) (pd : Pending) (s : St) (reply : Reply)
    (rest : List Round) :
    fetchRangeShared P pd s (.lead reply :: rest) = fetchRangeShared P pd s [.lead reply] ∧
    (fetchRangeShared P pd s (.lead reply :: rest)).2 ≠ .outOfFuel ∧
    (fetchRangeShared P pd s (.lead reply :: rest)).2 ≠ .badScript := by
  simp only [fetchRangeShared]
  rcases fetchMissing P s pd.missing reply with ⟨s', _ | got⟩ <;> simp [finish]

/-- What one follower round does: bad script, shared error, successful copy (done), or failed copy
and retry on the next round with the writers restarted (`current = 0`). -/
theorem fetchRangeShared_follow (P : Params) (pd : Pending) (s : St) (lr : Reply)
    (loss : List Loss) (order : List Chunk) (rest : List Round) :
    let r := fetchRangeShared P pd s (.follow lr loss order :: rest)
    let L := fetchMissing P s pd.missing lr
    let s'' : St := { L.1 with cache := loss.foldl Cache.lose L.1.cache }
    let C := copyInOrder s''.cache pd.ws order
    (order.isPerm pd.missing = false ∧ r = (s, .badScript)) ∨
    (order.isPerm pd.missing = true ∧ L.2 = none ∧ r = (L.1, .err)) ∨
    (order.isPerm pd.missing = true ∧ L.2.isSome ∧ C.2 = true ∧
      r = (s'', finish P { pd with ws := C.1 })) ∨
    (order.isPerm pd.missing = true ∧ L.2.isSome ∧ C.2 = false ∧
      r = fetchRangeShared P { pd with ws := resetWs C.1 } s'' rest) := by
  simp only [fetchRangeShared]
  cases hperm : order.isPerm pd.missing with
  | false => simp
  | true =>
    simp only [Bool.true_eq_false]
    rcases fetchMissing P s pd.missing lr with ⟨s', _ | got⟩
    · simp
    · simp only
      rcases copyInOrder (loss.foldl Cache.lose s'.cache) pd.ws order with ⟨ws', _ | _⟩ <;> simp

/-- The retry loop can only run out of script when every round was a follower round; a script
that contains a leader round always terminates. -/
theorem fetchRangeShared_outOfFuel (P : Params) :
    ∀ (script : List Round) (pd : Pending) (s : St),
      (fetchRangeShared P pd s script).2 = .outOfFuel →
      ∀ r ∈ script, ∃ lr loss order, r = .follow lr loss order := by
  intro script
  induction script with
  | nil => intro pd s _ r hr; simp at hr
  | cons round rest ih =>
    intro pd s h r hr
    cases round with
    | lead reply => exact absurd h (fetchRangeShared_lead P pd s reply rest).2.1
    | follow lr loss order =>
      rcases List.mem_cons.mp hr with rfl | hr
      · exact ⟨lr, loss, order, rfl⟩
      · rcases fetchRangeShared_follow P pd s lr loss order rest with
          ⟨_, h'⟩ | ⟨_, _, h'⟩ | ⟨_, _, _, h'⟩ | ⟨_, _, _, h'⟩
        · rw [h'] at h; simp at h
        · rw [h'] at h; simp at h
        · rw [h'] at h; simp [finish] at h
        · rw [h'] at h; exact ih _ _ h r hr

/-! ### the leader path of the explicit-writer model is `readAt` -/

theorem Writers.get_set_self {ws : Writers} {c : Chunk} {w w' : BW} (h : ws.get c = some w) :
    (ws.set c w').get c = some w' := by
  unfold Writers.get Writers.set at *
  rw [List.find?_map]
  have hfun : ((fun kv : Chunk × BW => decide (kv.1 = c)) ∘
      fun kv : Chunk × BW => if kv.1 = c then (c, w') else kv)
      = fun kv => decide (kv.1 = c) := by
    funext kv; simp only [Function.comp]; split
    · rename_i hk; simp [hk]
    · rfl
  rw [hfun]
  rw [Option.map_eq_some_iff] at h
  obtain ⟨kv, hkv, _⟩ := h
  have hp := List.find?_some hkv
  simp only [decide_eq_true_eq] at hp
  rw [hkv]
  simp [hp]

theorem Writers.get_set_ne {ws : Writers} {c c1 : Chunk} {w' : BW} (h : c1 ≠ c) :
    (ws.set c1 w').get c = ws.get c := by
  unfold Writers.get Writers.set
  rw [List.find?_map]
  have hfun : ((fun kv : Chunk × BW => decide (kv.1 = c)) ∘
      fun kv : Chunk × BW => if kv.1 = c1 then (c1, w') else kv)
      = fun kv => decide (kv.1 = c) := by
    funext kv; simp only [Function.comp]; split
    · rename_i hk; simp [hk]
    · rfl
  rw [hfun]
  cases hf : ws.find? (fun kv => decide (kv.1 = c)) with
  | none => rfl
  | some kv =>
    have hp := List.find?_some hf
    simp only [decide_eq_true_eq] at hp
    have : kv.1 ≠ c1 := by rw [hp]; exact fun h' => h h'.symm
    simp [this]

/-- A completed writer keeps its bytes through any further deliveries. -/
theorem applyGot_get_done (c : Chunk) :
    ∀ (got : List (Chunk × Bytes)) (ws : Writers) (w : BW), ws.get c = some w →
      w.destOff + w.dest.length ≤ w.current →
      ∃ w', (applyGot ws got).get c = some w' ∧ w'.dest = w.dest := by
  intro got
  induction got with
  | nil => intro ws w h _; exact ⟨w, h, rfl⟩
  | cons cd rest ih =>
    intro ws w hget hdone
    obtain ⟨c1, d1⟩ := cd
    unfold applyGot
    cases hg1 : ws.get c1 with
    | none => exact ih ws w hget hdone
    | some w1 =>
      simp only
      by_cases hcc : c1 = c
      · subst hcc
        rw [hget] at hg1; cases hg1
        obtain ⟨f1, f2, f3⟩ := BW.write_fields w d1
        obtain ⟨w', h1, h2⟩ := ih (ws.set c1 (w.write d1)) (w.write d1)
          (Writers.get_set_self hget) (by rw [f1, f2, f3]; omega)
        exact ⟨w', h1, by rw [h2, BW.write_complete w d1 hdone]⟩
      · exact ih _ w (by rw [Writers.get_set_ne hcc]; exact hget) hdone

/-- A fresh writer ends up with the window of the FIRST delivery of its chunk. -/
theorem applyGot_get_first (o n : Nat) (c : Chunk)
    (hb : (place o n c).lower + (place o n c).expected ≤ c.size) :
    ∀ (got : List (Chunk × Bytes)) (ws : Writers) (w : BW) (kv : Chunk × Bytes),
      (∀ cd ∈ got, cd.2.length = cd.1.size) →
      ws.get c = some w → w.current = 0 → w.destOff = (place o n c).lower →
      w.dest.length = (place o n c).expected →
      got.find? (fun kv => decide (kv.1 = c)) = some kv →
      ∃ w', (applyGot ws got).get c = some w' ∧
        w'.dest = slice kv.2 (place o n c).lower (place o n c).expected := by
  intro got
  induction got with
  | nil => intro ws w kv _ _ _ _ _ hf; simp at hf
  | cons cd rest ih =>
    intro ws w kv hlen hget h0 hoff hl hf
    obtain ⟨c1, d1⟩ := cd
    unfold applyGot
    by_cases hcc : c1 = c
    · subst hcc
      rw [List.find?_cons_of_pos (by simp)] at hf
      cases hf
      rw [hget]
      simp only
      have hd1 : d1.length = c1.size := hlen (c1, d1) (List.mem_cons_self ..)
      obtain ⟨f1, f2, f3⟩ := BW.write_fields w d1
      obtain ⟨w', h1, h2⟩ := applyGot_get_done c1 rest (ws.set c1 (w.write d1)) (w.write d1)
        (Writers.get_set_self hget) (by rw [f1, f2, f3]; omega)
      refine ⟨w', h1, ?_⟩
      rw [h2, BW.write_full w d1 h0 (by omega), hoff, hl]
    · rw [List.find?_cons_of_neg (by simpa using hcc)] at hf
      have hlen' : ∀ cd ∈ rest, cd.2.length = cd.1.size :=
        fun cd h => hlen cd (List.mem_cons_of_mem _ h)
      cases hg1 : ws.get c1 with
      | none => exact ih ws w kv hlen' hget h0 hoff hl hf
      | some w1 =>
        simp only
        exact ih _ w kv hlen' (by rw [Writers.get_set_ne hcc]; exact hget) h0 hoff hl hf

theorem storeChunks_len : ∀ (cs : List Chunk) (s : St) (stream : Bytes) (got : List (Chunk × Bytes)),
    (storeChunks s stream cs).2 = some got → ∀ cd ∈ got, cd.2.length = cd.1.size := by
  intro cs
  induction cs with
  | nil => intro s stream got h; simp [storeChunks] at h; subst h; simp
  | cons c cs ih =>
    intro s stream got h
    rw [storeChunks_cons] at h
    split at h
    · simp at h
    · rename_i hlen
      simp only [Option.map_eq_some_iff] at h
      obtain ⟨got', hg', rfl⟩ := h
      intro cd hcd
      rcases List.mem_cons.mp hcd with rfl | hcd
      · simp only [List.length_take]; omega
      · exact ih _ _ got' hg' cd hcd

theorem storeParts_len (P : Params) : ∀ (ps : List Part) (s : St) (got : List (Chunk × Bytes)),
    (storeParts P s ps).2 = some got → ∀ cd ∈ got, cd.2.length = cd.1.size := by
  intro ps
  induction ps with
  | nil => intro s got h; simp [storeParts] at h; subst h; simp
  | cons p ps ih =>
    intro s got h
    rw [storeParts_cons] at h
    split at h
    · simp at h
    · simp only at h
      have h1 := storeChunks_len (chunksFrom P p.e (P.size + 1) p.b) s p.data
      generalize storeChunks s p.data (chunksFrom P p.e (P.size + 1) p.b) = R at h h1
      obtain ⟨s1, r1⟩ := R
      cases r1 with
      | none => simp at h
      | some got1 =>
        simp only [Option.map_eq_some_iff] at h
        obtain ⟨got', hg', rfl⟩ := h
        intro cd hcd
        rcases List.mem_append.mp hcd with hcd | hcd
        · exact h1 got1 rfl cd hcd
        · exact ih s1 got' hg' cd hcd

theorem fetchMissing_len (P : Params) (s : St) (missing : List Chunk) (reply : Reply)
    (got : List (Chunk × Bytes)) (h : (fetchMissing P s missing reply).2 = some got) :
    (∀ cd ∈ got, cd.2.length = cd.1.size) ∧ ∀ c ∈ missing, ∃ cd ∈ got, cd.1 = c := by
  unfold fetchMissing at h
  split at h
  · rename_i hemp
    simp at h; subst h
    rw [List.isEmpty_iff] at hemp; subst hemp
    simp
  · cases reply with
    | fail => simp at h
    | parts ps =>
      simp only at h
      have h1 := storeParts_len P ps s
      generalize storeParts P s ps = R at h h1
      obtain ⟨s1, r1⟩ := R
      cases r1 with
      | none => simp at h
      | some got1 =>
        simp only at h
        split at h
        · rename_i hall
          simp at h; subst h
          refine ⟨h1 got1 rfl, ?_⟩
          intro c hc'
          rw [List.all_eq_true] at hall
          have := hall c hc'
          rw [List.any_eq_true] at this
          obtain ⟨g, hg, hgc⟩ := this
          exact ⟨g, hg, by simpa using hgc⟩
        · simp at h

theorem assemble_eq_assembleW (o n : Nat) (hits : List (Chunk × Bytes)) (ws : Writers)
    (f : Chunk → Option Bytes) :
    ∀ (cs : List Chunk) (buf : Bytes),
      (∀ c ∈ cs, ∃ d, f c = some d ∧
        segFor o n hits ws c = slice d (place o n c).lower (place o n c).expected) →
      assemble o n buf (cs.filterMap (fun c => (f c).map (fun d => (c, d)))) =
        assembleW o n hits ws buf cs := by
  intro cs
  induction cs with
  | nil => intro buf _; rfl
  | cons c cs ih =>
    intro buf h
    obtain ⟨d, hd, hseg⟩ := h c (List.mem_cons_self ..)
    rw [List.filterMap_cons, hd]
    simp only [Option.map_some]
    unfold assemble assembleW
    simp only
    rw [hseg]
    exact ih _ (fun c' h' => h c' (List.mem_cons_of_mem _ h'))

theorem prepared_get (s : St) (o n : Nat) (cs : List Chunk) (c : Chunk)
    (h : c ∈ (prepared s o n cs).missing) :
    (prepared s o n cs).ws.get c = some (newWriter o n c) := by
  cases hg : (prepared s o n cs).ws.get c with
  | none =>
    exact absurd hg (Writers.get_ne_none (by rw [(wsOK_prepared [] s o n cs).1]; exact h))
  | some w =>
    have hm := Writers.get_mem hg
    simp only [prepared] at hm
    obtain ⟨c', _, heq⟩ := List.mem_map.mp hm
    cases heq
    rfl

/-- On the leader path the explicit-writer model computes exactly what `readAt` computes (for
every reply, honest or not): same state, same outcome, same buffer. -/
theorem readAtShared_lead_eq (P : Params) (hc : 0 < P.chunk) (s : St) (o n : Nat)
    (reply : Reply) (rest : List Round) :
    (readAtShared P s o n (.lead reply :: rest)).1 = (readAt P s o n reply).1 ∧
    (readAtShared P s o n (.lead reply :: rest)).2 =
      (match (readAt P s o n reply).2 with
       | none => SharedOut.err
       | some kb => SharedOut.ok kb.1 kb.2) := by
  by_cases h : n = 0 ∨ o > P.size
  · unfold readAtShared readAt
    rw [if_pos h, if_pos h]
    exact ⟨rfl, rfl⟩
  · rw [readAtShared_unfold P s o n _ hc h, readAt_unfold P s o n reply hc h]
    simp only
    generalize hcs : chunksFrom P (o + n - 1) (P.size + 1) (floorU o P.chunk) = cs
    obtain ⟨_, hcl2, hcl3⟩ := classify_spec o n s.cache cs
    -- both sides are a function of `fetchMissing`
    have hshared : (if (prepared s o n cs).missing.isEmpty then (s, finish P (prepared s o n cs))
        else fetchRangeShared P (prepared s o n cs) s (.lead reply :: rest)) =
        ((fetchMissing P s (classify o n s.cache cs).2 reply).1,
          match (fetchMissing P s (classify o n s.cache cs).2 reply).2 with
          | none => SharedOut.err
          | some got => finish P { prepared s o n cs with
              ws := applyGot (prepared s o n cs).ws got }) := by
      have hmiss : (prepared s o n cs).missing = (classify o n s.cache cs).2 := rfl
      rw [hmiss]
      split
      · rename_i hemp
        unfold fetchMissing
        rw [if_pos hemp]
        rfl
      · simp only [fetchRangeShared, hmiss]
        rcases fetchMissing P s (classify o n s.cache cs).2 reply with ⟨s', _ | got⟩ <;> rfl
    rw [hshared]
    have hlen := fetchMissing_len P s (classify o n s.cache cs).2 reply
    generalize fetchMissing P s (classify o n s.cache cs).2 reply = R at hlen
    obtain ⟨s1, r1⟩ := R
    cases r1 with
    | none => exact ⟨rfl, rfl⟩
    | some got =>
      refine ⟨rfl, ?_⟩
      simp only
      obtain ⟨hl1, hl2⟩ := hlen got rfl
      unfold finish
      simp only [prepared]
      congr 1
      symm
      apply assemble_eq_assembleW
      intro c hcm
      unfold lookupData segFor
      cases hf : (classify o n s.cache cs).1.find? (fun kv => decide (kv.1 = c)) with
      | some kv => exact ⟨kv.2, rfl, rfl⟩
      | none =>
        simp only
        have hfn := hf
        rw [List.find?_eq_none] at hfn
        have hcmiss : c ∈ (classify o n s.cache cs).2 := by
          rcases hcl3 c hcm with ⟨d, hd⟩ | h'
          · exact absurd (by simp) (hfn (c, d) hd)
          · exact h'
        obtain ⟨cd, hcd, hcdc⟩ := hl2 c hcmiss
        cases hf2 : got.find? (fun kv => decide (kv.1 = c)) with
        | none =>
          rw [List.find?_eq_none] at hf2
          exact absurd (by simp [hcdc]) (hf2 cd hcd)
        | some kv =>
          have hn : 0 < n := by omega
          have ho : o ≤ P.size := by omega
          have hb := (place_bounds P hc o n hn ho c (by rw [hcs]; exact hcl2 c hcmiss)).2.2
          obtain ⟨w', hw1, hw2⟩ := applyGot_get_first o n c hb got (prepared s o n cs).ws
            (newWriter o n c) kv hl1 (prepared_get s o n cs c hcmiss) rfl rfl
            (by simp [newWriter]) hf2
          simp only [prepared] at hw1
          rw [hw1]
          exact ⟨kv.2, rfl, hw2⟩

/-! ### state invariants of the shared path under any cache loss -/

theorem fetchRangeShared_state (P : Params) (B : Bytes) (Q : Chunk → Bytes → Prop)
    (hQ : GoodQ P B Q) (hT : TruncClosed Q) (hc : 0 < P.chunk) :
    ∀ (script : List Round) (pd : Pending) (s : St), InvQ P Q s → (∀ r ∈ script, r.Honest B) →
      InvQ P Q (fetchRangeShared P pd s script).1 ∧ CovSub s (fetchRangeShared P pd s script).1 ∧
      ∀ k buf, (fetchRangeShared P pd s script).2 = .ok k buf → k = min pd.n (P.size - pd.o) := by
  intro script
  induction script with
  | nil =>
    intro pd s hs _
    exact ⟨hs, CovSub.refl s, by intro k buf h; simp [fetchRangeShared] at h⟩
  | cons round rest ih =>
    intro pd s hs hr
    have hround := hr round (List.mem_cons_self ..)
    cases round with
    | lead reply =>
      simp only [fetchRangeShared]
      obtain ⟨h1, h2, _⟩ := fetchMissing_spec P B Q hQ hc s pd.missing reply hs hround
      generalize fetchMissing P s pd.missing reply = R at h1 h2
      obtain ⟨s1, r1⟩ := R
      cases r1 with
      | none => exact ⟨h1, h2, by intro k buf h; simp at h⟩
      | some got =>
        refine ⟨h1, h2, ?_⟩
        intro k buf h
        simp only [finish, SharedOut.ok.injEq] at h
        rw [← h.1, adjust_eq]
    | follow lr loss order =>
      simp only [fetchRangeShared]
      split
      · exact ⟨hs, CovSub.refl s, by intro k buf h; simp at h⟩
      · obtain ⟨h1, h2, _⟩ := fetchMissing_spec P B Q hQ hc s pd.missing lr hs hround
        generalize fetchMissing P s pd.missing lr = R at h1 h2
        obtain ⟨s1, r1⟩ := R
        cases r1 with
        | none => exact ⟨h1, h2, by intro k buf h; simp at h⟩
        | some got =>
          simp only
          have h1' := lose_invQ P Q loss s1 h1 (Or.inr hT)
          have hsub : CovSub s { s1 with cache := loss.foldl Cache.lose s1.cache } := h2
          rcases copyInOrder (loss.foldl Cache.lose s1.cache) pd.ws order with ⟨ws', ok⟩
          cases ok with
          | true =>
            refine ⟨h1', hsub, ?_⟩
            intro k buf h
            simp only [finish, SharedOut.ok.injEq] at h
            rw [← h.1, adjust_eq]
          | false =>
            simp only
            obtain ⟨i1, i2, i3⟩ := ih { pd with ws := resetWs ws' }
              { s1 with cache := loss.foldl Cache.lose s1.cache } h1'
              (fun r h => hr r (List.mem_cons_of_mem _ h))
            exact ⟨i1, CovSub.trans hsub i2, i3⟩

theorem readAtShared_state (P : Params) (B : Bytes) (Q : Chunk → Bytes → Prop)
    (hQ : GoodQ P B Q) (hT : TruncClosed Q) (hc : 0 < P.chunk)
    (s : St) (hs : InvQ P Q s) (o n : Nat) (script : List Round) (hr : ∀ r ∈ script, r.Honest B) :
    InvQ P Q (readAtShared P s o n script).1 ∧ CovSub s (readAtShared P s o n script).1 ∧
    ∀ k buf, (readAtShared P s o n script).2 = .ok k buf → k = min n (P.size - o) := by
  by_cases h : n = 0 ∨ o > P.size
  · unfold readAtShared
    rw [if_pos h]
    refine ⟨hs, CovSub.refl s, ?_⟩
    intro k buf hk
    cases hk
    omega
  · rw [readAtShared_unfold P s o n script hc h]
    simp only
    split
    · refine ⟨hs, CovSub.refl s, ?_⟩
      intro k buf hk
      simp only [finish, SharedOut.ok.injEq] at hk
      rw [← hk.1, adjust_eq]; rfl
    · exact fetchRangeShared_state P B Q hQ hT hc script _ s hs hr

/-! ### (2) the split `Cache`: pieces -/

/-- Every piece is `(o + j·F, min F (E - i))`, non-empty, inside `[o, E)`. -/
theorem mem_piecesFrom (F E : Nat) :
    ∀ (fuel i : Nat) (p : Nat × Nat), p ∈ piecesFrom F E fuel i →
      (∃ j, p.1 = i + j * F) ∧ p.1 < E ∧ p.2 = min F (E - p.1) := by
  intro fuel
  induction fuel with
  | zero => intro i p h; simp [piecesFrom] at h
  | succ fuel ih =>
    intro i p h
    unfold piecesFrom at h
    split at h
    · rename_i hlt
      rcases List.mem_cons.mp h with rfl | h
      · refine ⟨⟨0, by simp⟩, hlt, ?_⟩
        simp only; split <;> omega
      · obtain ⟨⟨j, hj⟩, h2, h3⟩ := ih (i + F) p h
        exact ⟨⟨j + 1, by rw [hj, Nat.succ_mul]; omega⟩, h2, h3⟩
    · simp at h

/-- The pieces cover `[i, E)`. -/
theorem piecesFrom_cover (F E : Nat) (hF : 0 < F) :
    ∀ (fuel i x : Nat), E - i ≤ fuel → i ≤ x → x < E →
      ∃ p ∈ piecesFrom F E fuel i, p.1 ≤ x ∧ x < p.1 + p.2 := by
  intro fuel
  induction fuel with
  | zero => intro i x hf h1 h2; omega
  | succ fuel ih =>
    intro i x hf h1 h2
    unfold piecesFrom
    rw [if_pos (by omega)]
    by_cases hx : x < i + F
    · refine ⟨_, List.mem_cons_self .., h1, ?_⟩
      simp only; split <;> omega
    · obtain ⟨p, hp, hp1, hp2⟩ := ih (i + F) x (by omega) (by omega) h2
      exact ⟨p, List.mem_cons_of_mem _ hp, hp1, hp2⟩

/-- Two pieces that share a byte are the same piece. -/
theorem piecesFrom_disjoint (F E : Nat) (fuel i : Nat) (p q : Nat × Nat)
    (hp : p ∈ piecesFrom F E fuel i) (hq : q ∈ piecesFrom F E fuel i) (x : Nat)
    (hxp : p.1 ≤ x ∧ x < p.1 + p.2) (hxq : q.1 ≤ x ∧ x < q.1 + q.2) : p = q := by
  obtain ⟨⟨j1, h1⟩, h1b, h1c⟩ := mem_piecesFrom F E fuel i p hp
  obtain ⟨⟨j2, h2⟩, h2b, h2c⟩ := mem_piecesFrom F E fuel i q hq
  have hj : j1 = j2 := by
    rcases Nat.lt_trichotomy j1 j2 with h | h | h
    · have := Nat.mul_le_mul_right F (Nat.succ_le_of_lt h)
      rw [Nat.succ_mul] at this
      omega
    · exact h
    · have := Nat.mul_le_mul_right F (Nat.succ_le_of_lt h)
      rw [Nat.succ_mul] at this
      omega
  subst hj
  have e1 : p.1 = q.1 := by rw [h1, h2]
  have e2 : p.2 = q.2 := by rw [h1c, h2c, e1]
  exact Prod.ext e1 e2

/-! ### chunks of a `cacheAt` / `ReadAt` range -/

/-- The chunk list of `cacheAt(o, n)` / `ReadAt(o, n)`. -/
def rangeChunks (P : Params) (o n : Nat) : List Chunk :=
  chunksFrom P (o + n - 1) (P.size + 1) (floorU o P.chunk)

theorem mem_chunkList_iff (P : Params) (hc : 0 < P.chunk) (b e : Nat) (hb : b % P.chunk = 0)
    (ch : Chunk) : ch ∈ chunkList P b e ↔ (GridChunk P ch ∧ b ≤ ch.b ∧ ch.b ≤ e) := by
  constructor
  · exact gridChunk_of_mem_chunkList P hc b e hb ch
  · rintro ⟨hg, h1, h2⟩
    rw [mem_chunkList]
    have hdiv : (ch.b - b) / P.chunk * P.chunk = ch.b - b :=
      Nat.div_mul_cancel (Nat.dvd_of_mod_eq_zero (by
        rw [Nat.sub_mod_eq_zero_of_mod_eq (by rw [hg.1, hb])]))
    refine ⟨(ch.b - b) / P.chunk, ?_, ?_⟩
    · rw [lt_numChunks_iff P hc, hdiv]
      have := hg.2.1
      omega
    · rw [hdiv]
      have : b + (ch.b - b) = ch.b := by omega
      rw [this]; exact hg.eq_chunkAt

/-- A grid chunk belongs to the range `(o, n)` iff it meets the byte interval `[o, o+n)`. -/
theorem mem_rangeChunks (P : Params) (hc : 0 < P.chunk) (o n : Nat) (hn : 0 < n) (ch : Chunk) :
    ch ∈ rangeChunks P o n ↔ (GridChunk P ch ∧ o < ch.b + P.chunk ∧ ch.b < o + n) := by
  unfold rangeChunks
  rw [chunksFrom_eq_chunkList P hc _ _ _ (by omega),
    mem_chunkList_iff P hc _ _ (floorU_mod ..)]
  have h1 := floorU_le o P.chunk
  have h2 := lt_floorU_add o P.chunk hc
  constructor
  · rintro ⟨hg, ha, hb⟩; exact ⟨hg, by omega, by omega⟩
  · rintro ⟨hg, ha, hb⟩
    refine ⟨hg, ?_, by omega⟩
    by_cases h : floorU o P.chunk ≤ ch.b
    · exact h
    · have := aligned_add_le hg.1 (floorU_mod o P.chunk) (by omega)
      omega

/-- Within one range every chunk occurs once (starts strictly increase). -/
theorem rangeChunks_sorted (P : Params) (hc : 0 < P.chunk) (o n : Nat) :
    (rangeChunks P o n).Pairwise (fun a c => a.b < c.b) := by
  unfold rangeChunks
  rw [chunksFrom_eq_chunkList P hc _ _ _ (by omega)]
  unfold chunkList
  rw [List.pairwise_map]
  apply List.Pairwise.imp _ List.pairwise_lt_range
  intro a b hab
  simp only [chunkAt]
  have := Nat.mul_lt_mul_of_pos_right hab hc
  omega

theorem cacheAt_walk (P : Params) (hc : 0 < P.chunk) (o n : Nat) :
    walkChunks P (floorU o P.chunk) (ceilU (o + n - 1) P.chunk - 1) = some (rangeChunks P o n) :=
  walk_readAt P hc o n

/-- The pieces of the split `Cache(o, n)`. -/
theorem cacheCalls_split (P : Params) (prefetch o n : Nat) (h : P.chunk < prefetch) :
    cacheCalls P prefetch o n = piecesFrom (P.chunk * (prefetch / P.chunk)) (o + n) (n + 1) o := by
  unfold cacheCalls
  rw [if_neg (by omega)]

theorem fetchSize_pos (P : Params) (hc : 0 < P.chunk) (prefetch : Nat) (h : P.chunk < prefetch) :
    0 < P.chunk * (prefetch / P.chunk) :=
  Nat.mul_pos hc (Nat.div_pos (by omega) hc)

/-- The chunks of the pieces are, as a set, the chunks of the whole range. -/
theorem cacheCalls_chunks (P : Params) (hc : 0 < P.chunk) (prefetch o n : Nat)
    (h : P.chunk < prefetch) (hn : 0 < n) (ch : Chunk) :
    ch ∈ rangeChunks P o n ↔
      ∃ p ∈ cacheCalls P prefetch o n, ch ∈ rangeChunks P p.1 p.2 := by
  rw [cacheCalls_split P prefetch o n h]
  have hF := fetchSize_pos P hc prefetch h
  rw [mem_rangeChunks P hc o n hn]
  constructor
  · rintro ⟨hg, h1, h2⟩
    -- a byte of the chunk inside [o, o+n)
    obtain ⟨p, hp, hp1, hp2⟩ := piecesFrom_cover _ (o + n) hF (n + 1) o (max o ch.b)
      (by omega) (by omega) (by omega)
    obtain ⟨_, hpE, hpl⟩ := mem_piecesFrom _ _ _ _ p hp
    refine ⟨p, hp, ?_⟩
    rw [mem_rangeChunks P hc p.1 p.2 (by omega)]
    exact ⟨hg, by omega, by omega⟩
  · rintro ⟨p, hp, hm⟩
    obtain ⟨⟨j, hj⟩, hpE, hpl⟩ := mem_piecesFrom _ _ _ _ p hp
    rw [mem_rangeChunks P hc p.1 p.2 (by omega)] at hm
    obtain ⟨hg, h1, h2⟩ := hm
    have : 0 ≤ j * (P.chunk * (prefetch / P.chunk)) := Nat.zero_le _
    exact ⟨hg, by omega, by omega⟩

/-- For a chunk-aligned offset the pieces' chunk sets are pairwise disjoint: every chunk of the
range is handled by exactly one `cacheAt`. -/
theorem cacheCalls_disjoint (P : Params) (hc : 0 < P.chunk) (prefetch o n : Nat)
    (h : P.chunk < prefetch) (ho : o % P.chunk = 0) (p q : Nat × Nat)
    (hp : p ∈ cacheCalls P prefetch o n) (hq : q ∈ cacheCalls P prefetch o n) (ch : Chunk)
    (h1 : ch ∈ rangeChunks P p.1 p.2) (h2 : ch ∈ rangeChunks P q.1 q.2) : p = q := by
  rw [cacheCalls_split P prefetch o n h] at hp hq
  have hF := fetchSize_pos P hc prefetch h
  obtain ⟨⟨j1, hj1⟩, hpE, hpl⟩ := mem_piecesFrom _ _ _ _ p hp
  obtain ⟨⟨j2, hj2⟩, hqE, hql⟩ := mem_piecesFrom _ _ _ _ q hq
  rw [mem_rangeChunks P hc p.1 p.2 (by omega)] at h1
  rw [mem_rangeChunks P hc q.1 q.2 (by omega)] at h2
  -- piece starts are chunk aligned, so `start < ch.b + chunk` means `start ≤ ch.b`
  have hal : ∀ j, (o + j * (P.chunk * (prefetch / P.chunk))) % P.chunk = 0 := by
    intro j
    rw [← Nat.mul_assoc, Nat.mul_comm j P.chunk, Nat.mul_assoc, Nat.add_mul_mod_self_left]
    exact ho
  have hp1 : p.1 ≤ ch.b := by
    by_cases hh : p.1 ≤ ch.b
    · exact hh
    · have hpa : p.1 % P.chunk = 0 := by rw [hj1]; exact hal j1
      have := aligned_add_le h1.1.1 hpa (by omega); omega
  have hq1 : q.1 ≤ ch.b := by
    by_cases hh : q.1 ≤ ch.b
    · exact hh
    · have hqa : q.1 % P.chunk = 0 := by rw [hj2]; exact hal j2
      have := aligned_add_le h2.1.1 hqa (by omega); omega
  exact piecesFrom_disjoint _ _ _ _ p q hp hq ch.b ⟨hp1, h1.2.2⟩ ⟨hq1, h2.2.2⟩

/-! ### fetched coverage of `cacheAt` -/

/-- Every cached chunk is inside the fetched coverage (true along every history from the empty
state: an entry is only ever added together with its region, coverage never shrinks). -/
def CacheCovered (s : St) : Prop :=
  ∀ c d, s.cache.get c = some d → ∀ x : Int, (c.b : Int) ≤ x → x ≤ c.e → cov x s.fetched

/-- Everything newly covered lies in `[lo, hi]` (and in the blob). -/
def NewWithin (P : Params) (lo hi : Nat) (s s' : St) : Prop :=
  ∀ x : Int, cov x s'.fetched → cov x s.fetched ∨ ((lo : Int) ≤ x ∧ x ≤ hi ∧ x < P.size)

/-- Every delivered chunk is covered. -/
def GotCovered (s' : St) (got : List (Chunk × Bytes)) : Prop :=
  ∀ cd ∈ got, ∀ x : Int, (cd.1.b : Int) ≤ x → x ≤ cd.1.e → cov x s'.fetched

theorem NewWithin.refl (P : Params) (lo hi : Nat) (s : St) : NewWithin P lo hi s s :=
  fun _ h => Or.inl h

theorem NewWithin.trans {P : Params} {lo hi : Nat} {a b c : St} (h1 : NewWithin P lo hi a b)
    (h2 : NewWithin P lo hi b c) : NewWithin P lo hi a c := by
  intro x hx
  rcases h2 x hx with h | h
  · exact h1 x h
  · exact Or.inr h

theorem cacheCovered_init : CacheCovered {} := by
  intro c d h; simp [Cache.get] at h

theorem cov_commit (P : Params) (Q : Chunk → Bytes → Prop) (hc : 0 < P.chunk) (s : St)
    (hs : InvQ P Q s) (ch : Chunk) (d : Bytes) (hg : GridChunk P ch) (hcc : CacheCovered s) :
    let s1 : St := { cache := s.cache.put ch d, fetched := add s.fetched ch.toRegion }
    CacheCovered s1 ∧ (∀ x : Int, (ch.b : Int) ≤ x → x ≤ ch.e → cov x s1.fetched) ∧
    ∀ lo hi : Nat, lo ≤ ch.b → ch.e ≤ hi → NewWithin P lo hi s s1 := by
  have hle := hg.le hc
  have hr : ch.toRegion.b ≤ ch.toRegion.e := by simp only [Chunk.toRegion]; omega
  have hcov := SV.Props.C06.add_cov s.fetched ch.toRegion hs.wf hr
  simp only
  refine ⟨?_, ?_, ?_⟩
  · intro c' d' h x h1 h2
    rw [hcov]
    rcases Cache.get_put_some _ _ _ _ _ h with h | ⟨rfl, rfl⟩
    · exact Or.inl (hcc c' d' h x h1 h2)
    · exact Or.inr ⟨by simpa [Chunk.toRegion] using h1, by simpa [Chunk.toRegion] using h2⟩
  · intro x h1 h2
    rw [hcov]
    exact Or.inr ⟨by simpa [Chunk.toRegion] using h1, by simpa [Chunk.toRegion] using h2⟩
  · intro lo hi hlo hhi x hx
    rw [hcov] at hx
    rcases hx with h | ⟨h1, h2⟩
    · exact Or.inl h
    · simp only [Chunk.toRegion] at h1 h2
      exact Or.inr ⟨by omega, by omega, by omega⟩

theorem storeChunks_cov (P : Params) (B : Bytes) (Q : Chunk → Bytes → Prop) (hQ : GoodQ P B Q)
    (hc : 0 < P.chunk) (e lo hi : Nat) :
    ∀ fuel i (s : St) (stream : Bytes), InvQ P Q s → i % P.chunk = 0 →
      (i < P.size → stream = slice B i stream.length) → CacheCovered s →
      CacheCovered (storeChunks s stream (chunksFrom P e fuel i)).1 ∧
      (∀ got, (storeChunks s stream (chunksFrom P e fuel i)).2 = some got →
        GotCovered (storeChunks s stream (chunksFrom P e fuel i)).1 got) ∧
      (lo ≤ i → ceilU e P.chunk - 1 ≤ hi →
        NewWithin P lo hi s (storeChunks s stream (chunksFrom P e fuel i)).1) := by
  intro fuel
  induction fuel with
  | zero =>
    intro i s stream _ _ _ hcc
    simp only [chunksFrom, storeChunks]
    exact ⟨hcc, (by intro got h; cases h; intro cd hcd; simp at hcd),
      fun _ _ => NewWithin.refl P lo hi s⟩
  | succ fuel ih =>
    intro i s stream hs hal0 hst hcc
    unfold chunksFrom
    split
    · rename_i hcond
      rw [storeChunks_cons]
      split
      · exact ⟨hcc, (by intro got h; cases h), fun _ _ => NewWithin.refl P lo hi s⟩
      · rename_i hlen
        have hg : GridChunk P ⟨i, min (i + P.chunk - 1) (P.size - 1)⟩ := ⟨hal0, hcond.2, rfl⟩
        have hst' := hst hcond.2
        have hd : stream.take (Chunk.size ⟨i, min (i + P.chunk - 1) (P.size - 1)⟩)
            = slice B i (Chunk.size ⟨i, min (i + P.chunk - 1) (P.size - 1)⟩) := by
          conv => lhs; rw [hst']
          rw [take_slice]; congr 1; omega
        obtain ⟨hinv', _⟩ := inv_commit P B Q hQ hc s _ _ hs hg hd
        obtain ⟨c1, c2, c3⟩ := cov_commit P Q hc s hs _
          (stream.take (Chunk.size ⟨i, min (i + P.chunk - 1) (P.size - 1)⟩)) hg hcc
        have hal : (i + P.chunk) % P.chunk = 0 := by rw [Nat.add_mod_right]; exact hal0
        have hnext : i + P.chunk < P.size →
            stream.drop (Chunk.size ⟨i, min (i + P.chunk - 1) (P.size - 1)⟩) =
              slice B (i + P.chunk)
                (stream.drop (Chunk.size ⟨i, min (i + P.chunk - 1) (P.size - 1)⟩)).length := by
          intro hlt
          have hsz : Chunk.size ⟨i, min (i + P.chunk - 1) (P.size - 1)⟩ = P.chunk := by
            simp only [Chunk.size]; omega
          rw [hsz]
          conv => lhs; rw [hst']
          rw [drop_slice, List.length_drop]
        obtain ⟨k1, k2, k3⟩ := ih (i + P.chunk) _ _ hinv' hal hnext c1
        obtain ⟨_, ksub, _⟩ := storeChunks_spec P B Q hQ hc e fuel (i + P.chunk) _ _ hinv' hal hnext
        simp only at k1 k2 k3 ksub ⊢
        refine ⟨k1, ?_, ?_⟩
        · intro got hgot
          simp only [Option.map_eq_some_iff] at hgot
          obtain ⟨got', hg', rfl⟩ := hgot
          intro cd hcd
          rcases List.mem_cons.mp hcd with rfl | hcd
          · intro x h1 h2; exact ksub x (c2 x h1 h2)
          · exact k2 got' hg' cd hcd
        · intro hlo hhi
          have hfl := aligned_le_floorU hal0 hcond.1
          rw [ceilU_eq] at hhi
          exact NewWithin.trans (c3 lo hi hlo (by simp only; omega)) (k3 (by omega) (by rw [ceilU_eq]; exact hhi))
    · simp only [storeChunks]
      exact ⟨hcc, (by intro got h; cases h; intro cd hcd; simp at hcd),
        fun _ _ => NewWithin.refl P lo hi s⟩

/-- Every part of the reply lies inside `[lo, hi]` (as a chunk span). -/
def ReplyWithin (P : Params) (lo hi : Nat) : Reply → Prop
  | .fail => True
  | .parts ps => ∀ p ∈ ps, lo ≤ p.b ∧ ceilU p.e P.chunk - 1 ≤ hi

theorem storeParts_cov (P : Params) (B : Bytes) (Q : Chunk → Bytes → Prop) (hQ : GoodQ P B Q)
    (hc : 0 < P.chunk) (lo hi : Nat) :
    ∀ (ps : List Part) (s : St), InvQ P Q s → (∀ p ∈ ps, HonestPart B p) → CacheCovered s →
      CacheCovered (storeParts P s ps).1 ∧
      (∀ got, (storeParts P s ps).2 = some got → GotCovered (storeParts P s ps).1 got) ∧
      ((∀ p ∈ ps, lo ≤ p.b ∧ ceilU p.e P.chunk - 1 ≤ hi) →
        NewWithin P lo hi s (storeParts P s ps).1) := by
  intro ps
  induction ps with
  | nil =>
    intro s _ _ hcc
    simp only [storeParts]
    exact ⟨hcc, (by intro got h; cases h; intro cd hcd; simp at hcd),
      fun _ => NewWithin.refl P lo hi s⟩
  | cons p ps ih =>
    intro s hs hh hcc
    rw [storeParts_cons]
    split
    · exact ⟨hcc, (by intro got h; cases h), fun _ => NewWithin.refl P lo hi s⟩
    · rename_i hal
      have hal : p.b % P.chunk = 0 := by simpa using hal
      have hp : HonestPart B p := hh p (List.mem_cons_self ..)
      obtain ⟨h1, _, _⟩ := storeChunks_spec P B Q hQ hc p.e (P.size + 1) p.b s p.data hs hal
        (fun _ => hp)
      obtain ⟨c1, c2, c3⟩ := storeChunks_cov P B Q hQ hc p.e lo hi (P.size + 1) p.b s p.data hs hal
        (fun _ => hp) hcc
      simp only
      generalize storeChunks s p.data (chunksFrom P p.e (P.size + 1) p.b) = R at h1 c1 c2 c3
      obtain ⟨s1, r1⟩ := R
      cases r1 with
      | none =>
        refine ⟨c1, (by intro got h; cases h), ?_⟩
        intro hw
        have := hw p (List.mem_cons_self ..)
        exact c3 this.1 this.2
      | some got1 =>
        simp only
        have hh' : ∀ p' ∈ ps, HonestPart B p' := fun p' hp' => hh p' (List.mem_cons_of_mem _ hp')
        obtain ⟨k1, k2, k3⟩ := ih s1 h1 hh' c1
        obtain ⟨_, ksub, _⟩ := storeParts_spec P B Q hQ hc ps s1 h1 hh'
        refine ⟨k1, ?_, ?_⟩
        · intro got hgot
          simp only [Option.map_eq_some_iff] at hgot
          obtain ⟨got', hg', rfl⟩ := hgot
          intro cd hcd
          rcases List.mem_append.mp hcd with hcd | hcd
          · intro x h1' h2'; exact ksub x (c2 got1 rfl cd hcd x h1' h2')
          · exact k2 got' hg' cd hcd
        · intro hw
          have := hw p (List.mem_cons_self ..)
          exact NewWithin.trans (c3 this.1 this.2)
            (k3 (fun p' hp' => hw p' (List.mem_cons_of_mem _ hp')))

theorem fetchMissing_cov (P : Params) (B : Bytes) (Q : Chunk → Bytes → Prop) (hQ : GoodQ P B Q)
    (hc : 0 < P.chunk) (lo hi : Nat) (s : St) (missing : List Chunk) (reply : Reply)
    (hs : InvQ P Q s) (hr : HonestReply B reply) (hcc : CacheCovered s) :
    CacheCovered (fetchMissing P s missing reply).1 ∧
    (∀ got, (fetchMissing P s missing reply).2 = some got →
      GotCovered (fetchMissing P s missing reply).1 got) ∧
    (ReplyWithin P lo hi reply → NewWithin P lo hi s (fetchMissing P s missing reply).1) := by
  unfold fetchMissing
  split
  · exact ⟨hcc, (by intro got h; cases h; intro cd hcd; simp at hcd),
      fun _ => NewWithin.refl P lo hi s⟩
  · cases reply with
    | fail => exact ⟨hcc, (by intro got h; cases h), fun _ => NewWithin.refl P lo hi s⟩
    | parts ps =>
      simp only
      obtain ⟨c1, c2, c3⟩ := storeParts_cov P B Q hQ hc lo hi ps s hs hr hcc
      generalize storeParts P s ps = R at c1 c2 c3
      obtain ⟨s1, r1⟩ := R
      cases r1 with
      | none => exact ⟨c1, (by intro got h; cases h), c3⟩
      | some got1 =>
        simp only
        split
        · exact ⟨c1, (by intro got h; cases h; exact c2 got1 rfl), c3⟩
        · exact ⟨c1, (by intro got h; cases h), c3⟩

/-- One `cacheAt`: on success every chunk of its range is covered afterwards. -/
theorem cacheAt_cov (P : Params) (B : Bytes) (Q : Chunk → Bytes → Prop) (hQ : GoodQ P B Q)
    (hc : 0 < P.chunk) (lo hi : Nat) (s : St) (o n : Nat) (reply : Reply)
    (hs : InvQ P Q s) (hr : HonestReply B reply) (hcc : CacheCovered s) :
    CacheCovered (cacheAt P s o n reply).1 ∧
    ((cacheAt P s o n reply).2 = true → ∀ ch ∈ rangeChunks P o n, ∀ x : Int,
      (ch.b : Int) ≤ x → x ≤ ch.e → cov x (cacheAt P s o n reply).1.fetched) ∧
    (ReplyWithin P lo hi reply → NewWithin P lo hi s (cacheAt P s o n reply).1) := by
  unfold cacheAt
  rw [cacheAt_walk P hc]
  simp only
  obtain ⟨_, hsub, h3⟩ := fetchMissing_spec P B Q hQ hc s
    ((rangeChunks P o n).filter (fun c => (s.cache.get c).isNone)) reply hs hr
  obtain ⟨c1, c2, c3⟩ := fetchMissing_cov P B Q hQ hc lo hi s
    ((rangeChunks P o n).filter (fun c => (s.cache.get c).isNone)) reply hs hr hcc
  generalize fetchMissing P s ((rangeChunks P o n).filter (fun c => (s.cache.get c).isNone)) reply
    = R at hsub h3 c1 c2 c3
  obtain ⟨s1, r1⟩ := R
  cases r1 with
  | none => exact ⟨c1, (by intro h; simp at h), c3⟩
  | some got =>
    simp only
    refine ⟨c1, ?_, c3⟩
    intro _ ch hch x h1 h2
    cases hget : s.cache.get ch with
    | some d => exact hsub x (hcc ch d hget x h1 h2)
    | none =>
      have hm : ch ∈ (rangeChunks P o n).filter (fun c => (s.cache.get c).isNone) :=
        List.mem_filter.mpr ⟨hch, by simp [hget]⟩
      obtain ⟨cd, hcd, rfl⟩ := (h3 got rfl).2 ch hm
      exact c2 got rfl cd hcd x h1 h2

theorem runCalls_cons (P : Params) (s : St) (o n : Nat) (r : Reply)
    (rest : List ((Nat × Nat) × Reply)) :
    runCalls P s (((o, n), r) :: rest) =
      ((runCalls P (cacheAt P s o n r).1 rest).1,
        (cacheAt P s o n r).2 && (runCalls P (cacheAt P s o n r).1 rest).2) := rfl

/-- Any sequence of `cacheAt` calls. -/
theorem runCalls_cov (P : Params) (B : Bytes) (Q : Chunk → Bytes → Prop) (hQ : GoodQ P B Q)
    (hc : 0 < P.chunk) (lo hi : Nat) :
    ∀ (calls : List ((Nat × Nat) × Reply)) (s : St), InvQ P Q s → CacheCovered s →
      (∀ call ∈ calls, HonestReply B call.2) →
      InvQ P Q (runCalls P s calls).1 ∧ CovSub s (runCalls P s calls).1 ∧
      CacheCovered (runCalls P s calls).1 ∧
      ((runCalls P s calls).2 = true → ∀ call ∈ calls, ∀ ch ∈ rangeChunks P call.1.1 call.1.2,
        ∀ x : Int, (ch.b : Int) ≤ x → x ≤ ch.e → cov x (runCalls P s calls).1.fetched) ∧
      ((∀ call ∈ calls, ReplyWithin P lo hi call.2) → NewWithin P lo hi s (runCalls P s calls).1) := by
  intro calls
  induction calls with
  | nil =>
    intro s hs hcc _
    exact ⟨hs, CovSub.refl s, hcc, (by intro _ call h; simp at h), fun _ => NewWithin.refl P lo hi s⟩
  | cons call rest ih =>
    intro s hs hcc hh
    obtain ⟨⟨o, n⟩, r⟩ := call
    rw [runCalls_cons]
    have hr : HonestReply B r := hh ((o, n), r) (List.mem_cons_self ..)
    obtain ⟨a1, a2⟩ := cacheAt_specQ P B Q hQ hc s hs o n r hr
    obtain ⟨b1, b2, b3⟩ := cacheAt_cov P B Q hQ hc lo hi s o n r hs hr hcc
    obtain ⟨i1, i2, i3, i4, i5⟩ := ih (cacheAt P s o n r).1 a1 b1
      (fun c h => hh c (List.mem_cons_of_mem _ h))
    simp only
    refine ⟨i1, CovSub.trans a2 i2, i3, ?_, ?_⟩
    · intro hok call hcall ch hch x h1 h2
      rw [Bool.and_eq_true] at hok
      rcases List.mem_cons.mp hcall with rfl | hcall
      · exact i2 x (b2 hok.1 ch hch x h1 h2)
      · exact i4 hok.2 call hcall ch hch x h1 h2
    · intro hw
      exact NewWithin.trans (b3 (hw _ (List.mem_cons_self ..)))
        (i5 (fun c h => hw c (List.mem_cons_of_mem _ h)))

/-! ### the split `Cache`: main lemmas -/

theorem cacheSplit_cov (P : Params) (B : Bytes) (Q : Chunk → Bytes → Prop) (hQ : GoodQ P B Q)
    (hc : 0 < P.chunk) (prefetch o n : Nat) (h : P.chunk < prefetch) (hn : 0 < n)
    (s : St) (hs : InvQ P Q s) (hcc : CacheCovered s) (calls : List ((Nat × Nat) × Reply))
    (hperm : (calls.map (·.1)).Perm (cacheCalls P prefetch o n))
    (hh : ∀ call ∈ calls, HonestReply B call.2) :
    InvQ P Q (runCalls P s calls).1 ∧ CovSub s (runCalls P s calls).1 ∧
    CacheCovered (runCalls P s calls).1 ∧
    ((runCalls P s calls).2 = true → ∀ ch ∈ rangeChunks P o n, ∀ x : Int,
      (ch.b : Int) ≤ x → x ≤ ch.e → cov x (runCalls P s calls).1.fetched) ∧
    ((∀ call ∈ calls, ReplyWithin P (floorU o P.chunk) (ceilU (o + n - 1) P.chunk - 1) call.2) →
      (runCalls P s calls).2 = true →
      ∀ x : Int, cov x (runCalls P s calls).1.fetched ↔
        (cov x s.fetched ∨ ((floorU o P.chunk : Int) ≤ x ∧
          x ≤ (ceilU (o + n - 1) P.chunk - 1 : Nat) ∧ x < P.size))) := by
  obtain ⟨i1, i2, i3, i4, i5⟩ := runCalls_cov P B Q hQ hc (floorU o P.chunk)
    (ceilU (o + n - 1) P.chunk - 1) calls s hs hcc hh
  have hlow : (runCalls P s calls).2 = true → ∀ ch ∈ rangeChunks P o n, ∀ x : Int,
      (ch.b : Int) ≤ x → x ≤ ch.e → cov x (runCalls P s calls).1.fetched := by
    intro hok ch hch x h1 h2
    obtain ⟨p, hp, hpc⟩ := (cacheCalls_chunks P hc prefetch o n h hn ch).mp hch
    have : p ∈ calls.map (·.1) := hperm.mem_iff.mpr hp
    obtain ⟨call, hcall, rfl⟩ := List.mem_map.mp this
    exact i4 hok call hcall ch hpc x h1 h2
  refine ⟨i1, i2, i3, hlow, ?_⟩
  intro hw hok x
  constructor
  · exact i5 hw x
  · rintro (hx | ⟨h1, h2, h3⟩)
    · exact i2 x hx
    · have hx0 : 0 ≤ x := by omega
      obtain ⟨m, rfl⟩ := Int.eq_ofNat_of_zero_le hx0
      have hcover := (chunkList_cover P hc (floorU o P.chunk) (o + n - 1) (floorU_mod ..) m).mpr
        ⟨by omega, by omega, by omega⟩
      obtain ⟨ch, hch, hb, he⟩ := hcover
      have hch' : ch ∈ rangeChunks P o n := by
        unfold rangeChunks
        rw [chunksFrom_eq_chunkList P hc _ _ _ (by omega)]; exact hch
      exact hlow hok ch hch' m (by omega) (by omega)

/-- Whatever the cache holds when a piece runs, a chunk of the range that is missing then is among
the chunks that piece fetches, and its request (multi or single range) covers it. -/
theorem cacheSplit_requests (P : Params) (hc : 0 < P.chunk) (prefetch o n : Nat)
    (h : P.chunk < prefetch) (hn : 0 < n) (ch : Chunk) (hch : ch ∈ rangeChunks P o n) :
    ∃ p ∈ cacheCalls P prefetch o n, ch ∈ rangeChunks P p.1 p.2 ∧
      ∀ (cache : Cache), cache.get ch = none → ∀ (single : Bool) (x : Int),
        (ch.b : Int) ≤ x → x ≤ ch.e →
        cov x (requestRanges single
          ((rangeChunks P p.1 p.2).filter (fun c => (cache.get c).isNone))) := by
  obtain ⟨p, hp, hpc⟩ := (cacheCalls_chunks P hc prefetch o n h hn ch).mp hch
  refine ⟨p, hp, hpc, ?_⟩
  intro cache hget single x h1 h2
  apply request_covers _ _ single ch (List.mem_filter.mpr ⟨hpc, by simp [hget]⟩) x h1 h2
  intro c hcm
  have hcm' := (List.mem_filter.mp hcm).1
  unfold rangeChunks at hcm'
  rw [chunksFrom_eq_chunkList P hc _ _ _ (by omega)] at hcm'
  exact ((gridChunk_of_mem_chunkList P hc _ _ (floorU_mod ..) c hcm').1.le hc).1

theorem readAtShared_outOfFuel (P : Params) (hc : 0 < P.chunk) (s : St) (o n : Nat)
    (script : List Round) (h : (readAtShared P s o n script).2 = .outOfFuel) :
    ∀ r ∈ script, ∃ lr loss order, r = .follow lr loss order := by
  by_cases h0 : n = 0 ∨ o > P.size
  · unfold readAtShared at h; rw [if_pos h0] at h; simp at h
  · rw [readAtShared_unfold P s o n script hc h0] at h
    simp only at h
    split at h
    · simp [finish] at h
    · exact fetchRangeShared_outOfFuel P script _ s h

/-! ### the shared fetch (with the writer restart of commit c4f4279) is exact for every cache that
never holds wrong bytes, truncated entries included -/

/-- The writer has the right window (whatever it has received). -/
def WShape (o n : Nat) (cw : Chunk × BW) : Prop :=
  cw.2.destOff = (place o n cw.1).lower ∧ cw.2.dest.length = (place o n cw.1).expected

def ShapeOK (o n : Nat) (missing : List Chunk) (ws : Writers) : Prop :=
  ws.map (·.1) = missing ∧ ∀ cw ∈ ws, WShape o n cw

theorem WOK.shape {B : Bytes} {o n : Nat} {cw : Chunk × BW} (h : WOK B o n cw) : WShape o n cw :=
  ⟨h.1, h.2.1⟩

theorem WsOK.shape {B : Bytes} {o n : Nat} {missing : List Chunk} {ws : Writers}
    (h : WsOK B o n missing ws) : ShapeOK o n missing ws :=
  ⟨h.1, fun cw hcw => (h.2 cw hcw).shape⟩

theorem shapeOK_set {o n : Nat} {missing : List Chunk} {ws : Writers} {c : Chunk} {w : BW}
    (h : ShapeOK o n missing ws) (hw : WShape o n (c, w)) : ShapeOK o n missing (ws.set c w) := by
  refine ⟨by rw [Writers.keys_set]; exact h.1, ?_⟩
  intro cw hcw
  rcases Writers.mem_set hcw with ⟨rfl, _⟩ | ⟨hm, _⟩
  · exact hw
  · exact h.2 cw hm

theorem wsOK_reset (B : Bytes) (o n : Nat) (missing : List Chunk) (ws : Writers)
    (h : ShapeOK o n missing ws) : WsOK B o n missing (resetWs ws) := by
  refine ⟨?_, ?_⟩
  · unfold resetWs
    rw [List.map_map]
    rw [← h.1]
    apply List.map_congr_left
    intro kv _; rfl
  · intro cw hcw
    unfold resetWs at hcw
    obtain ⟨kv, hkv, rfl⟩ := List.mem_map.mp hcw
    exact ⟨(h.2 kv hkv).1, (h.2 kv hkv).2, Or.inl rfl⟩

/-- `copyFetchedChunks` for one chunk when entries may be truncated (`CachePrefixOK`): success
still means a complete, correct copy; a failure may leave a partial stream in the writer. -/
theorem copyChunk_prefix (P : Params) (B : Bytes) (hc : 0 < P.chunk) (hB : B.length = P.size)
    (o n : Nat) (cache : Cache) (hcache : CachePrefixOK P B cache) (c : Chunk) (w : BW)
    (hw : WOK B o n (c, w))
    (hb : (place o n c).lower + (place o n c).expected ≤ c.size) :
    WShape o n (c, (copyChunk cache c w).1) ∧
    ((copyChunk cache c w).2 = true → WDone B o n (c, (copyChunk cache c w).1)) := by
  unfold copyChunk
  cases hget : cache.get c with
  | none => exact ⟨hw.shape, fun h => by simp at h⟩
  | some d =>
    obtain ⟨hd, hg⟩ := hcache c d hget
    simp only
    obtain ⟨f1, _, f3⟩ := BW.write_fields w (d.take c.size)
    refine ⟨⟨by simp only; rw [f1]; exact hw.1, by simp only; rw [f3]; exact hw.2.1⟩, ?_⟩
    intro hok
    simp only [decide_eq_true_eq] at hok
    have htake : d.take c.size = slice B c.b c.size := by
      conv => lhs; rw [hd]
      rw [take_slice]; congr 1; omega
    have hlen : (d.take c.size).length = c.size := by
      rw [htake]; exact gridChunk_slice_length P B hc hB c hg
    exact wdone_write B o n c w _ hw htake hlen hb

theorem copyInOrder_prefix (P : Params) (B : Bytes) (hc : 0 < P.chunk) (hB : B.length = P.size)
    (o n : Nat) (missing : List Chunk)
    (hb : ∀ c ∈ missing, (place o n c).lower + (place o n c).expected ≤ c.size)
    (cache : Cache) (hcache : CachePrefixOK P B cache) :
    ∀ (order : List Chunk) (ws : Writers), WsOK B o n missing ws →
      ShapeOK o n missing (copyInOrder cache ws order).1 ∧
      ((copyInOrder cache ws order).2 = true →
        WsOK B o n missing (copyInOrder cache ws order).1 ∧
        (∀ c', DoneKey B o n ws c' → DoneKey B o n (copyInOrder cache ws order).1 c') ∧
        ∀ c ∈ order, DoneKey B o n (copyInOrder cache ws order).1 c) := by
  intro order
  induction order with
  | nil =>
    intro ws h
    exact ⟨h.shape, fun _ => ⟨h, fun _ h' => h', fun c hc' => by simp at hc'⟩⟩
  | cons c rest ih =>
    intro ws hws
    unfold copyInOrder
    cases hget : ws.get c with
    | none =>
      simp only
      obtain ⟨i0, i⟩ := ih ws hws
      refine ⟨i0, fun hok => ?_⟩
      obtain ⟨i1, i2, i3⟩ := i hok
      refine ⟨i1, i2, ?_⟩
      intro c' hc'
      rcases List.mem_cons.mp hc' with rfl | hc'
      · intro cw hcw hk
        have : c' ∈ ws.map (·.1) := by
          rw [hws.1, ← i1.1]; exact List.mem_map.mpr ⟨cw, hcw, hk⟩
        exact absurd hget (Writers.get_ne_none this)
      · exact i3 c' hc'
    | some w =>
      simp only
      have hm := Writers.get_mem hget
      have hcm : c ∈ missing := by rw [← hws.1]; exact List.mem_map.mpr ⟨(c, w), hm, rfl⟩
      obtain ⟨e1, e2⟩ := copyChunk_prefix P B hc hB o n cache hcache c w (hws.2 _ hm) (hb c hcm)
      rcases hcc : copyChunk cache c w with ⟨w', ok⟩
      rw [hcc] at e1 e2
      cases ok with
      | false =>
        simp only
        exact ⟨shapeOK_set hws.shape e1, fun h => by simp at h⟩
      | true =>
        simp only
        have hd : WDone B o n (c, w') := e2 rfl
        obtain ⟨i0, i⟩ := ih (ws.set c w') (wsOK_set hws hd.wok)
        refine ⟨i0, fun hok => ?_⟩
        obtain ⟨i1, i2, i3⟩ := i hok
        refine ⟨i1, fun c' h' => i2 c' (doneKey_set hd h'), ?_⟩
        intro c' hc'
        rcases List.mem_cons.mp hc' with rfl | hc'
        · exact i2 c' (doneKey_set_self hd)
        · exact i3 c' hc'

theorem fetchRangeShared_exact (P : Params) (B : Bytes) (hc : 0 < P.chunk)
    (hB : B.length = P.size) :
    ∀ (script : List Round) (pd : Pending) (s : St),
      PendOK P B pd.o pd.n pd.cs pd.hits pd.missing → WsOK B pd.o pd.n pd.missing pd.ws →
      InvQ P (QPrefix P B) s → (∀ r ∈ script, r.Honest B) →
      InvQ P (QPrefix P B) (fetchRangeShared P pd s script).1 ∧
      CovSub s (fetchRangeShared P pd s script).1 ∧
      SharedExact P B pd.o pd.n (fetchRangeShared P pd s script).2 := by
  intro script
  induction script with
  | nil =>
    intro pd s _ _ hs _
    exact ⟨hs, CovSub.refl s, by intro k buf h; simp [fetchRangeShared] at h⟩
  | cons round rest ih =>
    intro pd s hp hws hs hr
    have hround := hr round (List.mem_cons_self ..)
    cases round with
    | lead reply =>
      simp only [fetchRangeShared]
      obtain ⟨h1, h2, h3⟩ := fetchMissing_spec P B _ (goodQ_prefix P B) hc s pd.missing reply
        hs hround
      generalize fetchMissing P s pd.missing reply = R at h1 h2 h3
      obtain ⟨s1, r1⟩ := R
      cases r1 with
      | none => exact ⟨h1, h2, by intro k buf h; simp at h⟩
      | some got =>
        simp only
        obtain ⟨hex, hall⟩ := h3 got rfl
        obtain ⟨a1, _, a3⟩ := applyGot_exact P B hc hB pd.o pd.n pd.missing hp.bound got pd.ws hex hws
        refine ⟨h1, h2, ?_⟩
        apply sharedExact_finish P B { pd with ws := applyGot pd.ws got } hp a1
        intro c hcm
        obtain ⟨cd, hcd, rfl⟩ := hall c hcm
        exact a3 cd hcd
    | follow lr loss order =>
      simp only [fetchRangeShared]
      split
      · exact ⟨hs, CovSub.refl s, by intro k buf h; simp at h⟩
      · rename_i hperm
        have hperm : order.Perm pd.missing := by
          rw [← List.isPerm_iff]; simpa using hperm
        obtain ⟨h1, h2, _⟩ := fetchMissing_spec P B _ (goodQ_prefix P B) hc s pd.missing lr
          hs hround
        generalize fetchMissing P s pd.missing lr = R at h1 h2
        obtain ⟨s1, r1⟩ := R
        cases r1 with
        | none => exact ⟨h1, h2, by intro k buf h; simp at h⟩
        | some got =>
          simp only
          have hinv := lose_invQ P _ loss s1 h1 (Or.inr (truncClosed_prefix P B))
          have hsub : CovSub s { s1 with cache := loss.foldl Cache.lose s1.cache } := h2
          obtain ⟨c0, c1⟩ := copyInOrder_prefix P B hc hB pd.o pd.n pd.missing hp.bound
            (loss.foldl Cache.lose s1.cache) hinv.cacheQ order pd.ws hws
          rcases hco : copyInOrder (loss.foldl Cache.lose s1.cache) pd.ws order with ⟨ws', ok⟩
          rw [hco] at c0 c1
          cases ok with
          | true =>
            simp only
            obtain ⟨d1, _, d3⟩ := c1 rfl
            refine ⟨hinv, hsub, ?_⟩
            apply sharedExact_finish P B { pd with ws := ws' } hp d1
            intro c hcm
            exact d3 c (hperm.mem_iff.mpr hcm)
          | false =>
            simp only
            obtain ⟨i1, i2, i3⟩ := ih { pd with ws := resetWs ws' }
              { s1 with cache := loss.foldl Cache.lose s1.cache } hp
              (wsOK_reset B pd.o pd.n pd.missing ws' c0) hinv
              (fun r h => hr r (List.mem_cons_of_mem _ h))
            exact ⟨i1, CovSub.trans hsub i2, i3⟩

/-- `ReadAt` on the shared path (current code): every successful result is exact, for any rounds,
any map order and any cache loss, truncation included. -/
theorem readAtShared_exact (P : Params) (B : Bytes) (hc : 0 < P.chunk) (hB : B.length = P.size)
    (s : St) (hs : InvQ P (QPrefix P B) s) (o n : Nat) (script : List Round)
    (hr : ∀ r ∈ script, r.Honest B) :
    InvQ P (QPrefix P B) (readAtShared P s o n script).1 ∧
    CovSub s (readAtShared P s o n script).1 ∧
    SharedExact P B o n (readAtShared P s o n script).2 := by
  by_cases h : n = 0 ∨ o > P.size
  · unfold readAtShared
    rw [if_pos h]
    refine ⟨hs, CovSub.refl s, ?_⟩
    intro k buf hk
    cases hk
    have : min n (P.size - o) = 0 := by omega
    rw [this]
    exact ⟨rfl, by simp, by simp [slice]⟩
  · rw [readAtShared_unfold P s o n script hc h]
    have hp := pendOK_prepared P B _ (goodQ_prefix P B) hc hB s hs o n (by omega) (by omega)
    have hws := wsOK_prepared B s o n (chunksFrom P (o + n - 1) (P.size + 1) (floorU o P.chunk))
    simp only at hp ⊢
    split
    · rename_i hemp
      refine ⟨hs, CovSub.refl s, ?_⟩
      apply sharedExact_finish P B _ hp hws
      intro c hcm
      rw [List.isEmpty_iff] at hemp
      rw [hemp] at hcm
      simp at hcm
    · exact fetchRangeShared_exact P B hc hB script _ s hp hws hs hr

/-- Until a copy fails the code before and after commit c4f4279 is the same function. -/
theorem fetchRangeShared_lead_eq_old (P : Params) (pd : Pending) (s : St) (reply : Reply)
    (rest : List Round) :
    fetchRangeShared P pd s (.lead reply :: rest) =
      fetchRangeSharedOld P pd s (.lead reply :: rest) := by
  simp only [fetchRangeShared, fetchRangeSharedOld]

/-! ### `CacheCovered` holds along every history -/

/-- An entry seen after a loss was an entry (possibly longer) before. -/
theorem Cache.get_lose (cache : Cache) (l : Loss) (c : Chunk) (d : Bytes)
    (h : (cache.lose l).get c = some d) : ∃ d', cache.get c = some d' := by
  have hs : InvQ ⟨0, 1⟩ (fun c _ => ∃ d', cache.get c = some d') { cache := cache, fetched := [] } :=
    ⟨fun c d h => ⟨d, h⟩, ⟨by simp, by simp⟩, by intro l hl; simp at hl⟩
  cases l with
  | evict c0 => exact (dropEntry_specQ _ _ _ hs c0).1.cacheQ c d h
  | trunc c0 k => exact (truncEntry_specQ _ _ (fun _ _ _ h => h) _ hs c0 k).1.cacheQ c d h

theorem cacheCovered_lose (s : St) (loss : List Loss) (h : CacheCovered s) :
    CacheCovered { s with cache := loss.foldl Cache.lose s.cache } := by
  induction loss generalizing s with
  | nil => exact h
  | cons l loss ih =>
    apply ih { s with cache := s.cache.lose l }
    intro c d hget x h1 h2
    obtain ⟨d', hd'⟩ := Cache.get_lose s.cache l c d hget
    exact h c d' hd' x h1 h2

theorem readAt_cacheCovered (P : Params) (B : Bytes) (Q : Chunk → Bytes → Prop) (hQ : GoodQ P B Q)
    (hc : 0 < P.chunk) (s : St) (hs : InvQ P Q s) (hcc : CacheCovered s) (o n : Nat)
    (reply : Reply) (hr : HonestReply B reply) : CacheCovered (readAt P s o n reply).1 := by
  by_cases h : n = 0 ∨ o > P.size
  · unfold readAt; rw [if_pos h]; exact hcc
  · rw [readAt_unfold P s o n reply hc h]
    simp only
    have := (fetchMissing_cov P B Q hQ hc 0 0 s (classify o n s.cache
      (chunksFrom P (o + n - 1) (P.size + 1) (floorU o P.chunk))).2 reply hs hr hcc).1
    generalize fetchMissing P s (classify o n s.cache
      (chunksFrom P (o + n - 1) (P.size + 1) (floorU o P.chunk))).2 reply = R at this
    obtain ⟨s1, r1⟩ := R
    cases r1 <;> exact this

theorem runOps_cacheCovered (P : Params) (B : Bytes) (Q : Chunk → Bytes → Prop) (hQ : GoodQ P B Q)
    (hT : TruncClosed Q) (hc : 0 < P.chunk) (hB : B.length = P.size) :
    ∀ (ops : List Op) (s : St), InvQ P Q s → CacheCovered s → (∀ op ∈ ops, op.Honest B) →
      CacheCovered (runOps P s ops) := by
  intro ops
  induction ops with
  | nil => intro s _ h _; exact h
  | cons op ops ih =>
    intro s hs hcc hh
    have ho := hh op (List.mem_cons_self ..)
    obtain ⟨h1, _, _⟩ := stepOp_specQ P B Q hQ hc hB s hs op ho (Or.inr hT)
    have hcc' : CacheCovered (stepOp P s op).1 := by
      cases op with
      | read o n r => exact readAt_cacheCovered P B Q hQ hc s hs hcc o n r ho
      | cache o n r => exact (cacheAt_cov P B Q hQ hc 0 0 s o n r hs ho hcc).1
      | drop c => exact cacheCovered_lose s [.evict c] hcc
      | trunc c k => exact cacheCovered_lose s [.trunc c k] hcc
    exact ih (stepOp P s op).1 h1 hcc' (fun op' h' => hh op' (List.mem_cons_of_mem _ h'))

end SV.Blob
