/-
Helper lemmas for C06 part C: the shared single-flight path and the split `Cache`
(`SV/Model/BlobShared.lean`).  Core-only.
-/
import SV.Model.BlobShared
import SV.Lemmas.Blob

namespace SV.Blob
open SV.Region

/-! ### more about `bytesWriter` -/

theorem BW.ext' {w1 w2 : BW} (h1 : w1.dest = w2.dest) (h2 : w1.destOff = w2.destOff)
    (h3 : w1.current = w2.current) : w1 = w2 := by
  cases w1; cases w2; simp_all

/-- Any split of the stream into `Write` calls is the same as one `Write` of the whole stream. -/
theorem BW.fold_eq_write (ps : List Bytes) (w : BW) : ps.foldl BW.write w = w.write ps.flatten := by
  obtain ⟨f1, f2, f3, f4⟩ := BW.fold_spec ps w
  obtain ⟨g1, g2, g3⟩ := BW.write_fields w ps.flatten
  apply BW.ext'
  · apply List.ext_getElem?
    intro j
    rw [f4 j, BW.write_getElem? w ps.flatten j]
  · rw [f1, g1]
  · rw [f2, g2]

/-- A fresh writer that receives a stream reaching past its window holds exactly the window. -/
theorem BW.write_full (w : BW) (d : Bytes) (h0 : w.current = 0)
    (h : w.destOff + w.dest.length ≤ d.length) :
    (w.write d).dest = slice d w.destOff w.dest.length := by
  apply List.ext_getElem?
  intro j
  rw [BW.write_getElem? w d j, h0]
  unfold slice
  rw [List.getElem?_take, List.getElem?_drop]
  by_cases hj : j < w.dest.length
  · rw [if_pos ⟨by omega, by omega, hj⟩, if_pos hj]; congr 1
  · rw [if_neg (by omega), if_neg hj, List.getElem?_eq_none (by omega)]

/-- A writer whose stream position is past its window ignores further writes. -/
theorem BW.write_complete (w : BW) (p : Bytes) (h : w.destOff + w.dest.length ≤ w.current) :
    (w.write p).dest = w.dest := by
  apply List.ext_getElem?
  intro j
  rw [BW.write_getElem? w p j, if_neg (by omega)]

/-! ### writers -/

theorem Writers.get_mem {ws : Writers} {c : Chunk} {w : BW} (h : ws.get c = some w) :
    (c, w) ∈ ws := by
  unfold Writers.get at h
  rw [Option.map_eq_some_iff] at h
  obtain ⟨kv, hkv, rfl⟩ := h
  have hp := List.find?_some hkv
  simp only [decide_eq_true_eq] at hp
  have hm := List.mem_of_find?_eq_some hkv
  rw [← hp]; exact hm

theorem Writers.get_ne_none {ws : Writers} {c : Chunk} (h : c ∈ ws.map (·.1)) :
    ws.get c ≠ none := by
  obtain ⟨kv, hkv, rfl⟩ := List.mem_map.mp h
  unfold Writers.get
  intro hn
  rw [Option.map_eq_none_iff, List.find?_eq_none] at hn
  exact hn kv hkv (by simp)

theorem Writers.mem_set {ws : Writers} {c : Chunk} {w : BW} {cw : Chunk × BW}
    (h : cw ∈ ws.set c w) : (cw = (c, w) ∧ ∃ kv ∈ ws, kv.1 = c) ∨ (cw ∈ ws ∧ cw.1 ≠ c) := by
  unfold Writers.set at h
  obtain ⟨kv, hkv, rfl⟩ := List.mem_map.mp h
  by_cases hk : kv.1 = c
  · rw [if_pos hk]; exact Or.inl ⟨rfl, kv, hkv, hk⟩
  · rw [if_neg hk]; exact Or.inr ⟨hkv, hk⟩

theorem Writers.keys_set (ws : Writers) (c : Chunk) (w : BW) :
    (ws.set c w).map (·.1) = ws.map (·.1) := by
  unfold Writers.set
  rw [List.map_map]
  apply List.map_congr_left
  intro kv _
  simp only [Function.comp]
  split
  · rename_i h; exact h.symm
  · rfl

/-! ### writer invariant (all-or-nothing cache reads) -/

/-- The writer of chunk `c` is set up for `ReadAt(o, n)` and is either untouched or has received a
complete, correct stream. -/
def WOK (B : Bytes) (o n : Nat) (cw : Chunk × BW) : Prop :=
  cw.2.destOff = (place o n cw.1).lower ∧ cw.2.dest.length = (place o n cw.1).expected ∧
  (cw.2.current = 0 ∨
    (cw.2.destOff + cw.2.dest.length ≤ cw.2.current ∧
      cw.2.dest = slice B (cw.1.b + (place o n cw.1).lower) (place o n cw.1).expected))

/-- The writer has received a complete, correct stream. -/
def WDone (B : Bytes) (o n : Nat) (cw : Chunk × BW) : Prop :=
  cw.2.destOff = (place o n cw.1).lower ∧ cw.2.dest.length = (place o n cw.1).expected ∧
  cw.2.destOff + cw.2.dest.length ≤ cw.2.current ∧
  cw.2.dest = slice B (cw.1.b + (place o n cw.1).lower) (place o n cw.1).expected

theorem WDone.wok {B : Bytes} {o n : Nat} {cw : Chunk × BW} (h : WDone B o n cw) : WOK B o n cw :=
  ⟨h.1, h.2.1, Or.inr h.2.2⟩

theorem wok_newWriter (B : Bytes) (o n : Nat) (c : Chunk) : WOK B o n (c, newWriter o n c) :=
  ⟨rfl, by simp [newWriter], Or.inl rfl⟩

/-- Writing the true, complete chunk data completes the writer (or leaves a completed one alone). -/
theorem wdone_write (B : Bytes) (o n : Nat) (c : Chunk) (w : BW) (d : Bytes)
    (hw : WOK B o n (c, w)) (hd : d = slice B c.b c.size) (hlen : d.length = c.size)
    (hb : (place o n c).lower + (place o n c).expected ≤ c.size) :
    WDone B o n (c, w.write d) := by
  obtain ⟨h1, h2, h3⟩ := hw
  simp only at h1 h2 h3
  obtain ⟨f1, f2, f3⟩ := BW.write_fields w d
  refine ⟨by simp only; rw [f1, h1], by simp only; rw [f3, h2], ?_, ?_⟩
  · simp only; rw [f1, f2, f3]
    rcases h3 with h3 | h3 <;> omega
  · simp only
    rcases h3 with h3 | ⟨h3, h4⟩
    · rw [BW.write_full w d h3 (by omega), h1, h2, hd, slice_slice _ _ _ _ _ hb]
    · rw [BW.write_complete w d h3]; exact h4

/-- All writers with key `c` are done. -/
def DoneKey (B : Bytes) (o n : Nat) (ws : Writers) (c : Chunk) : Prop :=
  ∀ cw ∈ ws, cw.1 = c → WDone B o n cw

/-- Writers set-up: keys are the missing chunks, every writer is fresh or done. -/
def WsOK (B : Bytes) (o n : Nat) (missing : List Chunk) (ws : Writers) : Prop :=
  ws.map (·.1) = missing ∧ ∀ cw ∈ ws, WOK B o n cw

theorem wsOK_set {B : Bytes} {o n : Nat} {missing : List Chunk} {ws : Writers} {c : Chunk} {w : BW}
    (h : WsOK B o n missing ws) (hw : WOK B o n (c, w)) : WsOK B o n missing (ws.set c w) := by
  refine ⟨by rw [Writers.keys_set]; exact h.1, ?_⟩
  intro cw hcw
  rcases Writers.mem_set hcw with ⟨rfl, _⟩ | ⟨hm, _⟩
  · exact hw
  · exact h.2 cw hm

theorem doneKey_set {B : Bytes} {o n : Nat} {ws : Writers} {c c' : Chunk} {w : BW}
    (hw : WDone B o n (c, w)) (h : DoneKey B o n ws c') : DoneKey B o n (ws.set c w) c' := by
  intro cw hcw hk
  rcases Writers.mem_set hcw with ⟨rfl, _⟩ | ⟨hm, _⟩
  · exact hw
  · exact h cw hm hk

theorem doneKey_set_self {B : Bytes} {o n : Nat} {ws : Writers} {c : Chunk} {w : BW}
    (hw : WDone B o n (c, w)) : DoneKey B o n (ws.set c w) c := by
  intro cw hcw hk
  rcases Writers.mem_set hcw with ⟨rfl, _⟩ | ⟨_, hne⟩
  · exact hw
  · exact absurd hk hne

end SV.Blob
