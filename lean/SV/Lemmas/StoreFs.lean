/-
Lemmas about the FUSE node layer model `SV.StoreFs` (store/fs.go + the go-fuse inode bookkeeping).
-/
import SV.Model.StoreFs
import SV.Lemmas.Store

namespace SV.StoreFs
open SV.Store

/-! ### idMap -/

theorem idGet_spec (m : IdMap) (i : Nat) (h : idGet m = some i) :
    i ∉ m ∧ 1 ≤ i ∧ i ≤ maxU32 ∧ ∀ j, 1 ≤ j → j < i → j ∈ m := by
  unfold idGet at h
  split at h
  · rename_i k hk
    split at h
    · cases h
      rename_i hle
      have h1 := List.find?_some hk
      have h2 := List.mem_of_find?_eq_some hk
      rw [List.mem_range'_1] at h2
      refine ⟨by simpa using h1, h2.1, hle, ?_⟩
      intro j hj1 hji
      have := List.find?_eq_some_iff_append.mp hk
      obtain ⟨_, as, bs, hab, hall⟩ := this
      apply Classical.byContradiction
      intro hnm
      have hjmem : j ∈ List.range' 1 (m.length + 1) := by
        rw [List.mem_range'_1]; omega
      rw [hab] at hjmem
      rcases List.mem_append.mp hjmem with hj | hj
      · have := hall j hj; simp [hnm] at this
      · -- j is at or after i in an increasing list
        have hs : (List.range' 1 (m.length + 1)).Pairwise (· < ·) := List.pairwise_lt_range'
        rw [hab] at hs
        have := (List.pairwise_append.mp hs).2.1
        rcases List.mem_cons.mp hj with e | e
        · omega
        · have := (List.pairwise_cons.mp this).1 j e; omega
    · cases h
  · cases h

theorem idRemove_spec (m : IdMap) (id j : Nat) : j ∈ idRemove m id ↔ j ∈ m ∧ j ≠ id := by
  unfold idRemove; simp

/-! ### The invariant of the inode numbers -/

theorem diffIno_inj (a b : Nat) (h : diffIno a = diffIno b) : a = b := by
  unfold diffIno at h; omega

/-- inode numbers of the nodes that exist are pairwise distinct, allocated in `nodeMap` (`diff`
directories: derived from an allocated `layerMap` id), and the bridge never found two inodes under
one StableAttr. -/
structure J (s : St) : Prop where
  alloc : ∀ n, n ∈ s.nodes → n.kind.isDiff = false → n.ino ∈ s.nodeMap
  small : ∀ i, i ∈ s.nodeMap → i ≤ maxU32
  npos : ∀ i, i ∈ s.nodeMap → 1 ≤ i
  diffI : ∀ n, n ∈ s.nodes → n.kind.isDiff = true → ∃ b, n.ino = diffIno b ∧ b ∈ s.layerMap
  lpos : ∀ b, b ∈ s.layerMap → 1 ≤ b
  uniq : s.nodes.Pairwise (fun a b => a.ino ≠ b.ino)
  idlt : ∀ n, n ∈ s.nodes → n.id < s.nextId
  noclash : s.clash = false

theorem J_init : J init := by
  constructor <;> simp [init]

theorem pw_inj (l : List Node) (h : l.Pairwise (fun a b => a.ino ≠ b.ino)) (a b : Node)
    (ha : a ∈ l) (hb : b ∈ l) (e : a.ino = b.ino) : a = b := by
  induction l with
  | nil => cases ha
  | cons x xs ih =>
    rw [List.pairwise_cons] at h
    rcases List.mem_cons.mp ha with rfl | ha' <;> rcases List.mem_cons.mp hb with rfl | hb'
    · rfl
    · exact absurd e (h.1 b hb')
    · exact absurd e.symm (h.1 a ha')
    · exact ih h.2 ha' hb'

/-- a function on nodes that keeps identity, kind and inode number. -/
def Good (f : Node → Node) : Prop := ∀ n, (f n).id = n.id ∧ (f n).kind = n.kind ∧ (f n).ino = n.ino

theorem good_upd_fun (i : Nat) (f : Node → Node) (hf : Good f) :
    Good (fun n => if n.id = i then f n else n) := by
  intro n; dsimp only; split
  · exact hf n
  · exact ⟨rfl, rfl, rfl⟩

/-- `s'` arises from `s` by surgery on the node tree only. -/
structure Le (s s' : St) : Prop where
  lm : s'.lm = s.lm
  lmap : s'.layerMap = s.layerMap
  nid : s'.nextId = s.nextId
  j : J s → J s'

theorem Le.refl (s : St) : Le s s := ⟨rfl, rfl, rfl, id⟩

theorem Le.trans {a b c : St} (h1 : Le a b) (h2 : Le b c) : Le a c :=
  ⟨h2.lm.trans h1.lm, h2.lmap.trans h1.lmap, h2.nid.trans h1.nid, fun h => h2.j (h1.j h)⟩

theorem le_map (s : St) (f : Node → Node) (hf : Good f) : Le s { s with nodes := s.nodes.map f } := by
  refine ⟨rfl, rfl, rfl, fun hJ => ?_⟩
  constructor
  · intro n hn hk
    obtain ⟨m, hm, rfl⟩ := List.mem_map.mp hn
    rw [(hf m).2.2]; rw [(hf m).2.1] at hk; exact hJ.alloc m hm hk
  · exact hJ.small
  · exact hJ.npos
  · intro n hn hk
    obtain ⟨m, hm, rfl⟩ := List.mem_map.mp hn
    rw [(hf m).2.2]; rw [(hf m).2.1] at hk; exact hJ.diffI m hm hk
  · exact hJ.lpos
  · show (s.nodes.map f).Pairwise _
    rw [List.pairwise_map]
    exact hJ.uniq.imp (fun {a b} h => by rw [(hf a).2.2, (hf b).2.2]; exact h)
  · intro n hn
    obtain ⟨m, hm, rfl⟩ := List.mem_map.mp hn
    rw [(hf m).1]; exact hJ.idlt m hm
  · exact hJ.noclash

theorem le_upd (s : St) (i : Nat) (f : Node → Node) (hf : Good f) :
    Le s { s with nodes := upd s.nodes i f } :=
  le_map s _ (good_upd_fun i f hf)

theorem le_filter (s : St) (p : Node → Bool) : Le s { s with nodes := s.nodes.filter p } := by
  refine ⟨rfl, rfl, rfl, fun hJ => ?_⟩
  constructor
  · intro n hn hk; exact hJ.alloc n (List.mem_filter.mp hn).1 hk
  · exact hJ.small
  · exact hJ.npos
  · intro n hn hk; exact hJ.diffI n (List.mem_filter.mp hn).1 hk
  · exact hJ.lpos
  · exact hJ.uniq.sublist List.filter_sublist
  · intro n hn; exact hJ.idlt n (List.mem_filter.mp hn).1
  · exact hJ.noclash

/-- dropping node `n0` and running its `OnForget` (with a copy `n'` that has the same inode
number) keeps the invariant: no other node has that number. -/
theorem le_drop_forget (s : St) (n0 n' : Node) (h0 : n0 ∈ s.nodes) (hi : n'.ino = n0.ino)
    (hk : n'.kind = n0.kind) :
    Le s (onForget { s with nodes := dropNode s.nodes n0.id } n') := by
  unfold onForget
  split
  · exact le_filter s _
  · rename_i hnd
    refine ⟨rfl, rfl, rfl, fun hJ => ?_⟩
    have hF := (le_filter s (fun n => n.id != n0.id)).j hJ
    constructor
    · intro n hn hkn
      have hmem := (List.mem_filter.mp hn)
      have hne : n.id ≠ n0.id := by simpa using hmem.2
      show n.ino ∈ idRemove s.nodeMap n'.ino
      rw [idRemove_spec]
      refine ⟨hJ.alloc n hmem.1 hkn, ?_⟩
      intro e
      have := pw_inj s.nodes hJ.uniq n n0 hmem.1 h0 (by rw [e, hi])
      exact hne (by rw [this])
    · intro i hi'
      have : i ∈ idRemove s.nodeMap n'.ino := hi'
      rw [idRemove_spec] at this
      exact hJ.small i this.1
    · intro i hi'
      have : i ∈ idRemove s.nodeMap n'.ino := hi'
      rw [idRemove_spec] at this
      exact hJ.npos i this.1
    · exact hF.diffI
    · exact hF.lpos
    · exact hF.uniq
    · exact hF.idlt
    · exact hF.noclash

theorem node?_mem (s : St) (i : Nat) (n : Node) (h : node? s i = some n) : n ∈ s.nodes ∧ n.id = i := by
  unfold node? at h
  exact ⟨List.mem_of_find?_eq_some h, by simpa using List.find?_some h⟩

theorem good_rr (nl : Nat) (drop : Bool) : Good (rrF nl drop) := by
  intro n; unfold rrF
  split
  · exact ⟨rfl, rfl, rfl⟩
  · split <;> exact ⟨rfl, rfl, rfl⟩

theorem removeRefInner_le (s : St) (i nl : Nat) (drop : Bool) (r : RR)
    (h : removeRefInner s i nl drop = some r) :
    Le s r.s ∧ r.s.nodeMap = s.nodeMap ∧ r.s.clash = s.clash ∧
      (∀ n', r.dropped = some n' → Le s (onForget r.s n')) ∧
      (r.dropped = none → r.unused = none) := by
  unfold removeRefInner at h
  cases hn : node? s i with
  | none => rw [hn] at h; cases h
  | some n =>
    rw [hn] at h
    obtain ⟨hmem, hid⟩ := node?_mem s i n hn
    by_cases hc : (decide ((rrF nl drop n).lookups > 0) || hasChildren s i || (rrF nl drop n).persistent) = true
    · simp only [hc, if_true] at h
      cases h
      exact ⟨le_upd s i _ (good_rr nl drop), rfl, rfl, (fun _ h => by cases h), (fun _ => rfl)⟩
    · simp only [hc] at h
      cases h
      refine ⟨le_filter s _, rfl, rfl, ?_, (fun h => by cases h)⟩
      intro n' hn'
      cases hn'
      have := le_drop_forget s n _ hmem ((good_rr nl drop n).2.2) ((good_rr nl drop n).2.1)
      rw [hid] at this
      exact this

theorem onForget_fields (s : St) (n : Node) :
    (onForget s n).lm = s.lm ∧ (onForget s n).layerMap = s.layerMap ∧
    (onForget s n).nextId = s.nextId ∧ (onForget s n).clash = s.clash ∧
    (onForget s n).nodes = s.nodes := by
  unfold onForget; split <;> simp

theorem cascade_le (f : Nat) (s : St) (u : Option Nat) : Le s (cascade f s u) := by
  induction f generalizing s u with
  | zero => cases u <;> exact Le.refl s
  | succ f ih =>
    cases u with
    | none => exact Le.refl s
    | some p =>
      unfold cascade
      cases hr : removeRefInner s p 0 false with
      | none => exact Le.refl s
      | some r =>
        obtain ⟨h1, _, _, h2, _⟩ := removeRefInner_le s p 0 false r hr
        dsimp only
        cases hd : r.dropped with
        | none => exact h1
        | some pn => exact (h2 pn hd).trans (ih _ _)

theorem removeRef_le (s : St) (i nl : Nat) (drop : Bool) : Le s (removeRef s i nl drop) := by
  unfold removeRef
  cases hr : removeRefInner s i nl drop with
  | none => exact Le.refl s
  | some r =>
    obtain ⟨h1, _, _, h2, _⟩ := removeRefInner_le s i nl drop r hr
    dsimp only
    cases hd : r.dropped with
    | none => exact h1
    | some n =>
      dsimp only
      split
      · exact (h2 n hd).trans (cascade_le _ _ _)
      · exact h1.trans (cascade_le _ _ _)

theorem rmChild_le (s : St) (p : Nat) (nm : Name) : Le s (rmChild s p nm) := by
  unfold rmChild
  cases hc : child? s.nodes p nm with
  | none => exact Le.refl s
  | some c =>
    have h1 : Le s { s with nodes := upd s.nodes c.id (fun n => { n with parent := none }) } :=
      le_upd s c.id _ (fun n => ⟨rfl, rfl, rfl⟩)
    dsimp only
    split
    · exact h1
    · split
      · exact h1
      · split
        · exact h1
        · exact h1.trans (removeRef_le _ _ _ _)

theorem foldl_le {α : Type} (g : St → α → St) (hg : ∀ s a, Le s (g s a)) (l : List α) (s : St) :
    Le s (l.foldl g s) := by
  induction l generalizing s with
  | nil => exact Le.refl s
  | cons a as ih => exact (hg s a).trans (ih _)

theorem rmAll_le (f : Nat) (s : St) (i : Nat) : Le s (rmAll f s i) := by
  induction f generalizing s i with
  | zero => exact removeRef_le s i 0 true
  | succ f ih =>
    unfold rmAll
    exact (foldl_le (fun s (c : Node) => rmChild (rmAll f s c.id) i c.name)
      (fun s (c : Node) => (ih s c.id).trans (rmChild_le _ _ _)) _ s).trans (removeRef_le _ _ _ _)

/-! ### addNewChild / newInodeWithID -/

theorem good_add (p : Nat) (nm : Name) : Good (relink p nm) :=
  fun _ => ⟨rfl, rfl, rfl⟩

/-- re-linking a node that exists. -/
theorem addChild_old (s : St) (p : Nat) (nm : Name) (c : Node) (hc : c ∈ s.nodes) (hJ : J s) :
    J (addChild s p nm c).1 ∧ (addChild s p nm c).1.lm = s.lm ∧
    (addChild s p nm c).1.nodeMap = s.nodeMap ∧ (addChild s p nm c).1.layerMap = s.layerMap := by
  unfold addChild
  dsimp only
  have hany : (s.nodes.any fun m => m.id == c.id) = true := by
    rw [List.any_eq_true]; exact ⟨c, hc, by simp⟩
  rw [if_pos hany]
  refine ⟨?_, rfl, rfl, rfl⟩
  have hcl : clashWith s.nodes c = false := by
    unfold clashWith
    rw [List.any_eq_false]
    intro m hm hh
    simp only [Bool.and_eq_true, bne_iff_ne, ne_eq, beq_iff_eq] at hh
    have := pw_inj s.nodes hJ.uniq m c hm hc hh.1.2
    exact hh.1.1.1 (by rw [this])
  have hJ' := (le_upd s c.id _ (good_add p nm)).j hJ
  constructor
  · exact hJ'.alloc
  · exact hJ'.small
  · exact hJ'.npos
  · exact hJ'.diffI
  · exact hJ'.lpos
  · exact hJ'.uniq
  · exact hJ'.idlt
  · show (s.clash || _) = false
    rw [hcl, hJ.noclash]; rfl

/-- linking a node the handler has just created under a number nobody has. -/
theorem addChild_new (s : St) (p : Nat) (nm : Name) (c : Node) (hJ : J s)
    (hid : c.id = s.nextId) (hfresh : ∀ m, m ∈ s.nodes → m.ino ≠ c.ino)
    (ha : c.kind.isDiff = false → c.ino ∈ s.nodeMap)
    (hd : c.kind.isDiff = true → ∃ b, c.ino = diffIno b ∧ b ∈ s.layerMap) :
    J { (addChild s p nm c).1 with nextId := s.nextId + 1 } ∧ (addChild s p nm c).1.lm = s.lm ∧
    (addChild s p nm c).1.nodeMap = s.nodeMap ∧ (addChild s p nm c).1.layerMap = s.layerMap := by
  unfold addChild
  dsimp only
  have hany : ¬ (s.nodes.any fun m => m.id == c.id) = true := by
    rw [List.any_eq_true]
    rintro ⟨m, hm, he⟩
    have := hJ.idlt m hm
    have e : m.id = c.id := by simpa using he
    omega
  rw [if_neg hany]
  refine ⟨?_, rfl, rfl, rfl⟩
  have hcl : clashWith s.nodes c = false := by
    unfold clashWith
    rw [List.any_eq_false]
    intro m hm hh
    simp only [Bool.and_eq_true, bne_iff_ne, ne_eq, beq_iff_eq] at hh
    exact hfresh m hm hh.1.2
  constructor
  · intro n hn hk
    rcases List.mem_append.mp hn with h | h
    · exact hJ.alloc n h hk
    · have : n = _ := List.mem_singleton.mp h
      subst this; exact ha hk
  · exact hJ.small
  · exact hJ.npos
  · intro n hn hk
    rcases List.mem_append.mp hn with h | h
    · exact hJ.diffI n h hk
    · have : n = _ := List.mem_singleton.mp h
      subst this; exact hd hk
  · exact hJ.lpos
  · show (s.nodes ++ [_]).Pairwise _
    rw [List.pairwise_append]
    refine ⟨hJ.uniq, List.pairwise_singleton _ _, ?_⟩
    intro a ha' b hb'
    have : b = _ := List.mem_singleton.mp hb'
    subst this
    exact hfresh a ha'
  · intro n hn
    show n.id < s.nextId + 1
    rcases List.mem_append.mp hn with h | h
    · have := hJ.idlt n h; omega
    · have : n = _ := List.mem_singleton.mp h
      subst this; show c.id < _; omega
  · show (s.clash || _) = false
    rw [hcl, hJ.noclash]; rfl

theorem addChild_nextId (s : St) (p : Nat) (nm : Name) (c : Node) :
    (addChild s p nm c).1.nextId = s.nextId := by
  unfold addChild; rfl

theorem diffIno_big (b : Nat) (hb : 1 ≤ b) : maxU32 < diffIno b := by
  unfold diffIno maxU32; omega

theorem newNode_J (s : St) (p : Nat) (nm : Name) (k : Kind) (hk : k.isDiff = false) (hJ : J s) :
    J (newNode s p nm k).1 ∧ (newNode s p nm k).1.lm = s.lm ∧
    (newNode s p nm k).1.layerMap = s.layerMap := by
  unfold newNode
  cases hg : idGet s.nodeMap with
  | none => exact ⟨hJ, rfl, rfl⟩
  | some id =>
    dsimp only
    obtain ⟨hnm, h1, hle, _⟩ := idGet_spec _ _ hg
    let s1 : St := { s with nodeMap := id :: s.nodeMap }
    have hJ1 : J s1 := by
      constructor
      · intro n hn hkn; exact List.mem_cons_of_mem _ (hJ.alloc n hn hkn)
      · intro i hi
        rcases List.mem_cons.mp hi with rfl | h
        · exact hle
        · exact hJ.small i h
      · intro i hi
        rcases List.mem_cons.mp hi with rfl | h
        · exact h1
        · exact hJ.npos i h
      · exact hJ.diffI
      · exact hJ.lpos
      · exact hJ.uniq
      · exact hJ.idlt
      · exact hJ.noclash
    let c : Node := ⟨s.nextId, k, id, 0, true, none, nm⟩
    have hfresh : ∀ m, m ∈ s1.nodes → m.ino ≠ c.ino := by
      intro m hm e
      cases hd : m.kind.isDiff with
      | false => exact hnm (by have := hJ.alloc m hm hd; rw [e] at this; exact this)
      | true =>
        obtain ⟨b, hb, hbm⟩ := hJ.diffI m hm hd
        have := diffIno_big b (hJ.lpos b hbm)
        have e' : m.ino = id := e
        omega
    have := addChild_new s1 p nm c hJ1 rfl hfresh (fun _ => List.mem_cons_self ..)
      (fun h => by rw [hk] at h; cases h)
    -- the state of the model is `addChild {s1 with nextId := …}`: same nodes, nextId bumped first
    have key : addChild { s with nodeMap := id :: s.nodeMap, nextId := s.nextId + 1 } p nm c =
        ({ (addChild s1 p nm c).1 with nextId := s.nextId + 1 }, (addChild s1 p nm c).2) := by
      unfold addChild; rfl
    rw [key]
    exact ⟨this.1, this.2.1, this.2.2.2⟩

theorem child?_mem (ns : List Node) (p : Nat) (nm : Name) (c : Node) (h : child? ns p nm = some c) :
    c ∈ ns := List.mem_of_find?_eq_some h

theorem J_lm (s : St) (x : Store.St) (hJ : J s) : J { s with lm := x } :=
  ⟨hJ.alloc, hJ.small, hJ.npos, hJ.diffI, hJ.lpos, hJ.uniq, hJ.idlt, hJ.noclash⟩

theorem addChild_bump (s : St) (p : Nat) (nm : Name) (c : Node) :
    addChild { s with nextId := s.nextId + 1 } p nm c =
      ({ (addChild s p nm c).1 with nextId := s.nextId + 1 }, (addChild s p nm c).2) := by
  unfold addChild; rfl

/-- the part of the state a handler may change besides the tree: `lm` is the old one or the result
of ONE LayerManager operation. -/
def LmStep (T : Truth) (s s' : St) : Prop :=
  s'.lm = s.lm ∨ ∃ op : Store.Op, s'.lm = (Store.step T s.lm op).1

theorem rootLookup_spec (s : St) (nm : Name) (hJ : J s) :
    J (rootLookup s nm).1 ∧ (rootLookup s nm).1.lm = s.lm := by
  unfold rootLookup
  cases hc : child? s.nodes rootId nm with
  | some cn =>
    have hm := child?_mem _ _ _ _ hc
    dsimp only
    split
    · have := addChild_old s rootId nm cn hm hJ; exact ⟨this.1, this.2.1⟩
    · have := addChild_old s rootId nm cn hm hJ; exact ⟨this.1, this.2.1⟩
    · exact ⟨hJ, rfl⟩
  | none =>
    dsimp only
    split
    · have := newNode_J s rootId .pool .pool rfl hJ; exact ⟨this.1, this.2.1⟩
    · rename_i r; have := newNode_J s rootId (.ref r) (.ref r) rfl hJ; exact ⟨this.1, this.2.1⟩
    · exact ⟨hJ, rfl⟩

theorem refLookup_spec (s : St) (p r : Nat) (nm : Name) (hJ : J s) :
    J (refLookup s p r nm).1 ∧ (refLookup s p r nm).1.lm = s.lm := by
  unfold refLookup
  cases hc : child? s.nodes p nm with
  | some cn =>
    have hm := child?_mem _ _ _ _ hc
    dsimp only
    split
    · have := addChild_old s p nm cn hm hJ; exact ⟨this.1, this.2.1⟩
    · exact ⟨hJ, rfl⟩
  | none =>
    dsimp only
    split
    · rename_i t; have := newNode_J s p (.toc t) (.layer r t) rfl hJ; exact ⟨this.1, this.2.1⟩
    · exact ⟨hJ, rfl⟩

theorem diffNode_J (s : St) (p : Nat) (nm : Name) (b : Nat) (hJ : J s) (hg : idGet s.layerMap = some b) :
    J (addChild { s with layerMap := b :: s.layerMap, nextId := s.nextId + 1 } p nm
        ⟨s.nextId, .diff b, diffIno b, 0, true, none, nm⟩).1 ∧
    (addChild { s with layerMap := b :: s.layerMap, nextId := s.nextId + 1 } p nm
        ⟨s.nextId, .diff b, diffIno b, 0, true, none, nm⟩).1.lm = s.lm := by
  obtain ⟨hnm, h1, _, _⟩ := idGet_spec _ _ hg
  have hJ1 : J { s with layerMap := b :: s.layerMap } := by
    constructor
    · exact hJ.alloc
    · exact hJ.small
    · exact hJ.npos
    · intro n hn hk
      obtain ⟨b', e, hb'⟩ := hJ.diffI n hn hk
      exact ⟨b', e, List.mem_cons_of_mem _ hb'⟩
    · intro b' hb'
      rcases List.mem_cons.mp hb' with rfl | h
      · exact h1
      · exact hJ.lpos b' h
    · exact hJ.uniq
    · exact hJ.idlt
    · exact hJ.noclash
  have hfresh : ∀ m, m ∈ s.nodes → m.ino ≠ diffIno b := by
    intro m hm e
    cases hd : m.kind.isDiff with
    | false =>
      have := hJ.small _ (hJ.alloc m hm hd)
      have := diffIno_big b h1
      omega
    | true =>
      obtain ⟨b', hb, hbm⟩ := hJ.diffI m hm hd
      have := diffIno_inj _ _ (hb.symm.trans e)
      exact hnm (this ▸ hbm)
  have := addChild_new { s with layerMap := b :: s.layerMap } p nm
    ⟨s.nextId, .diff b, diffIno b, 0, true, none, nm⟩ hJ1 rfl hfresh
    (fun h => by cases h) (fun _ => ⟨b, rfl, List.mem_cons_self ..⟩)
  have key := addChild_bump { s with layerMap := b :: s.layerMap } p nm
    ⟨s.nextId, .diff b, diffIno b, 0, true, none, nm⟩
  rw [show ({ s with layerMap := b :: s.layerMap, nextId := s.nextId + 1 } : St) =
    { ({ s with layerMap := b :: s.layerMap } : St) with nextId := s.nextId + 1 } from rfl, key]
  exact ⟨this.1, this.2.1⟩

theorem J_lmap (s : St) (b : Nat) (hb : 1 ≤ b) (hJ : J s) : J { s with layerMap := b :: s.layerMap } := by
  constructor
  · exact hJ.alloc
  · exact hJ.small
  · exact hJ.npos
  · intro n hn hk
    obtain ⟨b', e, hb'⟩ := hJ.diffI n hn hk
    exact ⟨b', e, List.mem_cons_of_mem _ hb'⟩
  · intro b' hb'
    rcases List.mem_cons.mp hb' with rfl | h
    · exact hb
    · exact hJ.lpos b' h
  · exact hJ.uniq
  · exact hJ.idlt
  · exact hJ.noclash

theorem layerLookup_spec (T : Truth) (o : Oracle) (s : St) (p r t : Nat) (nm : Name) (hJ : J s) :
    J (layerLookup T o s p r t nm).1 ∧ LmStep T s (layerLookup T o s p r t nm).1 := by
  unfold layerLookup
  cases hc : child? s.nodes p nm with
  | some cn =>
    have hm := child?_mem _ _ _ _ hc
    have := addChild_old s p nm cn hm hJ
    exact ⟨this.1, Or.inl this.2.1⟩
  | none =>
    dsimp only
    split
    · -- info
      have hstep : (Store.step T s.lm (.info o r t)).1 = (Store.info T o s.lm r t).1 := rfl
      generalize hx : Store.info T o s.lm r t = q at *
      obtain ⟨lm, res⟩ := q
      cases res <;> dsimp only
      case info x =>
        have := newNode_J { s with lm := lm } p (.leaf .info) .info rfl (J_lm s lm hJ)
        exact ⟨this.1, Or.inr ⟨.info o r t, by rw [this.2.1, hstep]⟩⟩
      all_goals exact ⟨J_lm s lm hJ, Or.inr ⟨.info o r t, by rw [hstep]⟩⟩
    · -- blob
      have hstep : (Store.step T s.lm (.lookup o r t)).1 = (Store.lookup T o s.lm r t).1 := rfl
      generalize hx : Store.lookup T o s.lm r t = q at *
      obtain ⟨lm, res⟩ := q
      cases res <;> dsimp only
      case layer l =>
        split
        · have := newNode_J { s with lm := lm } p (.leaf .blob) (.blob l.id) rfl (J_lm s lm hJ)
          exact ⟨this.1, Or.inr ⟨.lookup o r t, by rw [this.2.1, hstep]⟩⟩
        · exact ⟨J_lm s lm hJ, Or.inr ⟨.lookup o r t, by rw [hstep]⟩⟩
      all_goals exact ⟨J_lm s lm hJ, Or.inr ⟨.lookup o r t, by rw [hstep]⟩⟩
    · -- diff
      have hstep : (Store.step T s.lm (.lookup o r t)).1 = (Store.lookup T o s.lm r t).1 := rfl
      generalize hx : Store.lookup T o s.lm r t = q at *
      obtain ⟨lm, res⟩ := q
      cases res <;> dsimp only
      case layer l =>
        split
        · cases hg : idGet s.layerMap with
          | none => exact ⟨J_lm s lm hJ, Or.inr ⟨.lookup o r t, by rw [hstep]⟩⟩
          | some b =>
            dsimp only
            obtain ⟨_, h1, _, _⟩ := idGet_spec _ _ hg
            split
            · exact ⟨J_lmap _ b h1 (J_lm s lm hJ), Or.inr ⟨.lookup o r t, by rw [hstep]⟩⟩
            · have := diffNode_J { s with lm := lm } p (.leaf .diff) b (J_lm s lm hJ) hg
              exact ⟨this.1, Or.inr ⟨.lookup o r t, by rw [this.2, hstep]⟩⟩
        · exact ⟨J_lm s lm hJ, Or.inr ⟨.lookup o r t, by rw [hstep]⟩⟩
      all_goals exact ⟨J_lm s lm hJ, Or.inr ⟨.lookup o r t, by rw [hstep]⟩⟩
    · exact ⟨hJ, Or.inl rfl⟩

theorem le_J_lm {s s' : St} (h : Le s s') (hJ : J s) : J s' ∧ s'.lm = s.lm := ⟨h.j hJ, h.lm⟩

theorem rmdirCleanup_le (s : St) (p : Nat) (nm : Name) : Le s (rmdirCleanup s p nm) := by
  unfold rmdirCleanup
  have h1 : Le s (match child? s.nodes p nm with
      | some cn => rmChild (rmAll 2 s cn.id) p nm
      | none => s) := by
    split
    · exact (rmAll_le _ _ _).trans (rmChild_le _ _ _)
    · exact Le.refl _
  have key : ∀ s1, Le s s1 → Le s (if (childrenOf s1.nodes p).isEmpty then rmAll 1 s1 p else s1) := by
    intro s1 h
    split
    · exact h.trans (rmAll_le _ _ _)
    · exact h
  exact key _ h1

theorem refRmdir_spec (T : Truth) (s : St) (p r : Nat) (nm : Name) (hJ : J s) :
    J (refRmdir s p r nm).1 ∧ LmStep T s (refRmdir s p r nm).1 := by
  unfold refRmdir
  split
  · rename_i t
    have hstep : (Store.step T s.lm (.release r t)).1 = (Store.release s.lm r t).1 := rfl
    generalize hx : Store.release s.lm r t = q at *
    obtain ⟨lm, res⟩ := q
    cases res <;> dsimp only
    case count c =>
      split
      · have := le_J_lm (rmdirCleanup_le { s with lm := lm } p (.toc t)) (J_lm s lm hJ)
        exact ⟨this.1, Or.inr ⟨.release r t, by rw [this.2, hstep]⟩⟩
      · exact ⟨J_lm s lm hJ, Or.inr ⟨.release r t, by rw [hstep]⟩⟩
    all_goals exact ⟨J_lm s lm hJ, Or.inr ⟨.release r t, by rw [hstep]⟩⟩
  · exact ⟨hJ, Or.inl rfl⟩

theorem step_spec (T : Truth) (s : St) (op : Op) (hJ : J s) :
    J (step T s op).1 ∧ LmStep T s (step T s op).1 := by
  cases op with
  | lookup o p nm =>
    simp only [step]
    split
    · exact ⟨hJ, Or.inl rfl⟩
    · have := rootLookup_spec s nm hJ; exact ⟨this.1, Or.inl this.2⟩
    · rename_i n _
      split
      · rename_i r _; have := refLookup_spec s p r nm hJ; exact ⟨this.1, Or.inl this.2⟩
      · exact layerLookup_spec T o s p _ _ nm hJ
      · exact ⟨hJ, Or.inl rfl⟩
      · exact ⟨hJ, Or.inl rfl⟩
  | forget i k =>
    simp only [step]
    split
    · split
      · have := le_J_lm (removeRef_le s i k false) hJ; exact ⟨this.1, Or.inl this.2⟩
      · exact ⟨hJ, Or.inl rfl⟩
    · exact ⟨hJ, Or.inl rfl⟩
  | create p nm =>
    simp only [step]
    split
    · exact ⟨hJ, Or.inl rfl⟩
    · exact ⟨hJ, Or.inl rfl⟩
    · split
      · rename_i r t _
        split
        · exact ⟨J_lm s _ hJ, Or.inr ⟨.use r t, rfl⟩⟩
        · exact ⟨hJ, Or.inl rfl⟩
      · exact ⟨hJ, Or.inl rfl⟩
      · exact ⟨hJ, Or.inl rfl⟩
  | rmdir p nm =>
    simp only [step]
    split
    · exact ⟨hJ, Or.inl rfl⟩
    · have := le_J_lm (rmChild_le s rootId nm) hJ; exact ⟨this.1, Or.inl this.2⟩
    · split
      · exact refRmdir_spec T s p _ nm hJ
      · exact ⟨hJ, Or.inl rfl⟩
      · have := le_J_lm (rmChild_le s p nm) hJ; exact ⟨this.1, Or.inl this.2⟩

/-! ### What a LOOKUP does to `lm`, and what a failing LOOKUP leaves -/

theorem addChild_fields (s : St) (p : Nat) (nm : Name) (c : Node) :
    (addChild s p nm c).1.lm = s.lm ∧ (addChild s p nm c).2 = .entry c.id c.ino := ⟨rfl, rfl⟩

theorem newNode_cases (s : St) (p : Nat) (nm : Name) (k : Kind) :
    (newNode s p nm k).1.lm = s.lm ∧
    ((newNode s p nm k = (s, .eio)) ∨ ∃ i ino, (newNode s p nm k).2 = .entry i ino) := by
  unfold newNode
  split
  · exact ⟨rfl, Or.inl rfl⟩
  · exact ⟨rfl, Or.inr ⟨_, _, rfl⟩⟩

theorem rootLookup_lm (s : St) (nm : Name) : (rootLookup s nm).1.lm = s.lm := by
  unfold rootLookup
  split
  · split <;> rfl
  · split
    · exact (newNode_cases _ _ _ _).1
    · exact (newNode_cases _ _ _ _).1
    · rfl

theorem refLookup_lm (s : St) (p r : Nat) (nm : Name) : (refLookup s p r nm).1.lm = s.lm := by
  unfold refLookup
  split
  · split <;> rfl
  · split
    · exact (newNode_cases _ _ _ _).1
    · rfl

theorem layerLookup_lm (T : Truth) (o : Oracle) (s : St) (p r t : Nat) (nm : Name) :
    (layerLookup T o s p r t nm).1.lm = s.lm ∨
    (layerLookup T o s p r t nm).1.lm = (Store.lookup T o s.lm r t).1 ∨
    (layerLookup T o s p r t nm).1.lm = (Store.info T o s.lm r t).1 := by
  unfold layerLookup
  split
  · exact Or.inl rfl
  · split
    · right; right
      generalize Store.info T o s.lm r t = q
      obtain ⟨lm, res⟩ := q
      cases res <;> dsimp only
      case info x => exact (newNode_cases _ _ _ _).1
    · right; left
      generalize Store.lookup T o s.lm r t = q
      obtain ⟨lm, res⟩ := q
      cases res <;> dsimp only
      case layer l =>
        split
        · exact (newNode_cases _ _ _ _).1
        · rfl
    · right; left
      generalize Store.lookup T o s.lm r t = q
      obtain ⟨lm, res⟩ := q
      cases res <;> dsimp only
      case layer l =>
        split
        · split
          · rfl
          · split <;> rfl
        · rfl
    · exact Or.inl rfl

/-- either an entry is answered or the node list and `nodeMap` stay as they are. -/
def EntryOrSame (s : St) (x : St × Res) : Prop :=
  (∃ i ino, x.2 = .entry i ino) ∨ (x.1.nodes = s.nodes ∧ x.1.nodeMap = s.nodeMap)

theorem newNode_eos (s0 s : St) (p : Nat) (nm : Name) (k : Kind) (h1 : s0.nodes = s.nodes)
    (h2 : s0.nodeMap = s.nodeMap) : EntryOrSame s (newNode s0 p nm k) := by
  rcases (newNode_cases s0 p nm k).2 with e | ⟨i, ino, e⟩
  · rw [e]; exact Or.inr ⟨h1, h2⟩
  · exact Or.inl ⟨i, ino, e⟩

theorem rootLookup_eos (s : St) (nm : Name) : EntryOrSame s (rootLookup s nm) := by
  unfold rootLookup
  split
  · split
    · exact Or.inl ⟨_, _, rfl⟩
    · exact Or.inl ⟨_, _, rfl⟩
    · exact Or.inr ⟨rfl, rfl⟩
  · split
    · exact newNode_eos _ _ _ _ _ rfl rfl
    · exact newNode_eos _ _ _ _ _ rfl rfl
    · exact Or.inr ⟨rfl, rfl⟩

theorem refLookup_eos (s : St) (p r : Nat) (nm : Name) : EntryOrSame s (refLookup s p r nm) := by
  unfold refLookup
  split
  · split
    · exact Or.inl ⟨_, _, rfl⟩
    · exact Or.inr ⟨rfl, rfl⟩
  · split
    · exact newNode_eos _ _ _ _ _ rfl rfl
    · exact Or.inr ⟨rfl, rfl⟩

theorem layerLookup_eos (T : Truth) (o : Oracle) (s : St) (p r t : Nat) (nm : Name) :
    EntryOrSame s (layerLookup T o s p r t nm) := by
  unfold layerLookup
  split
  · exact Or.inl ⟨_, _, rfl⟩
  · split
    · generalize Store.info T o s.lm r t = q
      obtain ⟨lm, res⟩ := q
      cases res <;> dsimp only
      case info x => exact newNode_eos _ _ _ _ _ rfl rfl
      all_goals exact Or.inr ⟨rfl, rfl⟩
    · generalize Store.lookup T o s.lm r t = q
      obtain ⟨lm, res⟩ := q
      cases res <;> dsimp only
      case layer l =>
        split
        · exact newNode_eos _ _ _ _ _ rfl rfl
        · exact Or.inr ⟨rfl, rfl⟩
      all_goals exact Or.inr ⟨rfl, rfl⟩
    · generalize Store.lookup T o s.lm r t = q
      obtain ⟨lm, res⟩ := q
      cases res <;> dsimp only
      case layer l =>
        split
        · split
          · exact Or.inr ⟨rfl, rfl⟩
          · split
            · exact Or.inr ⟨rfl, rfl⟩
            · exact Or.inl ⟨_, _, rfl⟩
        · exact Or.inr ⟨rfl, rfl⟩
      all_goals exact Or.inr ⟨rfl, rfl⟩
    · exact Or.inr ⟨rfl, rfl⟩

theorem lookup_eos (T : Truth) (s : St) (o : Oracle) (p : Nat) (nm : Name) :
    EntryOrSame s (step T s (.lookup o p nm)) := by
  simp only [step]
  split
  · exact Or.inr ⟨rfl, rfl⟩
  · exact rootLookup_eos s nm
  · split
    · exact refLookup_eos s p _ nm
    · exact layerLookup_eos T o s p _ _ nm
    · exact Or.inr ⟨rfl, rfl⟩
    · exact Or.inr ⟨rfl, rfl⟩

/-- a LOOKUP that answers no entry leaves the node list and `nodeMap` as they are. -/
theorem failed_lookup_tree (T : Truth) (s : St) (o : Oracle) (p : Nat) (nm : Name)
    (hf : ∀ i ino, (step T s (.lookup o p nm)).2 ≠ .entry i ino) :
    (step T s (.lookup o p nm)).1.nodes = s.nodes ∧ (step T s (.lookup o p nm)).1.nodeMap = s.nodeMap := by
  rcases lookup_eos T s o p nm with ⟨i, ino, e⟩ | h
  · exact absurd e (hf i ino)
  · exact h

theorem run_induct (T : Truth) (P : St → Prop) (h : List Op)
    (hstep : ∀ s op, P s → P (step T s op).1) (s : St) (hs : P s) : P (run T s h) := by
  induction h generalizing s with
  | nil => exact hs
  | cons op ops ih => unfold run; simp only [List.foldl_cons]; exact ih _ (hstep s op hs)

end SV.StoreFs
