/-
Lemmas for the chunk-cache model (C11), part B1: the state invariant, component by component, and how
each component behaves under the elementary changes the steps are made of.
-/
import SV.Lemmas.ChunkCacheLRU

namespace SV.ChunkCache

/-! ### who holds a `done` closure -/

/-- reader `r` holds a closure of memory refCounter `i`. -/
def Reader.holdsMem (i : Nat) (r : Reader) : Bool :=
  match r.phase, r.src with
  | .opened, .mem _ rc => rc == i
  | _, _ => false

/-- writer `w` (its `commit` function, possibly in a background goroutine) holds a closure of `i`. -/
def Writer.holdsMem (i : Nat) (w : Writer) : Bool :=
  match w.phase with
  | .published rc => rc == i
  | .written rc => rc == i
  | .finishing rc => rc == i
  | _ => false

/-- reader `r` holds a closure of descriptor refCounter `i`. -/
def Reader.holdsFd (i : Nat) (r : Reader) : Bool :=
  match r.phase, r.src with
  | .opened, .fdc _ rc => rc == i
  | .closing rc, _ => rc == i
  | _, _ => false

def memHolders (rs : List Reader) (ws : List Writer) (i : Nat) : Nat :=
  rs.countP (Reader.holdsMem i) + ws.countP (Writer.holdsMem i)

def fdHolders (rs : List Reader) (i : Nat) : Nat := rs.countP (Reader.holdsFd i)

theorem countP_set_get {α : Type} {p : α → Bool} {l : List α} {i : Nat} {x y : α} (h : l[i]? = some x) :
    (l.set i y).countP p + (if p x then 1 else 0) = l.countP p + (if p y then 1 else 0) := by
  induction l generalizing i with
  | nil => simp at h
  | cons a t ih =>
    cases i with
    | zero =>
      simp at h; subst h
      simp only [List.set_cons_zero, List.countP_cons]
      omega
    | succ n =>
      simp at h
      have := ih h
      simp only [List.set_cons_succ, List.countP_cons]
      omega

theorem countP_pos_of_get {α : Type} {p : α → Bool} {l : List α} {i : Nat} {x : α} (h : l[i]? = some x)
    (hp : p x = true) : 1 ≤ l.countP p := by
  have hm : x ∈ l := List.mem_of_getElem? h
  exact List.countP_pos_iff.mpr ⟨x, hm, hp⟩

theorem countP_eq_zero_of {α : Type} {p : α → Bool} {l : List α}
    (h : ∀ (i : Nat) (x : α), l[i]? = some x → p x = false) : l.countP p = 0 := by
  rw [List.countP_eq_zero]
  intro a ha
  obtain ⟨i, hi⟩ := List.getElem?_of_mem ha
  simp [h i a hi]

/-! ### the components of the invariant -/

/-- A live memory refCounter owns its buffer, which holds a complete committed value of its key. -/
def BufInv (rcs : List RC) (bufs : List Buf) (cm : Nat → List Bytes) : Prop :=
  ∀ (i : Nat) (r : RC), rcs[i]? = some r → r.alive →
    ∃ bf : Buf, bufs[r.val]? = some bf ∧ bf.owner = .cached i ∧ bf.data ∈ cm r.key

/-- A live descriptor refCounter owns its `*os.File`, which is open and was opened under its key. -/
def FileInv (rcs : List RC) (files : List FileObj) : Prop :=
  ∀ (i : Nat) (r : RC), rcs[i]? = some r → r.alive →
    ∃ fo : FileObj, files[r.val]? = some fo ∧ fo.owner = .cached i ∧ fo.closed = false ∧ fo.key = r.key

/-- Every `*os.File` refers to an inode that was published under the key it was opened with. -/
def FileIno (files : List FileObj) (inodes : List Inode) : Prop :=
  ∀ (f : Nat) (fo : FileObj), files[f]? = some fo →
    ∃ ino : Inode, inodes[fo.inode]? = some ino ∧ ino.st = .pub fo.key

/-- A published inode holds a complete committed value of its key. -/
def InoComm (inodes : List Inode) (cm : Nat → List Bytes) : Prop :=
  ∀ (i : Nat) (ino : Inode) (k : Nat), inodes[i]? = some ino → ino.st = .pub k → ino.data ∈ cm k

/-- `cachePath(k)` names an inode published under `k`. -/
def DiskIno (disk : Nat → Option Nat) (inodes : List Inode) : Prop :=
  ∀ (k i : Nat), disk k = some i → ∃ ino : Inode, inodes[i]? = some ino ∧ ino.st = .pub k

def WipOk (inodes : List Inode) (w : Nat) (wr : Writer) (P : Bytes → Prop) : Prop :=
  ∃ ino : Inode, inodes[wr.wip]? = some ino ∧ ino.st = .wip w ∧ P ino.data

/-- What writer `w` relies on, by phase. -/
def WrOk (bufs : List Buf) (inodes : List Inode) (rcs : List RC) (cm : Nat → List Bytes)
    (w : Nat) (wr : Writer) : Prop :=
  match wr.phase with
  | .opened =>
    if wr.direct then WipOk inodes w wr (· = wr.written)
    else (∃ bf : Buf, bufs[wr.buf]? = some bf ∧ bf.owner = .writer w ∧ bf.data = wr.written) ∧
      WipOk inodes w wr (· = [])
  | .published rc =>
    wr.direct = false ∧ (∃ r : RC, rcs[rc]? = some r ∧ r.key = wr.key) ∧ WipOk inodes w wr (· = [])
  | .written rc =>
    (∃ r : RC, rcs[rc]? = some r ∧ r.key = wr.key) ∧ WipOk inodes w wr (· ∈ cm wr.key)
  | .finishing rc => ∃ r : RC, rcs[rc]? = some r
  | .committed => True
  | .aborted => WipOk inodes w wr (fun _ => True)

def WrInv (ws : List Writer) (bufs : List Buf) (inodes : List Inode) (rcs : List RC)
    (cm : Nat → List Bytes) : Prop :=
  ∀ (w : Nat) (wr : Writer), ws[w]? = some wr → WrOk bufs inodes rcs cm w wr

/-- What reader `r` relies on. -/
def RdOk (mrcs frcs : List RC) (files : List FileObj) (r : Nat) (rd : Reader) : Prop :=
  match rd.phase with
  | .opened =>
    match rd.src with
    | .mem b rc => ∃ x : RC, mrcs[rc]? = some x ∧ x.val = b ∧ x.key = rd.key
    | .fdc f rc => ∃ x : RC, frcs[rc]? = some x ∧ x.val = f ∧ x.key = rd.key
    | .own f _ => ∃ fo : FileObj, files[f]? = some fo ∧ fo.owner = .reader r ∧ fo.closed = false ∧ fo.key = rd.key
  | .closing rc => ∃ x : RC, frcs[rc]? = some x
  | .closed => True

def RdInv (rs : List Reader) (mrcs frcs : List RC) (files : List FileObj) : Prop :=
  ∀ (r : Nat) (rd : Reader), rs[r]? = some rd → RdOk mrcs frcs files r rd

/-- Every committed value was written by a writer of that key that called `Commit` (ghost ↔ ghost). -/
def CommInv (cm : Nat → List Bytes) (ws : List Writer) : Prop :=
  ∀ (k : Nat) (v : Bytes), v ∈ cm k →
    ∃ (w : Nat) (wr : Writer), ws[w]? = some wr ∧ wr.key = k ∧ wr.written = v ∧
      wr.phase ≠ .opened ∧ wr.phase ≠ .aborted

/-- A buffer in the pool has been `Reset`. -/
def PoolInv (bufs : List Buf) : Prop :=
  ∀ (b : Nat) (bf : Buf), bufs[b]? = some bf → bf.owner = .pooled → bf.data = []

structure Inv (s : State) : Prop where
  pool : PoolInv s.bufs
  mem : s.mem.Inv (memHolders s.readers s.writers)
  fd : s.fd.Inv (fdHolders s.readers)
  buf : BufInv s.mem.rcs s.bufs s.committed
  file : FileInv s.fd.rcs s.files
  fileIno : FileIno s.files s.inodes
  inoComm : InoComm s.inodes s.committed
  diskIno : DiskIno s.disk s.inodes
  wr : WrInv s.writers s.bufs s.inodes s.mem.rcs s.committed
  rd : RdInv s.readers s.mem.rcs s.fd.rcs s.files
  comm : CommInv s.committed s.writers

/-! ### committed only grows -/

def CmLe (cm cm' : Nat → List Bytes) : Prop := ∀ k v, v ∈ cm k → v ∈ cm' k

theorem CmLe.refl (cm : Nat → List Bytes) : CmLe cm cm := fun _ _ h => h

theorem CmLe.add (cm : Nat → List Bytes) (k : Nat) (v : Bytes) : CmLe cm (addCommitted cm k v) := by
  intro k' v' h
  unfold addCommitted
  split
  · exact List.mem_append_left _ h
  · exact h

theorem mem_addCommitted (cm : Nat → List Bytes) (k : Nat) (v : Bytes) : v ∈ addCommitted cm k v k := by
  simp [addCommitted]

/-! ### PoolInv -/

theorem PoolInv.append {bufs : List Buf} (h : PoolInv bufs) {x : Buf} (hx : x.owner = .pooled → x.data = []) :
    PoolInv (bufs ++ [x]) := by
  intro b bf hb ho
  rw [append_some_iff] at hb
  rcases hb with hb | ⟨_, rfl⟩
  · exact h b bf hb ho
  · exact hx ho

theorem PoolInv.set {bufs : List Buf} (h : PoolInv bufs) (b : Nat) {x : Buf} (hx : x.owner = .pooled → x.data = []) :
    PoolInv (bufs.set b x) := by
  intro b' bf hb ho
  rw [set_some_iff] at hb
  rcases hb with ⟨_, _, rfl⟩ | ⟨_, hb⟩
  · exact hx ho
  · exact h b' bf hb ho

theorem PoolInv.evict {bufs : List Buf} (h : PoolInv bufs) (f : Option Nat) : PoolInv (evictBuf bufs f) := by
  cases f with
  | none => exact h
  | some v => exact h.set v (fun _ => rfl)

/-! ### BufInv -/

theorem BufInv.mono {rcs : List RC} {bufs : List Buf} {cm cm' : Nat → List Bytes}
    (h : BufInv rcs bufs cm) (hle : CmLe cm cm') : BufInv rcs bufs cm' := by
  intro i r hr ha
  obtain ⟨bf, h1, h2, h3⟩ := h i r hr ha
  exact ⟨bf, h1, h2, hle _ _ h3⟩

theorem BufInv.append {rcs : List RC} {bufs : List Buf} {cm : Nat → List Bytes}
    (h : BufInv rcs bufs cm) (x : Buf) : BufInv rcs (bufs ++ [x]) cm := by
  intro i r hr ha
  obtain ⟨bf, h1, h2, h3⟩ := h i r hr ha
  exact ⟨bf, append_get_old h1, h2, h3⟩

/-- Changing a buffer that no live refCounter owns. -/
theorem BufInv.set_noncached {rcs : List RC} {bufs : List Buf} {cm : Nat → List Bytes}
    (h : BufInv rcs bufs cm) {b : Nat} {bf : Buf} (hb : bufs[b]? = some bf)
    (hn : ∀ i, bf.owner ≠ .cached i) (x : Buf) : BufInv rcs (bufs.set b x) cm := by
  intro i r hr ha
  obtain ⟨bf', h1, h2, h3⟩ := h i r hr ha
  have hne : r.val ≠ b := by
    intro hc
    rw [hc, hb] at h1
    simp at h1; subst h1
    exact hn i h2
  exact ⟨bf', by rw [set_get_ne hne]; exact h1, h2, h3⟩

/-- An LRU operation followed by the `OnEvicted` callback of the memory LRU. -/
theorem BufInv.eff {l l' : LRU} {fired : Option Nat} {bufs : List Buf} {cm : Nat → List Bytes}
    (h : BufInv l.rcs bufs cm) (he : l.Eff l' fired)
    (hnew : ∀ (i : Nat) (r' : RC), l.rcs.length ≤ i → l'.rcs[i]? = some r' → r'.alive →
      ∃ bf : Buf, bufs[r'.val]? = some bf ∧ bf.owner = .cached i ∧ bf.data ∈ cm r'.key) :
    BufInv l'.rcs (evictBuf bufs fired) cm := by
  intro i r' hr' ha'
  -- the buffer of `i` before the callback
  have hold : ∃ bf : Buf, bufs[r'.val]? = some bf ∧ bf.owner = .cached i ∧ bf.data ∈ cm r'.key ∧
      (i < l.rcs.length → ∃ r : RC, l.rcs[i]? = some r ∧ r.val = r'.val ∧ r.alive) := by
    by_cases hlt : i < l.rcs.length
    · obtain ⟨r2, h2, hk, hv, hal, _⟩ := he.old i l.rcs[i] (by simp [hlt])
      rw [hr'] at h2; simp at h2; subst h2
      obtain ⟨bf, h1, h2, h3⟩ := h i l.rcs[i] (by simp [hlt]) (hal ha')
      exact ⟨bf, by rw [hv]; exact h1, h2, by rw [hk]; exact h3, fun _ => ⟨l.rcs[i], by simp [hlt], hv.symm, hal ha'⟩⟩
    · obtain ⟨bf, h1, h2, h3⟩ := hnew i r' (by omega) hr' ha'
      exact ⟨bf, h1, h2, h3, fun hc => absurd hc hlt⟩
  obtain ⟨bf, h1, h2, h3, h4⟩ := hold
  cases hf : fired with
  | none => exact ⟨bf, h1, h2, h3⟩
  | some v =>
    obtain ⟨j, rj, rj', hj, hj', hval, haj, hnj⟩ := he.fired_some v hf
    obtain ⟨bfj, g1, g2, _⟩ := h j rj hj haj
    have hne : r'.val ≠ v := by
      intro hc
      rw [hval] at g1
      rw [hc, g1] at h1
      simp at h1; subst h1
      rw [g2] at h2
      simp at h2; subst h2
      rw [hr'] at hj'; simp at hj'; subst hj'
      exact hnj ha'
    exact ⟨bf, by simp only [evictBuf]; rw [set_get_ne hne]; exact h1, h2, h3⟩

/-! ### FileInv -/

theorem FileInv.append {rcs : List RC} {files : List FileObj}
    (h : FileInv rcs files) (x : FileObj) : FileInv rcs (files ++ [x]) := by
  intro i r hr ha
  obtain ⟨fo, h1, h2⟩ := h i r hr ha
  exact ⟨fo, append_get_old h1, h2⟩

theorem FileInv.set_noncached {rcs : List RC} {files : List FileObj}
    (h : FileInv rcs files) {f : Nat} {fo : FileObj} (hf : files[f]? = some fo)
    (hn : ∀ i, fo.owner ≠ .cached i) (x : FileObj) : FileInv rcs (files.set f x) := by
  intro i r hr ha
  obtain ⟨fo', h1, h2, h3⟩ := h i r hr ha
  have hne : r.val ≠ f := by
    intro hc
    rw [hc, hf] at h1
    simp at h1; subst h1
    exact hn i h2
  exact ⟨fo', by rw [set_get_ne hne]; exact h1, h2, h3⟩

theorem evictFile_get_ne {files : List FileObj} {v f : Nat} (hne : f ≠ v) :
    (evictFile files (some v))[f]? = files[f]? := by
  simp only [evictFile]
  split
  · exact set_get_ne hne
  · rfl

theorem FileInv.eff {l l' : LRU} {fired : Option Nat} {files : List FileObj}
    (h : FileInv l.rcs files) (he : l.Eff l' fired)
    (hnew : ∀ (i : Nat) (r' : RC), l.rcs.length ≤ i → l'.rcs[i]? = some r' → r'.alive →
      ∃ fo : FileObj, files[r'.val]? = some fo ∧ fo.owner = .cached i ∧ fo.closed = false ∧ fo.key = r'.key) :
    FileInv l'.rcs (evictFile files fired) := by
  intro i r' hr' ha'
  have hold : ∃ fo : FileObj, files[r'.val]? = some fo ∧ fo.owner = .cached i ∧ fo.closed = false ∧
      fo.key = r'.key := by
    by_cases hlt : i < l.rcs.length
    · obtain ⟨r2, h2, hk, hv, hal, _⟩ := he.old i l.rcs[i] (by simp [hlt])
      rw [hr'] at h2; simp at h2; subst h2
      obtain ⟨fo, h1, h2, h3, h4⟩ := h i l.rcs[i] (by simp [hlt]) (hal ha')
      exact ⟨fo, by rw [hv]; exact h1, h2, h3, by rw [hk]; exact h4⟩
    · exact hnew i r' (by omega) hr' ha'
  obtain ⟨fo, h1, h2, h3, h4⟩ := hold
  cases hf : fired with
  | none => exact ⟨fo, h1, h2, h3, h4⟩
  | some v =>
    obtain ⟨j, rj, rj', hj, hj', hval, haj, hnj⟩ := he.fired_some v hf
    obtain ⟨foj, g1, g2, _⟩ := h j rj hj haj
    have hne : r'.val ≠ v := by
      intro hc
      rw [hval] at g1
      rw [hc, g1] at h1
      simp at h1; subst h1
      rw [g2] at h2
      simp at h2; subst h2
      rw [hr'] at hj'; simp at hj'; subst hj'
      exact hnj ha'
    exact ⟨fo, by rw [evictFile_get_ne hne]; exact h1, h2, h3, h4⟩

/-! ### FileIno / InoComm / DiskIno -/

/-- `evictFile` and every other change to a file object keeps `key` and `inode`. -/
theorem FileIno.of_same {files files' : List FileObj} {inodes inodes' : List Inode}
    (h : FileIno files inodes)
    (hf : ∀ (f : Nat) (fo' : FileObj), files'[f]? = some fo' →
      (∃ fo : FileObj, files[f]? = some fo ∧ fo.key = fo'.key ∧ fo.inode = fo'.inode) ∨
      (∃ ino : Inode, inodes'[fo'.inode]? = some ino ∧ ino.st = .pub fo'.key))
    (hi : ∀ (i : Nat) (ino : Inode) (k : Nat), inodes[i]? = some ino → ino.st = .pub k →
      ∃ ino' : Inode, inodes'[i]? = some ino' ∧ ino'.st = .pub k) :
    FileIno files' inodes' := by
  intro f fo' hfo'
  rcases hf f fo' hfo' with ⟨fo, h1, h2, h3⟩ | h
  · obtain ⟨ino, g1, g2⟩ := h f fo h1
    rw [← h2, ← h3]
    exact hi _ ino _ g1 g2
  · exact h

theorem evictFile_same {files : List FileObj} {fired : Option Nat} (f : Nat) (fo' : FileObj)
    (h : (evictFile files fired)[f]? = some fo') :
    ∃ fo : FileObj, files[f]? = some fo ∧ fo.key = fo'.key ∧ fo.inode = fo'.inode := by
  cases fired with
  | none => exact ⟨fo', h, rfl, rfl⟩
  | some v =>
    simp only [evictFile] at h
    split at h
    · rename_i fo hv
      rw [set_some_iff] at h
      rcases h with ⟨rfl, _, rfl⟩ | ⟨_, h⟩
      · exact ⟨fo, hv, rfl, rfl⟩
      · exact ⟨fo', h, rfl, rfl⟩
    · exact ⟨fo', h, rfl, rfl⟩

theorem pub_same {inodes : List Inode} :
    ∀ (i : Nat) (ino : Inode) (k : Nat), inodes[i]? = some ino → ino.st = .pub k →
      ∃ ino' : Inode, inodes[i]? = some ino' ∧ ino'.st = .pub k :=
  fun _ ino _ h1 h2 => ⟨ino, h1, h2⟩

theorem pub_append {inodes : List Inode} (x : Inode) :
    ∀ (i : Nat) (ino : Inode) (k : Nat), inodes[i]? = some ino → ino.st = .pub k →
      ∃ ino' : Inode, (inodes ++ [x])[i]? = some ino' ∧ ino'.st = .pub k :=
  fun _ ino _ h1 h2 => ⟨ino, append_get_old h1, h2⟩

/-- Changing a wip inode (writing to it, or publishing it) keeps every published inode published. -/
theorem pub_set_wip {inodes : List Inode} {j w : Nat} {old x : Inode} (hj : inodes[j]? = some old)
    (hw : old.st = .wip w) :
    ∀ (i : Nat) (ino : Inode) (k : Nat), inodes[i]? = some ino → ino.st = .pub k →
      ∃ ino' : Inode, (inodes.set j x)[i]? = some ino' ∧ ino'.st = .pub k := by
  intro i ino k h1 h2
  have hne : i ≠ j := by
    intro hc; subst hc
    rw [hj] at h1; simp at h1; subst h1
    rw [hw] at h2; simp at h2
  exact ⟨ino, by rw [set_get_ne hne]; exact h1, h2⟩

theorem DiskIno.of_pub {disk : Nat → Option Nat} {inodes inodes' : List Inode} (h : DiskIno disk inodes)
    (hi : ∀ (i : Nat) (ino : Inode) (k : Nat), inodes[i]? = some ino → ino.st = .pub k →
      ∃ ino' : Inode, inodes'[i]? = some ino' ∧ ino'.st = .pub k) : DiskIno disk inodes' := by
  intro k i hd
  obtain ⟨ino, h1, h2⟩ := h k i hd
  exact hi i ino k h1 h2

theorem InoComm.mono {inodes : List Inode} {cm cm' : Nat → List Bytes} (h : InoComm inodes cm)
    (hle : CmLe cm cm') : InoComm inodes cm' :=
  fun i ino k h1 h2 => hle _ _ (h i ino k h1 h2)

theorem InoComm.append_wip {inodes : List Inode} {cm : Nat → List Bytes} (h : InoComm inodes cm)
    (w : Nat) (d : Bytes) : InoComm (inodes ++ [{ data := d, st := .wip w }]) cm := by
  intro i ino k h1 h2
  rw [append_some_iff] at h1
  rcases h1 with h1 | ⟨_, rfl⟩
  · exact h i ino k h1 h2
  · simp at h2

/-- Replacing a wip inode by `x`: fine if `x` is still wip, or published with committed data. -/
theorem InoComm.set_wip {inodes : List Inode} {cm : Nat → List Bytes} (h : InoComm inodes cm)
    {j w : Nat} {old x : Inode} (hj : inodes[j]? = some old) (hw : old.st = .wip w)
    (hx : ∀ k, x.st = .pub k → x.data ∈ cm k) : InoComm (inodes.set j x) cm := by
  intro i ino k h1 h2
  rw [set_some_iff] at h1
  rcases h1 with ⟨_, _, rfl⟩ | ⟨_, h1⟩
  · exact hx k h2
  · exact h i ino k h1 h2

/-! ### writers -/

theorem WipOk.frame {inodes inodes' : List Inode} {w : Nat} {wr : Writer} {P : Bytes → Prop}
    (h : WipOk inodes w wr P)
    (hi : ∀ (i : Nat) (ino : Inode), inodes[i]? = some ino → ino.st = .wip w → inodes'[i]? = some ino) :
    WipOk inodes' w wr P := by
  obtain ⟨ino, h1, h2, h3⟩ := h
  exact ⟨ino, hi _ ino h1 h2, h2, h3⟩

theorem WipOk.imp {inodes : List Inode} {w : Nat} {wr : Writer} {P Q : Bytes → Prop}
    (h : WipOk inodes w wr P) (hpq : ∀ d, P d → Q d) : WipOk inodes w wr Q := by
  obtain ⟨ino, h1, h2, h3⟩ := h
  exact ⟨ino, h1, h2, hpq _ h3⟩

/-- Writer `w` is not affected by changes to objects it does not own. -/
theorem WrOk.frame {bufs bufs' : List Buf} {inodes inodes' : List Inode} {rcs rcs' : List RC}
    {cm cm' : Nat → List Bytes} {w : Nat} {wr : Writer}
    (h : WrOk bufs inodes rcs cm w wr)
    (hb : ∀ (b : Nat) (bf : Buf), bufs[b]? = some bf → bf.owner = .writer w → bufs'[b]? = some bf)
    (hi : ∀ (i : Nat) (ino : Inode), inodes[i]? = some ino → ino.st = .wip w → inodes'[i]? = some ino)
    (hr : ∀ (i : Nat) (r : RC), rcs[i]? = some r → ∃ r' : RC, rcs'[i]? = some r' ∧ r'.key = r.key)
    (hle : CmLe cm cm') : WrOk bufs' inodes' rcs' cm' w wr := by
  unfold WrOk at h ⊢
  split
  · rename_i hp
    simp only [hp] at h
    split
    · rename_i hd
      simp only [hd, if_true] at h
      exact h.frame hi
    · rename_i hd
      simp only [hd] at h
      obtain ⟨⟨bf, h1, h2, h3⟩, h4⟩ := h
      exact ⟨⟨bf, hb _ bf h1 h2, h2, h3⟩, h4.frame hi⟩
  · rename_i rc hp
    simp only [hp] at h
    obtain ⟨h1, ⟨r, h2, h3⟩, h4⟩ := h
    obtain ⟨r', g1, g2⟩ := hr rc r h2
    exact ⟨h1, ⟨r', g1, by rw [g2]; exact h3⟩, h4.frame hi⟩
  · rename_i rc hp
    simp only [hp] at h
    obtain ⟨⟨r, h2, h3⟩, h4⟩ := h
    obtain ⟨r', g1, g2⟩ := hr rc r h2
    exact ⟨⟨r', g1, by rw [g2]; exact h3⟩, (h4.frame hi).imp (fun d hd => hle _ _ hd)⟩
  · rename_i rc hp
    simp only [hp] at h
    obtain ⟨r, h2⟩ := h
    obtain ⟨r', g1, _⟩ := hr rc r h2
    exact ⟨r', g1⟩
  · trivial
  · rename_i hp
    simp only [hp] at h
    exact h.frame hi

theorem rcs_same {rcs : List RC} : ∀ (i : Nat) (r : RC), rcs[i]? = some r →
    ∃ r' : RC, rcs[i]? = some r' ∧ r'.key = r.key := fun _ r h => ⟨r, h, rfl⟩

theorem LRU.Eff.rcs_key {l l' : LRU} {f : Option Nat} (he : l.Eff l' f) :
    ∀ (i : Nat) (r : RC), l.rcs[i]? = some r → ∃ r' : RC, l'.rcs[i]? = some r' ∧ r'.key = r.key := by
  intro i r h
  obtain ⟨r', h1, h2, _⟩ := he.old i r h
  exact ⟨r', h1, h2⟩

theorem LRU.Eff.rcs_keyval {l l' : LRU} {f : Option Nat} (he : l.Eff l' f) :
    ∀ (i : Nat) (r : RC), l.rcs[i]? = some r →
      ∃ r' : RC, l'.rcs[i]? = some r' ∧ r'.key = r.key ∧ r'.val = r.val := by
  intro i r h
  obtain ⟨r', h1, h2, h3, _⟩ := he.old i r h
  exact ⟨r', h1, h2, h3⟩

/-! ### readers -/

theorem RdOk.frame {mrcs mrcs' frcs frcs' : List RC} {files files' : List FileObj} {r : Nat} {rd : Reader}
    (h : RdOk mrcs frcs files r rd)
    (hm : ∀ (i : Nat) (x : RC), mrcs[i]? = some x → ∃ x' : RC, mrcs'[i]? = some x' ∧ x'.key = x.key ∧ x'.val = x.val)
    (hf : ∀ (i : Nat) (x : RC), frcs[i]? = some x → ∃ x' : RC, frcs'[i]? = some x' ∧ x'.key = x.key ∧ x'.val = x.val)
    (hfo : ∀ (f : Nat) (fo : FileObj), files[f]? = some fo → fo.owner = .reader r → files'[f]? = some fo) :
    RdOk mrcs' frcs' files' r rd := by
  unfold RdOk at h ⊢
  split
  · rename_i hp
    simp only [hp] at h
    split
    · rename_i b rc hs
      simp only [hs] at h
      obtain ⟨x, h1, h2, h3⟩ := h
      obtain ⟨x', g1, g2, g3⟩ := hm rc x h1
      exact ⟨x', g1, by rw [g3]; exact h2, by rw [g2]; exact h3⟩
    · rename_i f rc hs
      simp only [hs] at h
      obtain ⟨x, h1, h2, h3⟩ := h
      obtain ⟨x', g1, g2, g3⟩ := hf rc x h1
      exact ⟨x', g1, by rw [g3]; exact h2, by rw [g2]; exact h3⟩
    · rename_i f d hs
      simp only [hs] at h
      obtain ⟨fo, h1, h2, h3⟩ := h
      exact ⟨fo, hfo f fo h1 h2, h2, h3⟩
  · rename_i rc hp
    simp only [hp] at h
    obtain ⟨x, h1⟩ := h
    obtain ⟨x', g1, _⟩ := hf rc x h1
    exact ⟨x', g1⟩
  · trivial

theorem rcs_same_kv {rcs : List RC} : ∀ (i : Nat) (x : RC), rcs[i]? = some x →
    ∃ x' : RC, rcs[i]? = some x' ∧ x'.key = x.key ∧ x'.val = x.val := fun _ x h => ⟨x, h, rfl, rfl⟩

/-! ### committed values and writers -/

theorem CommInv.frame {cm : Nat → List Bytes} {ws ws' : List Writer} (h : CommInv cm ws)
    (hw : ∀ (w : Nat) (wr : Writer), ws[w]? = some wr → wr.phase ≠ .opened → wr.phase ≠ .aborted →
      ∃ wr' : Writer, ws'[w]? = some wr' ∧ wr'.key = wr.key ∧ wr'.written = wr.written ∧
        wr'.phase ≠ .opened ∧ wr'.phase ≠ .aborted) : CommInv cm ws' := by
  intro k v hv
  obtain ⟨w, wr, h1, h2, h3, h4, h5⟩ := h k v hv
  obtain ⟨wr', g1, g2, g3, g4, g5⟩ := hw w wr h1 h4 h5
  exact ⟨w, wr', g1, by rw [g2]; exact h2, by rw [g3]; exact h3, g4, g5⟩

theorem CommInv.add {cm : Nat → List Bytes} {ws : List Writer} (h : CommInv cm ws) {w : Nat} {wr : Writer}
    (hw : ws[w]? = some wr) (hp1 : wr.phase ≠ .opened) (hp2 : wr.phase ≠ .aborted) :
    CommInv (addCommitted cm wr.key wr.written) ws := by
  intro k v hv
  unfold addCommitted at hv
  split at hv
  · rename_i hk
    rw [List.mem_append] at hv
    rcases hv with hv | hv
    · exact h k v hv
    · simp at hv; subst hv
      exact ⟨w, wr, hw, hk.symm, rfl, hp1, hp2⟩
  · exact h k v hv

end SV.ChunkCache
