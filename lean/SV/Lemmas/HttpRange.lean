/-
Lemmas about SV/Model/HttpRange.lean (numerals, the Content-Range regexp, the Range header, the
abstraction of wire replies to part-level replies).
-/
import SV.Model.HttpRange
import SV.Lemmas.Blob

namespace SV.HttpRange
open SV.Region SV.Blob

/-! ### numerals -/

theorem digitChar_toNat (d : Nat) (h : d < 10) : (digitChar d).toNat = 48 + d := by
  unfold digitChar
  rw [UInt8.toNat_ofNat']
  omega

theorem isDigit_digitChar (d : Nat) (h : d < 10) : isDigit (digitChar d) = true := by
  unfold isDigit
  rw [digitChar_toNat d h]
  simp
  omega

theorem digitVal_digitChar (d : Nat) (h : d < 10) : digitVal (digitChar d) = d := by
  unfold digitVal
  rw [digitChar_toNat d h]
  omega

theorem decFrom_append (acc : Nat) (a b : Str) : decFrom acc (a ++ b) = decFrom (decFrom acc a) b := by
  unfold decFrom
  rw [List.foldl_append]

theorem fmtNat_ne_nil (n : Nat) : fmtNat n ≠ [] := by
  rw [fmtNat]
  split <;> simp

theorem fmtNat_all (n : Nat) : (fmtNat n).all isDigit = true := by
  induction n using Nat.strongRecOn with
  | _ n ih =>
    rw [fmtNat]
    split
    · rename_i h
      simp [isDigit_digitChar n h]
    · rename_i h
      simp only [List.all_append, List.all_cons, List.all_nil, Bool.and_true, Bool.and_eq_true]
      exact ⟨ih (n / 10) (by omega), isDigit_digitChar _ (by omega)⟩

theorem decVal_fmtNat (n : Nat) : decVal (fmtNat n) = n := by
  induction n using Nat.strongRecOn with
  | _ n ih =>
    rw [fmtNat]
    split
    · rename_i h
      simp [decVal, decFrom, digitVal_digitChar n h]
    · rename_i h
      have := ih (n / 10) (by omega)
      unfold decVal at this ⊢
      rw [decFrom_append, this]
      simp only [decFrom, List.foldl_cons, List.foldl_nil]
      rw [digitVal_digitChar _ (by omega)]
      omega

theorem parseDec63_fmtNat (n : Nat) (h : n < two63) : parseDec63 (fmtNat n) = some n := by
  unfold parseDec63
  simp [fmtNat_ne_nil, fmtNat_all, decVal_fmtNat, h]

/-- What `parseDec63` accepts. -/
theorem parseDec63_some (s : Str) (v : Nat) :
    parseDec63 s = some v ↔ (s ≠ [] ∧ s.all isDigit = true ∧ decVal s = v ∧ v < two63) := by
  unfold parseDec63
  by_cases h1 : s = []
  · simp [h1]
  · by_cases h2 : s.all isDigit = true
    · by_cases h3 : decVal s < two63
      · simp only [h1, h2, h3, if_true, Option.some.injEq, false_or, not_true_eq_false, if_false]
        constructor
        · intro h; subst h; exact ⟨fun h => h1 h, trivial, rfl, h3⟩
        · intro h; exact h.2.2.1
      · simp only [h1, h2, h3, false_or, not_true_eq_false, if_false]
        constructor
        · intro h; cases h
        · intro h; exact absurd (h.2.2.1 ▸ h.2.2.2) h3
    · simp [h1, h2]

/-! ### takeWhile / dropWhile over a run -/

theorem takeWhile_run (p : UInt8 → Bool) (ds rest : Str) (h : ds.all p = true) :
    (ds ++ rest).takeWhile p = ds ++ rest.takeWhile p := by
  induction ds with
  | nil => rfl
  | cons d ds ih =>
    simp only [List.all_cons, Bool.and_eq_true] at h
    simp [List.takeWhile_cons, h.1, ih h.2]

theorem dropWhile_run (p : UInt8 → Bool) (ds rest : Str) (h : ds.all p = true) :
    (ds ++ rest).dropWhile p = rest.dropWhile p := by
  induction ds with
  | nil => rfl
  | cons d ds ih =>
    simp only [List.all_cons, Bool.and_eq_true] at h
    simp [List.dropWhile_cons, h.1, ih h.2]

theorem takeWhile_all (p : UInt8 → Bool) (s : Str) : (s.takeWhile p).all p = true := by
  induction s with
  | nil => rfl
  | cons c cs ih =>
    rw [List.takeWhile_cons]
    split
    · rename_i h; simp [h, ih]
    · rfl

theorem dropPrefix?_append (p s : Str) : dropPrefix? p (p ++ s) = some s := by
  induction p with
  | nil => cases s <;> rfl
  | cons c cs ih => simp [dropPrefix?, ih]

theorem dropPrefix?_some (p s r : Str) (h : dropPrefix? p s = some r) : s = p ++ r := by
  induction p generalizing s with
  | nil => cases s <;> simp_all [dropPrefix?]
  | cons c cs ih =>
    cases s with
    | nil => simp [dropPrefix?] at h
    | cons d ds =>
      simp only [dropPrefix?] at h
      split at h
      · rename_i hcd; subst hcd; rw [ih ds h]; rfl
      · cases h

/-- A string that does not start with a digit. -/
def NoDigitHead (s : Str) : Prop := s.takeWhile isDigit = []

theorem noDigitHead_cons (c : UInt8) (s : Str) (h : isDigit c = false) : NoDigitHead (c :: s) := by
  unfold NoDigitHead; rw [List.takeWhile_cons]; simp [h]

/-! ### matchHere / findMatch -/

/-- The regexp matches a well-formed value placed at the start, with exactly its three numerals. -/
theorem matchHere_formatted (d1 d2 d3 post : Str)
    (h1 : d1 ≠ []) (a1 : d1.all isDigit = true) (h2 : d2 ≠ []) (a2 : d2.all isDigit = true)
    (h3 : d3 ≠ []) (a3 : d3.all isDigit = true) (hp : NoDigitHead post) :
    matchHere (bytesSp ++ d1 ++ [45] ++ d2 ++ [47] ++ d3 ++ post) = some (d1, d2, d3) := by
  have e : bytesSp ++ d1 ++ [45] ++ d2 ++ [47] ++ d3 ++ post
      = bytesSp ++ (d1 ++ (45 :: (d2 ++ (47 :: (d3 ++ post))))) := by simp
  rw [e]
  unfold matchHere
  rw [dropPrefix?_append]
  have n45 : isDigit 45 = false := by decide
  have n47 : isDigit 47 = false := by decide
  have t1 : (d1 ++ (45 :: (d2 ++ (47 :: (d3 ++ post))))).takeWhile isDigit = d1 := by
    rw [takeWhile_run _ _ _ a1, List.takeWhile_cons]; simp [n45]
  have r1 : (d1 ++ (45 :: (d2 ++ (47 :: (d3 ++ post))))).dropWhile isDigit
      = 45 :: (d2 ++ (47 :: (d3 ++ post))) := by
    rw [dropWhile_run _ _ _ a1, List.dropWhile_cons]; simp [n45]
  have t2 : (d2 ++ (47 :: (d3 ++ post))).takeWhile isDigit = d2 := by
    rw [takeWhile_run _ _ _ a2, List.takeWhile_cons]; simp [n47]
  have r2 : (d2 ++ (47 :: (d3 ++ post))).dropWhile isDigit = 47 :: (d3 ++ post) := by
    rw [dropWhile_run _ _ _ a2, List.dropWhile_cons]; simp [n47]
  have t3 : (d3 ++ post).takeWhile isDigit = d3 := by
    rw [takeWhile_run _ _ _ a3, hp]; simp
  simp only [t1, r1, t2, r2, t3, h1, h2, h3, if_false, ne_eq, not_false_eq_true, if_true]

/-- Shape of every anchored match. -/
theorem matchHere_some (s d1 d2 d3 : Str) (h : matchHere s = some (d1, d2, d3)) :
    d1 ≠ [] ∧ d1.all isDigit = true ∧ d2 ≠ [] ∧ d2.all isDigit = true ∧
    ∃ r5, s = bytesSp ++ d1 ++ [45] ++ d2 ++ [47] ++ r5 ∧
      ((d3 = r5.takeWhile isDigit ∧ d3 ≠ []) ∨
       (r5.takeWhile isDigit = [] ∧ d3 = r5.takeWhile (· = 92))) := by
  unfold matchHere at h
  split at h
  · cases h
  · rename_i r1 hr1
    have hs := dropPrefix?_some _ _ _ hr1
    simp only at h
    split at h
    · cases h
    · rename_i hd1
      split at h
      · rename_i r3 hr3
        split at h
        · cases h
        · rename_i hd2
          split at h
          · rename_i r5 hr5
            have e1 : r1 = r1.takeWhile isDigit ++ 45 :: r3 := by
              rw [← hr3, List.takeWhile_append_dropWhile]
            have e3 : r3 = r3.takeWhile isDigit ++ 47 :: r5 := by
              rw [← hr5, List.takeWhile_append_dropWhile]
            split at h
            · rename_i hd3
              cases h
              refine ⟨hd1, takeWhile_all _ _, hd2, takeWhile_all _ _, r5, ?_, Or.inl ⟨rfl, hd3⟩⟩
              rw [hs]
              conv => lhs; rw [e1, e3]
              simp
            · rename_i hd3
              cases h
              refine ⟨hd1, takeWhile_all _ _, hd2, takeWhile_all _ _, r5, ?_,
                Or.inr ⟨by simpa using hd3, rfl⟩⟩
              rw [hs]
              conv => lhs; rw [e1, e3]
              simp
          · cases h
      · cases h

/-- `findMatch` returns the anchored match at the leftmost position that has one. -/
theorem findMatch_some (h : Str) (m : Str × Str × Str) :
    findMatch h = some m ↔
      ∃ pre s, h = pre ++ s ∧ matchHere s = some m ∧
        ∀ k, k < pre.length → matchHere (h.drop k) = none := by
  induction h with
  | nil =>
    simp only [findMatch, List.nil_eq, List.append_eq_nil_iff]
    constructor
    · intro h; cases h
    · rintro ⟨pre, s, ⟨rfl, rfl⟩, hm, _⟩
      simp [matchHere, dropPrefix?, bytesSp] at hm
  | cons c cs ih =>
    rw [findMatch]
    cases hm : matchHere (c :: cs) with
    | some m' =>
      simp only
      constructor
      · intro h; cases h
        exact ⟨[], c :: cs, rfl, hm, by simp⟩
      · rintro ⟨pre, s, hps, hs, hnone⟩
        cases pre with
        | nil => simp only [List.nil_append] at hps; subst hps; rw [hm] at hs; exact hs
        | cons p pre =>
          have := hnone 0 (by simp)
          simp only [List.drop_zero] at this
          rw [hm] at this; cases this
    | none =>
      simp only
      rw [ih]
      constructor
      · rintro ⟨pre, s, hps, hs, hnone⟩
        refine ⟨c :: pre, s, by rw [hps]; rfl, hs, ?_⟩
        intro k hk
        cases k with
        | zero => simpa using hm
        | succ k =>
          simp only [List.drop_succ_cons]
          exact hnone k (by simpa using hk)
      · rintro ⟨pre, s, hps, hs, hnone⟩
        cases pre with
        | nil => simp only [List.nil_append] at hps; subst hps; rw [hm] at hs; cases hs
        | cons p pre =>
          simp only [List.cons_append, List.cons.injEq] at hps
          refine ⟨pre, s, hps.2, hs, ?_⟩
          intro k hk
          have := hnone (k + 1) (by simpa using hk)
          simpa using this

theorem bytesSp_cons : ∃ t, bytesSp = 98 :: t := ⟨_, rfl⟩

theorem findMatch_of_matchHere (s : Str) (m : Str × Str × Str) (h : matchHere s = some m) :
    findMatch s = some m := by
  cases s with
  | nil => simp [matchHere, dropPrefix?, bytesSp] at h
  | cons c cs => rw [findMatch, h]

/-! ### walkChunksI / storePartsW against the part-level model -/

theorem walkChunksI_of_le (P : Params) (b : Nat) (e : Int) (h : (b : Int) ≤ e) :
    walkChunksI P b e = walkChunks P b e.toNat := by
  unfold walkChunksI walkChunks
  split
  · rfl
  · rw [if_neg (by omega)]

theorem storePartsW_eq (P : Params) (ps : List WPart) : ∀ s : St,
    storePartsW P s ps = storeParts P s (toPartsP P ps) := by
  induction ps with
  | nil => intro s; rfl
  | cons p ps ih =>
    intro s
    unfold toPartsP
    by_cases he : p.e < (p.b : Int)
    · by_cases hb : p.b % P.chunk = 0
      · rw [if_pos he, if_pos hb]
        rw [storePartsW]
        have : walkChunksI P p.b p.e = some [] := by
          unfold walkChunksI; rw [if_neg (by omega), if_pos he]
        rw [this]
        simp only [storeChunks]
        rw [ih s]
        cases h : storeParts P s (toPartsP P ps) with
        | mk s'' r => cases r <;> simp
      · rw [if_pos he, if_neg hb]
        rw [storePartsW, storeParts]
        have h1 : walkChunksI P p.b p.e = none := by unfold walkChunksI; rw [if_pos hb]
        have h2 : walkChunks P p.b p.b = none := by unfold walkChunks; rw [if_pos hb]
        rw [h1]; simp only [h2]
    · rw [if_neg he]
      rw [storePartsW, storeParts, walkChunksI_of_le P p.b p.e (by omega)]
      simp only
      cases walkChunks P p.b p.e.toNat with
      | none => rfl
      | some cs =>
        simp only
        cases hsc : storeChunks s p.data cs with
        | mk s' r =>
          cases r with
          | none => rfl
          | some got => simp only [ih s']

end SV.HttpRange

namespace SV.HttpRange
open SV.Region SV.Blob

/-! ### the Range header and its specification parser -/

def digPh (ph : Nat) : Nat := if ph = 0 ∨ ph = 1 then 1 else 3

theorem digPh_idem (ph : Nat) : digPh (digPh ph) = digPh ph := by
  unfold digPh; split <;> simp

theorem rfcStep_digit (s : RfcSt) (d : UInt8) (hb : s.bad = false) (hd : isDigit d = true) :
    rfcStep s d = { s with cur := s.cur * 10 + digitVal d, ph := digPh s.ph } := by
  unfold rfcStep digPh
  simp only [hb, hd, Bool.false_eq_true, if_false, if_true]
  split <;> rfl

/-- Running the automaton over a non-empty digit run. -/
theorem rfc_run_digits (ds : Str) : ∀ (s : RfcSt), s.bad = false → ds.all isDigit = true → ds ≠ [] →
    ds.foldl rfcStep s = { s with cur := decFrom s.cur ds, ph := digPh s.ph } := by
  induction ds with
  | nil => intro s _ _ h; exact absurd rfl h
  | cons d ds ih =>
    intro s hb ha _
    simp only [List.all_cons, Bool.and_eq_true] at ha
    rw [List.foldl_cons, rfcStep_digit s d hb ha.1]
    cases ds with
    | nil => simp [decFrom]
    | cons e es =>
      rw [ih { s with cur := s.cur * 10 + digitVal d, ph := digPh s.ph } hb ha.2 (by simp)]
      simp [decFrom, digPh_idem]

theorem fmtInt_nonneg (i : Int) (h : 0 ≤ i) : fmtInt i = fmtNat i.toNat := by
  unfold fmtInt; rw [if_neg (by omega)]

theorem rfc_run_nat (n : Nat) (s : RfcSt) (hb : s.bad = false) (hc : s.cur = 0) :
    (fmtNat n).foldl rfcStep s = { s with cur := n, ph := digPh s.ph } := by
  rw [rfc_run_digits _ s hb (fmtNat_all n) (fmtNat_ne_nil n), hc]
  have := decVal_fmtNat n
  unfold decVal at this
  rw [this]

def pairsOf (reqs : List Region) : List (Nat × Nat) := reqs.map fun r => (r.b.toNat, r.e.toNat)

/-- One `first-last` spec from the start state of a spec. -/
theorem rfc_run_spec (r : Region) (hb : 0 ≤ r.b) (he : 0 ≤ r.e) (acc : List (Nat × Nat)) :
    (fmtInt r.b ++ [45] ++ fmtInt r.e).foldl rfcStep { acc := acc } =
      { acc := acc, first := r.b.toNat, cur := r.e.toNat, ph := 3, bad := false } := by
  rw [fmtInt_nonneg _ hb, fmtInt_nonneg _ he]
  have n45 : isDigit 45 = false := by decide
  have s1 : (fmtNat r.b.toNat).foldl rfcStep { acc := acc }
      = { acc := acc, first := 0, cur := r.b.toNat, ph := 1, bad := false } := by
    rw [rfc_run_nat _ _ rfl rfl]; rfl
  have s2 : rfcStep { acc := acc, first := 0, cur := r.b.toNat, ph := 1, bad := false } 45
      = { acc := acc, first := r.b.toNat, cur := 0, ph := 2, bad := false } := by
    simp [rfcStep, n45]
  have s3 : (fmtNat r.e.toNat).foldl rfcStep
      { acc := acc, first := r.b.toNat, cur := 0, ph := 2, bad := false }
      = { acc := acc, first := r.b.toNat, cur := r.e.toNat, ph := 3, bad := false } := by
    rw [rfc_run_nat _ _ rfl rfl]; rfl
  rw [List.foldl_append, List.foldl_append, s1]
  simp only [List.foldl_cons, List.foldl_nil]
  rw [s2, s3]

theorem rfc_run_ranges (reqs : List Region) (h : ∀ r ∈ reqs, 0 ≤ r.b ∧ 0 ≤ r.e) :
    ∀ acc, (rangesStr reqs).foldl rfcStep { acc := acc } = { acc := acc ++ pairsOf reqs } := by
  induction reqs with
  | nil => intro acc; simp [rangesStr, pairsOf]
  | cons r rs ih =>
    intro acc
    obtain ⟨hb, he⟩ := h r (List.mem_cons_self ..)
    have e : rangesStr (r :: rs) = (fmtInt r.b ++ [45] ++ fmtInt r.e) ++ ([44] ++ rangesStr rs) := by
      simp [rangesStr]
    rw [e, List.foldl_append, rfc_run_spec r hb he acc, List.foldl_append]
    have n44 : isDigit 44 = false := by decide
    have : [44].foldl rfcStep { acc := acc, first := r.b.toNat, cur := r.e.toNat, ph := 3, bad := false }
        = { acc := acc ++ [(r.b.toNat, r.e.toNat)] } := by
      simp [rfcStep, n44]
    rw [this, ih (fun r' hm => h r' (List.mem_cons_of_mem _ hm))]
    simp [pairsOf]

theorem rangesStr_append (a b : List Region) : rangesStr (a ++ b) = rangesStr a ++ rangesStr b := by
  induction a with
  | nil => rfl
  | cons r rs ih => simp [rangesStr, ih]

/-- The header body for a non-empty request list parses back to exactly that list. -/
theorem rfcParse_header (reqs : List Region) (hne : reqs ≠ []) (h : ∀ r ∈ reqs, 0 ≤ r.b ∧ 0 ≤ r.e) :
    rangesStr reqs ≠ [] ∧ rfcParse (bytesEq ++ (rangesStr reqs).dropLast) = some (pairsOf reqs) := by
  rcases List.eq_nil_or_concat reqs with h0 | ⟨init, r, hreq⟩
  · exact absurd h0 hne
  · rw [List.concat_eq_append] at hreq
    subst hreq
    obtain ⟨hb, he⟩ := h r (by simp)
    have e1 : rangesStr (init ++ [r]) = (rangesStr init ++ (fmtInt r.b ++ [45] ++ fmtInt r.e)) ++ [44] := by
      rw [rangesStr_append]; simp [rangesStr]
    refine ⟨by rw [e1]; simp, ?_⟩
    rw [e1, List.dropLast_concat]
    unfold rfcParse
    rw [dropPrefix?_append]
    simp only
    rw [List.foldl_append, rfc_run_ranges init (fun r' hm => h r' (by simp [hm])) [],
      rfc_run_spec r hb he]
    simp [pairsOf]

/-- The squashed request set: well-formed, starts non-negative, non-empty. -/
theorem squash_spec (rs : List Region) (h : ∀ r ∈ rs, 0 ≤ r.b ∧ r.b ≤ r.e) :
    ∀ acc, WF acc → (∀ l ∈ acc, 0 ≤ l.b) →
      WF (rs.foldl add acc) ∧ (∀ l ∈ rs.foldl add acc, 0 ≤ l.b) ∧ (rs ≠ [] → rs.foldl add acc ≠ []) := by
  induction rs with
  | nil => intro acc hw hn; exact ⟨hw, hn, fun h => absurd rfl h⟩
  | cons r rs ih =>
    intro acc hw hn
    obtain ⟨hb, hbe⟩ := h r (List.mem_cons_self ..)
    have hw' := SV.Props.C06.add_wf acc r hw hbe
    have hn' : ∀ l ∈ add acc r, 0 ≤ l.b := fun l hl =>
      (add_ends (fun x => 0 ≤ x) (fun _ => True) acc r hw hbe (fun l hl => ⟨hn l hl, trivial⟩) hb
        trivial l hl).1
    obtain ⟨i1, i2, i3⟩ := ih (fun r' hm => h r' (List.mem_cons_of_mem _ hm)) (add acc r) hw' hn'
    refine ⟨i1, i2, fun _ => ?_⟩
    simp only [List.foldl_cons]
    by_cases hrs : rs = []
    · subst hrs
      simp only [List.foldl_nil]
      have : cov r.b (add acc r) := (SV.Props.C06.add_cov acc r hw hbe r.b).mpr (Or.inr ⟨by omega, hbe⟩)
      obtain ⟨l, hl, _⟩ := this
      exact List.ne_nil_of_mem hl
    · exact i3 hrs

end SV.HttpRange
