/-
Success of the `file.ReadAt` loop (LazyRead-level): when every chunk fetch of the file delivers the
genuine chunk, no round of the loop takes an error branch and the loop ends with `.ok`.
Used by the end-to-end theorem `SV.Props.C02e2e.e2e_read_succeeds`.  Core-only.
-/
import SV.Lemmas.LazyRead

namespace SV.LazyRead

/-- Every miss-path fetch of a chunk of `f` succeeds with the genuine chunk, from every cache. -/
def Delivers (content : Nat → Bytes) (E : Env) (u : Under) (f : FileInfo) : Prop :=
  ∀ ch ∈ f.table, ∀ c : Cache,
    (fetchChunk E u c ⟨f.id, ch.off, ch.size⟩).2 = some (trueChunk content ⟨f.id, ch.off, ch.size⟩)

/-- No round errs: for a well-formed file and a lower layer that delivers, the loop ends with `.ok`
- for EVERY cache content (a cache entry that cannot serve the window is refetched), every offset
(at/after EOF: the lookup finds no chunk and the loop breaks with what it has) and every length
(`n = 0`: the loop body never runs). -/
theorem readLoop_succeeds {content : Nat → Bytes} {E : Env} {u : Under} {f : FileInfo}
    (hf : WF content f) (hd : Delivers content E u f) (off n : Nat) :
    ∀ (fuel : Nat) (c : Cache) (acc : Bytes), n - acc.length < fuel → acc.length ≤ n →
      (acc.length = 0 ∨ acc.length = n ∨ NotInside f.table (off + acc.length)) →
      ∃ b, (readLoop E u f off n fuel c acc).2 = .ok b := by
  intro fuel
  induction fuel with
  | zero => intro c acc h; omega
  | succ fuel ih =>
    intro c acc hfuel hle hinv
    unfold readLoop
    simp only []
    by_cases hlt : acc.length < n
    · simp only [hlt, if_true]
      have hl := lookup_spec f.variant hf.contig (off + acc.length)
      cases hlk : chunkEntryForOffset f.variant f.table (off + acc.length) with
      | none => exact ⟨acc, rfl⟩
      | some ch =>
        simp only []
        have hx : off + acc.length < total f.table := by
          by_cases hx : off + acc.length < total f.table
          · exact hx
          · have := hl.2 (by omega); rw [hlk] at this; cases this
        have hch : ch ∈ f.table ∧ ch.off ≤ off + acc.length ∧ off + acc.length < ch.off + ch.size := by
          obtain ⟨c0, hc0, hmem, hb1, hb2⟩ := hl.1 hx
          rw [hlk] at hc0; cases hc0; exact ⟨hmem, hb1, hb2⟩
        obtain ⟨hmem, hb1, hb2⟩ := hch
        have hinv' : acc.length = 0 ∨ NotInside f.table (off + acc.length) := by
          rcases hinv with h | h | h
          · exact Or.inl h
          · omega
          · exact Or.inr h
        have hr := round_facts hf off n acc.length hlt hinv' ch hmem hb1 hb2
        obtain ⟨_, hfit, hnext, hpos, hup0, hup1⟩ := hr
        have hsz := (contig_mem_bounds hf.contig ch hmem).2.1
        have hexp : ch.size - (ch.off + ch.size - (off + n)) - (off - ch.off) ≤ n - acc.length := by
          by_cases h0 : ch.off + ch.size - (off + n) = 0
          · exact hup0 h0
          · have := hup1 (by omega); omega
        have hg : ¬ (ch.size = 0 ∨ ch.size - (ch.off + ch.size - (off + n)) - (off - ch.off) = 0 ∨
            ch.size - (ch.off + ch.size - (off + n)) - (off - ch.off) > n - acc.length) := by omega
        simp only [hg, if_false]
        -- every successful branch appends `expected` bytes and the loop goes on
        have hcont : ∀ (c' : Cache) (s : Bytes),
            s.length = ch.size - (ch.off + ch.size - (off + n)) - (off - ch.off) →
            ∃ b, (readLoop E u f off n fuel c' (acc ++ s)).2 = .ok b := by
          intro c' s hs
          have hl2 : (acc ++ s).length =
              acc.length + (ch.size - (ch.off + ch.size - (off + n)) - (off - ch.off)) := by
            simp [hs]
          have hpos' : 0 < ch.size - (ch.off + ch.size - (off + n)) - (off - ch.off) := hpos
          apply ih c' (acc ++ s)
          · rw [hl2]; clear hl hnext hup0 hup1 hfit hpos hg hinv hinv'; omega
          · rw [hl2]; clear hl hnext hup0 hup1 hfit hpos hg hinv hinv'; omega
          · rw [hl2]
            rcases hnext hexp with h | h
            · exact Or.inr (Or.inl h)
            · exact Or.inr (Or.inr h)
        -- the miss path
        have hmiss : ∃ b, (match fetchChunk E u c ⟨f.id, ch.off, ch.size⟩ with
            | (c1, none) => (c1, Outcome.err)
            | (c1, some b) =>
              if off - ch.off = 0 ∧ ch.off + ch.size - (off + n) = 0 then
                readLoop E u f off n fuel c1 (acc ++ b)
              else
                if (slice b (off - ch.off) (ch.size - (ch.off + ch.size - (off + n)) - (off - ch.off))).length ≠
                    ch.size - (ch.off + ch.size - (off + n)) - (off - ch.off) then (c1, Outcome.err)
                else readLoop E u f off n fuel c1
                  (acc ++ slice b (off - ch.off) (ch.size - (ch.off + ch.size - (off + n)) - (off - ch.off)))).2
            = .ok b := by
          have hfe := hd ch hmem c
          have htl := trueChunk_length hf ch hmem
          rcases hfe' : fetchChunk E u c ⟨f.id, ch.off, ch.size⟩ with ⟨c1, r⟩
          rw [hfe'] at hfe
          simp only at hfe
          subst hfe
          simp only []
          by_cases hz : off - ch.off = 0 ∧ ch.off + ch.size - (off + n) = 0
          · simp only [hz, and_self, if_true]
            exact hcont c1 _ (by rw [htl, hz.1, hz.2]; simp)
          · simp only [hz, if_false]
            have hsl : (slice (trueChunk content ⟨f.id, ch.off, ch.size⟩) (off - ch.off)
                (ch.size - (ch.off + ch.size - (off + n)) - (off - ch.off))).length =
                ch.size - (ch.off + ch.size - (off + n)) - (off - ch.off) := by
              rw [slice_length, htl]; omega
            rw [if_neg (not_not_intro hsl)]
            exact hcont c1 _ hsl
        cases hcid : c ⟨f.id, ch.off, ch.size⟩ with
        | some d =>
          simp only []
          by_cases hfull : (slice d (off - ch.off) (ch.size - (ch.off + ch.size - (off + n)) - (off - ch.off))).length =
              ch.size - (ch.off + ch.size - (off + n)) - (off - ch.off)
          · simp only [hfull, if_true]
            exact hcont c _ hfull
          · simp only [hfull, if_false]
            exact hmiss
        | none =>
          simp only []
          exact hmiss
    · simp only [hlt, if_false]
      exact ⟨acc, rfl⟩

theorem fileReadAt_succeeds {content : Nat → Bytes} {E : Env} {u : Under} {f : FileInfo}
    (hf : WF content f) (hd : Delivers content E u f) (c : Cache) (off n : Nat) :
    ∃ b, (fileReadAt E u f c off n).2 = .ok b := by
  unfold fileReadAt
  exact readLoop_succeeds hf hd off n (n + 1) c [] (by simp) (by simp) (Or.inl rfl)

/-- With an environment that pre-reads nothing and accepts genuine chunks, a lower layer that
hands out the genuine chunk of every table entry `Delivers`. -/
theorem delivers_of_under {content : Nat → Bytes} {E : Env} {u : Under} {f : FileInfo}
    (hf : WF content f) (hco : ∀ id, E.co id = some [])
    (hv : ∀ id, E.verify id (trueChunk content id) = true)
    (hu : ∀ ch ∈ f.table, u ⟨f.id, ch.off, ch.size⟩ = some (trueChunk content ⟨f.id, ch.off, ch.size⟩)) :
    Delivers content E u f := by
  intro ch hch c
  have hl := trueChunk_length hf ch hch
  simp only [fetchChunk, hco, preStore, hu ch hch]
  rw [if_pos ⟨hl, hv _⟩]

end SV.LazyRead
