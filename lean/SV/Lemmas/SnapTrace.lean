/-
Soundness of the trace checker `SV/Model/SnapTrace.lean`: an accepted event is a transition of the
interleaved semantics (`CStep {}`), and the Bool invariant evaluator decides `CInvar`.
-/
import SV.Lemmas.SnapConc
import SV.Model.SnapTrace

set_option linter.unusedSimpArgs false
set_option linter.unusedVariables false

namespace SV.Snap.Trace
open SV.Snap SV.Snap.Conc

/-- thread ids `≥ n` are unused -/
def Bounded (t : TState) : Prop := ∀ j, t.n ≤ j → t.c.th j = .done

theorem bounded_init (cfg : Config) : Bounded (tinit cfg) := fun _ _ => rfl

theorem lockFreeB_sound {t : TState} (hb : Bounded t) (h : lockFreeB t = true) : t.c.lockFree := by
  intro j
  by_cases hj : j < t.n
  · have := List.all_eq_true.mp h j (List.mem_range.mpr hj)
    simpa using this
  · rw [hb j (by omega)]; rfl

theorem lockFreeB_complete {t : TState} (h : t.c.lockFree) : lockFreeB t = true := by
  unfold lockFreeB
  rw [List.all_eq_true]
  intro j _
  simp [h j]

theorem optDisj_sound {a b : Option String} (h : optDisj a b = true) : ∀ k, a = some k → b ≠ some k := by
  intro k ha hb
  subst ha; subst hb
  simp [optDisj] at h

theorem optDisj_complete {a b : Option String} (h : ∀ k, a = some k → b ≠ some k) : optDisj a b = true := by
  cases a with
  | none => rfl
  | some x =>
    cases b with
    | none => rfl
    | some y =>
      have := h x rfl
      simp only [optDisj, bne_iff_ne, ne_eq]
      intro e; exact this (by rw [e])

theorem noConflictB_sound {t : TState} {pc : PC} (hb : Bounded t) (h : noConflictB t pc = true) :
    NoKeyConflict t.c.th pc := by
  intro j
  by_cases hj : j < t.n
  · have := List.all_eq_true.mp h j (List.mem_range.mpr hj)
    simp only [Bool.and_eq_true] at this
    exact ⟨fun k hk => optDisj_sound this.1 k hk, fun k hk => optDisj_sound this.2 k hk⟩
  · rw [hb j (by omega)]
    exact ⟨fun k _ => by simp [PC.consumes], fun k _ => by simp [PC.ownKey]⟩

theorem createOkB_iff (s : State) (key parent : String) : createOkB s key parent = true ↔ createOk s key parent := by
  unfold createOkB createOk
  cases h : createChecks s key parent with
  | error e => simp
  | ok ps =>
    simp only [Bool.and_eq_true, Bool.not_eq_true', List.contains_eq_mem, decide_eq_false_iff_not]
    constructor
    · rintro ⟨h1, h2⟩
      exact ⟨⟨ps, rfl, h1⟩, h2⟩
    · rintro ⟨⟨ps', e, h1⟩, h2⟩
      cases e
      exact ⟨h1, h2⟩

theorem commitOkB_iff (s : State) (name key : String) : commitOkB s name key = true ↔ commitOk s name key := by
  unfold commitOkB commitOk
  cases h : findKey s.snaps key with
  | none => simp
  | some sn => simp [and_assoc]

theorem removeOkB_iff (s : State) (key : String) : removeOkB s key = true ↔ removeOk s key := by
  unfold removeOkB removeOk
  cases h : findKey s.snaps key with
  | none => simp
  | some sn => simp

theorem bounded_of {t : TState} {i : Nat} {pc' : PC} (hb : Bounded t) (hi : t.c.th i ≠ .done ∨ pc' = .done) :
    ∀ j, t.n ≤ j → setPc t.c.th i pc' j = .done := by
  intro j hj
  unfold setPc
  split
  · rename_i e
    subst e
    rcases hi with h | h
    · exact absurd (hb j hj) h
    · exact h
  · exact hb j hj

theorem finish_guard {c : CState} {i : Nat} (h : (∃ op, c.th i = .idle op) ∨ c.th i = .done ∨ ∃ u, c.th i = .clean [] u) :
    (c.th i).holds = false ∧ (∀ T sn, c.th i ≠ .prepMount T sn) ∧ (∀ T sn, c.th i ≠ .prepCommit T sn) ∧
      (∀ d r u, c.th i ≠ .clean (d :: r) u) := by
  rcases h with ⟨op, h⟩ | h | ⟨u, h⟩ <;> rw [h] <;> simp [PC.holds]

theorem fireCreate_sound {t t' : TState} {i : Nat} {kind : Kind} {key parent : String} {labels : Labels}
    (hb : Bounded t) (hkind : kind ≠ .committed)
    (hpc : t.c.th i = .idle (if kind = .active then .prepare key parent labels else .view key parent labels))
    (h : fireCreate t i kind key parent labels = some t') : CStep {} t.c t'.c ∧ Bounded t' := by
  unfold fireCreate at h
  split at h
  · cases h
  · rename_i hl
    have hlock := lockFreeB_sound hb (by simpa using hl)
    have hnd : t.c.th i ≠ .done := by rw [hpc]; intro e; cases e
    split at h
    · rename_i hok
      cases h
      exact ⟨CStep.createBegin t.c i kind key parent labels hpc hkind hlock ((createOkB_iff _ _ _).mp hok),
        bounded_of hb (Or.inl hnd)⟩
    · rename_i hok
      cases h
      refine ⟨CStep.createFail t.c i kind key parent labels (createExtra t.c.s key parent) hpc hlock
        (fun hc => hok ((createOkB_iff _ _ _).mpr hc)) ?_, bounded_of hb (Or.inl hnd)⟩
      unfold createExtra
      split
      · split
        · rename_i hc
          right
          simp only [Bool.and_eq_true, List.contains_eq_mem, decide_eq_true_eq] at hc
          exact ⟨rfl, hc.2⟩
        · exact Or.inl rfl
      · exact Or.inl rfl

theorem fireTx_sound {t t' : TState} {i : Nat} (hb : Bounded t) (h : fireTx t i = some t') :
    CStep {} t.c t'.c ∧ Bounded t' := by
  unfold fireTx at h
  split at h
  · cases h
  · rename_i hl
    have hlock := lockFreeB_sound hb (by simpa using hl)
    split at h
    · rename_i name key labels hpc
      have hnd : t.c.th i ≠ .done := by rw [hpc]; intro e; cases e
      split at h
      · split at h
        · rename_i hok
          cases h
          exact ⟨CStep.commit t.c i name key labels hpc hlock ((commitOkB_iff _ _ _).mp hok), bounded_of hb (Or.inr rfl)⟩
        · cases h
      · cases h
        exact ⟨CStep.finish t.c i (finish_guard (Or.inl ⟨_, hpc⟩)), bounded_of hb (Or.inr rfl)⟩
    · rename_i key lk lv hpc
      split at h
      · rename_i sn hf
        cases h
        exact ⟨CStep.update t.c i key lk lv sn hpc hlock hf, bounded_of hb (Or.inr rfl)⟩
      · cases h
        exact ⟨CStep.finish t.c i (finish_guard (Or.inl ⟨_, hpc⟩)), bounded_of hb (Or.inr rfl)⟩
    · rename_i key order hpc
      have hnd : t.c.th i ≠ .done := by rw [hpc]; intro e; cases e
      split at h
      · split at h
        · rename_i hok
          cases h
          exact ⟨CStep.remove t.c i key order hpc hlock ((removeOkB_iff _ _).mp hok), bounded_of hb (Or.inl hnd)⟩
        · cases h
      · cases h
        exact ⟨CStep.finish t.c i (finish_guard (Or.inl ⟨_, hpc⟩)), bounded_of hb (Or.inr rfl)⟩
    · rename_i order hpc
      have hnd : t.c.th i ≠ .done := by rw [hpc]; intro e; cases e
      cases h
      exact ⟨CStep.cleanupScan t.c i order hpc (fun _ => hlock), bounded_of hb (Or.inl hnd)⟩
    · cases h

/-- an accepted event is a transition of the interleaved semantics -/
theorem fire_sound {t t' : TState} {ev : Ev} (hb : Bounded t) (h : fire t ev = some t') :
    CStep {} t.c t'.c ∧ Bounded t' := by
  cases ev with
  | spawn i op orc =>
    simp only [fire] at h
    split at h
    · rename_i hg
      simp only [Bool.and_eq_true] at hg
      cases h
      have hdone : t.c.th i = .done := by
        cases hp : t.c.th i <;> simp [hp, isDone] at hg
        rfl
      refine ⟨CStep.spawn t.c i op orc hdone (noConflictB_sound hb hg.2), ?_⟩
      intro j hj
      have hj' : t.n ≤ j ∧ i + 1 ≤ j := by
        have : max t.n (i + 1) ≤ j := hj
        omega
      show setPc t.c.th i (.idle op) j = .done
      rw [setPc_other _ _ (by omega)]
      exact hb j hj'.1
    · cases h
  | txBegin i =>
    simp only [fire] at h
    split at h
    · rename_i key parent labels hpc
      exact fireCreate_sound hb (by decide) (by rw [hpc]; rfl) h
    · rename_i key parent labels hpc
      exact fireCreate_sound hb (by decide) (by rw [hpc]; rfl) h
    · cases h
  | rename i =>
    simp only [fire] at h
    split at h
    · rename_i tgt tt sn hpc
      cases h
      exact ⟨CStep.rename t.c i tgt tt sn hpc, bounded_of hb (Or.inl (by rw [hpc]; intro e; cases e))⟩
    · cases h
  | txCommit i =>
    simp only [fire] at h
    split at h
    · rename_i tgt sn hpc
      cases h
      exact ⟨CStep.createCommit t.c i tgt sn hpc, bounded_of hb (Or.inl (by rw [hpc]; intro e; cases e))⟩
    · cases h
  | mount i =>
    simp only [fire] at h
    split at h
    · rename_i T sn hpc
      cases h
      exact ⟨CStep.mount t.c i T sn hpc, bounded_of hb (Or.inl (by rw [hpc]; intro e; cases e))⟩
    · cases h
  | icommit i =>
    simp only [fire] at h
    split at h
    · rename_i T sn hpc
      split at h
      · cases h
      · rename_i hl
        have hlock := lockFreeB_sound hb (by simpa using hl)
        split at h
        · rename_i hok
          cases h
          exact ⟨CStep.internalCommit t.c i T sn hpc hlock ((commitOkB_iff _ _ _).mp hok), bounded_of hb (Or.inr rfl)⟩
        · rename_i hok
          cases h
          exact ⟨CStep.internalCommitFail t.c i T sn hpc hlock (fun hc => hok ((commitOkB_iff _ _ _).mpr hc)),
            bounded_of hb (Or.inr rfl)⟩
    · cases h
  | tx i => exact fireTx_sound hb h
  | unmount i d =>
    simp only [fire] at h
    split at h
    · rename_i d' r hpc
      split at h
      · cases h
        exact ⟨CStep.cleanUnmount t.c i d' r hpc, bounded_of hb (Or.inl (by rw [hpc]; intro e; cases e))⟩
      · cases h
    · cases h
  | rmdir i d =>
    simp only [fire] at h
    split at h
    · rename_i d' r hpc
      split at h
      · cases h
        exact ⟨CStep.cleanRmdir t.c i d' r hpc, bounded_of hb (Or.inl (by rw [hpc]; intro e; cases e))⟩
      · cases h
    · cases h
  | ret i =>
    simp only [fire] at h
    split at h
    · rename_i hpc
      split at h
      · cases h
        exact ⟨CStep.finish t.c i (finish_guard (Or.inr (Or.inl hpc))), bounded_of hb (Or.inr rfl)⟩
      · cases h
    · rename_i u hpc
      cases h
      exact ⟨CStep.finish t.c i (finish_guard (Or.inr (Or.inr ⟨u, hpc⟩))), bounded_of hb (Or.inr rfl)⟩
    · cases h

theorem run_sound {cfg : Config} {t t' : TState} {evs : List Ev} (hb : Bounded t) (hr : CReach {} cfg t.c)
    (h : run t evs = some t') : CReach {} cfg t'.c ∧ Bounded t' := by
  induction evs generalizing t with
  | nil => simp only [run, Option.some.injEq] at h; subst h; exact ⟨hr, hb⟩
  | cons e r ih =>
    simp only [run] at h
    split at h
    · rename_i t1 hf
      obtain ⟨hs, hb1⟩ := fire_sound hb hf
      exact ih hb1 (.step hr hs) h
    · cases h

/-- acceptance is prefix closed -/
theorem run_take {t t' : TState} {evs : List Ev} (h : run t evs = some t') (k : Nat) :
    ∃ tk, run t (evs.take k) = some tk := by
  induction evs generalizing t k with
  | nil => exact ⟨t, by simp [run]⟩
  | cons e r ih =>
    cases k with
    | zero => exact ⟨t, by simp [run]⟩
    | succ k =>
      simp only [run] at h
      split at h
      · rename_i t1 hf
        obtain ⟨tk, htk⟩ := ih h k
        exact ⟨tk, by simp only [List.take_succ_cons, run, hf]; exact htk⟩
      · cases h


/-! ### the Bool evaluator `cinvB` decides the invariant `CInvar` -/

theorem pairwiseB_sound : ∀ l : List Snap, pairwiseB l = true → l.Pairwise Distinct
  | [], _ => List.Pairwise.nil
  | a :: r, h => by
    simp only [pairwiseB, Bool.and_eq_true, List.all_eq_true] at h
    refine List.Pairwise.cons ?_ (pairwiseB_sound r h.2)
    intro b hb
    have := h.1 b hb
    simp only [distinctB, Bool.and_eq_true, bne_iff_ne, ne_eq] at this
    exact this

theorem nodupB_sound : ∀ l : List Nat, nodupB l = true → l.Nodup
  | [], _ => List.nodup_nil
  | a :: r, h => by
    simp only [nodupB, Bool.and_eq_true, Bool.not_eq_true', List.contains_eq_mem, decide_eq_false_iff_not] at h
    exact List.nodup_cons.mpr ⟨h.1, nodupB_sound r h.2⟩

theorem invB_sound {s : State} (h : invB s = true) : Inv s := by
  unfold invB at h
  simp only [Bool.and_eq_true] at h
  obtain ⟨⟨⟨⟨⟨⟨⟨h1, h2⟩, h3⟩, h4⟩, h5⟩, h6⟩, h7⟩, h8⟩ := h
  refine ⟨?_, pairwiseB_sound _ h2, ?_, ?_, ?_, nodupB_sound _ h6, ?_, ?_⟩
  · intro a ha
    have := List.all_eq_true.mp h1 a ha
    simpa using this
  · intro a ha
    have := List.all_eq_true.mp h3 a ha
    simpa using this
  · intro a ha hp
    have := List.all_eq_true.mp h4 a ha
    simp only [Bool.or_eq_true, beq_iff_eq, List.any_eq_true, Bool.and_eq_true, decide_eq_true_eq] at this
    rcases this with h' | ⟨p, hp1, hp2⟩
    · exact absurd h' hp
    · exact ⟨p, hp1, hp2.1.1, hp2.1.2, hp2.2⟩
  · intro n hn
    have := List.all_eq_true.mp h5 n hn
    simpa using this
  · intro n hn
    have := List.all_eq_true.mp h7 n hn
    simpa using this
  · intro hi
    simp only [Bool.or_eq_true, List.isEmpty_iff] at h8
    rcases h8 with h' | h'
    · rw [hi] at h'; cases h'
    · exact h'

theorem allDirsB_sound {s : State} (h : allDirsB s = true) : AllDirs s := by
  intro a ha
  have := List.all_eq_true.mp h a ha
  simpa using this

theorem deadDirB_sound {s : State} {d : Dir} (h : deadDirB s d = true) : DeadDir s d := by
  cases d with
  | temp t => trivial
  | id n =>
    simp only [deadDirB, Bool.and_eq_true, decide_eq_true_eq, List.all_eq_true, bne_iff_ne, ne_eq] at h
    exact ⟨h.1, h.2⟩

theorem newRecB_sound {s : State} {sn : Snap} (h : newRecB s sn = true) : NewRec s sn := by
  simp only [newRecB, Bool.and_eq_true, Bool.or_eq_true, bne_iff_ne, ne_eq, Bool.not_eq_true', beq_iff_eq,
    List.any_eq_true] at h
  obtain ⟨⟨⟨h1, h2⟩, h3⟩, h4⟩ := h
  refine ⟨h1, h2, h3, ?_⟩
  intro hp
  rcases h4 with h4 | ⟨p, hp1, hp2⟩
  · exact absurd h4 hp
  · exact ⟨p, hp1, hp2.1, hp2.2⟩

theorem liveRecB_sound {s : State} {sn : Snap} (h : liveRecB s sn = true) : LiveRec s sn := by
  simp only [liveRecB, List.any_eq_true, Bool.and_eq_true, beq_iff_eq] at h
  obtain ⟨a, ha, h1, h2⟩ := h
  exact ⟨a, ha, h1, h2⟩

theorem tokB_sound {s : State} {pc : PC} (h : tokB s pc = true) : TOk s pc := by
  cases pc with
  | crRename tgt t sn => exact newRecB_sound h
  | crCommit tgt sn =>
    simp only [tokB, Bool.and_eq_true] at h
    exact ⟨newRecB_sound h.1, by simpa using h.2⟩
  | prepMount T sn =>
    simp only [tokB, Bool.and_eq_true] at h
    exact ⟨liveRecB_sound h.1, by simpa using h.2⟩
  | prepCommit T sn =>
    simp only [tokB, Bool.and_eq_true] at h
    exact ⟨liveRecB_sound h.1, by simpa using h.2⟩
  | clean ds u =>
    simp only [tokB, Bool.and_eq_true, List.all_eq_true] at h
    refine ⟨fun d hd => deadDirB_sound (h.1 d hd), ?_⟩
    intro hu d r hds n hn
    subst hu; subst hds; subst hn
    simpa [headUnmountedB] using h.2
  | idle op => trivial
  | done => trivial

theorem ownedSn_eq (pc : PC) : ownedSn pc = pc.owned := by cases pc <;> rfl

theorem dirBoundB_sound {t : TState} (h : dirBoundB t = true) :
    ∀ n, Dir.id n ∈ t.c.s.dirs → n ≤ t.c.s.seq ∨ ∃ i tgt sn, t.c.th i = .crCommit tgt sn ∧ sn.id = n := by
  intro n hn
  have := List.all_eq_true.mp h _ hn
  simp only [Bool.or_eq_true, decide_eq_true_eq, List.any_eq_true] at this
  rcases this with h1 | ⟨i, _, hi⟩
  · exact Or.inl h1
  · right
    cases hp : t.c.th i <;> simp [commitsId, hp] at hi
    exact ⟨i, _, _, hp, hi⟩

/-- (2) the evaluator the driver runs after every event implies the Prop invariant -/
theorem cinvB_sound {t : TState} (hb : Bounded t) (h : cinvB t = true) : CInvar t.c := by
  unfold cinvB at h
  simp only [Bool.and_eq_true] at h
  obtain ⟨⟨⟨⟨⟨⟨h1, h2⟩, h3⟩, h4⟩, h5⟩, h6⟩, h7⟩ := h
  have inR : ∀ {i : Nat}, t.c.th i ≠ .done → i ∈ List.range t.n := by
    intro i hi
    apply List.mem_range.mpr
    by_cases hlt : i < t.n
    · exact hlt
    · exact absurd (hb i (by omega)) hi
  refine ⟨invB_sound h1, allDirsB_sound h2, ?_, dirBoundB_sound h4, ?_, ?_, ?_⟩
  · intro i j hi hj
    have hin : t.c.th i ≠ .done := by intro e; rw [e] at hi; cases hi
    have hjn : t.c.th j ≠ .done := by intro e; rw [e] at hj; cases hj
    have := List.all_eq_true.mp (List.all_eq_true.mp h3 i (inR hin)) j (inR hjn)
    simpa [hi, hj] using this
  · intro i
    by_cases hi : t.c.th i = .done
    · rw [hi]; trivial
    · exact tokB_sound (List.all_eq_true.mp h5 i (inR hi))
  · intro i j a b hij ha hb'
    have hin : t.c.th i ≠ .done := by intro e; rw [e] at ha; cases ha
    have hjn : t.c.th j ≠ .done := by intro e; rw [e] at hb'; cases hb'
    have := List.all_eq_true.mp (List.all_eq_true.mp h6 i (inR hin)) j (inR hjn)
    rw [ownedSn_eq, ownedSn_eq, ha, hb'] at this
    simpa [hij, ownKeysDistinctB] using this
  · intro i j k hk hc
    have hin : t.c.th i ≠ .done := by intro e; rw [e] at hk; cases hk
    have hjn : t.c.th j ≠ .done := by intro e; rw [e] at hc; cases hc
    have := List.all_eq_true.mp (List.all_eq_true.mp h7 i (inR hin)) j (inR hjn)
    exact optDisj_sound this k hk hc

end SV.Snap.Trace
