/-
Simulation of the two TOC interpreters (`SV.Toc.memTree`, `SV.Toc.dbTree`) on the SpecConforming
fragment: both stores build the same children maps, the same link counts and the same lookups.
Part 1: names, the declarative lookup `look`, the invariant `Inv`, directory creation, linking.
-/
import SV.Lemmas.Toc

namespace SV.Toc

/-! ## Basic facts: kids maps -/

theorem getKid_setKid_same (b : String) (k : Key) (l : Kids) : getKid b (setKid b k l) = some k := by
  induction l with
  | nil => simp [setKid, getKid]
  | cons x xs ih =>
    unfold setKid
    by_cases h : x.1 = b
    · simp [h, getKid]
    · simp [h, getKid, ih]

theorem getKid_setKid_ne (b b' : String) (k : Key) (l : Kids) (h : b' ≠ b) :
    getKid b' (setKid b k l) = getKid b' l := by
  induction l with
  | nil => simp [setKid, getKid, Ne.symm h]
  | cons x xs ih =>
    unfold setKid
    by_cases hx : x.1 = b
    · have hne : ¬ x.1 = b' := fun e => h (e.symm.trans hx)
      rw [if_pos hx]
      simp only [getKid]
      rw [if_neg (Ne.symm h), if_neg hne]
    · rw [if_neg hx]
      simp only [getKid]
      by_cases hx' : x.1 = b'
      · rw [if_pos hx', if_pos hx']
      · rw [if_neg hx', if_neg hx', ih]

theorem walkKids_snoc (kids : Key → Kids) (k : Key) (p : Path) (x : String) :
    walkKids kids k (p ++ [x]) = (walkKids kids k p).bind fun c => getKid x (kids c) := by
  induction p generalizing k with
  | nil =>
    simp only [List.nil_append, walkKids, Option.bind]
    cases getKid x (kids k) <;> rfl
  | cons b rest ih =>
    simp only [List.cons_append, walkKids]
    cases getKid b (kids k) with
    | none => simp
    | some c => simp [ih]

/-- a walk is determined by its snoc-unfolding -/
theorem walkKids_eq_of_snoc (kids : Key → Kids) (f : Path → Option Key)
    (h0 : f [] = some .root)
    (hs : ∀ p x, f (p ++ [x]) = (f p).bind fun c => getKid x (kids c)) :
    ∀ p, walkKids kids .root p = f p := by
  intro p
  generalize hn : p.length = n
  induction n generalizing p with
  | zero =>
    have : p = [] := List.length_eq_zero_iff.mp hn
    subst this; simp [walkKids, h0]
  | succ n ih =>
    rcases List.eq_nil_or_concat p with e | ⟨q, x, e⟩
    · subst e; simp at hn
    · subst e
      rw [List.concat_eq_append] at hn ⊢
      have hq : q.length = n := by simp at hn; omega
      rw [walkKids_snoc, ih q hq, hs]

end SV.Toc
namespace SV.Toc
/-! ## pass 1 -/

theorem pass1Go_length (lp : Path) (lr : Option Int) (es : List Entry) :
    (pass1Go lp lr es).length = es.length := by
  induction es generalizing lp lr with
  | nil => rfl
  | cons e es ih => simp [pass1Go, ih]

theorem pass1Go_getElem (es : List Entry) : ∀ (lp : Path) (lr : Option Int) (i : Nat) (m : MEnt),
    (pass1Go lp lr es)[i]? = some m →
      es[i]? = some m.e ∧ (m.e.type ≠ "chunk" → m.path = cleanName m.e.name) := by
  induction es with
  | nil => intro lp lr i m h; simp [pass1Go] at h
  | cons e es ih =>
    intro lp lr i m h
    cases i with
    | zero =>
      simp only [pass1Go, List.getElem?_cons_zero, Option.some.injEq] at h
      subst h
      refine ⟨by simp [pass1Ent], ?_⟩
      intro hc
      simp only [pass1Ent] at hc ⊢
      simp [hc]
    | succ i =>
      simp only [pass1Go, List.getElem?_cons_succ] at h
      simpa using ih _ _ i m h

theorem pass1_length (es : List Entry) : (pass1 es).length = es.length := pass1Go_length _ _ _

theorem pass1_getElem (es : List Entry) (i : Nat) (m : MEnt) (h : (pass1 es)[i]? = some m) :
    es[i]? = some m.e ∧ (m.e.type ≠ "chunk" → m.path = cleanName m.e.name) :=
  pass1Go_getElem es _ _ i m h

/-! ## `r.m` restricted to entries -/

def NonChunkAt (ms : List MEnt) (j : Nat) (p : Path) : Prop :=
  ∃ m, ms[j]? = some m ∧ m.e.type ≠ "chunk" ∧ m.path = p

theorem lastIdxFrom_some (ms : List MEnt) (p : Path) : ∀ (k j : Nat), lastIdxFrom ms p k = some j →
    k ≤ j ∧ NonChunkAt ms (j - k) p := by
  induction ms with
  | nil => intro k j h; simp [lastIdxFrom] at h
  | cons m rest ih =>
    intro k j h
    unfold lastIdxFrom at h
    cases hr : lastIdxFrom rest p (k + 1) with
    | some j' =>
      rw [hr] at h
      simp only [Option.some.injEq] at h; subst h
      obtain ⟨h1, m', h2, h3⟩ := ih (k + 1) j' hr
      refine ⟨by omega, m', ?_, h3⟩
      have : j' - k = (j' - (k + 1)) + 1 := by omega
      rw [this]; simpa using h2
    | none =>
      rw [hr] at h
      simp only at h
      split at h
      · rename_i hm
        simp only [Option.some.injEq] at h; subst h
        exact ⟨Nat.le_refl _, m, by simp, hm.1, hm.2⟩
      · cases h

theorem lastIdxFrom_ge (ms : List MEnt) (p : Path) : ∀ (k t : Nat), NonChunkAt ms t p →
    ∃ j, lastIdxFrom ms p k = some j ∧ k + t ≤ j := by
  induction ms with
  | nil => intro k t ⟨m, h, _⟩; simp at h
  | cons m rest ih =>
    intro k t ⟨m', h1, h2, h3⟩
    unfold lastIdxFrom
    cases t with
    | zero =>
      simp only [List.getElem?_cons_zero, Option.some.injEq] at h1; subst h1
      cases hr : lastIdxFrom rest p (k + 1) with
      | some j' =>
        have := (lastIdxFrom_some rest p (k + 1) j' hr).1
        exact ⟨j', rfl, by omega⟩
      | none => exact ⟨k, by simp [h2, h3], by omega⟩
    | succ t =>
      simp only [List.getElem?_cons_succ] at h1
      obtain ⟨j, hj, hle⟩ := ih (k + 1) t ⟨m', h1, h2, h3⟩
      rw [hj]
      exact ⟨j, rfl, by omega⟩

/-- names of non-chunk entries are pairwise different -/
def NamesNodup (ms : List MEnt) : Prop :=
  ∀ i j p, NonChunkAt ms i p → NonChunkAt ms j p → i = j

theorem lastIdx_eq_some_iff (ms : List MEnt) (hnd : NamesNodup ms) (p : Path) (j : Nat) :
    lastIdx ms p = some j ↔ NonChunkAt ms j p := by
  constructor
  · intro h
    have := lastIdxFrom_some ms p 0 j h
    simpa using this.2
  · intro h
    obtain ⟨j', hj', _⟩ := lastIdxFrom_ge ms p 0 j h
    have h2 := (lastIdxFrom_some ms p 0 j' hj').2
    simp only [Nat.sub_zero] at h2
    have := hnd _ _ _ h h2
    subst this
    exact hj'

theorem lastIdx_eq_none_iff (ms : List MEnt) (p : Path) :
    lastIdx ms p = none ↔ ∀ j, ¬ NonChunkAt ms j p := by
  constructor
  · intro h j hj
    obtain ⟨j', hj', _⟩ := lastIdxFrom_ge ms p 0 j hj
    unfold lastIdx at h; rw [h] at hj'; cases hj'
  · intro h
    cases hl : lastIdx ms p with
    | none => rfl
    | some j =>
      have := (lastIdxFrom_some ms p 0 j hl).2
      simp only [Nat.sub_zero] at this
      exact absurd this (h j)

end SV.Toc

namespace SV.Toc

/-! ## The fragment of TOCs on which the trees are compared -/

structure TreeOK (ms : List MEnt) : Prop where
  nodup : NamesNodup ms
  noRoot : ∀ j, ¬ NonChunkAt ms j []
  /-- a directory entry precedes everything below it; anything else above an entry is implicit -/
  parents : ∀ i p, NonChunkAt ms i p → ∀ n, 0 < n → n < p.length →
    ∀ (j : Nat) (m : MEnt), ms[j]? = some m → m.e.type ≠ "chunk" → m.path = p.take n → m.e.type = "dir" ∧ j < i
  /-- hardlinks point at earlier non-directory entries -/
  hardlinks : ∀ (i : Nat) (m : MEnt), ms[i]? = some m → m.e.type = "hardlink" →
    ∃ j, j < i ∧ ∃ mj : MEnt, ms[j]? = some mj ∧ mj.e.type ≠ "chunk" ∧ mj.path = cleanName m.e.linkName
      ∧ mj.e.type ≠ "dir"

/-- hardlink resolution by index, with fuel -/
def resolveF (ms : List MEnt) : Nat → Nat → Key
  | 0, j => .ent j
  | f + 1, j =>
    match ms[j]? with
    | some m =>
      if m.e.type = "hardlink" then
        match lastIdx ms (cleanName m.e.linkName) with
        | some t => resolveF ms f t
        | none => .ent j
      else .ent j
    | none => .ent j

def resolveKey (ms : List MEnt) (j : Nat) : Key := resolveF ms j j

theorem hardlink_target {ms : List MEnt} (ok : TreeOK ms) {i : Nat} {m : MEnt}
    (hm : ms[i]? = some m) (hh : m.e.type = "hardlink") :
    ∃ t, t < i ∧ lastIdx ms (cleanName m.e.linkName) = some t ∧
      ∃ mt, ms[t]? = some mt ∧ mt.e.type ≠ "chunk" ∧ mt.e.type ≠ "dir" := by
  obtain ⟨j, hj, mj, h1, h2, h3, h4⟩ := ok.hardlinks i m hm hh
  exact ⟨j, hj, (lastIdx_eq_some_iff ms ok.nodup _ j).mpr ⟨mj, h1, h2, h3⟩, mj, h1, h2, h4⟩

theorem resolveF_stable {ms : List MEnt} (ok : TreeOK ms) :
    ∀ (t f : Nat), t ≤ f → resolveF ms f t = resolveF ms t t := by
  intro t
  induction t using Nat.strongRecOn with
  | _ t ih =>
    intro f hf
    cases hm : ms[t]? with
    | none =>
      cases f <;> cases t <;> simp [resolveF, hm]
    | some m =>
      by_cases hh : m.e.type = "hardlink"
      · obtain ⟨t', ht', hl, _⟩ := hardlink_target ok hm hh
        cases t with
        | zero => omega
        | succ t0 =>
          cases f with
          | zero => omega
          | succ f0 =>
            simp only [resolveF, hm, hh, ↓reduceIte, hl]
            rw [ih t' ht' f0 (by omega), ih t' ht' t0 (by omega)]
      · cases f <;> cases t <;> simp [resolveF, hm, hh]

theorem resolveKey_unfold {ms : List MEnt} (ok : TreeOK ms) {j : Nat} {m : MEnt}
    (hm : ms[j]? = some m) :
    resolveKey ms j = if m.e.type = "hardlink" then
        (match lastIdx ms (cleanName m.e.linkName) with
         | some t => resolveKey ms t
         | none => .ent j)
      else .ent j := by
  unfold resolveKey
  by_cases hh : m.e.type = "hardlink"
  · obtain ⟨t, ht, hl, _⟩ := hardlink_target ok hm hh
    cases j with
    | zero => omega
    | succ j0 =>
      simp only [resolveF, hm, hh, ↓reduceIte, hl]
      exact resolveF_stable ok t j0 (by omega)
  · cases j <;> simp [resolveF, hm, hh]

/-- what an index resolves to -/
theorem resolveKey_spec {ms : List MEnt} (ok : TreeOK ms) :
    ∀ (j : Nat) (m : MEnt), ms[j]? = some m → m.e.type ≠ "chunk" →
      ∃ r mr, r ≤ j ∧ resolveKey ms j = .ent r ∧ ms[r]? = some mr ∧ mr.e.type ≠ "chunk" ∧
        mr.e.type ≠ "hardlink" ∧ (m.e.type = "hardlink" → mr.e.type ≠ "dir") ∧
        (m.e.type ≠ "hardlink" → r = j) := by
  intro j
  induction j using Nat.strongRecOn with
  | _ j ih =>
    intro m hm hc
    rw [resolveKey_unfold ok hm]
    by_cases hh : m.e.type = "hardlink"
    · obtain ⟨t, ht, hl, mt, hmt, hct, hdt⟩ := hardlink_target ok hm hh
      rw [if_pos hh]; simp only [hl]
      obtain ⟨r, mr, h1, h2, h3, h4, h5, h6, h7⟩ := ih t ht mt hmt hct
      refine ⟨r, mr, by omega, h2, h3, h4, h5, ?_, fun h => absurd hh h⟩
      intro _
      by_cases hht : mt.e.type = "hardlink"
      · exact h6 hht
      · have := h7 hht; subst this; rw [hmt] at h3; cases h3; exact hdt
    · rw [if_neg hh]
      exact ⟨j, m, Nat.le_refl _, rfl, hm, hc, hh, fun h => absurd h hh, fun _ => rfl⟩

/-! ## The lookup both stores implement, stated on the TOC -/

/-- the node a cleaned name leads to after the entries `< i` have been processed and the implicit
directories `imps` have been created -/
def look (ms : List MEnt) (i : Nat) (imps : List Path) (p : Path) : Option Key :=
  if p = [] then some .root
  else match lastIdx ms p with
    | some j => if j < i then some (resolveKey ms j) else none
    | none => if p ∈ imps then some (.imp p) else none

/-- keys of directories -/
def IsDirKey (ms : List MEnt) : Key → Prop
  | .root => True
  | .imp _ => True
  | .ent j => ∃ m, ms[j]? = some m ∧ m.e.type = "dir"

/-- nodes that exist after the entries `< i` -/
def Created (ms : List MEnt) (i : Nat) (imps : List Path) : Key → Prop
  | .root => True
  | .imp p => p ∈ imps ∧ p ≠ []
  | .ent j => j < i ∧ ∃ m, ms[j]? = some m ∧ m.e.type ≠ "chunk" ∧ m.e.type ≠ "hardlink"

theorem look_created {ms : List MEnt} (ok : TreeOK ms) {i : Nat} {imps : List Path} {p : Path} {k : Key}
    (h : look ms i imps p = some k) : Created ms i imps k := by
  unfold look at h
  split at h
  · cases h; trivial
  · rename_i hp
    split at h
    · rename_i j hl
      split at h
      · rename_i hj
        cases h
        obtain ⟨m, hm, hc, _⟩ := (lastIdx_eq_some_iff ms ok.nodup p j).mp hl
        obtain ⟨r, mr, h1, h2, h3, h4, h5, _, _⟩ := resolveKey_spec ok j m hm hc
        rw [h2]
        exact ⟨by omega, mr, h3, h4, h5⟩
      · cases h
    · split at h
      · cases h; rename_i hmem; exact ⟨hmem, hp⟩
      · cases h

/-- a directory is reached by its own name only -/
theorem look_dir_unique {ms : List MEnt} (ok : TreeOK ms) {i : Nat} {imps : List Path} {p q : Path} {k : Key}
    (hp : look ms i imps p = some k) (hq : look ms i imps q = some k) (hd : IsDirKey ms k) : p = q := by
  have key : ∀ (p : Path), look ms i imps p = some k →
      (k = .root ∧ p = []) ∨ (k = .imp p ∧ p ≠ []) ∨
      (∃ j m, p ≠ [] ∧ k = .ent j ∧ ms[j]? = some m ∧ m.e.type ≠ "chunk" ∧ m.path = p) := by
    intro p h
    unfold look at h
    split at h
    · cases h; rename_i e; exact Or.inl ⟨rfl, e⟩
    · rename_i hne
      split at h
      · rename_i j hl
        split at h
        · cases h
          obtain ⟨m, hm, hc, hpath⟩ := (lastIdx_eq_some_iff ms ok.nodup p j).mp hl
          obtain ⟨r, mr, h1, h2, h3, h4, h5, h6, h7⟩ := resolveKey_spec ok j m hm hc
          rw [h2] at hd ⊢
          obtain ⟨md, hmd, hdir⟩ := hd
          rw [h3] at hmd; cases hmd
          have hnh : m.e.type ≠ "hardlink" := fun e => h6 e hdir
          have := h7 hnh; subst this
          exact Or.inr (Or.inr ⟨r, m, hne, rfl, hm, hc, hpath⟩)
        · cases h
      · split at h
        · cases h; exact Or.inr (Or.inl ⟨rfl, hne⟩)
        · cases h
  rcases key p hp with ⟨h1, h2⟩ | ⟨h1, h2⟩ | ⟨j, m, h0, h1, h2, h3, h4⟩
  · rcases key q hq with ⟨_, h4⟩ | ⟨h3, _⟩ | ⟨_, _, _, h3, _⟩
    · rw [h2, h4]
    · rw [h1] at h3; cases h3
    · rw [h1] at h3; cases h3
  · rcases key q hq with ⟨h3, _⟩ | ⟨h3, _⟩ | ⟨_, _, _, h3, _⟩
    · rw [h1] at h3; cases h3
    · rw [h1] at h3; cases h3; rfl
    · rw [h1] at h3; cases h3
  · rcases key q hq with ⟨h5, _⟩ | ⟨h5, _⟩ | ⟨j', m', _, h5, h6, h7, h8⟩
    · rw [h1] at h5; cases h5
    · rw [h1] at h5; cases h5
    · rw [h1] at h5; cases h5
      rw [h2] at h6; cases h6
      rw [← h4, ← h8]

end SV.Toc

namespace SV.Toc

/-! ## Linking a child: effect on walks -/

theorem walk_link (kids : Key → Kids) (g : Path → Option Key) (q : Path) (b : String) (pk c : Key)
    (hw : ∀ p, walkKids kids .root p = g p)
    (hq : g q = some pk) (hd : g (q ++ [b]) = none)
    (huniq : ∀ p, g p = some pk → p = q) (hck : kids c = []) (hne : c ≠ pk) :
    ∀ p, walkKids (fun k => if k = pk then setKid b c (kids k) else kids k) .root p =
      if p = q ++ [b] then some c else g p := by
  have hg0 : g [] = some .root := by rw [← hw]; rfl
  have hgs : ∀ p x, g (p ++ [x]) = (g p).bind fun k => getKid x (kids k) := by
    intro p x; rw [← hw, ← hw, walkKids_snoc]
  apply walkKids_eq_of_snoc
  · have : ([] : Path) ≠ q ++ [b] := by simp
    rw [if_neg this]; exact hg0
  · intro p x
    by_cases hpx : p ++ [x] = q ++ [b]
    · have hpq : p = q ∧ x = b := by
        have := List.append_inj' hpx rfl
        exact ⟨this.1, by simpa using this.2⟩
      obtain ⟨rfl, rfl⟩ := hpq
      have : p ≠ p ++ [x] := by
        intro e; have := congrArg List.length e; simp at this
      rw [if_pos rfl, if_neg this, hq]
      simp [getKid_setKid_same]
    · rw [if_neg hpx]
      by_cases hpd : p = q ++ [b]
      · rw [if_pos hpd, hgs, hpd, hd]
        simp only [Option.bind]
        rw [if_neg hne, hck]; rfl
      · rw [if_neg hpd, hgs]
        cases hgp : g p with
        | none => rfl
        | some k =>
          simp only [Option.bind]
          by_cases hk : k = pk
          · subst hk
            have hp := huniq p hgp
            subst hp
            have hx : x ≠ b := fun e => hpx (by rw [e])
            rw [if_pos rfl, getKid_setKid_ne _ _ _ _ hx]
          · rw [if_neg hk]

/-! ## The simulation invariant -/

def attr0 (ms : List MEnt) : Key → Attr
  | .ent j =>
    match ms[j]? with
    | some m => attrOfEntry m.e (if m.e.type = "dir" then 2 else 1)
    | none => {}
  | _ => rootAttr

def eraseNL (b : DbAttr) : DbAttr := { b with numLink := none }

/-- NumLink of the memory store, with the root directory counted as if it already existed -/
def nlEff (sm : MState) (k : Key) : Int := if k = .root ∧ [] ∉ sm.imps then 2 else sm.nl k

structure Inv (ms : List MEnt) (i : Nat) (sm : MState) (sd : DState) (P : List Path) (δ : Key → Int) : Prop where
  kids : ∀ k, sm.kids k = sd.kids k
  walk : ∀ p, walkKids sd.kids .root p = if p ∈ P then none else look ms i sm.imps p
  impsNone : ∀ p ∈ sm.imps, lastIdx ms p = none
  pend : ∀ p ∈ P, p ∈ sm.imps ∧ p ≠ []
  node : ∀ k, Created ms i sm.imps k → ∃ b, sd.nodes k = some b ∧
    eraseNL b = eraseNL (writeAttr {} (attr0 ms k)) ∧ readNumLink b = nlEff sm k + δ k
  noKids : ∀ k, ¬ (Created ms i sm.imps k ∧ IsDirKey ms k) → sd.kids k = []
  pendKids : ∀ p ∈ P, sd.kids (.imp p) = []
  freshNl : ∀ j, i ≤ j → sm.nl (.ent j) = initNl ms (.ent j)
  /-- the memory store creates its root directory lazily, before the first child is linked -/
  rootImp : sm.kids .root ≠ [] → [] ∈ sm.imps

def Admissible (ms : List MEnt) (i : Nat) (q : Path) : Prop :=
  ∀ n, 0 < n → n ≤ q.length → ∀ (j : Nat) (m : MEnt), ms[j]? = some m → m.e.type ≠ "chunk" →
    m.path = q.take n → m.e.type = "dir" ∧ j < i

theorem mLookup_eq_look {ms : List MEnt} (ok : TreeOK ms) {i : Nat} {sm : MState} {d : Path}
    (hadm : Admissible ms i d) (hne : d ≠ []) :
    mLookup ms sm d = look ms i sm.imps d ∧
      (∀ k, look ms i sm.imps d = some k → IsDirKey ms k) := by
  unfold mLookup look
  rw [if_neg hne]
  cases hl : lastIdx ms d with
  | some j =>
    obtain ⟨m, hm, hc, hp⟩ := (lastIdx_eq_some_iff ms ok.nodup d j).mp hl
    have hlen : 0 < d.length := List.length_pos_iff.mpr hne
    have := hadm d.length hlen (Nat.le_refl _) j m hm hc (by simp [hp])
    obtain ⟨r, mr, h1, h2, h3, h4, h5, h6, h7⟩ := resolveKey_spec ok j m hm hc
    have hnh : m.e.type ≠ "hardlink" := by rw [this.1]; decide
    have hr := h7 hnh; subst hr
    simp only [this.2, ↓reduceIte, h2]
    refine ⟨trivial, ?_⟩
    intro k hk; cases hk
    exact ⟨m, hm, this.1⟩
  | none =>
    simp only
    by_cases hmem : d ∈ sm.imps
    · simp only [hmem, ↓reduceIte, impKey, hne]
      exact ⟨trivial, fun k hk => by cases hk; trivial⟩
    · simp only [hmem, ↓reduceIte]
      exact ⟨trivial, fun k hk => by cases hk⟩

end SV.Toc

namespace SV.Toc

theorem readNumLink_root : readNumLink (writeAttr {} rootAttr) = 2 := by decide

theorem eraseNL_bump (b : DbAttr) : eraseNL (bumpNumLink b) = eraseNL b := rfl

theorem readNumLink_bump (b : DbAttr) : readNumLink (bumpNumLink b) = readNumLink b + 1 := by
  simp [readNumLink, bumpNumLink]

theorem look_cons_ne {ms : List MEnt} {i : Nat} {imps : List Path} {d p : Path} (h : p ≠ d) :
    look ms i (d :: imps) p = look ms i imps p := by
  unfold look
  have : (p ∈ d :: imps) ↔ p ∈ imps := by simp [h]
  simp only [this]

theorem created_cons {ms : List MEnt} {i : Nat} {imps : List Path} {d : Path} {k : Key}
    (hk : k ≠ .imp d) : Created ms i (d :: imps) k ↔ Created ms i imps k := by
  cases k with
  | root => simp [Created]
  | ent j => simp [Created]
  | imp p =>
    have : p ≠ d := fun e => hk (by rw [e])
    simp [Created, this]

/-- an implicit directory has been created (bucket / `r.m` entry) but not linked yet -/
theorem inv_create_imp {ms : List MEnt} {i : Nat} {sm : MState} {sd : DState} {P : List Path}
    {δ : Key → Int} (inv : Inv ms i sm sd P δ) (d : Path) (hne : d ≠ []) (hnot : d ∉ sm.imps)
    (hl : lastIdx ms d = none) (hδ : δ (.imp d) = 0) :
    Inv ms i { sm with imps := d :: sm.imps, nl := fun k => if k = .imp d then 2 else sm.nl k }
      (setNode sd (.imp d) (writeAttr {} rootAttr)) (d :: P) δ := by
  have hlook : look ms i sm.imps d = none := by
    unfold look; rw [if_neg hne, hl]; simp [hnot]
  refine ⟨inv.kids, ?_, ?_, ?_, ?_, ?_, ?_, inv.freshNl, fun h => List.mem_cons_of_mem _ (inv.rootImp h)⟩
  · intro p
    show walkKids sd.kids .root p = _
    rw [inv.walk p]
    by_cases hp : p = d
    · subst hp
      simp only [List.mem_cons, true_or, ↓reduceIte]
      split
      · rfl
      · exact hlook
    · rw [look_cons_ne hp]
      simp [hp]
  · intro p hp
    rcases List.mem_cons.mp hp with e | e
    · rw [e]; exact hl
    · exact inv.impsNone p e
  · intro p hp
    rcases List.mem_cons.mp hp with e | e
    · rw [e]; exact ⟨List.mem_cons_self .., hne⟩
    · exact ⟨List.mem_cons_of_mem _ (inv.pend p e).1, (inv.pend p e).2⟩
  · intro k hk
    by_cases hkd : k = .imp d
    · subst hkd
      refine ⟨writeAttr {} rootAttr, by simp [setNode], rfl, ?_⟩
      rw [readNumLink_root, hδ]
      simp [nlEff]
    · have hk' := (created_cons hkd).mp hk
      obtain ⟨b, h1, h2, h3⟩ := inv.node k hk'
      refine ⟨b, by simp [setNode, hkd, h1], h2, ?_⟩
      rw [h3]
      congr 1
      unfold nlEff
      simp only [hkd, ↓reduceIte, List.mem_cons]
      have : ([] : Path) ≠ d := fun e => hne e.symm
      simp [this]
  · intro k hk
    show sd.kids k = []
    apply inv.noKids
    intro ⟨h1, h2⟩
    by_cases hkd : k = .imp d
    · subst hkd; exact hnot h1.1
    · exact hk ⟨(created_cons hkd).mpr h1, h2⟩
  · intro p hp
    show sd.kids (.imp p) = []
    rcases List.mem_cons.mp hp with e | e
    · rw [e]
      apply inv.noKids
      intro ⟨h1, _⟩; exact hnot h1.1
    · exact inv.pendKids p e

end SV.Toc

namespace SV.Toc

theorem resolveF_is_ent (ms : List MEnt) : ∀ f t, ∃ r, resolveF ms f t = .ent r := by
  intro f
  induction f with
  | zero => intro t; exact ⟨t, rfl⟩
  | succ f ih =>
    intro t
    simp only [resolveF]
    split
    · split
      · split
        · exact ih _
        · exact ⟨t, rfl⟩
      · exact ⟨t, rfl⟩
    · exact ⟨t, rfl⟩

theorem look_imp_key {ms : List MEnt} {i : Nat} {imps : List Path} {p q : Path}
    (h : look ms i imps p = some (.imp q)) : p = q ∧ q ∈ imps := by
  unfold look at h
  split at h
  · cases h
  · split at h
    · split at h
      · rename_i j _ _
        obtain ⟨r, hr⟩ := resolveF_is_ent ms j j
        unfold resolveKey at h
        rw [hr] at h; cases h
      · cases h
    · split at h
      · cases h; rename_i hm; exact ⟨rfl, hm⟩
      · cases h

theorem keyType_imp (ms : List MEnt) (p : Path) : keyType ms (.imp p) = "dir" := rfl

/-- the pending implicit directory `d = q ++ [b]` is linked into its parent -/
theorem inv_link_pending {ms : List MEnt} (ok : TreeOK ms) {i : Nat} {sm : MState} {sd : DState}
    {P : List Path} {δ : Key → Int} (q : Path) (b : String) (pk : Key)
    (inv : Inv ms i sm sd ((q ++ [b]) :: P) δ)
    (hq : look ms i sm.imps q = some pk) (hqP : q ∉ P) (hdP : (q ++ [b]) ∉ P)
    (hdir : IsDirKey ms pk) (hroot : pk = .root → [] ∈ sm.imps) :
    Inv ms i (mAddChild ms sm pk b (.imp (q ++ [b]))) (dSetChild sd pk b (.imp (q ++ [b])) true) P δ := by
  have hqd : q ≠ q ++ [b] := by intro e; have := congrArg List.length e; simp at this
  have hpkc := look_created ok hq
  obtain ⟨bp, hbp1, hbp2, hbp3⟩ := inv.node pk hpkc
  have hpend := inv.pend (q ++ [b]) (List.mem_cons_self ..)
  have hne : Key.imp (q ++ [b]) ≠ pk := by
    intro e; rw [← e] at hq
    exact hqd (look_imp_key hq).1
  -- shape of the new states
  have hsdkids : (dSetChild sd pk b (.imp (q ++ [b])) true).kids =
      fun k => if k = pk then setKid b (.imp (q ++ [b])) (sd.kids k) else sd.kids k := by
    simp [dSetChild, hbp1, setNode]
  have hsdnodes : (dSetChild sd pk b (.imp (q ++ [b])) true).nodes =
      fun k => if k = pk then some (bumpNumLink bp) else sd.nodes k := by
    simp [dSetChild, hbp1, setNode]
  have hsmimps : (mAddChild ms sm pk b (.imp (q ++ [b]))).imps = sm.imps := rfl
  have hsmnl : (mAddChild ms sm pk b (.imp (q ++ [b]))).nl = fun k => if k = pk then sm.nl k + 1 else sm.nl k := by
    simp [mAddChild, keyType_imp]
  refine ⟨?_, ?_, inv.impsNone, ?_, ?_, ?_, ?_, ?_, ?_⟩
  rotate_right
  · intro h
    by_cases hpk : pk = .root
    · exact hroot hpk
    · apply inv.rootImp
      simpa [mAddChild, Ne.symm hpk] using h
  · intro k
    rw [hsdkids]
    simp only [mAddChild]
    rw [inv.kids]
  · intro p
    rw [hsdkids]
    have := walk_link sd.kids (fun p => if p ∈ (q ++ [b]) :: P then none else look ms i sm.imps p)
      q b pk (.imp (q ++ [b])) inv.walk
      (by simp only [List.mem_cons, hqd, hqP, or_self, ↓reduceIte]; exact hq)
      (by simp)
      (by
        intro p hp
        split at hp
        · cases hp
        · exact look_dir_unique ok hp hq hdir)
      (inv.pendKids _ (List.mem_cons_self ..)) hne p
    rw [this, hsmimps]
    by_cases hpd : p = q ++ [b]
    · subst hpd
      rw [if_pos rfl, if_neg hdP]
      unfold look
      rw [if_neg hpend.2, inv.impsNone _ hpend.1]
      simp [hpend.1]
    · rw [if_neg hpd]
      simp [hpd]
  · intro p hp
    exact inv.pend p (List.mem_cons_of_mem _ hp)
  · intro k hk
    rw [hsdnodes]
    by_cases hkp : k = pk
    · subst hkp
      refine ⟨bumpNumLink bp, by simp, by rw [eraseNL_bump]; exact hbp2, ?_⟩
      rw [readNumLink_bump, hbp3]
      unfold nlEff
      rw [hsmimps, hsmnl]
      by_cases hr : k = .root
      · have := hroot hr
        simp [this]; omega
      · simp [hr]; omega
    · obtain ⟨b', h1, h2, h3⟩ := inv.node k hk
      refine ⟨b', by simp [hkp, h1], h2, ?_⟩
      rw [h3]; unfold nlEff; rw [hsmimps, hsmnl]; simp [hkp]
  · intro k hk
    rw [hsdkids]
    have hkp : k ≠ pk := fun e => hk (by subst e; exact ⟨hpkc, hdir⟩)
    simp only [hkp, ↓reduceIte]
    exact inv.noKids k hk
  · intro p hp
    rw [hsdkids]
    have : Key.imp p ≠ pk := by
      intro e; rw [← e] at hq
      exact hqP ((look_imp_key hq).1 ▸ hp)
    simp only [this, ↓reduceIte]
    exact inv.pendKids p (List.mem_cons_of_mem _ hp)
  · intro j hj
    rw [hsmnl]
    have : Key.ent j ≠ pk := by
      intro e; rw [← e] at hpkc
      exact absurd hpkc.1 (by omega)
    simp only [this, ↓reduceIte]
    exact inv.freshNl j hj

end SV.Toc

namespace SV.Toc

theorem inv_create_root {ms : List MEnt} (ok : TreeOK ms) {i : Nat} {sm : MState} {sd : DState}
    {P : List Path} {δ : Key → Int} (inv : Inv ms i sm sd P δ) (hnot : [] ∉ sm.imps) :
    Inv ms i { sm with imps := [] :: sm.imps, nl := fun k => if k = .root then 2 else sm.nl k } sd P δ := by
  have hl : lastIdx ms [] = none := (lastIdx_eq_none_iff ms []).mpr ok.noRoot
  have hcr : ∀ k, Created ms i ([] :: sm.imps) k ↔ Created ms i sm.imps k := by
    intro k
    cases k with
    | root => simp [Created]
    | ent j => simp [Created]
    | imp p =>
      simp only [Created, List.mem_cons]
      constructor
      · rintro ⟨h1 | h1, h2⟩
        · exact absurd h1 h2
        · exact ⟨h1, h2⟩
      · rintro ⟨h1, h2⟩; exact ⟨Or.inr h1, h2⟩
  refine ⟨inv.kids, ?_, ?_, ?_, ?_, ?_, inv.pendKids, inv.freshNl, fun _ => List.mem_cons_self ..⟩
  · intro p
    rw [inv.walk p]
    by_cases hp : p = []
    · subst hp; simp [look]
    · rw [look_cons_ne hp]
  · intro p hp
    rcases List.mem_cons.mp hp with e | e
    · rw [e]; exact hl
    · exact inv.impsNone p e
  · intro p hp
    exact ⟨List.mem_cons_of_mem _ (inv.pend p hp).1, (inv.pend p hp).2⟩
  · intro k hk
    obtain ⟨b, h1, h2, h3⟩ := inv.node k ((hcr k).mp hk)
    refine ⟨b, h1, h2, ?_⟩
    rw [h3]; congr 1
    unfold nlEff
    by_cases hr : k = .root
    · subst hr; simp [hnot]
    · simp [hr]
  · intro k hk
    apply inv.noKids
    intro ⟨h1, h2⟩
    exact hk ⟨(hcr k).mpr h1, h2⟩

theorem take_reverse_cons (b : String) (rest : List String) (n : Nat) (hn : n ≤ rest.length) :
    ((b :: rest).reverse).take n = rest.reverse.take n := by
  simp only [List.reverse_cons]
  rw [List.take_append_of_le_length (by simpa using hn)]

theorem goc {ms : List MEnt} (ok : TreeOK ms) (i : Nat) :
    ∀ (rev : List String) (sm : MState) (sd : DState) (P : List Path) (δ : Key → Int),
      Inv ms i sm sd P δ → (∀ p, δ (.imp p) = 0) →
      Admissible ms i rev.reverse →
      (∀ n, n ≤ rev.length → rev.reverse.take n ∉ P) →
      ∃ sm' sd' k, mGetOrCreateDir ms sm rev = (sm', k) ∧ dGetOrCreateDir sd rev = some (sd', k) ∧
        Inv ms i sm' sd' P δ ∧ look ms i sm'.imps rev.reverse = some k ∧ IsDirKey ms k ∧
        (k = .root → [] ∈ sm'.imps) ∧
        (∀ p, p ∈ sm.imps → p ∈ sm'.imps) ∧
        (∀ j, i ≤ j → sd'.nodes (.ent j) = sd.nodes (.ent j)) ∧
        sd'.lastEnt = sd.lastEnt ∧ sd'.lastEntSize = sd.lastEntSize ∧ sd'.chunks = sd.chunks := by
  intro rev
  induction rev with
  | nil =>
    intro sm sd P δ inv _ _ _
    have hl : lastIdx ms [] = none := (lastIdx_eq_none_iff ms []).mpr ok.noRoot
    obtain ⟨br, hbr, _, _⟩ := inv.node .root trivial
    by_cases hmem : [] ∈ sm.imps
    · refine ⟨sm, sd, .root, ?_, ?_, inv, by simp [look], trivial, fun _ => hmem, fun _ h => h,
        fun _ _ => rfl, rfl, rfl, rfl⟩
      · simp [mGetOrCreateDir, mLookup, hl, hmem, impKey]
      · simp [dGetOrCreateDir, hbr]
    · refine ⟨_, sd, .root, ?_, ?_, inv_create_root ok inv hmem, by simp [look], trivial,
        fun _ => List.mem_cons_self .., fun _ h => List.mem_cons_of_mem _ h, fun _ _ => rfl, rfl, rfl, rfl⟩
      · simp [mGetOrCreateDir, mLookup, hl, hmem]
      · simp [dGetOrCreateDir, hbr]
  | cons b rest ih =>
    intro sm sd P δ inv hδ hadm hP
    have hd : (b :: rest).reverse = rest.reverse ++ [b] := by simp
    have hne : (b :: rest).reverse ≠ [] := by simp
    have hdP : (b :: rest).reverse ∉ P := by
      have := hP (b :: rest).length (Nat.le_refl _)
      rwa [← List.length_reverse, List.take_length] at this
    obtain ⟨hml, hdirk⟩ := mLookup_eq_look (sm := sm) ok hadm hne
    have hwalk : dGetIDByName sd (b :: rest).reverse = look ms i sm.imps (b :: rest).reverse := by
      unfold dGetIDByName; rw [inv.walk, if_neg hdP]
    cases hlk : look ms i sm.imps (b :: rest).reverse with
    | some k =>
      obtain ⟨bk, hbk, _, _⟩ := inv.node k (look_created ok hlk)
      refine ⟨sm, sd, k, ?_, ?_, inv, hlk, hdirk k hlk, ?_, fun _ h => h, fun _ _ => rfl, rfl, rfl, rfl⟩
      · simp only [mGetOrCreateDir]; rw [hml, hlk]
      · simp only [dGetOrCreateDir]; rw [hwalk, hlk]; simp [hbk]
      · intro e; subst e
        -- look of a non-empty name is never the root
        exfalso
        unfold look at hlk
        rw [if_neg hne] at hlk
        split at hlk
        · split at hlk
          · rename_i j _ _
            obtain ⟨r, hr⟩ := resolveF_is_ent ms j j
            unfold resolveKey at hlk; rw [hr] at hlk; cases hlk
          · cases hlk
        · split at hlk <;> cases hlk
    | none =>
      -- both stores create the directory, recurse for the parent, then link
      have hlnone : lastIdx ms (b :: rest).reverse = none := by
        cases hl : lastIdx ms (b :: rest).reverse with
        | none => rfl
        | some j =>
          exfalso
          obtain ⟨m, hm, hc, hp⟩ := (lastIdx_eq_some_iff ms ok.nodup _ j).mp hl
          have := hadm (b :: rest).reverse.length (List.length_pos_iff.mpr hne) (Nat.le_refl _) j m hm hc
            (by rw [List.take_length]; exact hp)
          unfold look at hlk
          rw [if_neg hne, hl] at hlk
          simp [this.2] at hlk
      have hnot : (b :: rest).reverse ∉ sm.imps := by
        intro hmem
        have : look ms i sm.imps (b :: rest).reverse = some (.imp (b :: rest).reverse) := by
          unfold look; rw [if_neg hne, hlnone]; exact if_pos hmem
        rw [this] at hlk; cases hlk
      have inv1 := inv_create_imp inv (b :: rest).reverse hne hnot hlnone (hδ _)
      have hadm' : Admissible ms i rest.reverse := by
        intro n h0 hn j m hm hc hp
        have hn' : n ≤ rest.length := by simpa using hn
        refine hadm n h0 (by simp; omega) j m hm hc ?_
        rw [take_reverse_cons b rest n hn']; exact hp
      have hP' : ∀ n, n ≤ rest.length → rest.reverse.take n ∉ (b :: rest).reverse :: P := by
        intro n hn hmem
        rcases List.mem_cons.mp hmem with e | e
        · have := congrArg List.length e
          simp at this; omega
        · have := hP n (by simp; omega)
          rw [take_reverse_cons b rest n hn] at this
          exact this e
      obtain ⟨sm2, sd2, pk, hm2, hd2, inv2, hlook2, hdir2, hroot2, hmono2, hnodes2, hle2, hls2, hch2⟩ :=
        ih _ _ _ δ inv1 hδ hadm' hP'
      have hqP : rest.reverse ∉ P := by
        have := hP rest.length (by simp)
        rwa [take_reverse_cons b rest _ (Nat.le_refl _), ← List.length_reverse, List.take_length] at this
      rw [hd] at inv2 hdP
      have inv3 := inv_link_pending ok rest.reverse b pk inv2 hlook2 hqP hdP hdir2 hroot2
      have hdmem : (rest.reverse ++ [b]) ∈ sm2.imps := hmono2 _ (by rw [← hd]; exact List.mem_cons_self ..)
      refine ⟨_, _, .imp (rest.reverse ++ [b]), ?_, ?_, inv3, ?_, trivial, (fun e => by cases e), ?_, ?_, ?_, ?_, ?_⟩
      · simp only [mGetOrCreateDir]
        rw [hml, hlk]
        simp only [hd] at hm2 ⊢
        rw [hm2]
      · simp only [dGetOrCreateDir]
        rw [hwalk, hlk]
        simp only [hd] at hd2 ⊢
        rw [hd2]
      · rw [hd]
        show look ms i sm2.imps (rest.reverse ++ [b]) = _
        unfold look
        rw [← hd, if_neg hne, hlnone]
        rw [hd]; simp [hdmem]
      · intro p hp
        exact hmono2 p (List.mem_cons_of_mem _ hp)
      · intro j hj
        have hpkc := look_created ok hlook2
        obtain ⟨bp, hbp, _, _⟩ := inv2.node pk hpkc
        have hne' : Key.ent j ≠ pk := by
          intro e; rw [← e] at hpkc; exact absurd hpkc.1 (by omega)
        have : (dSetChild sd2 pk b (.imp (rest.reverse ++ [b])) true).nodes (.ent j) = sd2.nodes (.ent j) := by
          simp [dSetChild, hbp, setNode, hne']
        rw [this, hnodes2 j hj]
        simp [setNode]
      · have hpkc := look_created ok hlook2
        obtain ⟨bp, hbp, _, _⟩ := inv2.node pk hpkc
        simp [dSetChild, hbp, setNode, hle2]
      · have hpkc := look_created ok hlook2
        obtain ⟨bp, hbp, _, _⟩ := inv2.node pk hpkc
        simp [dSetChild, hbp, setNode, hls2]
      · have hpkc := look_created ok hlook2
        obtain ⟨bp, hbp, _, _⟩ := inv2.node pk hpkc
        simp [dSetChild, hbp, setNode, hch2]

end SV.Toc

namespace SV.Toc

theorem Inv.congr_db {ms : List MEnt} {i : Nat} {sm : MState} {sd sd' : DState} {P : List Path}
    {δ : Key → Int} (inv : Inv ms i sm sd P δ) (hk : sd'.kids = sd.kids) (hn : sd'.nodes = sd.nodes) :
    Inv ms i sm sd' P δ := by
  refine ⟨?_, ?_, inv.impsNone, inv.pend, ?_, ?_, ?_, inv.freshNl, inv.rootImp⟩
  · rw [hk]; exact inv.kids
  · rw [hk]; exact inv.walk
  · rw [hn]; exact inv.node
  · rw [hk]; exact inv.noKids
  · rw [hk]; exact inv.pendKids

theorem readNumLink_writeAttr_fresh (a : Attr) : readNumLink (writeAttr {} a) = a.numLink := by
  unfold writeAttr readNumLink putNZ
  cases a.xattrs with
  | nil => by_cases h : a.numLink - 1 = 0 <;> simp [h] <;> omega
  | cons f r => cases r <;> (by_cases h : a.numLink - 1 = 0 <;> simp [h] <;> omega)

theorem look_succ_at {ms : List MEnt} (ok : TreeOK ms) (i : Nat) (imps : List Path) (p : Path)
    (h : NonChunkAt ms i p) : look ms (i + 1) imps p = some (resolveKey ms i) := by
  have hl := (lastIdx_eq_some_iff ms ok.nodup p i).mpr h
  have hp : p ≠ [] := fun e => ok.noRoot i (e ▸ h)
  unfold look
  rw [if_neg hp, hl]
  simp

theorem look_succ_ne {ms : List MEnt} (ok : TreeOK ms) (i : Nat) (imps : List Path) (p : Path)
    (h : ¬ NonChunkAt ms i p) : look ms (i + 1) imps p = look ms i imps p := by
  unfold look
  by_cases hp : p = []
  · simp [hp]
  · simp only [hp, ↓reduceIte]
    cases hl : lastIdx ms p with
    | none => rfl
    | some j =>
      simp only
      have hji : j ≠ i := by
        intro e; subst e
        exact h ((lastIdx_eq_some_iff ms ok.nodup p j).mp hl)
      by_cases hlt : j < i
      · simp [hlt, Nat.lt_succ_of_lt hlt]
      · have : ¬ j < i + 1 := by omega
        simp [hlt, this]

/-- a bucket created early for the entry being processed does not disturb the invariant -/
theorem inv_setNode_fresh {ms : List MEnt} {i : Nat} {sm : MState} {sd : DState} {P : List Path}
    {δ : Key → Int} (inv : Inv ms i sm sd P δ) (j : Nat) (hj : i ≤ j) (b : DbAttr) :
    Inv ms i sm (setNode sd (.ent j) b) P δ := by
  refine ⟨inv.kids, inv.walk, inv.impsNone, inv.pend, ?_, inv.noKids, inv.pendKids, inv.freshNl, inv.rootImp⟩
  intro k hk
  obtain ⟨b', h1, h2, h3⟩ := inv.node k hk
  have : k ≠ .ent j := by
    intro e; subst e; exact absurd hk.1 (by omega)
  exact ⟨b', by simp [setNode, this, h1], h2, h3⟩

theorem path_split (d : Path) (hne : d ≠ []) : d = parentDir d ++ [baseName d] := by
  unfold parentDir baseName
  have := List.dropLast_concat_getLast hne
  rw [List.getLast?_eq_some_getLast hne]
  simpa using this.symm

/-- entry `i` (not a chunk, not a hardlink) has been given its bucket and its parent directory
exists: linking it completes the step. -/
theorem inv_link_entry {ms : List MEnt} (ok : TreeOK ms) {i : Nat} {sm : MState} {sd : DState}
    (q : Path) (b : String) (pk : Key) (m : MEnt)
    (inv : Inv ms i sm sd [] (fun _ => 0))
    (hm : ms[i]? = some m) (hc : m.e.type ≠ "chunk") (hh : m.e.type ≠ "hardlink")
    (hpath : m.path = q ++ [b])
    (hq : look ms i sm.imps q = some pk) (hdir : IsDirKey ms pk) (hroot : pk = .root → [] ∈ sm.imps)
    (hnode : sd.nodes (.ent i) = some (writeAttr {} (attr0 ms (.ent i)))) :
    Inv ms (i + 1)
      (mAddChild ms { sm with nl := fun k => if k = .ent i then sm.nl k + 1 else sm.nl k } pk b (.ent i))
      (dSetChild sd pk b (.ent i) (m.e.type = "dir")) [] (fun _ => 0) := by
  have hnc : NonChunkAt ms i (q ++ [b]) := ⟨m, hm, hc, hpath⟩
  have hpkc := look_created ok hq
  obtain ⟨bp, hbp1, hbp2, hbp3⟩ := inv.node pk hpkc
  have hne : Key.ent i ≠ pk := by
    intro e; rw [← e] at hpkc; exact absurd hpkc.1 (by omega)
  have hkt : keyType ms (.ent i) = m.e.type := by simp [keyType, hm]
  have hres : resolveKey ms i = .ent i := by
    rw [resolveKey_unfold ok hm, if_neg hh]
  have hsdkids : (dSetChild sd pk b (.ent i) (m.e.type = "dir")).kids =
      fun k => if k = pk then setKid b (.ent i) (sd.kids k) else sd.kids k := by
    unfold dSetChild
    by_cases hd : m.e.type = "dir" <;> simp [hd, hbp1, setNode]
  have hsdnodes : (dSetChild sd pk b (.ent i) (m.e.type = "dir")).nodes =
      fun k => if k = pk ∧ m.e.type = "dir" then some (bumpNumLink bp) else sd.nodes k := by
    unfold dSetChild
    by_cases hd : m.e.type = "dir"
    · simp [hd, hbp1, setNode]
    · simp [hd]
  have hlookd : look ms i sm.imps (q ++ [b]) = none := by
    have hl := (lastIdx_eq_some_iff ms ok.nodup _ i).mpr hnc
    have hne' : q ++ [b] ≠ [] := by simp
    unfold look; rw [if_neg hne', hl]; simp
  have hkidsi : sd.kids (.ent i) = [] := by
    apply inv.noKids
    intro ⟨h1, _⟩; exact absurd h1.1 (by omega)
  have hcr : ∀ k, Created ms (i + 1) sm.imps k ↔ (k = .ent i ∨ Created ms i sm.imps k) := by
    intro k
    cases k with
    | root => simp [Created]
    | imp p => simp [Created]
    | ent j =>
      simp only [Created, Key.ent.injEq]
      constructor
      · rintro ⟨h1, h2⟩
        by_cases hji : j = i
        · exact Or.inl hji
        · exact Or.inr ⟨by omega, h2⟩
      · rintro (h | ⟨h1, h2⟩)
        · subst h; exact ⟨by omega, m, hm, hc, hh⟩
        · exact ⟨by omega, h2⟩
  refine ⟨?_, ?_, inv.impsNone, ?_, ?_, ?_, ?_, ?_, ?_⟩
  rotate_right
  · intro h
    by_cases hpk : pk = .root
    · exact hroot hpk
    · apply inv.rootImp
      simpa [mAddChild, Ne.symm hpk] using h
  · intro k
    rw [hsdkids]
    simp only [mAddChild]
    rw [inv.kids]
  · intro p
    rw [hsdkids]
    have hw : ∀ p, walkKids sd.kids .root p = look ms i sm.imps p := by
      intro p; have := inv.walk p; simpa using this
    have := walk_link sd.kids (look ms i sm.imps) q b pk (.ent i) hw hq hlookd
      (fun p hp => look_dir_unique ok hp hq hdir) hkidsi hne p
    rw [this]
    simp only [List.not_mem_nil, ↓reduceIte]
    show _ = look ms (i + 1) sm.imps p
    by_cases hpd : p = q ++ [b]
    · subst hpd; rw [look_succ_at ok i _ _ hnc, hres]; simp
    · have : ¬ NonChunkAt ms i p := by
        intro h; exact hpd (by
          obtain ⟨m', hm', _, hp'⟩ := h
          rw [hm] at hm'; cases hm'; rw [← hp', hpath])
      rw [look_succ_ne ok i _ _ this]; simp [hpd]
  · intro p hp; cases hp
  · intro k hk
    rw [hsdnodes]
    show ∃ b', _ ∧ _ ∧ readNumLink b' = nlEff _ k + 0
    have hnl : (mAddChild ms { sm with nl := fun k => if k = .ent i then sm.nl k + 1 else sm.nl k } pk b (.ent i)).nl =
        fun k => if k = pk ∧ m.e.type = "dir" then sm.nl k + 1
                 else if k = .ent i then sm.nl k + 1 else sm.nl k := by
      unfold mAddChild
      simp only [hkt]
      by_cases hd : m.e.type = "dir"
      · simp only [hd, ↓reduceIte, and_true]
        funext k
        by_cases hkp : k = pk
        · subst hkp; simp [Ne.symm hne]
        · simp [hkp]
      · simp [hd]
    have himps : (mAddChild ms { sm with nl := fun k => if k = .ent i then sm.nl k + 1 else sm.nl k } pk b (.ent i)).imps = sm.imps := rfl
    rcases (hcr k).mp hk with hki | hko
    · subst hki
      have hnp : ¬ (Key.ent i = pk ∧ m.e.type = "dir") := fun h => hne h.1
      refine ⟨_, by dsimp only; rw [if_neg hnp]; exact hnode, rfl, ?_⟩
      rw [readNumLink_writeAttr_fresh]
      unfold nlEff
      rw [himps, hnl]
      simp only [hnp, ↓reduceIte, reduceCtorEq, false_and]
      rw [inv.freshNl i (Nat.le_refl _)]
      simp only [attr0, hm, initNl, attrOfEntry, Option.map_some, Option.getD_some]
      by_cases hd : m.e.type = "dir" <;> simp [hd]
    · obtain ⟨b', h1, h2, h3⟩ := inv.node k hko
      have hki : k ≠ .ent i := by
        intro e; subst e; exact absurd hko.1 (by omega)
      by_cases hkp : k = pk ∧ m.e.type = "dir"
      · obtain ⟨hkp1, hd⟩ := hkp
        subst hkp1
        rw [hbp1] at h1; cases h1
        refine ⟨bumpNumLink bp, by simp [hd], by rw [eraseNL_bump]; exact h2, ?_⟩
        rw [readNumLink_bump, h3]
        unfold nlEff
        rw [himps, hnl]
        by_cases hr : k = .root
        · have := hroot hr; simp [this, hd]
        · simp [hr, hd]
      · refine ⟨b', by dsimp only; rw [if_neg hkp]; exact h1, h2, ?_⟩
        rw [h3]
        unfold nlEff
        rw [himps, hnl]
        simp [hkp, hki]
  · intro k hk
    rw [hsdkids]
    have hkp : k ≠ pk := by
      intro e; subst e
      exact hk ⟨(hcr k).mpr (Or.inr hpkc), hdir⟩
    simp only [hkp, ↓reduceIte]
    by_cases hki : k = .ent i
    · subst hki; exact hkidsi
    · apply inv.noKids
      intro ⟨h1, h2⟩
      exact hk ⟨(hcr k).mpr (Or.inr h1), h2⟩
  · intro p hp; cases hp
  · intro j hj
    show (mAddChild ms _ pk b (.ent i)).nl (.ent j) = _
    have hjp : Key.ent j ≠ pk := by
      intro e; rw [← e] at hpkc; exact absurd hpkc.1 (by omega)
    have hji : Key.ent j ≠ .ent i := by
      intro e; cases e; omega
    unfold mAddChild
    by_cases hd : keyType ms (.ent i) = "dir"
    · simp only [hd, ↓reduceIte, hjp, hji]
      exact inv.freshNl j (by omega)
    · simp only [hd, ↓reduceIte, hji]
      exact inv.freshNl j (by omega)

end SV.Toc

namespace SV.Toc

/-! ## Unique names, list form -/

def ncB (m : MEnt) : Bool := m.e.type ≠ "chunk"

def namesOf (ms : List MEnt) : List Path := (ms.filter ncB).map (·.path)

theorem mem_namesOf {ms : List MEnt} {j : Nat} {p : Path} (h : NonChunkAt ms j p) : p ∈ namesOf ms := by
  obtain ⟨m, hm, hc, hp⟩ := h
  unfold namesOf
  rw [List.mem_map]
  exact ⟨m, List.mem_filter.mpr ⟨List.mem_of_getElem? hm, by simp [ncB, hc]⟩, hp⟩

theorem namesNodup_of_list : ∀ (ms : List MEnt), (namesOf ms).Nodup → NamesNodup ms := by
  intro ms
  induction ms with
  | nil => intro _ i j p ⟨m, hm, _⟩; simp at hm
  | cons x rest ih =>
    intro hnd i j p hi hj
    have hnd' : (namesOf rest).Nodup := by
      unfold namesOf at hnd ⊢
      by_cases hx : ncB x = true
      · simp only [List.filter, hx, List.map_cons] at hnd
        exact (List.nodup_cons.mp hnd).2
      · simp only [List.filter, hx] at hnd
        exact hnd
    have shift : ∀ t, NonChunkAt (x :: rest) (t + 1) p → NonChunkAt rest t p := by
      intro t ⟨m, hm, h2, h3⟩
      exact ⟨m, by simpa using hm, h2, h3⟩
    have head_tail : ∀ t, NonChunkAt (x :: rest) 0 p → NonChunkAt (x :: rest) (t + 1) p → False := by
      intro t ⟨m, hm, h2, h3⟩ ht
      simp only [List.getElem?_cons_zero, Option.some.injEq] at hm; subst hm
      have hmem := mem_namesOf (shift t ht)
      unfold namesOf at hnd
      have hx : ncB x = true := by simp [ncB, h2]
      simp only [List.filter, hx, List.map_cons] at hnd
      rw [h3] at hnd
      exact (List.nodup_cons.mp hnd).1 hmem
    cases i with
    | zero =>
      cases j with
      | zero => rfl
      | succ j => exact (head_tail j hi hj).elim
    | succ i =>
      cases j with
      | zero => exact (head_tail i hj hi).elim
      | succ j => rw [ih hnd' i j p (shift i hi) (shift j hj)]

theorem eraseDups_of_nodup : ∀ (l : List Path), l.Nodup → l.eraseDups = l := by
  intro l
  generalize hn : l.length = n
  induction n using Nat.strongRecOn generalizing l with
  | _ n ih =>
    intro hnd
    cases l with
    | nil => simp
    | cons a as =>
      rw [List.eraseDups_cons]
      obtain ⟨h1, h2⟩ := List.nodup_cons.mp hnd
      have hf : List.filter (fun b => !b == a) as = as := by
        rw [List.filter_eq_self]
        intro b hb
        have : b ≠ a := fun e => h1 (e ▸ hb)
        simp [this]
      rw [hf, ih as.length (by simp at hn; omega) as rfl h2]

/-- number of non-chunk entries among the first `j + 1` -/
def cnt (ms : List MEnt) (j : Nat) : Nat := ((ms.take (j + 1)).filter ncB).length

theorem cnt_le_total (ms : List MEnt) (j : Nat) : cnt ms j ≤ (ms.filter ncB).length := by
  unfold cnt
  exact ((List.take_sublist _ _).filter _).length_le

theorem cnt_lt {ms : List MEnt} {t j : Nat} {m : MEnt} (htj : t < j) (hm : ms[j]? = some m)
    (hc : m.e.type ≠ "chunk") : cnt ms t + 1 ≤ cnt ms j := by
  unfold cnt
  have hjl : j < ms.length := by
    rcases Nat.lt_or_ge j ms.length with h | h
    · exact h
    · rw [List.getElem?_eq_none h] at hm; cases hm
  have h1 : ms.take (j + 1) = ms.take j ++ [m] := by
    rw [List.take_add_one, hm]; rfl
  rw [h1, List.filter_append, List.length_append]
  have hx : ncB m = true := by simp [ncB, hc]
  simp only [List.filter, hx, List.length_cons, List.length_nil]
  have : ms.take (t + 1) = (ms.take j).take (t + 1) := by
    rw [List.take_take]; congr 1; omega
  rw [this]
  have := ((List.take_sublist (t + 1) (ms.take j)).filter ncB).length_le
  omega

theorem distinctNames_eq {ms : List MEnt} (hnd : (namesOf ms).Nodup) :
    distinctNames ms = (ms.filter ncB).length := by
  unfold distinctNames
  have : (List.filter (fun m => decide (m.e.type ≠ "chunk")) ms) = ms.filter ncB := rfl
  rw [this]
  have h2 := eraseDups_of_nodup (namesOf ms) hnd
  unfold namesOf at h2
  simp only [h2]; simp

theorem keyType_ent {ms : List MEnt} {j : Nat} {m : MEnt} (hm : ms[j]? = some m) :
    keyType ms (.ent j) = m.e.type := by simp [keyType, hm]

/-- `getSource` reaches the resolved entry before the loop bound trips -/
theorem mGetSource_ok {ms : List MEnt} (ok : TreeOK ms) (s : MState) (bound : Nat) :
    ∀ (j : Nat) (m : MEnt), ms[j]? = some m → m.e.type ≠ "chunk" →
      ∀ n, n + cnt ms j ≤ bound + 1 → mGetSource ms s bound n (.ent j) = some (resolveKey ms j) := by
  intro j
  induction j using Nat.strongRecOn with
  | _ j ih =>
    intro m hm hc n hn
    rw [resolveKey_unfold ok hm]
    unfold mGetSource
    rw [keyType_ent hm]
    by_cases hh : m.e.type = "hardlink"
    · obtain ⟨t, ht, hl, mt, hmt, hct, _⟩ := hardlink_target ok hm hh
      have hcj : 1 ≤ cnt ms j := by
        have := cnt_lt (ms := ms) (t := 0) (j := j) (m := m)
        by_cases hj0 : j = 0
        · subst hj0
          unfold cnt
          have : ms.take 1 = [m] := by
            cases ms with
            | nil => simp at hm
            | cons x xs => simp at hm; subst hm; rfl
          rw [this]
          have hx : ncB m = true := by simp [ncB, hc]
          simp [List.filter, hx]
        · have := this (by omega) hm hc
          omega
      have hnb : ¬ n > bound := by omega
      simp only [hh, ne_eq, not_true_eq_false, ↓reduceIte, hnb, hm, if_pos]
      have hml : mLookup ms s (cleanName m.e.linkName) = some (.ent t) := by
        unfold mLookup; rw [hl]
      rw [hml]
      have hle : n ≤ bound := by omega
      simp only [hle, ↓reduceDIte, hl]
      exact ih t ht mt hmt hct (n + 1) (by have := cnt_lt ht hm hc; omega)
    · simp [hh]

end SV.Toc
