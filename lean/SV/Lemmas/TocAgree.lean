/-
Simulation of the two TOC interpreters (`SV.Toc.memTree`, `SV.Toc.dbTree`) on the SpecConforming
fragment: both stores build the same children maps, the same link counts and the same lookups.
Part 1: names, the declarative lookup `look`, the invariant `Inv`, directory creation, linking.
-/
import SV.Lemmas.Toc

namespace SV.Toc

/-! ## Basic facts: kids maps -/

theorem getKid_setKid_same (b : String) (k : Key) (l : Kids) : getKid b (setKid b k l) = some k := by
  induction l with
  | nil => simp [setKid, getKid]
  | cons x xs ih =>
    unfold setKid
    by_cases h : x.1 = b
    · simp [h, getKid]
    · simp [h, getKid, ih]

theorem getKid_setKid_ne (b b' : String) (k : Key) (l : Kids) (h : b' ≠ b) :
    getKid b' (setKid b k l) = getKid b' l := by
  induction l with
  | nil => simp [setKid, getKid, Ne.symm h]
  | cons x xs ih =>
    unfold setKid
    by_cases hx : x.1 = b
    · have hne : ¬ x.1 = b' := fun e => h (e.symm.trans hx)
      rw [if_pos hx]
      simp only [getKid]
      rw [if_neg (Ne.symm h), if_neg hne]
    · rw [if_neg hx]
      simp only [getKid]
      by_cases hx' : x.1 = b'
      · rw [if_pos hx', if_pos hx']
      · rw [if_neg hx', if_neg hx', ih]

theorem mem_setKid {b : String} {c : Key} {l : Kids} {kv : String × Key} (h : kv ∈ setKid b c l) :
    kv = (b, c) ∨ kv ∈ l := by
  induction l with
  | nil => simp [setKid] at h; exact Or.inl h
  | cons x xs ih =>
    unfold setKid at h
    split at h
    · rcases List.mem_cons.mp h with e | e
      · exact Or.inl e
      · exact Or.inr (List.mem_cons_of_mem _ e)
    · rcases List.mem_cons.mp h with e | e
      · exact Or.inr (e ▸ List.mem_cons_self ..)
      · rcases ih e with e' | e'
        · exact Or.inl e'
        · exact Or.inr (List.mem_cons_of_mem _ e')

theorem walkKids_snoc (kids : Key → Kids) (k : Key) (p : Path) (x : String) :
    walkKids kids k (p ++ [x]) = (walkKids kids k p).bind fun c => getKid x (kids c) := by
  induction p generalizing k with
  | nil =>
    simp only [List.nil_append, walkKids, Option.bind]
    cases getKid x (kids k) <;> rfl
  | cons b rest ih =>
    simp only [List.cons_append, walkKids]
    cases getKid b (kids k) with
    | none => simp
    | some c => simp [ih]

/-- a walk is determined by its snoc-unfolding -/
theorem walkKids_eq_of_snoc (kids : Key → Kids) (f : Path → Option Key)
    (h0 : f [] = some .root)
    (hs : ∀ p x, f (p ++ [x]) = (f p).bind fun c => getKid x (kids c)) :
    ∀ p, walkKids kids .root p = f p := by
  intro p
  generalize hn : p.length = n
  induction n generalizing p with
  | zero =>
    have : p = [] := List.length_eq_zero_iff.mp hn
    subst this; simp [walkKids, h0]
  | succ n ih =>
    rcases List.eq_nil_or_concat p with e | ⟨q, x, e⟩
    · subst e; simp at hn
    · subst e
      rw [List.concat_eq_append] at hn ⊢
      have hq : q.length = n := by simp at hn; omega
      rw [walkKids_snoc, ih q hq, hs]

end SV.Toc
namespace SV.Toc
/-! ## pass 1 -/

theorem pass1Go_length (lp : Path) (lr : Option Int) (es : List Entry) :
    (pass1Go lp lr es).length = es.length := by
  induction es generalizing lp lr with
  | nil => rfl
  | cons e es ih => simp [pass1Go, ih]

theorem pass1Go_getElem (es : List Entry) : ∀ (lp : Path) (lr : Option Int) (i : Nat) (m : MEnt),
    (pass1Go lp lr es)[i]? = some m →
      es[i]? = some m.e ∧ (m.e.type ≠ "chunk" → m.path = cleanName m.e.name) := by
  induction es with
  | nil => intro lp lr i m h; simp [pass1Go] at h
  | cons e es ih =>
    intro lp lr i m h
    cases i with
    | zero =>
      simp only [pass1Go, List.getElem?_cons_zero, Option.some.injEq] at h
      subst h
      refine ⟨by simp [pass1Ent], ?_⟩
      intro hc
      simp only [pass1Ent] at hc ⊢
      simp [hc]
    | succ i =>
      simp only [pass1Go, List.getElem?_cons_succ] at h
      simpa using ih _ _ i m h

theorem pass1_length (es : List Entry) : (pass1 es).length = es.length := pass1Go_length _ _ _

theorem pass1_getElem (es : List Entry) (i : Nat) (m : MEnt) (h : (pass1 es)[i]? = some m) :
    es[i]? = some m.e ∧ (m.e.type ≠ "chunk" → m.path = cleanName m.e.name) :=
  pass1Go_getElem es _ _ i m h

/-! ## `r.m` restricted to entries -/

def NonChunkAt (ms : List MEnt) (j : Nat) (p : Path) : Prop :=
  ∃ m, ms[j]? = some m ∧ m.e.type ≠ "chunk" ∧ m.path = p

theorem lastIdxFrom_some (ms : List MEnt) (p : Path) : ∀ (k j : Nat), lastIdxFrom ms p k = some j →
    k ≤ j ∧ NonChunkAt ms (j - k) p := by
  induction ms with
  | nil => intro k j h; simp [lastIdxFrom] at h
  | cons m rest ih =>
    intro k j h
    unfold lastIdxFrom at h
    cases hr : lastIdxFrom rest p (k + 1) with
    | some j' =>
      rw [hr] at h
      simp only [Option.some.injEq] at h; subst h
      obtain ⟨h1, m', h2, h3⟩ := ih (k + 1) j' hr
      refine ⟨by omega, m', ?_, h3⟩
      have : j' - k = (j' - (k + 1)) + 1 := by omega
      rw [this]; simpa using h2
    | none =>
      rw [hr] at h
      simp only at h
      split at h
      · rename_i hm
        simp only [Option.some.injEq] at h; subst h
        exact ⟨Nat.le_refl _, m, by simp, hm.1, hm.2⟩
      · cases h

theorem lastIdxFrom_ge (ms : List MEnt) (p : Path) : ∀ (k t : Nat), NonChunkAt ms t p →
    ∃ j, lastIdxFrom ms p k = some j ∧ k + t ≤ j := by
  induction ms with
  | nil => intro k t ⟨m, h, _⟩; simp at h
  | cons m rest ih =>
    intro k t ⟨m', h1, h2, h3⟩
    unfold lastIdxFrom
    cases t with
    | zero =>
      simp only [List.getElem?_cons_zero, Option.some.injEq] at h1; subst h1
      cases hr : lastIdxFrom rest p (k + 1) with
      | some j' =>
        have := (lastIdxFrom_some rest p (k + 1) j' hr).1
        exact ⟨j', rfl, by omega⟩
      | none => exact ⟨k, by simp [h2, h3], by omega⟩
    | succ t =>
      simp only [List.getElem?_cons_succ] at h1
      obtain ⟨j, hj, hle⟩ := ih (k + 1) t ⟨m', h1, h2, h3⟩
      rw [hj]
      exact ⟨j, rfl, by omega⟩

/-- names of non-chunk entries are pairwise different -/
def NamesNodup (ms : List MEnt) : Prop :=
  ∀ i j p, NonChunkAt ms i p → NonChunkAt ms j p → i = j

theorem lastIdx_eq_some_iff (ms : List MEnt) (hnd : NamesNodup ms) (p : Path) (j : Nat) :
    lastIdx ms p = some j ↔ NonChunkAt ms j p := by
  constructor
  · intro h
    have := lastIdxFrom_some ms p 0 j h
    simpa using this.2
  · intro h
    obtain ⟨j', hj', _⟩ := lastIdxFrom_ge ms p 0 j h
    have h2 := (lastIdxFrom_some ms p 0 j' hj').2
    simp only [Nat.sub_zero] at h2
    have := hnd _ _ _ h h2
    subst this
    exact hj'

theorem lastIdx_eq_none_iff (ms : List MEnt) (p : Path) :
    lastIdx ms p = none ↔ ∀ j, ¬ NonChunkAt ms j p := by
  constructor
  · intro h j hj
    obtain ⟨j', hj', _⟩ := lastIdxFrom_ge ms p 0 j hj
    unfold lastIdx at h; rw [h] at hj'; cases hj'
  · intro h
    cases hl : lastIdx ms p with
    | none => rfl
    | some j =>
      have := (lastIdxFrom_some ms p 0 j hl).2
      simp only [Nat.sub_zero] at this
      exact absurd this (h j)

end SV.Toc

namespace SV.Toc

/-! ## The fragment of TOCs on which the trees are compared -/

structure TreeOK (ms : List MEnt) : Prop where
  nodup : NamesNodup ms
  noRoot : ∀ j, ¬ NonChunkAt ms j []
  /-- a directory entry precedes everything below it; anything else above an entry is implicit -/
  parents : ∀ i p, NonChunkAt ms i p → ∀ n, 0 < n → n < p.length →
    ∀ (j : Nat) (m : MEnt), ms[j]? = some m → m.e.type ≠ "chunk" → m.path = p.take n → m.e.type = "dir" ∧ j < i
  /-- hardlinks point at earlier non-directory entries -/
  hardlinks : ∀ (i : Nat) (m : MEnt), ms[i]? = some m → m.e.type = "hardlink" →
    ∃ j, j < i ∧ ∃ mj : MEnt, ms[j]? = some mj ∧ mj.e.type ≠ "chunk" ∧ mj.path = cleanName m.e.linkName
      ∧ mj.e.type ≠ "dir"

/-- hardlink resolution by index, with fuel -/
def resolveF (ms : List MEnt) : Nat → Nat → Key
  | 0, j => .ent j
  | f + 1, j =>
    match ms[j]? with
    | some m =>
      if m.e.type = "hardlink" then
        match lastIdx ms (cleanName m.e.linkName) with
        | some t => resolveF ms f t
        | none => .ent j
      else .ent j
    | none => .ent j

def resolveKey (ms : List MEnt) (j : Nat) : Key := resolveF ms j j

theorem hardlink_target {ms : List MEnt} (ok : TreeOK ms) {i : Nat} {m : MEnt}
    (hm : ms[i]? = some m) (hh : m.e.type = "hardlink") :
    ∃ t, t < i ∧ lastIdx ms (cleanName m.e.linkName) = some t ∧
      ∃ mt, ms[t]? = some mt ∧ mt.e.type ≠ "chunk" ∧ mt.e.type ≠ "dir" := by
  obtain ⟨j, hj, mj, h1, h2, h3, h4⟩ := ok.hardlinks i m hm hh
  exact ⟨j, hj, (lastIdx_eq_some_iff ms ok.nodup _ j).mpr ⟨mj, h1, h2, h3⟩, mj, h1, h2, h4⟩

theorem resolveF_stable {ms : List MEnt} (ok : TreeOK ms) :
    ∀ (t f : Nat), t ≤ f → resolveF ms f t = resolveF ms t t := by
  intro t
  induction t using Nat.strongRecOn with
  | _ t ih =>
    intro f hf
    cases hm : ms[t]? with
    | none =>
      cases f <;> cases t <;> simp [resolveF, hm]
    | some m =>
      by_cases hh : m.e.type = "hardlink"
      · obtain ⟨t', ht', hl, _⟩ := hardlink_target ok hm hh
        cases t with
        | zero => omega
        | succ t0 =>
          cases f with
          | zero => omega
          | succ f0 =>
            simp only [resolveF, hm, hh, ↓reduceIte, hl]
            rw [ih t' ht' f0 (by omega), ih t' ht' t0 (by omega)]
      · cases f <;> cases t <;> simp [resolveF, hm, hh]

theorem resolveKey_unfold {ms : List MEnt} (ok : TreeOK ms) {j : Nat} {m : MEnt}
    (hm : ms[j]? = some m) :
    resolveKey ms j = if m.e.type = "hardlink" then
        (match lastIdx ms (cleanName m.e.linkName) with
         | some t => resolveKey ms t
         | none => .ent j)
      else .ent j := by
  unfold resolveKey
  by_cases hh : m.e.type = "hardlink"
  · obtain ⟨t, ht, hl, _⟩ := hardlink_target ok hm hh
    cases j with
    | zero => omega
    | succ j0 =>
      simp only [resolveF, hm, hh, ↓reduceIte, hl]
      exact resolveF_stable ok t j0 (by omega)
  · cases j <;> simp [resolveF, hm, hh]

/-- what an index resolves to -/
theorem resolveKey_spec {ms : List MEnt} (ok : TreeOK ms) :
    ∀ (j : Nat) (m : MEnt), ms[j]? = some m → m.e.type ≠ "chunk" →
      ∃ r mr, r ≤ j ∧ resolveKey ms j = .ent r ∧ ms[r]? = some mr ∧ mr.e.type ≠ "chunk" ∧
        mr.e.type ≠ "hardlink" ∧ (m.e.type = "hardlink" → mr.e.type ≠ "dir") ∧
        (m.e.type ≠ "hardlink" → r = j) := by
  intro j
  induction j using Nat.strongRecOn with
  | _ j ih =>
    intro m hm hc
    rw [resolveKey_unfold ok hm]
    by_cases hh : m.e.type = "hardlink"
    · obtain ⟨t, ht, hl, mt, hmt, hct, hdt⟩ := hardlink_target ok hm hh
      rw [if_pos hh]; simp only [hl]
      obtain ⟨r, mr, h1, h2, h3, h4, h5, h6, h7⟩ := ih t ht mt hmt hct
      refine ⟨r, mr, by omega, h2, h3, h4, h5, ?_, fun h => absurd hh h⟩
      intro _
      by_cases hht : mt.e.type = "hardlink"
      · exact h6 hht
      · have := h7 hht; subst this; rw [hmt] at h3; cases h3; exact hdt
    · rw [if_neg hh]
      exact ⟨j, m, Nat.le_refl _, rfl, hm, hc, hh, fun h => absurd h hh, fun _ => rfl⟩

/-! ## The lookup both stores implement, stated on the TOC -/

/-- the node a cleaned name leads to after the entries `< i` have been processed and the implicit
directories `imps` have been created -/
def look (ms : List MEnt) (i : Nat) (imps : List Path) (p : Path) : Option Key :=
  if p = [] then some .root
  else match lastIdx ms p with
    | some j => if j < i then some (resolveKey ms j) else none
    | none => if p ∈ imps then some (.imp p) else none

/-- keys of directories -/
def IsDirKey (ms : List MEnt) : Key → Prop
  | .root => True
  | .imp _ => True
  | .ent j => ∃ m, ms[j]? = some m ∧ m.e.type = "dir"

/-- nodes that exist after the entries `< i` -/
def Created (ms : List MEnt) (i : Nat) (imps : List Path) : Key → Prop
  | .root => True
  | .imp p => p ∈ imps ∧ p ≠ []
  | .ent j => j < i ∧ ∃ m, ms[j]? = some m ∧ m.e.type ≠ "chunk" ∧ m.e.type ≠ "hardlink"

theorem look_created {ms : List MEnt} (ok : TreeOK ms) {i : Nat} {imps : List Path} {p : Path} {k : Key}
    (h : look ms i imps p = some k) : Created ms i imps k := by
  unfold look at h
  split at h
  · cases h; trivial
  · rename_i hp
    split at h
    · rename_i j hl
      split at h
      · rename_i hj
        cases h
        obtain ⟨m, hm, hc, _⟩ := (lastIdx_eq_some_iff ms ok.nodup p j).mp hl
        obtain ⟨r, mr, h1, h2, h3, h4, h5, _, _⟩ := resolveKey_spec ok j m hm hc
        rw [h2]
        exact ⟨by omega, mr, h3, h4, h5⟩
      · cases h
    · split at h
      · cases h; rename_i hmem; exact ⟨hmem, hp⟩
      · cases h

/-- a directory is reached by its own name only -/
theorem look_dir_unique {ms : List MEnt} (ok : TreeOK ms) {i : Nat} {imps : List Path} {p q : Path} {k : Key}
    (hp : look ms i imps p = some k) (hq : look ms i imps q = some k) (hd : IsDirKey ms k) : p = q := by
  have key : ∀ (p : Path), look ms i imps p = some k →
      (k = .root ∧ p = []) ∨ (k = .imp p ∧ p ≠ []) ∨
      (∃ j m, p ≠ [] ∧ k = .ent j ∧ ms[j]? = some m ∧ m.e.type ≠ "chunk" ∧ m.path = p) := by
    intro p h
    unfold look at h
    split at h
    · cases h; rename_i e; exact Or.inl ⟨rfl, e⟩
    · rename_i hne
      split at h
      · rename_i j hl
        split at h
        · cases h
          obtain ⟨m, hm, hc, hpath⟩ := (lastIdx_eq_some_iff ms ok.nodup p j).mp hl
          obtain ⟨r, mr, h1, h2, h3, h4, h5, h6, h7⟩ := resolveKey_spec ok j m hm hc
          rw [h2] at hd ⊢
          obtain ⟨md, hmd, hdir⟩ := hd
          rw [h3] at hmd; cases hmd
          have hnh : m.e.type ≠ "hardlink" := fun e => h6 e hdir
          have := h7 hnh; subst this
          exact Or.inr (Or.inr ⟨r, m, hne, rfl, hm, hc, hpath⟩)
        · cases h
      · split at h
        · cases h; exact Or.inr (Or.inl ⟨rfl, hne⟩)
        · cases h
  rcases key p hp with ⟨h1, h2⟩ | ⟨h1, h2⟩ | ⟨j, m, h0, h1, h2, h3, h4⟩
  · rcases key q hq with ⟨_, h4⟩ | ⟨h3, _⟩ | ⟨_, _, _, h3, _⟩
    · rw [h2, h4]
    · rw [h1] at h3; cases h3
    · rw [h1] at h3; cases h3
  · rcases key q hq with ⟨h3, _⟩ | ⟨h3, _⟩ | ⟨_, _, _, h3, _⟩
    · rw [h1] at h3; cases h3
    · rw [h1] at h3; cases h3; rfl
    · rw [h1] at h3; cases h3
  · rcases key q hq with ⟨h5, _⟩ | ⟨h5, _⟩ | ⟨j', m', _, h5, h6, h7, h8⟩
    · rw [h1] at h5; cases h5
    · rw [h1] at h5; cases h5
    · rw [h1] at h5; cases h5
      rw [h2] at h6; cases h6
      rw [← h4, ← h8]

end SV.Toc

namespace SV.Toc

/-! ## Linking a child: effect on walks -/

theorem walk_link (kids : Key → Kids) (g : Path → Option Key) (q : Path) (b : String) (pk c : Key)
    (hw : ∀ p, walkKids kids .root p = g p)
    (hq : g q = some pk) (hd : g (q ++ [b]) = none)
    (huniq : ∀ p, g p = some pk → p = q) (hck : kids c = []) (hne : c ≠ pk) :
    ∀ p, walkKids (fun k => if k = pk then setKid b c (kids k) else kids k) .root p =
      if p = q ++ [b] then some c else g p := by
  have hg0 : g [] = some .root := by rw [← hw]; rfl
  have hgs : ∀ p x, g (p ++ [x]) = (g p).bind fun k => getKid x (kids k) := by
    intro p x; rw [← hw, ← hw, walkKids_snoc]
  apply walkKids_eq_of_snoc
  · have : ([] : Path) ≠ q ++ [b] := by simp
    rw [if_neg this]; exact hg0
  · intro p x
    by_cases hpx : p ++ [x] = q ++ [b]
    · have hpq : p = q ∧ x = b := by
        have := List.append_inj' hpx rfl
        exact ⟨this.1, by simpa using this.2⟩
      obtain ⟨rfl, rfl⟩ := hpq
      have : p ≠ p ++ [x] := by
        intro e; have := congrArg List.length e; simp at this
      rw [if_pos rfl, if_neg this, hq]
      simp [getKid_setKid_same]
    · rw [if_neg hpx]
      by_cases hpd : p = q ++ [b]
      · rw [if_pos hpd, hgs, hpd, hd]
        simp only [Option.bind]
        rw [if_neg hne, hck]; rfl
      · rw [if_neg hpd, hgs]
        cases hgp : g p with
        | none => rfl
        | some k =>
          simp only [Option.bind]
          by_cases hk : k = pk
          · subst hk
            have hp := huniq p hgp
            subst hp
            have hx : x ≠ b := fun e => hpx (by rw [e])
            rw [if_pos rfl, getKid_setKid_ne _ _ _ _ hx]
          · rw [if_neg hk]

/-! ## The simulation invariant -/

def attr0 (ms : List MEnt) : Key → Attr
  | .ent j =>
    match ms[j]? with
    | some m => attrOfEntry m.e (if m.e.type = "dir" then 2 else 1)
    | none => {}
  | _ => rootAttr

def eraseNL (b : DbAttr) : DbAttr := { b with numLink := none }

/-- NumLink of the memory store, with the root directory counted as if it already existed -/
def nlEff (sm : MState) (k : Key) : Int := if k = .root ∧ [] ∉ sm.imps then 2 else sm.nl k

structure Inv (ms : List MEnt) (i : Nat) (sm : MState) (sd : DState) (P : List Path) (δ : Key → Int) : Prop where
  kids : ∀ k, sm.kids k = sd.kids k
  walk : ∀ p, walkKids sd.kids .root p = if p ∈ P then none else look ms i sm.imps p
  impsNone : ∀ p ∈ sm.imps, lastIdx ms p = none
  pend : ∀ p ∈ P, p ∈ sm.imps ∧ p ≠ []
  node : ∀ k, Created ms i sm.imps k → ∃ b, sd.nodes k = some b ∧
    eraseNL b = eraseNL (writeAttr {} (attr0 ms k)) ∧ readNumLink b = nlEff sm k + δ k
  noKids : ∀ k, ¬ (Created ms i sm.imps k ∧ IsDirKey ms k) → sd.kids k = []
  pendKids : ∀ p ∈ P, sd.kids (.imp p) = []
  freshNl : ∀ j, i ≤ j → sm.nl (.ent j) = initNl ms (.ent j)
  /-- the memory store creates its root directory lazily, before the first child is linked -/
  rootImp : sm.kids .root ≠ [] → [] ∈ sm.imps
  /-- children maps only point at existing nodes -/
  kidsCreated : ∀ k kv, kv ∈ sd.kids k → Created ms i sm.imps kv.2

def Admissible (ms : List MEnt) (i : Nat) (q : Path) : Prop :=
  ∀ n, 0 < n → n ≤ q.length → ∀ (j : Nat) (m : MEnt), ms[j]? = some m → m.e.type ≠ "chunk" →
    m.path = q.take n → m.e.type = "dir" ∧ j < i

theorem mLookup_eq_look {ms : List MEnt} (ok : TreeOK ms) {i : Nat} {sm : MState} {d : Path}
    (hadm : Admissible ms i d) (hne : d ≠ []) :
    mLookup ms sm d = look ms i sm.imps d ∧
      (∀ k, look ms i sm.imps d = some k → IsDirKey ms k) := by
  unfold mLookup look
  rw [if_neg hne]
  cases hl : lastIdx ms d with
  | some j =>
    obtain ⟨m, hm, hc, hp⟩ := (lastIdx_eq_some_iff ms ok.nodup d j).mp hl
    have hlen : 0 < d.length := List.length_pos_iff.mpr hne
    have := hadm d.length hlen (Nat.le_refl _) j m hm hc (by simp [hp])
    obtain ⟨r, mr, h1, h2, h3, h4, h5, h6, h7⟩ := resolveKey_spec ok j m hm hc
    have hnh : m.e.type ≠ "hardlink" := by rw [this.1]; decide
    have hr := h7 hnh; subst hr
    simp only [this.2, ↓reduceIte, h2]
    refine ⟨trivial, ?_⟩
    intro k hk; cases hk
    exact ⟨m, hm, this.1⟩
  | none =>
    simp only
    by_cases hmem : d ∈ sm.imps
    · simp only [hmem, ↓reduceIte, impKey, hne]
      exact ⟨trivial, fun k hk => by cases hk; trivial⟩
    · simp only [hmem, ↓reduceIte]
      exact ⟨trivial, fun k hk => by cases hk⟩

end SV.Toc

namespace SV.Toc

theorem readNumLink_root : readNumLink (writeAttr {} rootAttr) = 2 := by decide

theorem eraseNL_bump (b : DbAttr) : eraseNL (bumpNumLink b) = eraseNL b := rfl

theorem readNumLink_bump (b : DbAttr) : readNumLink (bumpNumLink b) = readNumLink b + 1 := by
  simp [readNumLink, bumpNumLink]

theorem look_cons_ne {ms : List MEnt} {i : Nat} {imps : List Path} {d p : Path} (h : p ≠ d) :
    look ms i (d :: imps) p = look ms i imps p := by
  unfold look
  have : (p ∈ d :: imps) ↔ p ∈ imps := by simp [h]
  simp only [this]

theorem created_cons {ms : List MEnt} {i : Nat} {imps : List Path} {d : Path} {k : Key}
    (hk : k ≠ .imp d) : Created ms i (d :: imps) k ↔ Created ms i imps k := by
  cases k with
  | root => simp [Created]
  | ent j => simp [Created]
  | imp p =>
    have : p ≠ d := fun e => hk (by rw [e])
    simp [Created, this]

/-- an implicit directory has been created (bucket / `r.m` entry) but not linked yet -/
theorem inv_create_imp {ms : List MEnt} {i : Nat} {sm : MState} {sd : DState} {P : List Path}
    {δ : Key → Int} (inv : Inv ms i sm sd P δ) (d : Path) (hne : d ≠ []) (hnot : d ∉ sm.imps)
    (hl : lastIdx ms d = none) (hδ : δ (.imp d) = 0) :
    Inv ms i { sm with imps := d :: sm.imps, nl := fun k => if k = .imp d then 2 else sm.nl k }
      (setNode sd (.imp d) (writeAttr {} rootAttr)) (d :: P) δ := by
  have hlook : look ms i sm.imps d = none := by
    unfold look; rw [if_neg hne, hl]; simp [hnot]
  refine ⟨inv.kids, ?_, ?_, ?_, ?_, ?_, ?_, inv.freshNl, fun h => List.mem_cons_of_mem _ (inv.rootImp h), ?_⟩
  rotate_right
  · intro k kv hkv
    have := inv.kidsCreated k kv hkv
    by_cases hkd : kv.2 = .imp d
    · rw [hkd] at this; exact absurd this.1 hnot
    · exact (created_cons hkd).mpr this
  · intro p
    show walkKids sd.kids .root p = _
    rw [inv.walk p]
    by_cases hp : p = d
    · subst hp
      simp only [List.mem_cons, true_or, ↓reduceIte]
      split
      · rfl
      · exact hlook
    · rw [look_cons_ne hp]
      simp [hp]
  · intro p hp
    rcases List.mem_cons.mp hp with e | e
    · rw [e]; exact hl
    · exact inv.impsNone p e
  · intro p hp
    rcases List.mem_cons.mp hp with e | e
    · rw [e]; exact ⟨List.mem_cons_self .., hne⟩
    · exact ⟨List.mem_cons_of_mem _ (inv.pend p e).1, (inv.pend p e).2⟩
  · intro k hk
    by_cases hkd : k = .imp d
    · subst hkd
      refine ⟨writeAttr {} rootAttr, by simp [setNode], rfl, ?_⟩
      rw [readNumLink_root, hδ]
      simp [nlEff]
    · have hk' := (created_cons hkd).mp hk
      obtain ⟨b, h1, h2, h3⟩ := inv.node k hk'
      refine ⟨b, by simp [setNode, hkd, h1], h2, ?_⟩
      rw [h3]
      congr 1
      unfold nlEff
      simp only [hkd, ↓reduceIte, List.mem_cons]
      have : ([] : Path) ≠ d := fun e => hne e.symm
      simp [this]
  · intro k hk
    show sd.kids k = []
    apply inv.noKids
    intro ⟨h1, h2⟩
    by_cases hkd : k = .imp d
    · subst hkd; exact hnot h1.1
    · exact hk ⟨(created_cons hkd).mpr h1, h2⟩
  · intro p hp
    show sd.kids (.imp p) = []
    rcases List.mem_cons.mp hp with e | e
    · rw [e]
      apply inv.noKids
      intro ⟨h1, _⟩; exact hnot h1.1
    · exact inv.pendKids p e

end SV.Toc

namespace SV.Toc

theorem resolveF_is_ent (ms : List MEnt) : ∀ f t, ∃ r, resolveF ms f t = .ent r := by
  intro f
  induction f with
  | zero => intro t; exact ⟨t, rfl⟩
  | succ f ih =>
    intro t
    simp only [resolveF]
    split
    · split
      · split
        · exact ih _
        · exact ⟨t, rfl⟩
      · exact ⟨t, rfl⟩
    · exact ⟨t, rfl⟩

theorem look_imp_key {ms : List MEnt} {i : Nat} {imps : List Path} {p q : Path}
    (h : look ms i imps p = some (.imp q)) : p = q ∧ q ∈ imps := by
  unfold look at h
  split at h
  · cases h
  · split at h
    · split at h
      · rename_i j _ _
        obtain ⟨r, hr⟩ := resolveF_is_ent ms j j
        unfold resolveKey at h
        rw [hr] at h; cases h
      · cases h
    · split at h
      · cases h; rename_i hm; exact ⟨rfl, hm⟩
      · cases h

theorem keyType_imp (ms : List MEnt) (p : Path) : keyType ms (.imp p) = "dir" := rfl

/-- the pending implicit directory `d = q ++ [b]` is linked into its parent -/
theorem inv_link_pending {ms : List MEnt} (ok : TreeOK ms) {i : Nat} {sm : MState} {sd : DState}
    {P : List Path} {δ : Key → Int} (q : Path) (b : String) (pk : Key)
    (inv : Inv ms i sm sd ((q ++ [b]) :: P) δ)
    (hq : look ms i sm.imps q = some pk) (hqP : q ∉ P) (hdP : (q ++ [b]) ∉ P)
    (hdir : IsDirKey ms pk) (hroot : pk = .root → [] ∈ sm.imps) :
    Inv ms i (mAddChild ms sm pk b (.imp (q ++ [b]))) (dSetChild sd pk b (.imp (q ++ [b])) true) P δ := by
  have hqd : q ≠ q ++ [b] := by intro e; have := congrArg List.length e; simp at this
  have hpkc := look_created ok hq
  obtain ⟨bp, hbp1, hbp2, hbp3⟩ := inv.node pk hpkc
  have hpend := inv.pend (q ++ [b]) (List.mem_cons_self ..)
  have hne : Key.imp (q ++ [b]) ≠ pk := by
    intro e; rw [← e] at hq
    exact hqd (look_imp_key hq).1
  -- shape of the new states
  have hsdkids : (dSetChild sd pk b (.imp (q ++ [b])) true).kids =
      fun k => if k = pk then setKid b (.imp (q ++ [b])) (sd.kids k) else sd.kids k := by
    simp [dSetChild, hbp1, setNode]
  have hsdnodes : (dSetChild sd pk b (.imp (q ++ [b])) true).nodes =
      fun k => if k = pk then some (bumpNumLink bp) else sd.nodes k := by
    simp [dSetChild, hbp1, setNode]
  have hsmimps : (mAddChild ms sm pk b (.imp (q ++ [b]))).imps = sm.imps := rfl
  have hsmnl : (mAddChild ms sm pk b (.imp (q ++ [b]))).nl = fun k => if k = pk then sm.nl k + 1 else sm.nl k := by
    simp [mAddChild, keyType_imp]
  refine ⟨?_, ?_, inv.impsNone, ?_, ?_, ?_, ?_, ?_, ?_, ?_⟩
  rotate_right
  · intro k kv hkv
    rw [hsdkids] at hkv
    show Created ms i sm.imps kv.2
    by_cases hkp : k = pk
    · simp only [hkp, ↓reduceIte] at hkv
      rcases mem_setKid hkv with e | e
      · rw [e]; exact ⟨hpend.1, hpend.2⟩
      · exact inv.kidsCreated pk kv e
    · simp only [hkp, ↓reduceIte] at hkv
      exact inv.kidsCreated k kv hkv
  rotate_right
  · intro h
    by_cases hpk : pk = .root
    · exact hroot hpk
    · apply inv.rootImp
      simpa [mAddChild, Ne.symm hpk] using h
  · intro k
    rw [hsdkids]
    simp only [mAddChild]
    rw [inv.kids]
  · intro p
    rw [hsdkids]
    have := walk_link sd.kids (fun p => if p ∈ (q ++ [b]) :: P then none else look ms i sm.imps p)
      q b pk (.imp (q ++ [b])) inv.walk
      (by simp only [List.mem_cons, hqd, hqP, or_self, ↓reduceIte]; exact hq)
      (by simp)
      (by
        intro p hp
        split at hp
        · cases hp
        · exact look_dir_unique ok hp hq hdir)
      (inv.pendKids _ (List.mem_cons_self ..)) hne p
    rw [this, hsmimps]
    by_cases hpd : p = q ++ [b]
    · subst hpd
      rw [if_pos rfl, if_neg hdP]
      unfold look
      rw [if_neg hpend.2, inv.impsNone _ hpend.1]
      simp [hpend.1]
    · rw [if_neg hpd]
      simp [hpd]
  · intro p hp
    exact inv.pend p (List.mem_cons_of_mem _ hp)
  · intro k hk
    rw [hsdnodes]
    by_cases hkp : k = pk
    · subst hkp
      refine ⟨bumpNumLink bp, by simp, by rw [eraseNL_bump]; exact hbp2, ?_⟩
      rw [readNumLink_bump, hbp3]
      unfold nlEff
      rw [hsmimps, hsmnl]
      by_cases hr : k = .root
      · have := hroot hr
        simp [this]; omega
      · simp [hr]; omega
    · obtain ⟨b', h1, h2, h3⟩ := inv.node k hk
      refine ⟨b', by simp [hkp, h1], h2, ?_⟩
      rw [h3]; unfold nlEff; rw [hsmimps, hsmnl]; simp [hkp]
  · intro k hk
    rw [hsdkids]
    have hkp : k ≠ pk := fun e => hk (by subst e; exact ⟨hpkc, hdir⟩)
    simp only [hkp, ↓reduceIte]
    exact inv.noKids k hk
  · intro p hp
    rw [hsdkids]
    have : Key.imp p ≠ pk := by
      intro e; rw [← e] at hq
      exact hqP ((look_imp_key hq).1 ▸ hp)
    simp only [this, ↓reduceIte]
    exact inv.pendKids p (List.mem_cons_of_mem _ hp)
  · intro j hj
    rw [hsmnl]
    have : Key.ent j ≠ pk := by
      intro e; rw [← e] at hpkc
      exact absurd hpkc.1 (by omega)
    simp only [this, ↓reduceIte]
    exact inv.freshNl j hj

end SV.Toc

namespace SV.Toc

theorem inv_create_root {ms : List MEnt} (ok : TreeOK ms) {i : Nat} {sm : MState} {sd : DState}
    {P : List Path} {δ : Key → Int} (inv : Inv ms i sm sd P δ) (hnot : [] ∉ sm.imps) :
    Inv ms i { sm with imps := [] :: sm.imps, nl := fun k => if k = .root then 2 else sm.nl k } sd P δ := by
  have hl : lastIdx ms [] = none := (lastIdx_eq_none_iff ms []).mpr ok.noRoot
  have hcr : ∀ k, Created ms i ([] :: sm.imps) k ↔ Created ms i sm.imps k := by
    intro k
    cases k with
    | root => simp [Created]
    | ent j => simp [Created]
    | imp p =>
      simp only [Created, List.mem_cons]
      constructor
      · rintro ⟨h1 | h1, h2⟩
        · exact absurd h1 h2
        · exact ⟨h1, h2⟩
      · rintro ⟨h1, h2⟩; exact ⟨Or.inr h1, h2⟩
  refine ⟨inv.kids, ?_, ?_, ?_, ?_, ?_, inv.pendKids, inv.freshNl, fun _ => List.mem_cons_self ..,
    fun k kv hkv => (hcr kv.2).mpr (inv.kidsCreated k kv hkv)⟩
  · intro p
    rw [inv.walk p]
    by_cases hp : p = []
    · subst hp; simp [look]
    · rw [look_cons_ne hp]
  · intro p hp
    rcases List.mem_cons.mp hp with e | e
    · rw [e]; exact hl
    · exact inv.impsNone p e
  · intro p hp
    exact ⟨List.mem_cons_of_mem _ (inv.pend p hp).1, (inv.pend p hp).2⟩
  · intro k hk
    obtain ⟨b, h1, h2, h3⟩ := inv.node k ((hcr k).mp hk)
    refine ⟨b, h1, h2, ?_⟩
    rw [h3]; congr 1
    unfold nlEff
    by_cases hr : k = .root
    · subst hr; simp [hnot]
    · simp [hr]
  · intro k hk
    apply inv.noKids
    intro ⟨h1, h2⟩
    exact hk ⟨(hcr k).mpr h1, h2⟩

theorem take_reverse_cons (b : String) (rest : List String) (n : Nat) (hn : n ≤ rest.length) :
    ((b :: rest).reverse).take n = rest.reverse.take n := by
  simp only [List.reverse_cons]
  rw [List.take_append_of_le_length (by simpa using hn)]

theorem goc {ms : List MEnt} (ok : TreeOK ms) (i : Nat) :
    ∀ (rev : List String) (sm : MState) (sd : DState) (P : List Path) (δ : Key → Int),
      Inv ms i sm sd P δ → (∀ p, δ (.imp p) = 0) →
      Admissible ms i rev.reverse →
      (∀ n, n ≤ rev.length → rev.reverse.take n ∉ P) →
      ∃ sm' sd' k, mGetOrCreateDir ms sm rev = (sm', k) ∧ dGetOrCreateDir sd rev = some (sd', k) ∧
        Inv ms i sm' sd' P δ ∧ look ms i sm'.imps rev.reverse = some k ∧ IsDirKey ms k ∧
        (k = .root → [] ∈ sm'.imps) ∧
        (∀ p, p ∈ sm.imps → p ∈ sm'.imps) ∧
        (∀ j, i ≤ j → sd'.nodes (.ent j) = sd.nodes (.ent j)) ∧
        sd'.lastEnt = sd.lastEnt ∧ sd'.lastEntSize = sd.lastEntSize ∧ sd'.chunks = sd.chunks := by
  intro rev
  induction rev with
  | nil =>
    intro sm sd P δ inv _ _ _
    have hl : lastIdx ms [] = none := (lastIdx_eq_none_iff ms []).mpr ok.noRoot
    obtain ⟨br, hbr, _, _⟩ := inv.node .root trivial
    by_cases hmem : [] ∈ sm.imps
    · refine ⟨sm, sd, .root, ?_, ?_, inv, by simp [look], trivial, fun _ => hmem, fun _ h => h,
        fun _ _ => rfl, rfl, rfl, rfl⟩
      · simp [mGetOrCreateDir, mLookup, hl, hmem, impKey]
      · simp [dGetOrCreateDir, hbr]
    · refine ⟨_, sd, .root, ?_, ?_, inv_create_root ok inv hmem, by simp [look], trivial,
        fun _ => List.mem_cons_self .., fun _ h => List.mem_cons_of_mem _ h, fun _ _ => rfl, rfl, rfl, rfl⟩
      · simp [mGetOrCreateDir, mLookup, hl, hmem]
      · simp [dGetOrCreateDir, hbr]
  | cons b rest ih =>
    intro sm sd P δ inv hδ hadm hP
    have hd : (b :: rest).reverse = rest.reverse ++ [b] := by simp
    have hne : (b :: rest).reverse ≠ [] := by simp
    have hdP : (b :: rest).reverse ∉ P := by
      have := hP (b :: rest).length (Nat.le_refl _)
      rwa [← List.length_reverse, List.take_length] at this
    obtain ⟨hml, hdirk⟩ := mLookup_eq_look (sm := sm) ok hadm hne
    have hwalk : dGetIDByName sd (b :: rest).reverse = look ms i sm.imps (b :: rest).reverse := by
      unfold dGetIDByName; rw [inv.walk, if_neg hdP]
    cases hlk : look ms i sm.imps (b :: rest).reverse with
    | some k =>
      obtain ⟨bk, hbk, _, _⟩ := inv.node k (look_created ok hlk)
      refine ⟨sm, sd, k, ?_, ?_, inv, hlk, hdirk k hlk, ?_, fun _ h => h, fun _ _ => rfl, rfl, rfl, rfl⟩
      · simp only [mGetOrCreateDir]; rw [hml, hlk]
      · simp only [dGetOrCreateDir]; rw [hwalk, hlk]; simp [hbk]
      · intro e; subst e
        -- look of a non-empty name is never the root
        exfalso
        unfold look at hlk
        rw [if_neg hne] at hlk
        split at hlk
        · split at hlk
          · rename_i j _ _
            obtain ⟨r, hr⟩ := resolveF_is_ent ms j j
            unfold resolveKey at hlk; rw [hr] at hlk; cases hlk
          · cases hlk
        · split at hlk <;> cases hlk
    | none =>
      -- both stores create the directory, recurse for the parent, then link
      have hlnone : lastIdx ms (b :: rest).reverse = none := by
        cases hl : lastIdx ms (b :: rest).reverse with
        | none => rfl
        | some j =>
          exfalso
          obtain ⟨m, hm, hc, hp⟩ := (lastIdx_eq_some_iff ms ok.nodup _ j).mp hl
          have := hadm (b :: rest).reverse.length (List.length_pos_iff.mpr hne) (Nat.le_refl _) j m hm hc
            (by rw [List.take_length]; exact hp)
          unfold look at hlk
          rw [if_neg hne, hl] at hlk
          simp [this.2] at hlk
      have hnot : (b :: rest).reverse ∉ sm.imps := by
        intro hmem
        have : look ms i sm.imps (b :: rest).reverse = some (.imp (b :: rest).reverse) := by
          unfold look; rw [if_neg hne, hlnone]; exact if_pos hmem
        rw [this] at hlk; cases hlk
      have inv1 := inv_create_imp inv (b :: rest).reverse hne hnot hlnone (hδ _)
      have hadm' : Admissible ms i rest.reverse := by
        intro n h0 hn j m hm hc hp
        have hn' : n ≤ rest.length := by simpa using hn
        refine hadm n h0 (by simp; omega) j m hm hc ?_
        rw [take_reverse_cons b rest n hn']; exact hp
      have hP' : ∀ n, n ≤ rest.length → rest.reverse.take n ∉ (b :: rest).reverse :: P := by
        intro n hn hmem
        rcases List.mem_cons.mp hmem with e | e
        · have := congrArg List.length e
          simp at this; omega
        · have := hP n (by simp; omega)
          rw [take_reverse_cons b rest n hn] at this
          exact this e
      obtain ⟨sm2, sd2, pk, hm2, hd2, inv2, hlook2, hdir2, hroot2, hmono2, hnodes2, hle2, hls2, hch2⟩ :=
        ih _ _ _ δ inv1 hδ hadm' hP'
      have hqP : rest.reverse ∉ P := by
        have := hP rest.length (by simp)
        rwa [take_reverse_cons b rest _ (Nat.le_refl _), ← List.length_reverse, List.take_length] at this
      rw [hd] at inv2 hdP
      have inv3 := inv_link_pending ok rest.reverse b pk inv2 hlook2 hqP hdP hdir2 hroot2
      have hdmem : (rest.reverse ++ [b]) ∈ sm2.imps := hmono2 _ (by rw [← hd]; exact List.mem_cons_self ..)
      refine ⟨_, _, .imp (rest.reverse ++ [b]), ?_, ?_, inv3, ?_, trivial, (fun e => by cases e), ?_, ?_, ?_, ?_, ?_⟩
      · simp only [mGetOrCreateDir]
        rw [hml, hlk]
        simp only [hd] at hm2 ⊢
        rw [hm2]
      · simp only [dGetOrCreateDir]
        rw [hwalk, hlk]
        simp only [hd] at hd2 ⊢
        rw [hd2]
      · rw [hd]
        show look ms i sm2.imps (rest.reverse ++ [b]) = _
        unfold look
        rw [← hd, if_neg hne, hlnone]
        rw [hd]; simp [hdmem]
      · intro p hp
        exact hmono2 p (List.mem_cons_of_mem _ hp)
      · intro j hj
        have hpkc := look_created ok hlook2
        obtain ⟨bp, hbp, _, _⟩ := inv2.node pk hpkc
        have hne' : Key.ent j ≠ pk := by
          intro e; rw [← e] at hpkc; exact absurd hpkc.1 (by omega)
        have : (dSetChild sd2 pk b (.imp (rest.reverse ++ [b])) true).nodes (.ent j) = sd2.nodes (.ent j) := by
          simp [dSetChild, hbp, setNode, hne']
        rw [this, hnodes2 j hj]
        simp [setNode]
      · have hpkc := look_created ok hlook2
        obtain ⟨bp, hbp, _, _⟩ := inv2.node pk hpkc
        simp [dSetChild, hbp, setNode, hle2]
      · have hpkc := look_created ok hlook2
        obtain ⟨bp, hbp, _, _⟩ := inv2.node pk hpkc
        simp [dSetChild, hbp, setNode, hls2]
      · have hpkc := look_created ok hlook2
        obtain ⟨bp, hbp, _, _⟩ := inv2.node pk hpkc
        simp [dSetChild, hbp, setNode, hch2]

end SV.Toc

namespace SV.Toc

theorem Inv.congr_db {ms : List MEnt} {i : Nat} {sm : MState} {sd sd' : DState} {P : List Path}
    {δ : Key → Int} (inv : Inv ms i sm sd P δ) (hk : sd'.kids = sd.kids) (hn : sd'.nodes = sd.nodes) :
    Inv ms i sm sd' P δ := by
  refine ⟨?_, ?_, inv.impsNone, inv.pend, ?_, ?_, ?_, inv.freshNl, inv.rootImp, ?_⟩
  rotate_right
  · rw [hk]; exact inv.kidsCreated
  · rw [hk]; exact inv.kids
  · rw [hk]; exact inv.walk
  · rw [hn]; exact inv.node
  · rw [hk]; exact inv.noKids
  · rw [hk]; exact inv.pendKids

theorem readNumLink_writeAttr_fresh (a : Attr) : readNumLink (writeAttr {} a) = a.numLink := by
  unfold writeAttr readNumLink putNZ
  cases a.xattrs with
  | nil => by_cases h : a.numLink - 1 = 0 <;> simp [h] <;> omega
  | cons f r => cases r <;> (by_cases h : a.numLink - 1 = 0 <;> simp [h] <;> omega)

theorem look_succ_at {ms : List MEnt} (ok : TreeOK ms) (i : Nat) (imps : List Path) (p : Path)
    (h : NonChunkAt ms i p) : look ms (i + 1) imps p = some (resolveKey ms i) := by
  have hl := (lastIdx_eq_some_iff ms ok.nodup p i).mpr h
  have hp : p ≠ [] := fun e => ok.noRoot i (e ▸ h)
  unfold look
  rw [if_neg hp, hl]
  simp

theorem look_succ_ne {ms : List MEnt} (ok : TreeOK ms) (i : Nat) (imps : List Path) (p : Path)
    (h : ¬ NonChunkAt ms i p) : look ms (i + 1) imps p = look ms i imps p := by
  unfold look
  by_cases hp : p = []
  · simp [hp]
  · simp only [hp, ↓reduceIte]
    cases hl : lastIdx ms p with
    | none => rfl
    | some j =>
      simp only
      have hji : j ≠ i := by
        intro e; subst e
        exact h ((lastIdx_eq_some_iff ms ok.nodup p j).mp hl)
      by_cases hlt : j < i
      · simp [hlt, Nat.lt_succ_of_lt hlt]
      · have : ¬ j < i + 1 := by omega
        simp [hlt, this]

/-- a bucket created early for the entry being processed does not disturb the invariant -/
theorem inv_setNode_fresh {ms : List MEnt} {i : Nat} {sm : MState} {sd : DState} {P : List Path}
    {δ : Key → Int} (inv : Inv ms i sm sd P δ) (j : Nat) (hj : i ≤ j) (b : DbAttr) :
    Inv ms i sm (setNode sd (.ent j) b) P δ := by
  refine ⟨inv.kids, inv.walk, inv.impsNone, inv.pend, ?_, inv.noKids, inv.pendKids, inv.freshNl, inv.rootImp,
    inv.kidsCreated⟩
  intro k hk
  obtain ⟨b', h1, h2, h3⟩ := inv.node k hk
  have : k ≠ .ent j := by
    intro e; subst e; exact absurd hk.1 (by omega)
  exact ⟨b', by simp [setNode, this, h1], h2, h3⟩

theorem path_split (d : Path) (hne : d ≠ []) : d = parentDir d ++ [baseName d] := by
  unfold parentDir baseName
  have := List.dropLast_concat_getLast hne
  rw [List.getLast?_eq_some_getLast hne]
  simpa using this.symm

/-- entry `i` (not a chunk, not a hardlink) has been given its bucket and its parent directory
exists: linking it completes the step. -/
theorem inv_link_entry {ms : List MEnt} (ok : TreeOK ms) {i : Nat} {sm : MState} {sd : DState}
    (q : Path) (b : String) (pk : Key) (m : MEnt)
    (inv : Inv ms i sm sd [] (fun _ => 0))
    (hm : ms[i]? = some m) (hc : m.e.type ≠ "chunk") (hh : m.e.type ≠ "hardlink")
    (hpath : m.path = q ++ [b])
    (hq : look ms i sm.imps q = some pk) (hdir : IsDirKey ms pk) (hroot : pk = .root → [] ∈ sm.imps)
    (hnode : sd.nodes (.ent i) = some (writeAttr {} (attr0 ms (.ent i)))) :
    Inv ms (i + 1)
      (mAddChild ms { sm with nl := fun k => if k = .ent i then sm.nl k + 1 else sm.nl k } pk b (.ent i))
      (dSetChild sd pk b (.ent i) (m.e.type = "dir")) [] (fun _ => 0) := by
  have hnc : NonChunkAt ms i (q ++ [b]) := ⟨m, hm, hc, hpath⟩
  have hpkc := look_created ok hq
  obtain ⟨bp, hbp1, hbp2, hbp3⟩ := inv.node pk hpkc
  have hne : Key.ent i ≠ pk := by
    intro e; rw [← e] at hpkc; exact absurd hpkc.1 (by omega)
  have hkt : keyType ms (.ent i) = m.e.type := by simp [keyType, hm]
  have hres : resolveKey ms i = .ent i := by
    rw [resolveKey_unfold ok hm, if_neg hh]
  have hsdkids : (dSetChild sd pk b (.ent i) (m.e.type = "dir")).kids =
      fun k => if k = pk then setKid b (.ent i) (sd.kids k) else sd.kids k := by
    unfold dSetChild
    by_cases hd : m.e.type = "dir" <;> simp [hd, hbp1, setNode]
  have hsdnodes : (dSetChild sd pk b (.ent i) (m.e.type = "dir")).nodes =
      fun k => if k = pk ∧ m.e.type = "dir" then some (bumpNumLink bp) else sd.nodes k := by
    unfold dSetChild
    by_cases hd : m.e.type = "dir"
    · simp [hd, hbp1, setNode]
    · simp [hd]
  have hlookd : look ms i sm.imps (q ++ [b]) = none := by
    have hl := (lastIdx_eq_some_iff ms ok.nodup _ i).mpr hnc
    have hne' : q ++ [b] ≠ [] := by simp
    unfold look; rw [if_neg hne', hl]; simp
  have hkidsi : sd.kids (.ent i) = [] := by
    apply inv.noKids
    intro ⟨h1, _⟩; exact absurd h1.1 (by omega)
  have hcr : ∀ k, Created ms (i + 1) sm.imps k ↔ (k = .ent i ∨ Created ms i sm.imps k) := by
    intro k
    cases k with
    | root => simp [Created]
    | imp p => simp [Created]
    | ent j =>
      simp only [Created, Key.ent.injEq]
      constructor
      · rintro ⟨h1, h2⟩
        by_cases hji : j = i
        · exact Or.inl hji
        · exact Or.inr ⟨by omega, h2⟩
      · rintro (h | ⟨h1, h2⟩)
        · subst h; exact ⟨by omega, m, hm, hc, hh⟩
        · exact ⟨by omega, h2⟩
  refine ⟨?_, ?_, inv.impsNone, ?_, ?_, ?_, ?_, ?_, ?_, ?_⟩
  rotate_right
  · intro k kv hkv
    rw [hsdkids] at hkv
    show Created ms (i + 1) sm.imps kv.2
    by_cases hkp : k = pk
    · simp only [hkp, ↓reduceIte] at hkv
      rcases mem_setKid hkv with e | e
      · rw [e]; exact (hcr _).mpr (Or.inl rfl)
      · exact (hcr _).mpr (Or.inr (inv.kidsCreated pk kv e))
    · simp only [hkp, ↓reduceIte] at hkv
      exact (hcr _).mpr (Or.inr (inv.kidsCreated k kv hkv))
  rotate_right
  · intro h
    by_cases hpk : pk = .root
    · exact hroot hpk
    · apply inv.rootImp
      simpa [mAddChild, Ne.symm hpk] using h
  · intro k
    rw [hsdkids]
    simp only [mAddChild]
    rw [inv.kids]
  · intro p
    rw [hsdkids]
    have hw : ∀ p, walkKids sd.kids .root p = look ms i sm.imps p := by
      intro p; have := inv.walk p; simpa using this
    have := walk_link sd.kids (look ms i sm.imps) q b pk (.ent i) hw hq hlookd
      (fun p hp => look_dir_unique ok hp hq hdir) hkidsi hne p
    rw [this]
    simp only [List.not_mem_nil, ↓reduceIte]
    show _ = look ms (i + 1) sm.imps p
    by_cases hpd : p = q ++ [b]
    · subst hpd; rw [look_succ_at ok i _ _ hnc, hres]; simp
    · have : ¬ NonChunkAt ms i p := by
        intro h; exact hpd (by
          obtain ⟨m', hm', _, hp'⟩ := h
          rw [hm] at hm'; cases hm'; rw [← hp', hpath])
      rw [look_succ_ne ok i _ _ this]; simp [hpd]
  · intro p hp; cases hp
  · intro k hk
    rw [hsdnodes]
    show ∃ b', _ ∧ _ ∧ readNumLink b' = nlEff _ k + 0
    have hnl : (mAddChild ms { sm with nl := fun k => if k = .ent i then sm.nl k + 1 else sm.nl k } pk b (.ent i)).nl =
        fun k => if k = pk ∧ m.e.type = "dir" then sm.nl k + 1
                 else if k = .ent i then sm.nl k + 1 else sm.nl k := by
      unfold mAddChild
      simp only [hkt]
      by_cases hd : m.e.type = "dir"
      · simp only [hd, ↓reduceIte, and_true]
        funext k
        by_cases hkp : k = pk
        · subst hkp; simp [Ne.symm hne]
        · simp [hkp]
      · simp [hd]
    have himps : (mAddChild ms { sm with nl := fun k => if k = .ent i then sm.nl k + 1 else sm.nl k } pk b (.ent i)).imps = sm.imps := rfl
    rcases (hcr k).mp hk with hki | hko
    · subst hki
      have hnp : ¬ (Key.ent i = pk ∧ m.e.type = "dir") := fun h => hne h.1
      refine ⟨_, by dsimp only; rw [if_neg hnp]; exact hnode, rfl, ?_⟩
      rw [readNumLink_writeAttr_fresh]
      unfold nlEff
      rw [himps, hnl]
      simp only [hnp, ↓reduceIte, reduceCtorEq, false_and]
      rw [inv.freshNl i (Nat.le_refl _)]
      simp only [attr0, hm, initNl, attrOfEntry, Option.map_some, Option.getD_some]
      by_cases hd : m.e.type = "dir" <;> simp [hd]
    · obtain ⟨b', h1, h2, h3⟩ := inv.node k hko
      have hki : k ≠ .ent i := by
        intro e; subst e; exact absurd hko.1 (by omega)
      by_cases hkp : k = pk ∧ m.e.type = "dir"
      · obtain ⟨hkp1, hd⟩ := hkp
        subst hkp1
        rw [hbp1] at h1; cases h1
        refine ⟨bumpNumLink bp, by simp [hd], by rw [eraseNL_bump]; exact h2, ?_⟩
        rw [readNumLink_bump, h3]
        unfold nlEff
        rw [himps, hnl]
        by_cases hr : k = .root
        · have := hroot hr; simp [this, hd]
        · simp [hr, hd]
      · refine ⟨b', by dsimp only; rw [if_neg hkp]; exact h1, h2, ?_⟩
        rw [h3]
        unfold nlEff
        rw [himps, hnl]
        simp [hkp, hki]
  · intro k hk
    rw [hsdkids]
    have hkp : k ≠ pk := by
      intro e; subst e
      exact hk ⟨(hcr k).mpr (Or.inr hpkc), hdir⟩
    simp only [hkp, ↓reduceIte]
    by_cases hki : k = .ent i
    · subst hki; exact hkidsi
    · apply inv.noKids
      intro ⟨h1, h2⟩
      exact hk ⟨(hcr k).mpr (Or.inr h1), h2⟩
  · intro p hp; cases hp
  · intro j hj
    show (mAddChild ms _ pk b (.ent i)).nl (.ent j) = _
    have hjp : Key.ent j ≠ pk := by
      intro e; rw [← e] at hpkc; exact absurd hpkc.1 (by omega)
    have hji : Key.ent j ≠ .ent i := by
      intro e; cases e; omega
    unfold mAddChild
    by_cases hd : keyType ms (.ent i) = "dir"
    · simp only [hd, ↓reduceIte, hjp, hji]
      exact inv.freshNl j (by omega)
    · simp only [hd, ↓reduceIte, hji]
      exact inv.freshNl j (by omega)

end SV.Toc

namespace SV.Toc

/-! ## Unique names, list form -/

theorem mem_namesOf {ms : List MEnt} {j : Nat} {p : Path} (h : NonChunkAt ms j p) : p ∈ namesOf ms := by
  obtain ⟨m, hm, hc, hp⟩ := h
  unfold namesOf
  rw [List.mem_map]
  exact ⟨m, List.mem_filter.mpr ⟨List.mem_of_getElem? hm, by simp [ncB, hc]⟩, hp⟩

theorem namesNodup_of_list : ∀ (ms : List MEnt), (namesOf ms).Nodup → NamesNodup ms := by
  intro ms
  induction ms with
  | nil => intro _ i j p ⟨m, hm, _⟩; simp at hm
  | cons x rest ih =>
    intro hnd i j p hi hj
    have hnd' : (namesOf rest).Nodup := by
      unfold namesOf at hnd ⊢
      by_cases hx : ncB x = true
      · simp only [List.filter, hx, List.map_cons] at hnd
        exact (List.nodup_cons.mp hnd).2
      · simp only [List.filter, hx] at hnd
        exact hnd
    have shift : ∀ t, NonChunkAt (x :: rest) (t + 1) p → NonChunkAt rest t p := by
      intro t ⟨m, hm, h2, h3⟩
      exact ⟨m, by simpa using hm, h2, h3⟩
    have head_tail : ∀ t, NonChunkAt (x :: rest) 0 p → NonChunkAt (x :: rest) (t + 1) p → False := by
      intro t ⟨m, hm, h2, h3⟩ ht
      simp only [List.getElem?_cons_zero, Option.some.injEq] at hm; subst hm
      have hmem := mem_namesOf (shift t ht)
      unfold namesOf at hnd
      have hx : ncB x = true := by simp [ncB, h2]
      simp only [List.filter, hx, List.map_cons] at hnd
      rw [h3] at hnd
      exact (List.nodup_cons.mp hnd).1 hmem
    cases i with
    | zero =>
      cases j with
      | zero => rfl
      | succ j => exact (head_tail j hi hj).elim
    | succ i =>
      cases j with
      | zero => exact (head_tail i hj hi).elim
      | succ j => rw [ih hnd' i j p (shift i hi) (shift j hj)]

theorem eraseDups_of_nodup : ∀ (l : List Path), l.Nodup → l.eraseDups = l := by
  intro l
  generalize hn : l.length = n
  induction n using Nat.strongRecOn generalizing l with
  | _ n ih =>
    intro hnd
    cases l with
    | nil => simp
    | cons a as =>
      rw [List.eraseDups_cons]
      obtain ⟨h1, h2⟩ := List.nodup_cons.mp hnd
      have hf : List.filter (fun b => !b == a) as = as := by
        rw [List.filter_eq_self]
        intro b hb
        have : b ≠ a := fun e => h1 (e ▸ hb)
        simp [this]
      rw [hf, ih as.length (by simp at hn; omega) as rfl h2]

/-- number of non-chunk entries among the first `j + 1` -/
def cnt (ms : List MEnt) (j : Nat) : Nat := ((ms.take (j + 1)).filter ncB).length

theorem cnt_le_total (ms : List MEnt) (j : Nat) : cnt ms j ≤ (ms.filter ncB).length := by
  unfold cnt
  exact ((List.take_sublist _ _).filter _).length_le

theorem cnt_lt {ms : List MEnt} {t j : Nat} {m : MEnt} (htj : t < j) (hm : ms[j]? = some m)
    (hc : m.e.type ≠ "chunk") : cnt ms t + 1 ≤ cnt ms j := by
  unfold cnt
  have hjl : j < ms.length := by
    rcases Nat.lt_or_ge j ms.length with h | h
    · exact h
    · rw [List.getElem?_eq_none h] at hm; cases hm
  have h1 : ms.take (j + 1) = ms.take j ++ [m] := by
    rw [List.take_add_one, hm]; rfl
  rw [h1, List.filter_append, List.length_append]
  have hx : ncB m = true := by simp [ncB, hc]
  simp only [List.filter, hx, List.length_cons, List.length_nil]
  have : ms.take (t + 1) = (ms.take j).take (t + 1) := by
    rw [List.take_take]; congr 1; omega
  rw [this]
  have := ((List.take_sublist (t + 1) (ms.take j)).filter ncB).length_le
  omega

theorem distinctNames_eq {ms : List MEnt} (hnd : (namesOf ms).Nodup) :
    distinctNames ms = (ms.filter ncB).length := by
  unfold distinctNames
  have : (List.filter (fun m => decide (m.e.type ≠ "chunk")) ms) = ms.filter ncB := rfl
  rw [this]
  have h2 := eraseDups_of_nodup (namesOf ms) hnd
  unfold namesOf at h2
  simp only [h2]; simp

theorem keyType_ent {ms : List MEnt} {j : Nat} {m : MEnt} (hm : ms[j]? = some m) :
    keyType ms (.ent j) = m.e.type := by simp [keyType, hm]

/-- `getSource` reaches the resolved entry before the loop bound trips -/
theorem mGetSource_ok {ms : List MEnt} (ok : TreeOK ms) (s : MState) (bound : Nat) :
    ∀ (j : Nat) (m : MEnt), ms[j]? = some m → m.e.type ≠ "chunk" →
      ∀ n, n + cnt ms j ≤ bound + 1 → mGetSource ms s bound n (.ent j) = some (resolveKey ms j) := by
  intro j
  induction j using Nat.strongRecOn with
  | _ j ih =>
    intro m hm hc n hn
    rw [resolveKey_unfold ok hm]
    unfold mGetSource
    rw [keyType_ent hm]
    by_cases hh : m.e.type = "hardlink"
    · obtain ⟨t, ht, hl, mt, hmt, hct, _⟩ := hardlink_target ok hm hh
      have hcj : 1 ≤ cnt ms j := by
        have := cnt_lt (ms := ms) (t := 0) (j := j) (m := m)
        by_cases hj0 : j = 0
        · subst hj0
          unfold cnt
          have : ms.take 1 = [m] := by
            cases ms with
            | nil => simp at hm
            | cons x xs => simp at hm; subst hm; rfl
          rw [this]
          have hx : ncB m = true := by simp [ncB, hc]
          simp [List.filter, hx]
        · have := this (by omega) hm hc
          omega
      have hnb : ¬ n > bound := by omega
      simp only [hh, ne_eq, not_true_eq_false, ↓reduceIte, hnb, hm, if_pos]
      have hml : mLookup ms s (cleanName m.e.linkName) = some (.ent t) := by
        unfold mLookup; rw [hl]
      rw [hml]
      have hle : n ≤ bound := by omega
      simp only [hle, ↓reduceDIte, hl]
      exact ih t ht mt hmt hct (n + 1) (by have := cnt_lt ht hm hc; omega)
    · simp [hh]

end SV.Toc

/-! # Part 2: the steps of both interpreters and the joint run -/
namespace SV.Toc

theorem isDirKey_keyType {ms : List MEnt} {k : Key} (h : ¬ IsDirKey ms k) : keyType ms k ≠ "dir" := by
  cases k with
  | root => exact absurd trivial h
  | imp p => exact absurd trivial h
  | ent j =>
    intro e
    apply h
    cases hm : ms[j]? with
    | none => simp [keyType, hm] at e
    | some m =>
      refine ⟨m, hm, ?_⟩
      simpa [keyType, hm] using e

/-- hardlink entry `i`: the target's link count has been raised, the parent exists; linking the
name to the target completes the step. -/
theorem inv_link_hardlink {ms : List MEnt} (ok : TreeOK ms) {i : Nat} {sm : MState} {sd : DState}
    (q : Path) (b : String) (pk org : Key) (m : MEnt)
    (inv : Inv ms i sm sd [] (fun k => if k = org then 1 else 0))
    (hm : ms[i]? = some m) (hh : m.e.type = "hardlink")
    (hpath : m.path = q ++ [b])
    (hq : look ms i sm.imps q = some pk) (hdir : IsDirKey ms pk) (hroot : pk = .root → [] ∈ sm.imps)
    (horg : resolveKey ms i = org) (hoc : Created ms i sm.imps org) (hod : ¬ IsDirKey ms org) :
    Inv ms (i + 1)
      (mAddChild ms { sm with nl := fun k =>
          if k = org then (if k = .ent i then sm.nl k + 1 else sm.nl k) + 1
          else (if k = .ent i then sm.nl k + 1 else sm.nl k) } pk b org)
      (dSetChild sd pk b org false) [] (fun _ => 0) := by
  have hc : m.e.type ≠ "chunk" := by rw [hh]; decide
  have hnc : NonChunkAt ms i (q ++ [b]) := ⟨m, hm, hc, hpath⟩
  have hpkc := look_created ok hq
  have hne : org ≠ pk := fun e => hod (e ▸ hdir)
  have hoi : org ≠ .ent i := by
    intro e; rw [e] at hoc; exact absurd hoc.1 (by omega)
  have hkt : keyType ms org ≠ "dir" := isDirKey_keyType hod
  have hsdkids : (dSetChild sd pk b org false).kids =
      fun k => if k = pk then setKid b org (sd.kids k) else sd.kids k := by
    simp [dSetChild]
  have hsdnodes : (dSetChild sd pk b org false).nodes = sd.nodes := by simp [dSetChild]
  have hlookd : look ms i sm.imps (q ++ [b]) = none := by
    have hl := (lastIdx_eq_some_iff ms ok.nodup _ i).mpr hnc
    have hne' : q ++ [b] ≠ [] := by simp
    unfold look; rw [if_neg hne', hl]; simp
  have hkidso : sd.kids org = [] := inv.noKids org (fun ⟨_, h2⟩ => hod h2)
  have hcr : ∀ k, Created ms (i + 1) sm.imps k ↔ Created ms i sm.imps k := by
    intro k
    cases k with
    | root => simp [Created]
    | imp p => simp [Created]
    | ent j =>
      simp only [Created]
      constructor
      · rintro ⟨h1, m', h2, h3, h4⟩
        refine ⟨?_, m', h2, h3, h4⟩
        by_cases hji : j = i
        · subst hji; rw [hm] at h2; cases h2; exact absurd hh h4
        · omega
      · rintro ⟨h1, h2⟩; exact ⟨by omega, h2⟩
  refine ⟨?_, ?_, inv.impsNone, ?_, ?_, ?_, ?_, ?_, ?_, ?_⟩
  rotate_right
  · intro k kv hkv
    rw [hsdkids] at hkv
    show Created ms (i + 1) sm.imps kv.2
    by_cases hkp : k = pk
    · simp only [hkp, ↓reduceIte] at hkv
      rcases mem_setKid hkv with e | e
      · rw [e]; exact (hcr _).mpr hoc
      · exact (hcr _).mpr (inv.kidsCreated pk kv e)
    · simp only [hkp, ↓reduceIte] at hkv
      exact (hcr _).mpr (inv.kidsCreated k kv hkv)
  rotate_right
  · intro h
    by_cases hpk : pk = .root
    · exact hroot hpk
    · apply inv.rootImp
      simpa [mAddChild, Ne.symm hpk] using h
  · intro k
    rw [hsdkids]
    simp only [mAddChild]
    rw [inv.kids]
  · intro p
    rw [hsdkids]
    have hw : ∀ p, walkKids sd.kids .root p = look ms i sm.imps p := by
      intro p; have := inv.walk p; simpa using this
    have := walk_link sd.kids (look ms i sm.imps) q b pk org hw hq hlookd
      (fun p hp => look_dir_unique ok hp hq hdir) hkidso hne p
    rw [this]
    simp only [List.not_mem_nil, ↓reduceIte]
    show _ = look ms (i + 1) sm.imps p
    by_cases hpd : p = q ++ [b]
    · subst hpd; rw [look_succ_at ok i _ _ hnc, horg]; simp
    · have : ¬ NonChunkAt ms i p := by
        intro h; exact hpd (by
          obtain ⟨m', hm', _, hp'⟩ := h
          rw [hm] at hm'; cases hm'; rw [← hp', hpath])
      rw [look_succ_ne ok i _ _ this]; simp [hpd]
  · intro p hp; cases hp
  · intro k hk
    rw [hsdnodes]
    have hko := (hcr k).mp hk
    obtain ⟨b', h1, h2, h3⟩ := inv.node k hko
    have hki : k ≠ .ent i := by
      intro e; subst e; exact absurd hko.1 (by omega)
    refine ⟨b', h1, h2, ?_⟩
    rw [h3]
    unfold nlEff
    simp only [mAddChild, hkt, ↓reduceIte, hki]
    by_cases hko' : k = org
    · subst hko'
      have : k ≠ .root := by
        intro e; subst e
        obtain ⟨r, hr⟩ := resolveF_is_ent ms i i
        unfold resolveKey at horg; rw [hr] at horg; cases horg
      simp [this]
    · simp [hko']
  · intro k hk
    rw [hsdkids]
    have hkp : k ≠ pk := by
      intro e; subst e
      exact hk ⟨(hcr k).mpr hpkc, hdir⟩
    simp only [hkp, ↓reduceIte]
    apply inv.noKids
    intro ⟨h1, h2⟩
    exact hk ⟨(hcr k).mpr h1, h2⟩
  · intro p hp; cases hp
  · intro j hj
    have hji : Key.ent j ≠ .ent i := by intro e; cases e; omega
    have hjo : Key.ent j ≠ org := by
      intro e; rw [← e] at hoc; exact absurd hoc.1 (by omega)
    simp only [mAddChild, hkt, ↓reduceIte, hjo, hji]
    exact inv.freshNl j (by omega)

end SV.Toc

namespace SV.Toc

/-- the part of the db state the chunk bookkeeping lives in -/
structure CState where
  lastEnt : Option Key := none
  lastEntSize : Int := 0
  chunks : Key → List Chunk := fun _ => []

def cproj (sd : DState) : CState := ⟨sd.lastEnt, sd.lastEntSize, sd.chunks⟩

def dbChunkSize (lastEntSize : Int) (e : Entry) : Int :=
  let cs := if e.type = "chunk" ∧ e.chunkSize = 0 then lastEntSize - e.chunkOffset else e.chunkSize
  if cs = 0 ∧ e.size ≠ 0 then e.size else cs

def dbRow (lastEntSize : Int) (e : Entry) : Chunk :=
  { chunkOffset := e.chunkOffset, chunkSize := dbChunkSize lastEntSize e, digest := e.chunkDigest,
    offset := e.offset }

def cAppend (c : CState) (k : Key) (row : Chunk) : CState :=
  { c with chunks := fun k' => if k' = k then c.chunks k ++ [row] else c.chunks k' }

/-- what one entry does to the chunk bookkeeping of `initNodes`, given the id it was filed under -/
def cStep (ms : List MEnt) (c : CState) (i : Nat) (e : Entry) : CState :=
  if e.type = "chunk" then
    if dbChunkSize c.lastEntSize e > 0 then
      match c.lastEnt with
      | some k => cAppend c k (dbRow c.lastEntSize e)
      | none => c
    else c
  else
    let id := if e.type = "hardlink" then resolveKey ms i else .ent i
    let c' : CState := { c with lastEnt := some id, lastEntSize := e.size }
    if e.type = "reg" ∧ e.size > 0 then cAppend c' id (dbRow c.lastEntSize e) else c'

theorem admissible_parent {ms : List MEnt} (ok : TreeOK ms) {i : Nat} {d : Path}
    (h : NonChunkAt ms i d) : Admissible ms i (parentDir d) := by
  intro n h0 hn j m hm hc hp
  unfold parentDir at hn hp
  have hlen : n < d.length := by
    rw [List.length_dropLast] at hn
    have : d.length ≠ 0 := by
      intro e; rw [e] at hn; omega
    omega
  refine ok.parents i d h n h0 hlen j m hm hc ?_
  rw [hp, List.dropLast_eq_take, List.take_take]
  congr 1; omega

end SV.Toc

namespace SV.Toc

theorem dSetChild_cproj (s : DState) (pid : Key) (b : String) (id : Key) (isDir : Bool) :
    (dSetChild s pid b id isDir).lastEnt = s.lastEnt ∧
    (dSetChild s pid b id isDir).lastEntSize = s.lastEntSize ∧
    (dSetChild s pid b id isDir).chunks = s.chunks := by
  unfold dSetChild
  cases isDir
  · simp
  · simp only [↓reduceIte]
    split <;> simp [setNode]

/-- `getOrCreateDir` does not touch the list of hardlink sources -/
theorem mGoc_hl (ms : List MEnt) : ∀ (rev : List String) (s : MState),
    (mGetOrCreateDir ms s rev).1.hlSources = s.hlSources := by
  intro rev
  induction rev with
  | nil =>
    intro s
    simp only [mGetOrCreateDir]
    split <;> rfl
  | cons b rest ih =>
    intro s
    simp only [mGetOrCreateDir]
    split
    · rfl
    · simp only [mAddChild]
      rw [ih]

theorem Inv.set_hl {ms : List MEnt} {i : Nat} {sm : MState} {sd : DState} {P : List Path}
    {δ : Key → Int} (inv : Inv ms i sm sd P δ) (l : List Key) :
    Inv ms i { sm with hlSources := l } sd P δ :=
  ⟨inv.kids, inv.walk, inv.impsNone, inv.pend, inv.node, inv.noKids, inv.pendKids, inv.freshNl,
    inv.rootImp, inv.kidsCreated⟩

/-- keys a hardlink may be resolved to: existing nodes that are not directories -/
def HlOK (ms : List MEnt) (i : Nat) (sm : MState) : Prop :=
  ∀ org, org ∈ sm.hlSources → Created ms i sm.imps org ∧ ¬ IsDirKey ms org

theorem created_succ {ms : List MEnt} {i : Nat} {imps : List Path} {k : Key}
    (h : Created ms i imps k) : Created ms (i + 1) imps k := by
  cases k with
  | root => trivial
  | imp p => exact h
  | ent j => exact ⟨by have := h.1; omega, h.2⟩

theorem step_plain {ms : List MEnt} (ok : TreeOK ms) {i : Nat} {sm : MState} {sd : DState} (m : MEnt)
    (inv : Inv ms i sm sd [] (fun _ => 0))
    (hm : ms[i]? = some m) (hc : m.e.type ≠ "chunk") (hh : m.e.type ≠ "hardlink")
    (hname : cleanName m.e.name = m.path) :
    ∃ sm' sd', pass2Step ms sm i m = some sm' ∧ dStep sd i m.e = some sd' ∧
      Inv ms (i + 1) sm' sd' [] (fun _ => 0) ∧ cproj sd' = cStep ms (cproj sd) i m.e ∧
      sm'.hlSources = sm.hlSources ∧ (∀ p, p ∈ sm.imps → p ∈ sm'.imps) := by
  have hnc : NonChunkAt ms i m.path := ⟨m, hm, hc, rfl⟩
  have hdne : m.path ≠ [] := fun e => ok.noRoot i (e ▸ hnc)
  have hsplit := path_split m.path hdne
  -- the bucket of the entry is written first
  have inv1 := inv_setNode_fresh inv i (Nat.le_refl _)
    (writeAttr {} (attrOfEntry m.e (if m.e.type = "dir" then 2 else 1)))
  have hadm : Admissible ms i (parentDir m.path).reverse.reverse := by
    rw [List.reverse_reverse]; exact admissible_parent ok hnc
  obtain ⟨sm2, sd2, pk, hg1, hg2, inv2, hlook2, hdir2, hroot2, hmono2, hnodes2, hle2, hls2, hch2⟩ :=
    goc ok i (parentDir m.path).reverse sm _ [] (fun _ => 0) inv1 (fun _ => rfl) hadm
      (fun _ _ h => by cases h)
  have hhl2 : sm2.hlSources = sm.hlSources := by
    have := mGoc_hl ms (parentDir m.path).reverse sm; rw [hg1] at this; exact this
  rw [List.reverse_reverse] at hlook2
  have hnode2 : sd2.nodes (.ent i) = some (writeAttr {} (attr0 ms (.ent i))) := by
    rw [hnodes2 i (Nat.le_refl _)]
    simp [setNode, attr0, hm]
  have inv3 := inv_link_entry ok (parentDir m.path) (baseName m.path) pk m inv2 hm hc hh hsplit
    hlook2 hdir2 hroot2 hnode2
  have hlookd : dGetIDByName sd m.path = none := by
    unfold dGetIDByName
    have := inv.walk m.path
    simp only [List.not_mem_nil, ↓reduceIte] at this
    rw [this]
    have hl := (lastIdx_eq_some_iff ms ok.nodup _ i).mpr hnc
    unfold look; rw [if_neg hdne, hl]; simp
  -- the db step, in closed form
  have hfound : (if m.e.type = "dir" then (some none : Option (Option (Key × DbAttr))) else some none) = some none := by
    split <;> rfl
  have hdstep : dStep sd i m.e = some
      (if m.e.type = "reg" ∧ m.e.size > 0 then
        addChunk { dSetChild sd2 pk (baseName m.path) (.ent i) (m.e.type = "dir") with
                   lastEnt := some (.ent i), lastEntSize := m.e.size } (.ent i)
          (dbRow sd.lastEntSize m.e)
       else { dSetChild sd2 pk (baseName m.path) (.ent i) (m.e.type = "dir") with
              lastEnt := some (.ent i), lastEntSize := m.e.size }) := by
    unfold dStep
    simp only [hname, hc, false_and, ↓reduceIte, hh, hdne, hlookd, hfound, hg2, or_false]
    by_cases hreg : m.e.type = "reg" ∧ m.e.size > 0
    · rw [if_pos hreg, if_pos hreg]
      simp only [dbRow, dbChunkSize, hc, false_and, ↓reduceIte]
    · rw [if_neg hreg, if_neg hreg]
  have hX := dSetChild_cproj sd2 pk (baseName m.path) (.ent i) (m.e.type = "dir")
  have hpass : pass2Step ms sm i m = some (mAddChild ms
      { sm2 with nl := fun k => if k = .ent i then sm2.nl k + 1 else sm2.nl k } pk (baseName m.path) (.ent i)) := by
    unfold pass2Step
    rw [if_neg hc, if_neg hdne]
    simp only [hg1, hh, ↓reduceIte]
  refine ⟨_, _, hpass, hdstep, ?_, ?_, hhl2, hmono2⟩
  · apply inv3.congr_db
    · split <;> rfl
    · split <;> rfl
  · unfold cproj cStep
    simp only [hc, ↓reduceIte, hh]
    by_cases hreg : m.e.type = "reg" ∧ m.e.size > 0
    · rw [if_pos hreg, if_pos hreg]
      simp only [addChunk, cAppend, hX.2.2, hch2, setNode]
    · rw [if_neg hreg, if_neg hreg]
      simp only [hX.2.2, hch2, setNode]

end SV.Toc

namespace SV.Toc

theorem inv_bump_org {ms : List MEnt} {i : Nat} {sm : MState} {sd : DState}
    (inv : Inv ms i sm sd [] (fun _ => 0)) (org : Key) (bo : DbAttr) (hbo : sd.nodes org = some bo) :
    Inv ms i sm (setNode sd org (bumpNumLink bo)) [] (fun k => if k = org then 1 else 0) := by
  refine ⟨inv.kids, inv.walk, inv.impsNone, inv.pend, ?_, inv.noKids, inv.pendKids, inv.freshNl, inv.rootImp,
    inv.kidsCreated⟩
  intro k hk
  obtain ⟨b', h1, h2, h3⟩ := inv.node k hk
  by_cases hko : k = org
  · subst hko
    rw [hbo] at h1; cases h1
    refine ⟨bumpNumLink bo, by simp [setNode], by rw [eraseNL_bump]; exact h2, ?_⟩
    rw [readNumLink_bump, h3]; simp
  · exact ⟨b', by simp [setNode, hko, h1], h2, by rw [h3]; simp [hko]⟩

theorem created_mono_imps {ms : List MEnt} {i : Nat} {imps imps' : List Path} {k : Key}
    (h : ∀ p, p ∈ imps → p ∈ imps') (hk : Created ms i imps k) : Created ms i imps' k := by
  cases k with
  | root => trivial
  | ent j => exact hk
  | imp p => exact ⟨h p hk.1, hk.2⟩

theorem step_hardlink {ms : List MEnt} (ok : TreeOK ms) (hnl : (namesOf ms).Nodup) {i : Nat}
    {sm : MState} {sd : DState} (m : MEnt)
    (inv : Inv ms i sm sd [] (fun _ => 0))
    (hm : ms[i]? = some m) (hh : m.e.type = "hardlink")
    (hname : cleanName m.e.name = m.path) :
    ∃ sm' sd', pass2Step ms sm i m = some sm' ∧ dStep sd i m.e = some sd' ∧
      Inv ms (i + 1) sm' sd' [] (fun _ => 0) ∧ cproj sd' = cStep ms (cproj sd) i m.e ∧
      (∃ org, sm'.hlSources = org :: sm.hlSources ∧ Created ms (i + 1) sm'.imps org ∧ ¬ IsDirKey ms org) ∧
      (∀ p, p ∈ sm.imps → p ∈ sm'.imps) := by
  have hc : m.e.type ≠ "chunk" := by rw [hh]; decide
  have hnd : m.e.type ≠ "dir" := by rw [hh]; decide
  have hnr : m.e.type ≠ "reg" := by rw [hh]; decide
  have hnc : NonChunkAt ms i m.path := ⟨m, hm, hc, rfl⟩
  have hdne : m.path ≠ [] := fun e => ok.noRoot i (e ▸ hnc)
  have hsplit := path_split m.path hdne
  -- the target
  obtain ⟨t, ht, hl, mt, hmt, hct, hdt⟩ := hardlink_target ok hm hh
  obtain ⟨r, mr, hr1, hr2, hr3, hr4, hr5, hr6, _⟩ := resolveKey_spec ok i m hm hc
  have hres : resolveKey ms i = resolveKey ms t := by
    rw [resolveKey_unfold ok hm, if_pos hh]; simp only [hl]
  have hrt : r ≤ t := by
    obtain ⟨r', _, h1, h2, _⟩ := resolveKey_spec ok t mt hmt hct
    rw [hres, h2] at hr2; cases hr2; exact h1
  have hoc : ∀ imps, Created ms i imps (.ent r) := fun _ => ⟨by omega, mr, hr3, hr4, hr5⟩
  have hod : ¬ IsDirKey ms (.ent r) := by
    rintro ⟨m', h1, h2⟩; rw [hr3] at h1; cases h1; exact hr6 hh h2
  obtain ⟨bo, hbo, hboe, _⟩ := inv.node (.ent r) (hoc _)
  -- the stored mode of the target is not a directory's
  have hbomode : fmIsDir ((bo.mode.getD 0) % 4294967296) = false := by
    have h8 : bo.mode = (writeAttr {} (attr0 ms (.ent r))).mode := by
      have := congrArg DbAttr.mode hboe; exact this
    have ha0 : attr0 ms (.ent r) = attrOfEntry mr.e (if mr.e.type = "dir" then 2 else 1) := by
      simp [attr0, hr3]
    have hmode : (writeAttr {} (attr0 ms (.ent r))).mode.getD 0 = goFileMode mr.e.type mr.e.mode := by
      rw [ha0]
      unfold writeAttr
      simp only [attrOfEntry]
      cases mr.e.xattrs with
      | nil => by_cases h0 : goFileMode mr.e.type mr.e.mode = 0 <;> simp [h0]
      | cons f rest => cases rest <;> (by_cases h0 : goFileMode mr.e.type mr.e.mode = 0 <;> simp [h0])
    rw [h8, hmode, Nat.mod_eq_of_lt (goFileMode_lt _ _)]
    exact fmIsDir_go_false _ _ (hr6 hh)
  have hwalkt : dGetIDByName sd (cleanName m.e.linkName) = some (.ent r) := by
    unfold dGetIDByName
    have := inv.walk (cleanName m.e.linkName)
    simp only [List.not_mem_nil, ↓reduceIte] at this
    rw [this]
    have hne : cleanName m.e.linkName ≠ [] := by
      intro e
      have := (lastIdx_eq_some_iff ms ok.nodup _ t).mp hl
      rw [e] at this; exact ok.noRoot t this
    unfold look; rw [if_neg hne, hl]; simp [ht, ← hres, hr2]
  have inv1 := inv_bump_org inv (.ent r) bo hbo
  have hadm : Admissible ms i (parentDir m.path).reverse.reverse := by
    rw [List.reverse_reverse]; exact admissible_parent ok hnc
  obtain ⟨sm2, sd2, pk, hg1, hg2, inv2, hlook2, hdir2, hroot2, hmono2, _, hle2, hls2, hch2⟩ :=
    goc ok i (parentDir m.path).reverse sm _ [] _ inv1 (fun p => by simp) hadm
      (fun _ _ h => by cases h)
  rw [List.reverse_reverse] at hlook2
  have inv3 := inv_link_hardlink ok (parentDir m.path) (baseName m.path) pk (.ent r) m inv2 hm hh hsplit
    hlook2 hdir2 hroot2 hr2 (hoc _) hod
  -- getSource
  have hgs : ∀ s : MState, s.imps = sm2.imps →
      mGetSource ms s (lenM ms s) 0 (.ent i) = some (.ent r) := by
    intro s _
    rw [← hr2]
    apply mGetSource_ok ok s (lenM ms s) i m hm hc 0
    have h1 := cnt_le_total ms i
    have h2 := distinctNames_eq hnl
    unfold lenM; omega
  have hkt : keyType ms (.ent r) ≠ "dir" := isDirKey_keyType hod
  have hhl2 : sm2.hlSources = sm.hlSources := by
    have := mGoc_hl ms (parentDir m.path).reverse sm; rw [hg1] at this; exact this
  have hpass : pass2Step ms sm i m = some (mAddChild ms
      { sm2 with nl := (fun k => if k = Key.ent r then (if k = Key.ent i then sm2.nl k + 1 else sm2.nl k) + 1 else (if k = Key.ent i then sm2.nl k + 1 else sm2.nl k)),
                 hlSources := Key.ent r :: sm2.hlSources }
      pk (baseName m.path) (Key.ent r)) := by
    unfold pass2Step
    rw [if_neg hc, if_neg hdne]
    simp only [hg1, hh, ↓reduceIte]
    rw [hgs { sm2 with nl := fun k => if k = Key.ent i then sm2.nl k + 1 else sm2.nl k } rfl]
    simp only [hkt, ↓reduceIte]
  have hX := dSetChild_cproj sd2 pk (baseName m.path) (.ent r) false
  have hdstep : dStep sd i m.e = some
      { dSetChild sd2 pk (baseName m.path) (.ent r) false with
        lastEnt := some (.ent r), lastEntSize := m.e.size } := by
    unfold dStep
    simp [hname, hh, hdne, hwalkt, hbo, hg2, hbomode]
  refine ⟨_, _, hpass, hdstep, ?_, ?_, ⟨.ent r, by simp [mAddChild, hhl2], ?_, hod⟩, hmono2⟩
  · have e : mAddChild ms
        { sm2 with nl := (fun k => if k = Key.ent r then (if k = Key.ent i then sm2.nl k + 1 else sm2.nl k) + 1 else (if k = Key.ent i then sm2.nl k + 1 else sm2.nl k)),
                   hlSources := Key.ent r :: sm2.hlSources }
        pk (baseName m.path) (Key.ent r) =
        { mAddChild ms
            { sm2 with nl := (fun k => if k = Key.ent r then (if k = Key.ent i then sm2.nl k + 1 else sm2.nl k) + 1 else (if k = Key.ent i then sm2.nl k + 1 else sm2.nl k)) }
            pk (baseName m.path) (Key.ent r) with hlSources := Key.ent r :: sm2.hlSources } := rfl
    rw [e]
    exact Inv.set_hl (inv3.congr_db (sd' := { dSetChild sd2 pk (baseName m.path) (.ent r) false with
      lastEnt := some (.ent r), lastEntSize := m.e.size }) rfl rfl) _
  · unfold cproj cStep
    simp [hh, hr2, hX.2.2, hch2, setNode]
  · exact created_succ (hoc _)

theorem step_chunk {ms : List MEnt} (ok : TreeOK ms) {i : Nat} {sm : MState} {sd : DState} (m : MEnt)
    (inv : Inv ms i sm sd [] (fun _ => 0))
    (hm : ms[i]? = some m) (hc : m.e.type = "chunk") (hlast : sd.lastEnt.isSome) :
    ∃ sd', pass2Step ms sm i m = some sm ∧ dStep sd i m.e = some sd' ∧
      Inv ms (i + 1) sm sd' [] (fun _ => 0) ∧ cproj sd' = cStep ms (cproj sd) i m.e := by
  have hno : ∀ p, ¬ NonChunkAt ms i p := by
    rintro p ⟨m', hm', h2, _⟩; rw [hm] at hm'; cases hm'; exact h2 hc
  have hcr : ∀ k, Created ms (i + 1) sm.imps k ↔ Created ms i sm.imps k := by
    intro k
    cases k with
    | root => simp [Created]
    | imp p => simp [Created]
    | ent j =>
      simp only [Created]
      constructor
      · rintro ⟨h1, m', h2, h3, h4⟩
        refine ⟨?_, m', h2, h3, h4⟩
        by_cases hji : j = i
        · subst hji; rw [hm] at h2; cases h2; exact absurd hc h3
        · omega
      · rintro ⟨h1, h2⟩; exact ⟨by omega, h2⟩
  have inv' : Inv ms (i + 1) sm sd [] (fun _ => 0) := by
    refine ⟨inv.kids, ?_, inv.impsNone, inv.pend, ?_, ?_, inv.pendKids, ?_, inv.rootImp,
      fun k kv hkv => (hcr _).mpr (inv.kidsCreated k kv hkv)⟩
    · intro p; rw [inv.walk p, look_succ_ne ok i _ _ (hno p)]
    · intro k hk; exact inv.node k ((hcr k).mp hk)
    · intro k hk; exact inv.noKids k (fun ⟨h1, h2⟩ => hk ⟨(hcr k).mpr h1, h2⟩)
    · intro j hj; exact inv.freshNl j (by omega)
  obtain ⟨k, hk⟩ := Option.isSome_iff_exists.mp hlast
  have hdstep : dStep sd i m.e = some
      (if dbChunkSize sd.lastEntSize m.e > 0 then addChunk sd k (dbRow sd.lastEntSize m.e) else sd) := by
    unfold dStep
    have h1 : ¬ (m.e.type = "chunk" ∧ sd.lastEnt.isNone = true) := by
      rw [hk]; simp
    have hnr : m.e.type ≠ "reg" := by rw [hc]; decide
    simp [hc, hk, dbRow, dbChunkSize]
    exact (apply_ite some _ _ _).symm
  refine ⟨_, (by unfold pass2Step; rw [if_pos hc]), hdstep, ?_, ?_⟩
  · apply inv'.congr_db <;> (split <;> rfl)
  · unfold cproj cStep
    simp [hc, hk]
    split <;> simp [addChunk, cAppend, hk]

end SV.Toc

namespace SV.Toc

theorem enum_drop {α : Type} (l : List α) (i : Nat) (h : i < l.length) :
    enumFrom' i (l.drop i) = (i, l[i]) :: enumFrom' (i + 1) (l.drop (i + 1)) := by
  rw [List.drop_eq_getElem_cons h]; rfl

theorem enum_drop_nil {α : Type} (l : List α) (i : Nat) (h : l.length ≤ i) :
    enumFrom' i (l.drop i) = [] := by
  rw [List.drop_eq_nil_of_le h]; rfl

/-- the chunk bookkeeping over the first entries, indices starting at `k` -/
def cRunFrom (ms : List MEnt) (c : CState) (k : Nat) : List Entry → CState
  | [] => c
  | e :: rest => cRunFrom ms (cStep ms c k e) (k + 1) rest

def cRun (ms : List MEnt) (es : List Entry) (i : Nat) : CState := cRunFrom ms {} 0 (es.take i)

theorem cRunFrom_append (ms : List MEnt) (c : CState) (k : Nat) (l1 l2 : List Entry) :
    cRunFrom ms c k (l1 ++ l2) = cRunFrom ms (cRunFrom ms c k l1) (k + l1.length) l2 := by
  induction l1 generalizing c k with
  | nil => simp [cRunFrom]
  | cons e rest ih =>
    simp only [List.cons_append, cRunFrom, List.length_cons]
    rw [ih]; congr 1; omega

theorem cRun_succ (ms : List MEnt) (es : List Entry) (i : Nat) (h : i < es.length) :
    cRun ms es (i + 1) = cStep ms (cRun ms es i) i es[i] := by
  unfold cRun
  rw [List.take_add_one, List.getElem?_eq_getElem h]
  simp only [Option.toList_some]
  rw [cRunFrom_append]
  simp [cRunFrom, List.length_take, Nat.min_eq_left (Nat.le_of_lt h)]

theorem cStep_lastEnt (ms : List MEnt) (c : CState) (i : Nat) (e : Entry) :
    (c.lastEnt.isSome ∨ e.type ≠ "chunk") → (cStep ms c i e).lastEnt.isSome := by
  intro h
  unfold cStep
  by_cases hc : e.type = "chunk"
  · have hs : c.lastEnt.isSome := by rcases h with h | h; exact h; exact absurd hc h
    obtain ⟨k, hk⟩ := Option.isSome_iff_exists.mp hs
    simp only [hc, ↓reduceIte, hk]
    split <;> simp [cAppend, hk]
  · simp only [hc, ↓reduceIte]
    split <;> simp [cAppend]

/-- both interpreters run to the end of the TOC and stay related -/
theorem run_sim {es : List Entry} (ok : TreeOK (pass1 es)) (hnl : (namesOf (pass1 es)).Nodup)
    (hfirst : ∀ (i : Nat) (m : MEnt), (pass1 es)[i]? = some m → m.e.type = "chunk" →
      ∃ j mj, j < i ∧ (pass1 es)[j]? = some mj ∧ mj.e.type ≠ "chunk") :
    ∀ (d i : Nat) (sm : MState) (sd : DState), es.length - i = d → i ≤ es.length →
      Inv (pass1 es) i sm sd [] (fun _ => 0) → cproj sd = cRun (pass1 es) es i →
      ((∃ j mj, j < i ∧ (pass1 es)[j]? = some mj ∧ mj.e.type ≠ "chunk") → sd.lastEnt.isSome) →
      HlOK (pass1 es) i sm →
      ∃ smF sdF, pass2 (pass1 es) (enumFrom' i ((pass1 es).drop i)) sm = some smF ∧
        dRun (enumFrom' i (es.drop i)) sd = .inl sdF ∧
        Inv (pass1 es) es.length smF sdF [] (fun _ => 0) ∧ cproj sdF = cRun (pass1 es) es es.length ∧
        HlOK (pass1 es) es.length smF := by
  intro d
  induction d with
  | zero =>
    intro i sm sd hd hi inv hcp _ hhl
    have hie : i = es.length := by omega
    subst hie
    refine ⟨sm, sd, ?_, ?_, inv, hcp, hhl⟩
    · rw [enum_drop_nil _ _ (by rw [pass1_length]; exact Nat.le_refl _)]; rfl
    · rw [enum_drop_nil _ _ (Nat.le_refl _)]; rfl
  | succ d ih =>
    intro i sm sd hd hi inv hcp hlast hhl
    have hlt : i < es.length := by omega
    have hltm : i < (pass1 es).length := by rw [pass1_length]; exact hlt
    have hm : (pass1 es)[i]? = some (pass1 es)[i] := List.getElem?_eq_getElem hltm
    obtain ⟨he, hname⟩ := pass1_getElem es i _ hm
    have hee : es[i] = ((pass1 es)[i]).e := by
      rw [List.getElem?_eq_getElem hlt] at he; exact Option.some.inj he
    rw [enum_drop _ _ hltm, enum_drop _ _ hlt]
    simp only [pass2, dRun]
    -- one step
    have hmonoHl : ∀ sm' : MState, sm'.hlSources = sm.hlSources → (∀ p, p ∈ sm.imps → p ∈ sm'.imps) →
        HlOK (pass1 es) (i + 1) sm' := by
      intro sm' e1 e2 org horg
      rw [e1] at horg
      exact ⟨created_succ (created_mono_imps e2 (hhl org horg).1), (hhl org horg).2⟩
    have hstep : ∃ sm' sd', pass2Step (pass1 es) sm i (pass1 es)[i] = some sm' ∧
        dStep sd i es[i] = some sd' ∧ Inv (pass1 es) (i + 1) sm' sd' [] (fun _ => 0) ∧
        cproj sd' = cStep (pass1 es) (cproj sd) i es[i] ∧ HlOK (pass1 es) (i + 1) sm' := by
      rw [hee]
      by_cases hc : ((pass1 es)[i]).e.type = "chunk"
      · obtain ⟨sd', h1, h2, h3, h4⟩ := step_chunk ok _ inv hm hc (hlast (hfirst i _ hm hc))
        exact ⟨sm, sd', h1, h2, h3, h4, hmonoHl sm rfl (fun _ h => h)⟩
      · by_cases hh : ((pass1 es)[i]).e.type = "hardlink"
        · obtain ⟨sm', sd', h1, h2, h3, h4, ⟨org, h5, h6, h7⟩, h8⟩ :=
            step_hardlink ok hnl _ inv hm hh (hname hc).symm
          refine ⟨sm', sd', h1, h2, h3, h4, ?_⟩
          intro o ho
          rw [h5] at ho
          rcases List.mem_cons.mp ho with e | e
          · rw [e]; exact ⟨h6, h7⟩
          · exact ⟨created_succ (created_mono_imps h8 (hhl o e).1), (hhl o e).2⟩
        · obtain ⟨sm', sd', h1, h2, h3, h4, h5, h6⟩ := step_plain ok _ inv hm hc hh (hname hc).symm
          exact ⟨sm', sd', h1, h2, h3, h4, hmonoHl sm' h5 h6⟩
    obtain ⟨sm', sd', h1, h2, h3, h4, hhl'⟩ := hstep
    rw [h1, h2]
    have hcp' : cproj sd' = cRun (pass1 es) es (i + 1) := by
      rw [cRun_succ _ _ _ hlt, ← hcp]; exact h4
    have hlast' : (∃ j mj, j < i + 1 ∧ (pass1 es)[j]? = some mj ∧ mj.e.type ≠ "chunk") → sd'.lastEnt.isSome := by
      intro ⟨j, mj, hj, hmj, hcj⟩
      have : (cproj sd').lastEnt.isSome := by
        rw [h4]
        apply cStep_lastEnt
        by_cases hji : j = i
        · subst hji
          right
          rw [hm] at hmj; cases hmj
          rw [hee]; exact hcj
        · left
          exact hlast ⟨j, mj, by omega, hmj, hcj⟩
      exact this
    exact ih (i + 1) sm' sd' (by omega) (by omega) h3 hcp' hlast' hhl'

end SV.Toc

namespace SV.Toc

/-! # Part 3: the decidable fragment `SpecConforming` -/

theorem get_of_getElem? {α : Type} {l : List α} {i : Nat} {a : α} (h : l[i]? = some a) :
    ∃ hi : i < l.length, l[i] = a := by
  rw [List.getElem?_eq_some_iff] at h; exact h

theorem spec_treeOK {es : List Entry} (sc : SpecConforming es) : TreeOK (pass1 es) := by
  refine ⟨namesNodup_of_list _ sc.names, ?_, ?_, ?_⟩
  · rintro j ⟨m, hm, hc, hp⟩
    obtain ⟨hj, e⟩ := get_of_getElem? hm
    subst e
    exact sc.noRoot j hj hc hp
  · rintro i p ⟨m, hm, hc, hp⟩ n h0 hn j mj hmj hcj hpj
    obtain ⟨hi, e⟩ := get_of_getElem? hm
    obtain ⟨hj, e'⟩ := get_of_getElem? hmj
    subst e e'
    rw [← hp] at hn hpj
    exact sc.parents i hi hc n hn h0 j hj hcj hpj
  · intro i m hm hh
    obtain ⟨hi, e⟩ := get_of_getElem? hm
    subst e
    obtain ⟨j, hj, h1, h2, h3, h4⟩ := sc.hardlinks i hi hh
    exact ⟨j, h1, _, List.getElem?_eq_getElem hj, h2, h3, h4⟩

theorem spec_first {es : List Entry} (sc : SpecConforming es) :
    ∀ (i : Nat) (m : MEnt), (pass1 es)[i]? = some m → m.e.type = "chunk" →
      ∃ j mj, j < i ∧ (pass1 es)[j]? = some mj ∧ mj.e.type ≠ "chunk" := by
  intro i
  induction i using Nat.strongRecOn with
  | _ i ih =>
    intro m hm hc
    obtain ⟨he, _⟩ := pass1_getElem es i m hm
    obtain ⟨hi, e⟩ := get_of_getElem? he
    obtain ⟨h0, hprev⟩ := sc.chunkAfterData i hi (by rw [e]; exact hc)
    have hpl : i - 1 < (pass1 es).length := by rw [pass1_length]; omega
    have hmp : (pass1 es)[i - 1]? = some (pass1 es)[i - 1] := List.getElem?_eq_getElem hpl
    obtain ⟨hep, _⟩ := pass1_getElem es (i - 1) _ hmp
    obtain ⟨_, ep⟩ := get_of_getElem? hep
    rcases hprev with hr | hch
    · refine ⟨i - 1, _, by omega, hmp, ?_⟩
      rw [← ep, hr]; decide
    · obtain ⟨j, mj, hj, h1, h2⟩ := ih (i - 1) (by omega) _ hmp (by rw [← ep]; exact hch)
      exact ⟨j, mj, by omega, h1, h2⟩

/-! ## Initial states -/

theorem init_inv (ms : List MEnt) :
    Inv ms 0 { nl := initNl ms } dInit [] (fun _ => 0) := by
  refine ⟨fun _ => rfl, ?_, ?_, ?_, ?_, ?_, ?_, fun _ _ => rfl, ?_, ?_⟩
  · intro p
    cases p with
    | nil => simp [walkKids, look]
    | cons b rest =>
      simp only [walkKids, dInit, getKid, List.not_mem_nil, ↓reduceIte]
      unfold look
      simp only [reduceCtorEq, ↓reduceIte, List.not_mem_nil]
      split
      · simp
      · rfl
  · intro p hp; cases hp
  · intro p hp; cases hp
  · intro k hk
    cases k with
    | root =>
      refine ⟨writeAttr {} rootAttr, by simp [dInit], rfl, ?_⟩
      rw [readNumLink_root]; simp [nlEff]
    | imp p => exact absurd hk.1 (by simp)
    | ent j => exact absurd hk.1 (by omega)
  · intro k _; rfl
  · intro p hp; cases hp
  · intro h; exact absurd rfl h
  · intro k kv hkv; cases hkv

end SV.Toc

namespace SV.Toc

/-! # Part 4: from agreeing nodes to equal views -/

/-- what `view` looks at in a node -/
structure NodeAgree (n1 n2 : Node) : Prop where
  ok1 : n1.ok = true
  ok2 : n2.ok = true
  err1 : n1.kidsErr = false
  err2 : n2.kidsErr = false
  kids : n1.kids = n2.kids
  attr : normalise n1.attr = normalise n2.attr
  mode : n1.attr.mode = n2.attr.mode
  size : n1.attr.size = n2.attr.size
  offset : n1.offset = n2.offset
  openOk : n1.openOk = n2.openOk
  lookup : ∀ x, 0 ≤ x → n1.chunks.lookup x = n2.chunks.lookup x

/-- the trees agree on a set of keys closed under children -/
structure TreesAgree (t1 t2 : Tree) (C : Key → Prop) : Prop where
  root : t1.root = t2.root
  rootC : C t1.root
  node : ∀ k, C k → NodeAgree (t1.node k) (t2.node k)
  closed : ∀ k, C k → ∀ kv, kv ∈ (t1.node k).kids → C kv.2

theorem mem_insertKid {kv x : String × Key} {l : Kids} : x ∈ insertKid kv l ↔ x = kv ∨ x ∈ l := by
  induction l with
  | nil => simp [insertKid]
  | cons y ys ih =>
    unfold insertKid
    split
    · simp
    · simp only [List.mem_cons, ih]
      constructor
      · rintro (h | h | h)
        · exact Or.inr (Or.inl h)
        · exact Or.inl h
        · exact Or.inr (Or.inr h)
      · rintro (h | h | h)
        · exact Or.inr (Or.inl h)
        · exact Or.inl h
        · exact Or.inr (Or.inr h)

theorem mem_sortKids {x : String × Key} {l : Kids} : x ∈ sortKids l ↔ x ∈ l := by
  induction l with
  | nil => simp [sortKids]
  | cons y ys ih =>
    show x ∈ insertKid y (sortKids ys) ↔ _
    rw [mem_insertKid, ih]; simp

theorem listing_agree {t1 t2 : Tree} {C : Key → Prop} (ag : TreesAgree t1 t2 C) :
    ∀ (fuel : Nat) (p : Path) (k : Key) (seen : List Key), C k →
      listing t1 fuel p k seen = listing t2 fuel p k seen ∧
      ∀ pk, pk ∈ (listing t1 fuel p k seen).1 → C pk.2 := by
  intro fuel
  induction fuel with
  | zero =>
    intro p k seen hk
    have := ag.node k hk
    simp only [listing, this.ok1, this.ok2, ↓reduceIte, true_and]
    intro pk hpk; simp at hpk; rw [hpk]; exact hk
  | succ fuel ih =>
    intro p k seen hk
    have na := ag.node k hk
    simp only [listing, na.ok1, na.ok2, ↓reduceIte, na.err1, na.err2,
      Bool.false_eq_true, Bool.not_eq_true, Bool.true_eq_false]
    by_cases hs : k ∈ seen
    · simp only [hs, ↓reduceIte, true_and]
      intro pk hpk; simp at hpk; rw [hpk]; exact hk
    · simp only [hs, ↓reduceIte]
      rw [← na.kids]
      -- the fold over the sorted children
      have hfold : ∀ (l : Kids) (acc : List (Path × Key) × List Key), (∀ kv, kv ∈ l → C kv.2) →
          (∀ pk, pk ∈ acc.1 → C pk.2) →
          l.foldl (fun (acc : List (Path × Key) × List Key) (bc : String × Key) =>
              let r := listing t1 fuel (p ++ [bc.1]) bc.2 acc.2
              (acc.1 ++ r.1, r.2)) acc =
          l.foldl (fun (acc : List (Path × Key) × List Key) (bc : String × Key) =>
              let r := listing t2 fuel (p ++ [bc.1]) bc.2 acc.2
              (acc.1 ++ r.1, r.2)) acc ∧
          ∀ pk, pk ∈ (l.foldl (fun (acc : List (Path × Key) × List Key) (bc : String × Key) =>
              let r := listing t1 fuel (p ++ [bc.1]) bc.2 acc.2
              (acc.1 ++ r.1, r.2)) acc).1 → C pk.2 := by
        intro l
        induction l with
        | nil => intro acc _ hacc; exact ⟨rfl, hacc⟩
        | cons x xs ihl =>
          intro acc hl hacc
          simp only [List.foldl_cons]
          have hx := ih (p ++ [x.1]) x.2 acc.2 (hl x (by simp))
          rw [← hx.1]
          apply ihl
          · intro kv hkv; exact hl kv (by simp [hkv])
          · intro pk hpk
            simp only [List.mem_append] at hpk
            rcases hpk with h | h
            · exact hacc pk h
            · exact hx.2 pk h
      have hkidsC : ∀ kv, kv ∈ sortKids (t1.node k).kids → C kv.2 :=
        fun kv hkv => ag.closed k hk kv (mem_sortKids.mp hkv)
      have := hfold (sortKids (t1.node k).kids) ([], k :: seen) hkidsC (by intro pk h; cases h)
      refine ⟨by rw [this.1], ?_⟩
      intro pk hpk
      rcases List.mem_cons.mp hpk with h | h
      · rw [h]; exact hk
      · exact this.2 pk h

end SV.Toc

namespace SV.Toc

theorem probeWalk_agree (tab1 tab2 : ChunkTab)
    (h : ∀ x, 0 ≤ x → tab1.lookup x = tab2.lookup x) :
    ∀ (fuel : Nat) (off : Int) (acc : List Int), 0 ≤ off →
      probeOffsets.walk tab1 fuel off acc = probeOffsets.walk tab2 fuel off acc := by
  intro fuel
  induction fuel with
  | zero => intro off acc _; rfl
  | succ fuel ih =>
    intro off acc hoff
    simp only [probeOffsets.walk]
    rw [h off hoff]
    cases tab2.lookup off with
    | none => rfl
    | some r =>
      obtain ⟨co, cs, d⟩ := r
      simp only
      split
      · rfl
      · rename_i hc
        apply ih
        omega

theorem probes_agree (tab1 tab2 : ChunkTab) (size : Int)
    (h : ∀ x, 0 ≤ x → tab1.lookup x = tab2.lookup x) :
    ((sortDedupInts (probeOffsets tab1 size)).filter (· ≥ 0)).map (fun x => (x, tab1.lookup x)) =
    ((sortDedupInts (probeOffsets tab2 size)).filter (· ≥ 0)).map (fun x => (x, tab2.lookup x)) := by
  have hp : probeOffsets tab1 size = probeOffsets tab2 size := by
    unfold probeOffsets
    exact probeWalk_agree tab1 tab2 h 2000 0 _ (Int.le_refl 0)
  rw [hp]
  apply List.map_congr_left
  intro x hx
  have : 0 ≤ x := by
    have := (List.mem_filter.mp hx).2
    simpa using this
  rw [h x this]

theorem view_agree {t1 t2 : Tree} {C : Key → Prop} (ag : TreesAgree t1 t2 C) : view t1 = view t2 := by
  unfold view
  have hl := listing_agree ag maxDepth [] t1.root [] ag.rootC
  rw [← ag.root, ← hl.1]
  simp only
  apply List.map_congr_left
  intro pk hpk
  have hC := hl.2 pk hpk
  have na := ag.node pk.2 hC
  obtain ⟨p, k⟩ := pk
  simp only [nodeView]
  have hls : (sortKids (t1.node k).kids).map (fun kv => (kv.1, typeChar (t1.node kv.2).attr.mode)) =
      (sortKids (t2.node k).kids).map (fun kv => (kv.1, typeChar (t2.node kv.2).attr.mode)) := by
    rw [← na.kids]
    apply List.map_congr_left
    intro kv hkv
    have := ag.node kv.2 (ag.closed k hC kv (mem_sortKids.mp hkv))
    rw [this.mode]
  have hpr := probes_agree (t1.node k).chunks (t2.node k).chunks (t1.node k).attr.size na.lookup
  rw [hls, hpr, na.ok1, na.ok2, na.err1, na.err2, na.attr, na.offset, na.openOk, na.mode, na.kids, na.size]

end SV.Toc

namespace SV.Toc

/-! # Part 5: attributes -/

theorem attr0_mode_lt (ms : List MEnt) (k : Key) : (attr0 ms k).mode < 4294967296 := by
  cases k with
  | root => show rootAttr.mode < 4294967296; decide
  | imp p => show rootAttr.mode < 4294967296; decide
  | ent j =>
    simp only [attr0]
    split
    · exact goFileMode_lt _ _
    · decide

/-- the db bucket of a node against the attribute record it was written from, when only the
link count has been updated since -/
theorem attr_agree (b : DbAttr) (a0 : Attr) (nl : Int)
    (he : eraseNL b = eraseNL (writeAttr {} a0)) (hn : readNumLink b = nl)
    (hm : a0.mode < 4294967296) (hx : (a0.xattrs.map Prod.fst).Nodup) :
    normalise (readAttr b) = normalise { a0 with numLink := nl } ∧
      (readAttr b).mode = a0.mode ∧ (readAttr b).size = a0.size := by
  have hrt := readAttr_writeAttr a0 hm hx
  have h1 : b.size = (writeAttr {} a0).size := by have := congrArg DbAttr.size he; exact this
  have h2 : b.uid = (writeAttr {} a0).uid := by have := congrArg DbAttr.uid he; exact this
  have h3 : b.gid = (writeAttr {} a0).gid := by have := congrArg DbAttr.gid he; exact this
  have h4 : b.devMajor = (writeAttr {} a0).devMajor := by have := congrArg DbAttr.devMajor he; exact this
  have h5 : b.devMinor = (writeAttr {} a0).devMinor := by have := congrArg DbAttr.devMinor he; exact this
  have h6 : b.mtime = (writeAttr {} a0).mtime := by have := congrArg DbAttr.mtime he; exact this
  have h7 : b.linkName = (writeAttr {} a0).linkName := by have := congrArg DbAttr.linkName he; exact this
  have h8 : b.mode = (writeAttr {} a0).mode := by have := congrArg DbAttr.mode he; exact this
  have h9 : b.xFirst = (writeAttr {} a0).xFirst := by have := congrArg DbAttr.xFirst he; exact this
  have h10 : b.xExtra = (writeAttr {} a0).xExtra := by have := congrArg DbAttr.xExtra he; exact this
  have hnl : normNlink (readAttr b).numLink = normNlink nl := by
    unfold readAttr readNumLink at *
    simp only
    cases hb : b.numLink with
    | none => rw [hb] at hn; simp at hn; rw [← hn]; exact normNlink_one_zero
    | some n => rw [hb] at hn; simp at hn; rw [← hn]
  have hmode : (readAttr (writeAttr {} a0)).mode = a0.mode := by
    unfold writeAttr readAttr
    cases a0.xattrs with
    | nil => by_cases h : a0.mode = 0 <;> simp [h] <;> omega
    | cons f r => cases r <;> (by_cases h : a0.mode = 0 <;> simp [h] <;> omega)
  have hsize : (readAttr (writeAttr {} a0)).size = a0.size := by
    unfold writeAttr readAttr putNZ
    cases a0.xattrs with
    | nil => by_cases h : a0.size = 0 <;> simp [h]
    | cons f r => cases r <;> (by_cases h : a0.size = 0 <;> simp [h])
  have hmodeb : (readAttr b).mode = (readAttr (writeAttr {} a0)).mode := by
    simp only [readAttr, h8]
  have hsizeb : (readAttr b).size = (readAttr (writeAttr {} a0)).size := by
    simp only [readAttr, h1]
  refine ⟨?_, by rw [hmodeb, hmode], by rw [hsizeb, hsize]⟩
  have hn0 : normalise { a0 with numLink := nl } = { normalise a0 with nlink := normNlink nl } := rfl
  have hrb : readAttr b = { readAttr (writeAttr {} a0) with numLink := (readAttr b).numLink } := by
    simp only [readAttr, h1, h2, h3, h4, h5, h6, h7, h8, h9, h10]
  have hn1 : normalise { readAttr (writeAttr {} a0) with numLink := (readAttr b).numLink } =
      { normalise (readAttr (writeAttr {} a0)) with nlink := normNlink (readAttr b).numLink } := rfl
  rw [hn0, ← hrt, ← hnl, hrb, hn1]

end SV.Toc

namespace SV.Toc

/-! # Part 6: chunk tables -/

/-- `lastRegEnt.Size` after the first `i` entries, starting from `lr` -/
def lrFrom (lr : Option Int) : List Entry → Nat → Option Int
  | _, 0 => lr
  | [], _ + 1 => lr
  | e :: es, i + 1 => lrFrom (if e.type = "reg" then some e.size else lr) es i

theorem lrFrom_succ (es : List Entry) : ∀ (lr : Option Int) (i : Nat) (e : Entry), es[i]? = some e →
    lrFrom lr es (i + 1) = if e.type = "reg" then some e.size else lrFrom lr es i := by
  induction es with
  | nil => intro lr i e h; simp at h
  | cons x xs ih =>
    intro lr i e h
    cases i with
    | zero =>
      simp only [List.getElem?_cons_zero, Option.some.injEq] at h; subst h
      simp [lrFrom]
    | succ i =>
      simp only [List.getElem?_cons_succ] at h
      simp only [lrFrom]
      exact ih _ i e h

/-- generalisation of `pass1_getElem`: the entry at `i` is `pass1Ent` applied to the loop state
reached after the entries before it -/
theorem pass1Go_state (es : List Entry) : ∀ (lp : Path) (lr : Option Int) (i : Nat) (m : MEnt),
    (pass1Go lp lr es)[i]? = some m →
      ∃ lp', m = (pass1Ent lp' (lrFrom lr es i) m.e).1 ∧
        (i = 0 → lp' = lp) ∧
        (∀ j, i = j + 1 → ∃ mp, (pass1Go lp lr es)[j]? = some mp ∧ lp' = mp.path) := by
  induction es with
  | nil => intro lp lr i m h; simp [pass1Go] at h
  | cons e es ih =>
    intro lp lr i m h
    cases i with
    | zero =>
      simp only [pass1Go, List.getElem?_cons_zero, Option.some.injEq] at h
      subst h
      exact ⟨lp, rfl, fun _ => rfl, fun j hj => by omega⟩
    | succ i =>
      simp only [pass1Go, List.getElem?_cons_succ] at h
      obtain ⟨lp', h1, h2, h3⟩ := ih _ _ i m h
      refine ⟨lp', ?_, fun h0 => by omega, ?_⟩
      · exact h1
      intro j hj
      have hji : i = j := by omega
      subst hji
      cases i with
      | zero =>
        refine ⟨(pass1Ent lp lr e).1, by simp [pass1Go], ?_⟩
        rw [h2 rfl]
        simp [pass1Ent]
      | succ i' =>
        obtain ⟨mp, hmp, hlp⟩ := h3 i' rfl
        exact ⟨mp, by simpa [pass1Go] using hmp, hlp⟩

/-- a `chunk` entry takes the name of the entry before it -/
theorem pass1_chunk_path {es : List Entry} {i : Nat} {m mp : MEnt}
    (hm : (pass1 es)[i + 1]? = some m) (hp : (pass1 es)[i]? = some mp) (hc : m.e.type = "chunk") :
    m.path = mp.path := by
  obtain ⟨lp', h1, _, h3⟩ := pass1Go_state es [] none (i + 1) m hm
  obtain ⟨mp', hmp', hlp⟩ := h3 i rfl
  have : mp' = mp := by
    unfold pass1 at hp; rw [hp] at hmp'; exact (Option.some.inj hmp').symm
  subst this
  rw [h1]
  simp [pass1Ent, hc, hlp]

end SV.Toc

namespace SV.Toc

theorem spec_es_ms {es : List Entry} {u : Nat} {m : MEnt} (hm : (pass1 es)[u]? = some m) :
    ∃ hu : u < es.length, es[u] = m.e := by
  obtain ⟨he, _⟩ := pass1_getElem es u m hm
  exact get_of_getElem? he

/-- every `chunk` entry belongs to a `reg` entry before it: it carries that entry's name and pass 1
has that entry's size at hand -/
theorem chunk_owner {es : List Entry} (sc : SpecConforming es) :
    ∀ (u : Nat) (m : MEnt), (pass1 es)[u]? = some m → m.e.type = "chunk" →
      ∃ r mr, r < u ∧ (pass1 es)[r]? = some mr ∧ mr.e.type = "reg" ∧ mr.path = m.path ∧
        lrFrom none es u = some mr.e.size := by
  intro u
  induction u using Nat.strongRecOn with
  | _ u ih =>
    intro m hm hc
    obtain ⟨hu, heu⟩ := spec_es_ms hm
    obtain ⟨h0, hprev⟩ := sc.chunkAfterData u hu (by rw [heu]; exact hc)
    have hpl : u - 1 < (pass1 es).length := by rw [pass1_length]; omega
    have hmp : (pass1 es)[u - 1]? = some (pass1 es)[u - 1] := List.getElem?_eq_getElem hpl
    obtain ⟨hup, hep⟩ := spec_es_ms hmp
    have hu1 : u = (u - 1) + 1 := by omega
    have hpath : m.path = ((pass1 es)[u - 1]).path := by
      rw [hu1] at hm
      exact pass1_chunk_path hm hmp hc
    have hlr : lrFrom none es u =
        if es[u - 1].type = "reg" then some es[u - 1].size else lrFrom none es (u - 1) := by
      conv => lhs; rw [hu1]
      exact lrFrom_succ es none (u - 1) _ (List.getElem?_eq_getElem hup)
    rcases hprev with hr | hch
    · refine ⟨u - 1, _, by omega, hmp, by rw [← hep]; exact hr, hpath.symm, ?_⟩
      rw [hlr, if_pos hr, hep]
    · obtain ⟨r, mr, h1, h2, h3, h4, h5⟩ := ih (u - 1) (by omega) _ hmp (by rw [← hep]; exact hch)
      refine ⟨r, mr, by omega, h2, h3, by rw [h4, hpath], ?_⟩
      have : es[u - 1].type ≠ "reg" := by rw [hch]; decide
      rw [hlr, if_neg this, h5]

/-- the size pass 1 (and the db loop) give a chunk row of a file of size `sz` -/
def normSize (sz : Int) (e : Entry) : Int :=
  let cs := if e.chunkSize = 0 then sz - e.chunkOffset else e.chunkSize
  if cs = 0 ∧ e.size ≠ 0 then e.size else cs

theorem chunk_size {es : List Entry} (sc : SpecConforming es) {u : Nat} {m : MEnt}
    (hm : (pass1 es)[u]? = some m) (hc : m.e.type = "chunk") :
    ∃ r mr, r < u ∧ (pass1 es)[r]? = some mr ∧ mr.e.type = "reg" ∧ mr.path = m.path ∧
      m.chunkSize = normSize mr.e.size m.e := by
  obtain ⟨r, mr, h1, h2, h3, h4, h5⟩ := chunk_owner sc u m hm hc
  refine ⟨r, mr, h1, h2, h3, h4, ?_⟩
  obtain ⟨lp', hst, _, _⟩ := pass1Go_state es [] none u m hm
  have hcs := congrArg MEnt.chunkSize hst
  rw [hcs]
  simp [pass1Ent, h5, hc, normSize]

theorem dbChunkSize_chunk (sz : Int) (e : Entry) (hc : e.type = "chunk") :
    dbChunkSize sz e = normSize sz e := by
  simp [dbChunkSize, normSize, hc]

/-- names of `reg` entries identify them: a chunk carries the name of exactly one file -/
theorem owner_unique {es : List Entry} (sc : SpecConforming es) {r r' : Nat} {mr mr' : MEnt}
    (h1 : (pass1 es)[r]? = some mr) (h2 : (pass1 es)[r']? = some mr')
    (hc1 : mr.e.type ≠ "chunk") (hc2 : mr'.e.type ≠ "chunk") (hp : mr.path = mr'.path) : r = r' :=
  (spec_treeOK sc).nodup r r' mr.path ⟨mr, h1, hc1, rfl⟩ ⟨mr', h2, hc2, hp.symm⟩

end SV.Toc

namespace SV.Toc

/-- chunk entries the db store files under the file named `p` of size `sz` -/
def PpD (p : Path) (sz : Int) (m : MEnt) : Bool :=
  m.e.type = "chunk" ∧ m.path = p ∧ dbChunkSize sz m.e > 0

/-- what `md[id].chunks` of the file at index `r` holds after the first `i` entries -/
def dRowsSpec (ms : List MEnt) (i r : Nat) (mr : MEnt) : List Chunk :=
  (if r < i ∧ mr.e.size > 0 then [dbRow 0 mr.e] else []) ++
    ((ms.take i).filter (PpD mr.path mr.e.size)).map fun m => dbRow mr.e.size m.e

def idOf (ms : List MEnt) (t : Nat) (mt : MEnt) : Key :=
  if mt.e.type = "hardlink" then resolveKey ms t else .ent t

structure CInv (ms : List MEnt) (i : Nat) (c : CState) : Prop where
  regs : ∀ r mr, ms[r]? = some mr → mr.e.type = "reg" → c.chunks (.ent r) = dRowsSpec ms i r mr
  others : ∀ k, (∀ r mr, ms[r]? = some mr → mr.e.type = "reg" → k ≠ .ent r) → c.chunks k = []
  last : ∀ m, 0 < i → ms[i - 1]? = some m → ∃ t mt, t < i ∧ ms[t]? = some mt ∧ mt.e.type ≠ "chunk" ∧
    mt.path = m.path ∧ c.lastEnt = some (idOf ms t mt) ∧ c.lastEntSize = mt.e.size

theorem dbRow_nonchunk (a b : Int) (e : Entry) (h : e.type ≠ "chunk") : dbRow a e = dbRow b e := by
  simp [dbRow, dbChunkSize, h]

theorem take_succ_filter (ms : List MEnt) (i : Nat) (m : MEnt) (hm : ms[i]? = some m) (P : MEnt → Bool) :
    (ms.take (i + 1)).filter P = (ms.take i).filter P ++ (if P m then [m] else []) := by
  rw [List.take_add_one, hm]
  simp only [Option.toList_some, List.filter_append]
  congr 1
  by_cases h : P m <;> simp [List.filter, h]

theorem cinv {es : List Entry} (sc : SpecConforming es) :
    ∀ i, i ≤ es.length → CInv (pass1 es) i (cRun (pass1 es) es i) := by
  intro i
  induction i with
  | zero =>
    intro _
    refine ⟨?_, ?_, ?_⟩
    · intro r mr _ _; simp [cRun, cRunFrom, dRowsSpec]
    · intro k _; simp [cRun, cRunFrom]
    · intro m h; omega
  | succ i ih =>
    intro hi
    have hlt : i < es.length := by omega
    have inv := ih (by omega)
    have hltm : i < (pass1 es).length := by rw [pass1_length]; exact hlt
    have hm : (pass1 es)[i]? = some (pass1 es)[i] := List.getElem?_eq_getElem hltm
    obtain ⟨_, hee⟩ := spec_es_ms hm
    rw [cRun_succ _ _ _ hlt, hee]
    generalize hmdef : (pass1 es)[i] = m at hm
    generalize hcdef : cRun (pass1 es) es i = c at inv
    by_cases hc : m.e.type = "chunk"
    · -- a chunk row: filed under the file whose name it carries
      obtain ⟨r0, mr0, hr0, hmr0, hreg0, hpath0, _⟩ := chunk_owner sc i m hm hc
      have hi0 : 0 < i := by omega
      have hpl : i - 1 < (pass1 es).length := by omega
      have hmp : (pass1 es)[i - 1]? = some (pass1 es)[i - 1] := List.getElem?_eq_getElem hpl
      have hmi : (pass1 es)[(i - 1) + 1]? = some m := by
        have : i - 1 + 1 = i := by omega
        rw [this]; exact hm
      have hpp := pass1_chunk_path hmi hmp hc
      obtain ⟨t, mt, ht, hmt, hct, hpt, hle, hls⟩ := inv.last _ hi0 hmp
      have hnc0 : mr0.e.type ≠ "chunk" := by rw [hreg0]; decide
      have htr : t = r0 := owner_unique sc hmt hmr0 hct hnc0 (by rw [hpt, ← hpp, hpath0])
      subst htr
      have hmteq : mt = mr0 := by rw [hmt] at hmr0; exact Option.some.inj hmr0
      subst hmteq
      have hid : idOf (pass1 es) t mt = .ent t := by
        have : mt.e.type ≠ "hardlink" := by rw [hreg0]; decide
        simp [idOf, this]
      rw [hid] at hle
      have hstep : cStep (pass1 es) c i m.e =
          if dbChunkSize mt.e.size m.e > 0 then cAppend c (.ent t) (dbRow mt.e.size m.e) else c := by
        unfold cStep
        simp only [hc, ↓reduceIte, hls, hle]
      rw [hstep]
      refine ⟨?_, ?_, ?_⟩
      · intro r mr hmr hreg
        unfold dRowsSpec
        rw [take_succ_filter _ i m hm]
        have hri : (r < i + 1 ∧ mr.e.size > 0) ↔ (r < i ∧ mr.e.size > 0) := by
          constructor
          · rintro ⟨h1, h2⟩
            refine ⟨?_, h2⟩
            by_cases hri : r = i
            · subst hri; rw [hm] at hmr; cases hmr; rw [hc] at hreg; exact absurd hreg (by decide)
            · omega
          · rintro ⟨h1, h2⟩; exact ⟨by omega, h2⟩
        simp only [hri]
        have hold := inv.regs r mr hmr hreg
        unfold dRowsSpec at hold
        by_cases hrt : r = t
        · subst hrt
          have hmreq : mr = mt := by rw [hmt] at hmr; exact (Option.some.inj hmr).symm
          subst hmreq
          have hP : PpD mr.path mr.e.size m = decide (dbChunkSize mr.e.size m.e > 0) := by
            simp [PpD, hc, hpath0]
          by_cases hpos : dbChunkSize mr.e.size m.e > 0
          · simp only [hpos, ↓reduceIte, hP, decide_true, List.map_append, List.map_cons, List.map_nil]
            simp only [cAppend, ↓reduceIte, hold, List.append_assoc]
          · simp only [hpos, ↓reduceIte, hP, decide_false, Bool.false_eq_true, List.append_nil]
            exact hold
        · have hP : PpD mr.path mr.e.size m = false := by
            have hnc : mr.e.type ≠ "chunk" := by rw [hreg]; decide
            have : m.path ≠ mr.path := by
              intro e
              exact hrt (owner_unique sc hmr hmt hnc hnc0 (by rw [← e, hpath0]))
            simp [PpD, this]
          simp only [hP, Bool.false_eq_true, ↓reduceIte, List.append_nil]
          have hne : Key.ent r ≠ Key.ent t := by intro e; cases e; exact hrt rfl
          split
          · simp only [cAppend, hne, ↓reduceIte]; exact hold
          · exact hold
      · intro k hk
        have hne : k ≠ Key.ent t := hk t mt hmt hreg0
        split
        · simp only [cAppend, hne, ↓reduceIte]; exact inv.others k hk
        · exact inv.others k hk
      · intro m' _ hm'
        simp only [Nat.add_sub_cancel] at hm'
        rw [hm] at hm'; cases hm'
        refine ⟨t, mt, by omega, hmt, hct, hpath0, ?_, ?_⟩
        · rw [hid]; split <;> simp [cAppend, hle]
        · split <;> simp [cAppend, hls]
    · -- an entry of its own
      have hstep : cStep (pass1 es) c i m.e =
          if m.e.type = "reg" ∧ m.e.size > 0 then
            cAppend { c with lastEnt := some (idOf (pass1 es) i m), lastEntSize := m.e.size }
              (idOf (pass1 es) i m) (dbRow c.lastEntSize m.e)
          else { c with lastEnt := some (idOf (pass1 es) i m), lastEntSize := m.e.size } := by
        unfold cStep idOf
        simp only [hc, ↓reduceIte]
      rw [hstep]
      have hnofilter : ∀ (r : Nat) (mr : MEnt), PpD mr.path mr.e.size m = false := by
        intro r mr; simp [PpD, hc]
      refine ⟨?_, ?_, ?_⟩
      · intro r mr hmr hreg
        unfold dRowsSpec
        rw [take_succ_filter _ i m hm, hnofilter r mr]
        simp only [Bool.false_eq_true, ↓reduceIte, List.append_nil]
        have hold := inv.regs r mr hmr hreg
        unfold dRowsSpec at hold
        by_cases hri : r = i
        · subst hri
          have hmreq : mr = m := by rw [hm] at hmr; exact (Option.some.inj hmr).symm
          subst hmreq
          have hidr : idOf (pass1 es) r mr = .ent r := by
            have : mr.e.type ≠ "hardlink" := by rw [hreg]; decide
            simp [idOf, this]
          -- nothing was filed under this name before
          have hempty : ((pass1 es).take r).filter (PpD mr.path mr.e.size) = [] := by
            rw [List.filter_eq_nil_iff]
            intro x hx hP
            simp only [PpD, decide_eq_true_eq] at hP
            obtain ⟨u, hu, hxu⟩ := List.getElem_of_mem hx
            have hul : u < r := by simp at hu; omega
            have hxu' : (pass1 es)[u]? = some x := by
              rw [List.getElem_take] at hxu
              rw [← hxu]; exact List.getElem?_eq_getElem (by omega)
            obtain ⟨r', mr', h1, h2, h3, h4, _⟩ := chunk_owner sc u x hxu' hP.1
            have hnc' : mr'.e.type ≠ "chunk" := by rw [h3]; decide
            have := owner_unique sc h2 hm hnc' hc (by rw [h4, hP.2.1])
            omega
          rw [hempty] at hold ⊢
          have hnl : ¬ (r < r ∧ mr.e.size > 0) := by omega
          simp only [hnl, ↓reduceIte, List.nil_append, List.map_nil] at hold
          by_cases hpos : mr.e.size > 0
          · have h1 : r < r + 1 ∧ mr.e.size > 0 := ⟨by omega, hpos⟩
            have h2 : mr.e.type = "reg" ∧ mr.e.size > 0 := ⟨hreg, hpos⟩
            simp only [h1, h2, and_self, ↓reduceIte, hidr, cAppend, hold, List.nil_append, List.map_nil,
              List.append_nil]
            rw [dbRow_nonchunk _ 0 _ hc]
          · have h1 : ¬ (r < r + 1 ∧ mr.e.size > 0) := fun h => hpos h.2
            have h2 : ¬ (mr.e.type = "reg" ∧ mr.e.size > 0) := fun h => hpos h.2
            simp only [h1, h2, ↓reduceIte, hold, List.map_nil, List.append_nil]
        · have hri' : (r < i + 1 ∧ mr.e.size > 0) ↔ (r < i ∧ mr.e.size > 0) := by
            constructor
            · rintro ⟨h1, h2⟩; exact ⟨by omega, h2⟩
            · rintro ⟨h1, h2⟩; exact ⟨by omega, h2⟩
          simp only [hri']
          split
          · rename_i hreg'
            have hidi : idOf (pass1 es) i m = .ent i := by
              have : m.e.type ≠ "hardlink" := by rw [hreg'.1]; decide
              simp [idOf, this]
            have hne : Key.ent r ≠ Key.ent i := by intro e; cases e; exact hri rfl
            simp only [cAppend, hidi, hne, ↓reduceIte]; exact hold
          · exact hold
      · intro k hk
        split
        · rename_i hreg'
          have hidi : idOf (pass1 es) i m = .ent i := by
            have : m.e.type ≠ "hardlink" := by rw [hreg'.1]; decide
            simp [idOf, this]
          have hne : k ≠ Key.ent i := hk i m hm hreg'.1
          simp only [cAppend, hidi, hne, ↓reduceIte]; exact inv.others k hk
        · exact inv.others k hk
      · intro m' _ hm'
        simp only [Nat.add_sub_cancel] at hm'
        rw [hm] at hm'; cases hm'
        refine ⟨i, m, by omega, hm, hc, rfl, ?_, ?_⟩
        · split <;> simp [cAppend]
        · split <;> simp [cAppend]

end SV.Toc

namespace SV.Toc

/-- chunk entries the memory store files under the name `p` -/
def Pp (p : Path) (m : MEnt) : Bool := m.e.type = "chunk" ∧ m.path = p

def rowM (m : MEnt) : Chunk :=
  { chunkOffset := m.e.chunkOffset, chunkSize := m.chunkSize, digest := memDigest m.e, offset := m.e.offset }

theorem go_append (p : Path) (l1 l2 : List MEnt) : ∀ (i : Nat) (acc : List Nat),
    memChunkIdxs.go p (l1 ++ l2) i acc = memChunkIdxs.go p l2 (i + l1.length) (memChunkIdxs.go p l1 i acc) := by
  induction l1 with
  | nil => intro i acc; simp [memChunkIdxs.go]
  | cons m rest ih =>
    intro i acc
    simp only [List.cons_append, memChunkIdxs.go, List.length_cons]
    rw [ih]; congr 1; omega

theorem go_nomatch (p : Path) (l : List MEnt) (h : ∀ m ∈ l, m.path ≠ p) : ∀ (i : Nat) (acc : List Nat),
    memChunkIdxs.go p l i acc = acc := by
  induction l with
  | nil => intro i acc; rfl
  | cons m rest ih =>
    intro i acc
    have hm := h m (by simp)
    simp only [memChunkIdxs.go, hm, and_false, false_and, ↓reduceIte]
    exact ih (fun x hx => h x (by simp [hx])) _ _

theorem memRows_append (ms : List MEnt) (a b : List Nat) :
    memRows ms (a ++ b) = memRows ms a ++ memRows ms b := by
  simp [memRows, List.filterMap_append]

theorem memRows_single (ms : List MEnt) (i : Nat) (m : MEnt) (h : ms[i]? = some m) :
    memRows ms [i] = [rowM m] := by
  simp [memRows, h, rowM]

/-- over a suffix without a resetting `reg` entry of that name, the replay appends the chunk rows -/
theorem go_rows (ms : List MEnt) (p : Path) : ∀ (d i : Nat) (acc : List Nat), ms.length - i = d →
    (∀ m ∈ ms.drop i, m.e.type = "reg" → m.path ≠ p) →
    memRows ms (memChunkIdxs.go p (ms.drop i) i acc) =
      memRows ms acc ++ ((ms.drop i).filter (Pp p)).map rowM ∧
    (memChunkIdxs.go p (ms.drop i) i acc).length = acc.length + ((ms.drop i).filter (Pp p)).length := by
  intro d
  induction d with
  | zero =>
    intro i acc hd _
    rw [List.drop_eq_nil_of_le (by omega)]
    simp [memChunkIdxs.go]
  | succ d ih =>
    intro i acc hd hno
    have hlt : i < ms.length := by omega
    rw [List.drop_eq_getElem_cons hlt] at hno ⊢
    have hnoreset : ¬ (ms[i].e.type = "reg" ∧ ms[i].path = p ∧ ms[i].e.chunkSize > 0 ∧ ms[i].e.chunkSize < ms[i].e.size) :=
      fun h => hno ms[i] (List.mem_cons_self ..) h.1 h.2.1
    simp only [memChunkIdxs.go, hnoreset, ↓reduceIte]
    have hrest := ih (i + 1) (if ms[i].e.type = "chunk" ∧ ms[i].path = p then acc ++ [i] else acc)
      (by omega) (fun m hm => hno m (List.mem_cons_of_mem _ hm))
    rw [hrest.1, hrest.2]
    by_cases hP : ms[i].e.type = "chunk" ∧ ms[i].path = p
    · have hPp : Pp p ms[i] = true := by simp [Pp, hP]
      simp only [hP, and_self, ↓reduceIte, List.filter, hPp, List.map_cons, List.length_cons, List.length_append,
        List.length_nil]
      rw [memRows_append, memRows_single ms i ms[i] (List.getElem?_eq_getElem hlt)]
      exact ⟨by simp, by omega⟩
    · have hPp : Pp p ms[i] = false := by simp [Pp]; exact fun h => (hP ⟨h, ·⟩)
      simp only [hP, ↓reduceIte, List.filter, hPp]
      exact ⟨trivial, trivial⟩

end SV.Toc

namespace SV.Toc

/-- row tables that tile `[0, size)`: the memory store's shortcut for fewer than two rows and the
db store's recomputed table answer alike -/
theorem lookup_rows_agree (size : Int) (m d : List Chunk) (hc : Contig 0 size m)
    (he : d.map eraseSize = m.map eraseSize) (x : Int) (hx : 0 ≤ x) :
    (match m with
     | [] => ChunkTab.single 0 0 ""
     | [r] => ChunkTab.single r.chunkOffset r.chunkSize r.digest
     | _ => ChunkTab.table m).lookup x = (ChunkTab.table (readChunks d size)).lookup x := by
  rw [readChunks_contig d m size hc he]
  match m, hc with
  | [], hc =>
    simp only [Contig] at hc
    simp [ChunkTab.lookup, searchChunk, searchFirst, searchLoop, hx]
  | [r], hc =>
    obtain ⟨h1, h2, h3⟩ := hc
    simp only [ChunkTab.lookup]
    rw [searchChunk_contig [r] 0 size ⟨h1, h2, h3⟩ x]
    simp only [List.find?, covers]
    by_cases hlt : x ≥ r.chunkSize
    · have : ¬ (x < r.chunkOffset + r.chunkSize) := by omega
      simp [hlt, this]
    · have : x < r.chunkOffset + r.chunkSize := by omega
      simp [hlt, this]
  | _ :: _ :: _, _ => rfl

theorem memDigest_eq (e : Entry) (h : digestOK e = true) : memDigest e = e.chunkDigest := by
  unfold memDigest
  unfold digestOK at h
  by_cases hc : e.chunkDigest = ""
  · simp [hc] at h ⊢; exact h
  · simp [hc]

theorem normSize_eff (sz : Int) (e : Entry) (h : e.size = 0) : normSize sz e = effSize sz e := by
  simp [normSize, effSize, h]

/-- chunk rows that pass `contigOK` tile the rest of the file -/
theorem contig_of_ok (size : Int) : ∀ (l : List MEnt) (start : Int),
    (∀ m ∈ l, m.chunkSize = normSize size m.e) → contigOK size start (l.map (·.e)) = true →
    Contig start size (l.map rowM) ∧ (∀ m ∈ l, digestOK m.e = true ∧ normSize size m.e > 0) := by
  intro l
  induction l with
  | nil =>
    intro start _ h
    simp only [List.map_nil, contigOK, decide_eq_true_eq] at h
    exact ⟨h, fun _ hm => by cases hm⟩
  | cons c cs ih =>
    intro start hsz h
    simp only [List.map_cons, contigOK, Bool.and_eq_true, decide_eq_true_eq] at h
    obtain ⟨⟨⟨⟨h1, h2⟩, h3⟩, h4⟩, h5⟩ := h
    have hcs : c.chunkSize = effSize size c.e := by
      rw [hsz c (by simp), normSize_eff _ _ h2]
    obtain ⟨ih1, ih2⟩ := ih (start + effSize size c.e) (fun m hm => hsz m (by simp [hm])) h5
    refine ⟨⟨h1, by simp only [rowM]; rw [hcs]; exact h4, by simp only [rowM]; rw [hcs]; exact ih1⟩, ?_⟩
    intro m hm
    rcases List.mem_cons.mp hm with e | e
    · subst e; exact ⟨h3, by rw [normSize_eff _ _ h2]; exact h4⟩
    · exact ih2 m e

theorem Contig.lt_of_ne_nil {rows : List Chunk} {s t : Int} (h : Contig s t rows) (hne : rows ≠ []) : s < t := by
  cases rows with
  | nil => exact absurd rfl hne
  | cons r rs => have := h.2.2.le; have := h.2.1; omega

end SV.Toc

namespace SV.Toc

theorem mem_take_index {α : Type} {l : List α} {r : Nat} {a : α} (h : a ∈ l.take r) :
    ∃ u, u < r ∧ l[u]? = some a := by
  obtain ⟨u, hu, hxu⟩ := List.getElem_of_mem h
  have hul : u < r ∧ u < l.length := by simp at hu; omega
  refine ⟨u, hul.1, ?_⟩
  rw [List.getElem_take] at hxu
  rw [← hxu]; exact List.getElem?_eq_getElem hul.2

theorem mem_drop_index {α : Type} {l : List α} {k : Nat} {a : α} (h : a ∈ l.drop k) :
    ∃ u, k ≤ u ∧ l[u]? = some a := by
  obtain ⟨u, hu, hxu⟩ := List.getElem_of_mem h
  rw [List.getElem_drop] at hxu
  have : k + u < l.length := by simp at hu; omega
  exact ⟨k + u, by omega, by rw [← hxu]; exact List.getElem?_eq_getElem this⟩

/-- nothing before a file carries its name -/
theorem before_file {es : List Entry} (sc : SpecConforming es) {r : Nat} {mr : MEnt}
    (hmr : (pass1 es)[r]? = some mr) (hnc : mr.e.type ≠ "chunk") :
    ∀ m ∈ (pass1 es).take r, m.path ≠ mr.path := by
  intro m hm hp
  obtain ⟨u, hu, hmu⟩ := mem_take_index hm
  by_cases hc : m.e.type = "chunk"
  · obtain ⟨r', mr', h1, h2, h3, h4, _⟩ := chunk_owner sc u m hmu hc
    have hnc' : mr'.e.type ≠ "chunk" := by rw [h3]; decide
    have := owner_unique sc h2 hmr hnc' hnc (by rw [h4, hp])
    omega
  · have := owner_unique sc hmu hmr hc hnc hp
    omega

theorem after_file {es : List Entry} (sc : SpecConforming es) {r : Nat} {mr : MEnt}
    (hmr : (pass1 es)[r]? = some mr) (hnc : mr.e.type ≠ "chunk") :
    ∀ m ∈ (pass1 es).drop (r + 1), m.e.type = "reg" → m.path ≠ mr.path := by
  intro m hm hreg hp
  obtain ⟨u, hu, hmu⟩ := mem_drop_index hm
  have hc : m.e.type ≠ "chunk" := by rw [hreg]; decide
  have := owner_unique sc hmu hmr hc hnc hp
  omega

theorem split_at {α : Type} (l : List α) (r : Nat) (a : α) (h : l[r]? = some a) :
    l = l.take r ++ a :: l.drop (r + 1) ∧ (l.take r).length = r := by
  obtain ⟨hr, e⟩ := get_of_getElem? h
  refine ⟨?_, by simp; omega⟩
  rw [← e, ← List.drop_eq_getElem_cons hr, List.take_append_drop]

/-- `r.chunks[name]` of a file: the `reg` entry itself when it opens a chunked file, then the
chunk entries carrying its name -/
theorem mem_table {es : List Entry} (sc : SpecConforming es) {r : Nat} {mr : MEnt}
    (hmr : (pass1 es)[r]? = some mr) (hreg : mr.e.type = "reg") :
    memRows (pass1 es) (memChunkIdxs (pass1 es) mr.path) =
      (if mr.e.chunkSize > 0 ∧ mr.e.chunkSize < mr.e.size then [rowM mr] else []) ++
        ((pass1 es).filter (Pp mr.path)).map rowM ∧
    (memChunkIdxs (pass1 es) mr.path).length =
      (if mr.e.chunkSize > 0 ∧ mr.e.chunkSize < mr.e.size then 1 else 0) +
        ((pass1 es).filter (Pp mr.path)).length := by
  have hnc : mr.e.type ≠ "chunk" := by rw [hreg]; decide
  obtain ⟨hsplit, hlen⟩ := split_at (pass1 es) r mr hmr
  have hbefore := before_file sc hmr hnc
  have hafter := after_file sc hmr hnc
  -- the filter sees only what follows the file
  have hfilter : (pass1 es).filter (Pp mr.path) = ((pass1 es).drop (r + 1)).filter (Pp mr.path) := by
    conv => lhs; rw [hsplit]
    rw [List.filter_append, List.filter_cons]
    have h1 : ((pass1 es).take r).filter (Pp mr.path) = [] := by
      rw [List.filter_eq_nil_iff]
      intro x hx hP
      simp only [Pp, decide_eq_true_eq] at hP
      exact hbefore x hx hP.2
    have h2 : Pp mr.path mr = false := by simp [Pp, hnc]
    rw [h1, h2]; simp
  have hidx : memChunkIdxs (pass1 es) mr.path =
      memChunkIdxs.go mr.path ((pass1 es).drop (r + 1)) (r + 1)
        (if mr.e.chunkSize > 0 ∧ mr.e.chunkSize < mr.e.size then [r] else []) := by
    unfold memChunkIdxs
    have h0 : memChunkIdxs.go mr.path (pass1 es) 0 [] =
        memChunkIdxs.go mr.path ((pass1 es).take r ++ mr :: (pass1 es).drop (r + 1)) 0 [] :=
      congrArg (fun l => memChunkIdxs.go mr.path l 0 []) hsplit
    rw [h0, go_append, go_nomatch _ _ hbefore, hlen]
    simp [memChunkIdxs.go, hreg]
  have hrows := go_rows (pass1 es) mr.path ((pass1 es).length - (r + 1)) (r + 1)
    (if mr.e.chunkSize > 0 ∧ mr.e.chunkSize < mr.e.size then [r] else []) rfl hafter
  rw [hidx, hrows.1, hrows.2, hfilter]
  constructor
  · congr 1
    split
    · exact memRows_single _ r mr hmr
    · rfl
  · congr 1
    split <;> rfl

end SV.Toc

namespace SV.Toc

theorem pass1_nonchunk_size {es : List Entry} {r : Nat} {mr : MEnt}
    (hmr : (pass1 es)[r]? = some mr) (hnc : mr.e.type ≠ "chunk") : mr.chunkSize = regEff mr.e := by
  obtain ⟨lp', hst, _, _⟩ := pass1Go_state es [] none r mr hmr
  have hcs := congrArg MEnt.chunkSize hst
  rw [hcs]
  simp only [pass1Ent, hnc, false_and, ↓reduceIte, regEff]
  by_cases h0 : mr.e.chunkSize = 0
  · by_cases hs : mr.e.size = 0
    · simp [h0, hs]
    · simp [h0, hs]
  · simp [h0]

/-- The chunk tables of one regular file in both stores: same answer at every file offset, same
first blob offset. -/
theorem file_agree {es : List Entry} (sc : SpecConforming es) {r : Nat} {mr : MEnt}
    (hmr : (pass1 es)[r]? = some mr) (hreg : mr.e.type = "reg") :
    (∀ x, 0 ≤ x →
      (if (memChunkIdxs (pass1 es) mr.path).length < 2 then
          ChunkTab.single mr.e.chunkOffset mr.chunkSize (memDigest mr.e)
        else ChunkTab.table (memRows (pass1 es) (memChunkIdxs (pass1 es) mr.path))).lookup x =
      (ChunkTab.table (readChunks ((cRun (pass1 es) es es.length).chunks (.ent r)) mr.e.size)).lookup x) ∧
    (((readChunks ((cRun (pass1 es) es es.length).chunks (.ent r)) mr.e.size).head?.map (·.offset)).getD 0
      = mr.e.offset) := by
  have hnc : mr.e.type ≠ "chunk" := by rw [hreg]; decide
  obtain ⟨hr, hmre⟩ := get_of_getElem? hmr
  have hfile := sc.files r hr (by rw [hmre]; exact hreg)
  rw [hmre] at hfile
  have hchunksOf : chunksOf (pass1 es) mr.path = ((pass1 es).filter (Pp mr.path)).map (·.e) := rfl
  rw [hchunksOf] at hfile
  -- sizes of the chunk rows
  have hsz : ∀ m ∈ (pass1 es).filter (Pp mr.path), m.chunkSize = normSize mr.e.size m.e := by
    intro m hm
    obtain ⟨hmem, hP⟩ := List.mem_filter.mp hm
    simp only [Pp, decide_eq_true_eq] at hP
    obtain ⟨u, _, hmu⟩ := List.getElem_of_mem hmem
    have hmu' : (pass1 es)[u]? = some m := by rw [← hmu]; exact List.getElem?_eq_getElem _
    obtain ⟨r', mr', _, h2, h3, h4, h5⟩ := chunk_size sc hmu' hP.1
    have hnc' : mr'.e.type ≠ "chunk" := by rw [h3]; decide
    have := owner_unique sc h2 hmr hnc' hnc (by rw [h4, hP.2])
    subst this
    rw [hmr] at h2; cases h2
    exact h5
  obtain ⟨htab, hlen⟩ := mem_table sc hmr hreg
  have hcinv := cinv sc es.length (Nat.le_refl _)
  have hdb := hcinv.regs r mr hmr hreg
  have htake : (pass1 es).take es.length = pass1 es := by
    rw [← pass1_length es]; exact List.take_length
  unfold dRowsSpec at hdb
  rw [htake] at hdb
  have hrl : r < es.length := by rw [← pass1_length es]; exact hr
  simp only [fileOK, Bool.and_eq_true, decide_eq_true_eq] at hfile
  obtain ⟨hsize0, hrest⟩ := hfile
  by_cases hs0 : mr.e.size = 0
  · -- an empty file: no rows on either side
    simp only [hs0, ↓reduceIte, Bool.and_eq_true, List.isEmpty_iff, List.map_eq_nil_iff,
      decide_eq_true_eq] at hrest
    obtain ⟨⟨hnil, hcs0⟩, hoff0⟩ := hrest
    have hnoreset : ¬ (mr.e.chunkSize > 0 ∧ mr.e.chunkSize < mr.e.size) := by omega
    rw [hnil] at hlen htab
    simp only [hnoreset, ↓reduceIte, List.length_nil, Nat.add_zero] at hlen
    have hfd : (pass1 es).filter (PpD mr.path mr.e.size) = [] := by
      rw [List.filter_eq_nil_iff]
      intro x hx hP
      have : x ∈ (pass1 es).filter (Pp mr.path) := by
        simp only [PpD, decide_eq_true_eq] at hP
        exact List.mem_filter.mpr ⟨hx, by simp [Pp, hP.1, hP.2.1]⟩
      rw [hnil] at this; cases this
    have hnl : ¬ (r < es.length ∧ mr.e.size > 0) := by omega
    rw [hfd] at hdb
    simp only [hnl, ↓reduceIte, List.map_nil, List.append_nil] at hdb
    rw [hdb, hlen]
    have hmcs : mr.chunkSize = 0 := by
      rw [pass1_nonchunk_size hmr hnc]; simp [regEff, hcs0, hs0]
    refine ⟨?_, by simp [readChunks, hoff0]⟩
    intro x hx
    rw [if_pos (by omega)]
    have hr0 : readChunks [] mr.e.size = [] := rfl
    rw [hr0]
    simp only [ChunkTab.lookup, hmcs, searchChunk, List.getElem?_nil]
    rw [if_pos hx]
  · -- rows tile the file
    simp only [hs0, ↓reduceIte, Bool.and_eq_true, decide_eq_true_eq] at hrest
    obtain ⟨⟨⟨hdg, hco0⟩, hreff⟩, hcontig⟩ := hrest
    have hspos : mr.e.size > 0 := by omega
    obtain ⟨hct, hall⟩ := contig_of_ok mr.e.size _ (regEff mr.e) hsz hcontig
    have hmcs := pass1_nonchunk_size hmr hnc
    -- the full memory table
    have hcontigAll : Contig 0 mr.e.size (rowM mr :: ((pass1 es).filter (Pp mr.path)).map rowM) := by
      refine ⟨hco0, by simp only [rowM]; rw [hmcs]; exact hreff, ?_⟩
      simp only [rowM]; rw [hmcs]; simpa using hct
    -- the db rows
    have hfd : (pass1 es).filter (PpD mr.path mr.e.size) = (pass1 es).filter (Pp mr.path) := by
      apply List.filter_congr
      intro x hx
      by_cases hP : Pp mr.path x = true
      · have hxm : x ∈ (pass1 es).filter (Pp mr.path) := List.mem_filter.mpr ⟨hx, hP⟩
        have hpos := (hall x hxm).2
        simp only [Pp, decide_eq_true_eq] at hP
        simp only [PpD, Pp, hP.1, hP.2, dbChunkSize_chunk _ _ hP.1, hpos, and_self, decide_true]
      · simp only [Bool.not_eq_true] at hP
        rw [hP]
        simp only [Pp, decide_eq_false_iff_not] at hP
        simp only [PpD, decide_eq_false_iff_not]
        intro h; exact hP ⟨h.1, h.2.1⟩
    have hnl : r < es.length ∧ mr.e.size > 0 := ⟨hrl, hspos⟩
    rw [hfd] at hdb
    simp only [hnl, and_self, ↓reduceIte, List.singleton_append] at hdb
    have herase : ((cRun (pass1 es) es es.length).chunks (.ent r)).map eraseSize =
        (rowM mr :: ((pass1 es).filter (Pp mr.path)).map rowM).map eraseSize := by
      rw [hdb]
      simp only [List.map_cons, List.map_map, List.cons.injEq]
      refine ⟨?_, ?_⟩
      · simp [eraseSize, dbRow, rowM, memDigest_eq _ hdg]
      · apply List.map_congr_left
        intro x hx
        simp [eraseSize, dbRow, rowM, memDigest_eq _ (hall x hx).1]
    have hrc := readChunks_contig _ _ mr.e.size hcontigAll herase
    refine ⟨?_, by rw [hrc]; simp [rowM]⟩
    intro x hx
    have hla := lookup_rows_agree mr.e.size _ _ hcontigAll herase x hx
    rw [← hla]
    -- which shape the memory store uses
    cases hCs : (pass1 es).filter (Pp mr.path) with
    | nil =>
      rw [hCs] at hcontig hlen htab hcontigAll
      simp only [List.map_nil, contigOK, decide_eq_true_eq] at hcontig
      have hnoreset : ¬ (mr.e.chunkSize > 0 ∧ mr.e.chunkSize < mr.e.size) := by
        intro ⟨h1, h2⟩
        simp only [regEff] at hcontig
        split at hcontig <;> omega
      simp only [hnoreset, ↓reduceIte, List.length_nil, Nat.add_zero] at hlen
      rw [hlen]
      simp only [Nat.zero_lt_succ, ↓reduceIte, List.map_nil, rowM]
    | cons c cs =>
      rw [hCs] at hlen htab hct
      have hlt := hct.lt_of_ne_nil (by simp)
      have hreset : mr.e.chunkSize > 0 ∧ mr.e.chunkSize < mr.e.size := by
        simp only [regEff] at hlt hreff
        split at hlt <;> omega
      simp only [hreset, and_self, ↓reduceIte, List.length_cons] at hlen htab
      have hge : ¬ (memChunkIdxs (pass1 es) mr.path).length < 2 := by omega
      rw [if_neg hge, htab]
      simp only [List.map_cons, List.singleton_append]

end SV.Toc

namespace SV.Toc

end SV.Toc

namespace SV.Toc

/-! # Part 7: the two trees of a SpecConforming TOC agree -/

theorem getKid_nil (b : String) : getKid b [] = none := rfl

theorem final_states {es : List Entry} (sc : SpecConforming es) :
    ∃ smF sdF, pass2 (pass1 es) (enumFrom' 0 (pass1 es)) { nl := initNl (pass1 es) } = some smF ∧
      dRun (enumFrom' 0 es) dInit = .inl sdF ∧
      Inv (pass1 es) es.length smF sdF [] (fun _ => 0) ∧
      cproj sdF = cRun (pass1 es) es es.length ∧ [] ∈ smF.imps ∧ HlOK (pass1 es) es.length smF := by
  have ok := spec_treeOK sc
  obtain ⟨smF, sdF, h1, h2, inv, hcp, hhl⟩ := run_sim ok sc.names (spec_first sc) es.length 0
    { nl := initNl (pass1 es) } dInit (by omega) (Nat.zero_le _) (init_inv _) rfl
    (fun ⟨j, _, hj, _⟩ => by omega) (fun _ h => by cases h)
  simp only [List.drop_zero] at h1 h2
  refine ⟨smF, sdF, h1, h2, inv, hcp, ?_, hhl⟩
  -- some entry has been linked below the root, so the root directory exists
  obtain ⟨i, hi, hci⟩ := sc.nonEmpty
  have hil : i < (pass1 es).length := by rw [pass1_length]; exact hi
  have hm : (pass1 es)[i]? = some (pass1 es)[i] := List.getElem?_eq_getElem hil
  obtain ⟨_, hee⟩ := spec_es_ms hm
  have hc : ((pass1 es)[i]).e.type ≠ "chunk" := by rw [← hee]; exact hci
  have hnc : NonChunkAt (pass1 es) i ((pass1 es)[i]).path := ⟨_, hm, hc, rfl⟩
  have hne : ((pass1 es)[i]).path ≠ [] := fun e => ok.noRoot i (e ▸ hnc)
  have hl := (lastIdx_eq_some_iff _ ok.nodup _ i).mpr hnc
  have hw := inv.walk ((pass1 es)[i]).path
  simp only [List.not_mem_nil, ↓reduceIte] at hw
  have hlook : look (pass1 es) es.length smF.imps ((pass1 es)[i]).path = some (resolveKey (pass1 es) i) := by
    unfold look; rw [if_neg hne, hl]; simp [hi]
  rw [hlook] at hw
  apply inv.rootImp
  intro hnil
  rw [inv.kids] at hnil
  cases hp : ((pass1 es)[i]).path with
  | nil => exact hne hp
  | cons b rest =>
    rw [hp] at hw
    simp only [walkKids, hnil, getKid_nil] at hw
    cases hw

theorem memTree_accept {es : List Entry} {smF : MState}
    (h : pass2 (pass1 es) (enumFrom' 0 (pass1 es)) { nl := initNl (pass1 es) } = some smF)
    (hroot : [] ∈ smF.imps) (hl : lastIdx (pass1 es) [] = none)
    (hsrc : ∀ org, org ∈ smF.hlSources → smF.kids org = []) :
    memTree es = .accept { root := .root, node := memNode (pass1 es) smF } := by
  unfold memTree
  simp only [h]
  have hany : (smF.hlSources.any fun org => ¬ (smF.kids org).isEmpty) = false := by
    rw [List.any_eq_false]
    intro org horg
    simp [hsrc org horg]
  simp only [hany, Bool.false_eq_true, ↓reduceIte]
  have hlen : lenM (pass1 es) smF ≠ 0 := by
    unfold lenM
    have : 0 < smF.imps.length := List.length_pos_of_mem hroot
    omega
  simp only [hlen, ↓reduceIte]
  have : mLookupResolved (pass1 es) smF [] = some .root := by
    unfold mLookupResolved mLookup
    rw [hl]
    simp only [hroot, ↓reduceIte, impKey]
    unfold mGetSource
    simp [keyType]
  rw [this]

theorem dbTree_accept {es : List Entry} {sdF : DState} (h : dRun (enumFrom' 0 es) dInit = .inl sdF) :
    dbTree es = .accept { root := .root, node := dbNode sdF } := by
  unfold dbTree dInitNodes
  rw [h]

end SV.Toc

namespace SV.Toc

theorem mGetSource_nonhardlink (ms : List MEnt) (s : MState) (bound n : Nat) (k : Key)
    (h : keyType ms k ≠ "hardlink") : mGetSource ms s bound n k = some k := by
  unfold mGetSource; simp [h]

theorem mLookupResolved_ent {ms : List MEnt} (ok : TreeOK ms) (s : MState) {j : Nat} {m : MEnt}
    (hm : ms[j]? = some m) (hc : m.e.type ≠ "chunk") (hh : m.e.type ≠ "hardlink") :
    mLookupResolved ms s m.path = some (.ent j) := by
  unfold mLookupResolved mLookup
  rw [(lastIdx_eq_some_iff ms ok.nodup _ j).mpr ⟨m, hm, hc, rfl⟩]
  exact mGetSource_nonhardlink ms s _ 0 _ (by rw [keyType_ent hm]; exact hh)

theorem validTypes_cases {t : String} (h : t ∈ validTypes) (hc : t ≠ "chunk") (hh : t ≠ "hardlink") :
    t = "reg" ∨ t = "dir" ∨ t = "symlink" ∨ t = "char" ∨ t = "block" ∨ t = "fifo" := by
  simp only [validTypes, List.mem_cons, List.not_mem_nil, or_false] at h
  rcases h with h | h | h | h | h | h | h | h
  · exact Or.inr (Or.inl h)
  · exact Or.inl h
  · exact Or.inr (Or.inr (Or.inl h))
  · exact absurd h hh
  · exact Or.inr (Or.inr (Or.inr (Or.inl h)))
  · exact Or.inr (Or.inr (Or.inr (Or.inr (Or.inl h))))
  · exact Or.inr (Or.inr (Or.inr (Or.inr (Or.inr h))))
  · exact absurd h hc

theorem lookup_empty_table (x : Int) : (ChunkTab.table (readChunks [] 0)).lookup x = none := by
  have : readChunks [] 0 = [] := rfl
  rw [this]; simp [ChunkTab.lookup, searchChunk]

theorem readChunks_nil (size : Int) : readChunks [] size = [] := rfl

/-- every node that exists is described alike by both stores -/
theorem node_agree {es : List Entry} (sc : SpecConforming es) {smF : MState} {sdF : DState}
    (inv : Inv (pass1 es) es.length smF sdF [] (fun _ => 0))
    (hcp : cproj sdF = cRun (pass1 es) es es.length) (hroot : [] ∈ smF.imps)
    (k : Key) (hk : Created (pass1 es) es.length smF.imps k) :
    NodeAgree (memNode (pass1 es) smF k) (dbNode sdF k) := by
  have ok := spec_treeOK sc
  obtain ⟨b, hb, hbe, hbn⟩ := inv.node k hk
  have hnl : readNumLink b = smF.nl k := by
    rw [hbn]; unfold nlEff; simp [hroot]
  have hchunks : sdF.chunks = (cRun (pass1 es) es es.length).chunks := by
    have := congrArg CState.chunks hcp; exact this
  have hcinv := cinv sc es.length (Nat.le_refl _)
  -- children exist
  have herr2 : ((sdF.kids k).any fun kv => (sdF.nodes kv.2).isNone) = false := by
    rw [List.any_eq_false]
    intro kv hkv
    obtain ⟨b', hb', _, _⟩ := inv.node kv.2 (inv.kidsCreated k kv hkv)
    simp [hb']
  have hdb : dbNode sdF k =
      { attr := readAttr b,
        offset := ((readChunks (sdF.chunks k) (readAttr b).size).head?.map (·.offset)).getD 0,
        openOk := fmIsRegular (readAttr b).mode,
        chunks := .table (readChunks (sdF.chunks k) (readAttr b).size),
        kids := sdF.kids k,
        kidsErr := (sdF.kids k).any fun kv => (sdF.nodes kv.2).isNone } := by
    unfold dbNode; rw [hb]
  cases k with
  | ent j =>
    obtain ⟨hj, m, hm, hc, hh⟩ := hk
    obtain ⟨hjl, hee⟩ := spec_es_ms hm
    have hx : (m.e.xattrs.map Prod.fst).Nodup := by rw [← hee]; exact sc.xattrs j hjl
    have ha0 : attr0 (pass1 es) (.ent j) = attrOfEntry m.e (if m.e.type = "dir" then 2 else 1) := by
      simp [attr0, hm]
    obtain ⟨hattr, hmode, hsize⟩ := attr_agree b (attr0 (pass1 es) (.ent j)) (smF.nl (.ent j)) hbe hnl
      (attr0_mode_lt _ _) (by rw [ha0]; exact hx)
    have hres := mLookupResolved_ent ok smF hm hc hh
    have hmt : memChunkTab (pass1 es) smF (.ent j) =
        if m.e.isData then
          (if (memChunkIdxs (pass1 es) m.path).length < 2 then
            ChunkTab.single m.e.chunkOffset m.chunkSize (memDigest m.e)
           else ChunkTab.table (memRows (pass1 es) (memChunkIdxs (pass1 es) m.path)))
        else ChunkTab.none := by
      unfold memChunkTab
      simp only [keyPath, hm, Option.map_some, Option.getD_some, hres]
    have hm_attr : (memNode (pass1 es) smF (.ent j)).attr = attrOfEntry m.e (smF.nl (.ent j)) := by
      simp [memNode, hm]
    have hm_off : (memNode (pass1 es) smF (.ent j)).offset = m.e.offset := by simp [memNode, hm]
    have hm_open : (memNode (pass1 es) smF (.ent j)).openOk = decide (m.e.type = "reg") := by
      simp only [memNode, hm, hres, keyType_ent hm]
    have hm_chunks : (memNode (pass1 es) smF (.ent j)).chunks = memChunkTab (pass1 es) smF (.ent j) := by
      simp [memNode, hm]
    have hm_kids : (memNode (pass1 es) smF (.ent j)).kids = smF.kids (.ent j) := by simp [memNode, hm]
    have hm_ok : (memNode (pass1 es) smF (.ent j)).ok = true := by simp [memNode, hm]
    have hm_err : (memNode (pass1 es) smF (.ent j)).kidsErr = false := by simp [memNode, hm]
    rw [hdb]
    have hsz' : (readAttr b).size = m.e.size := by rw [hsize, ha0]; rfl
    have hmd' : (readAttr b).mode = goFileMode m.e.type m.e.mode := by rw [hmode, ha0]; rfl
    have hty : m.e.type ∈ validTypes := by rw [← hee]; exact sc.types j hjl
    refine ⟨hm_ok, rfl, hm_err, herr2, by rw [hm_kids]; exact inv.kids _, ?_, ?_, ?_, ?_, ?_, ?_⟩
    · rw [hm_attr]; show _ = normalise (readAttr b); rw [hattr, ha0]; rfl
    · rw [hm_attr]; show _ = (readAttr b).mode; rw [hmd']; rfl
    · rw [hm_attr]; show _ = (readAttr b).size; rw [hsz']; rfl
    · -- GetOffset
      rw [hm_off]
      show m.e.offset = _
      rw [hsz', hchunks]
      by_cases hreg : m.e.type = "reg"
      · exact (file_agree sc hm hreg).2.symm
      · rw [hcinv.others (.ent j) (by
          intro r mr hmr hregr e; cases e; rw [hm] at hmr; cases hmr; exact hreg hregr)]
        rw [readChunks_nil]
        have : m.e.offset = 0 := by rw [← hee]; exact sc.noOffset j hjl (by rw [hee]; exact hreg) (by rw [hee]; exact hc)
        simp [this]
    · -- OpenFile
      rw [hm_open]
      show _ = fmIsRegular (readAttr b).mode
      rw [hmd', fmIsRegular_go]
      rcases validTypes_cases hty hc hh with h | h | h | h | h | h <;> rw [h] <;> decide
    · -- ChunkEntryForOffset
      intro x hx0
      rw [hm_chunks]
      show (memChunkTab (pass1 es) smF (.ent j)).lookup x = _
      rw [hmt, hsz', hchunks]
      by_cases hreg : m.e.type = "reg"
      · have hd : m.e.isData = true := by simp [Entry.isData, hreg]
        rw [hd]
        exact (file_agree sc hm hreg).1 x hx0
      · have hd : m.e.isData = false := by simp [Entry.isData, hreg, hc]
        rw [hd]
        rw [hcinv.others (.ent j) (by
          intro r mr hmr hregr e; cases e; rw [hm] at hmr; cases hmr; exact hreg hregr)]
        rw [readChunks_nil]
        simp [ChunkTab.lookup, searchChunk]
  | root =>
    obtain ⟨hattr, hmode, hsize⟩ := attr_agree b (attr0 (pass1 es) .root) (smF.nl .root) hbe hnl
      (attr0_mode_lt _ _) (by simp [attr0, rootAttr])
    have hnotreg : ∀ r mr, (pass1 es)[r]? = some mr → mr.e.type = "reg" → Key.root ≠ .ent r := by
      intro r mr _ _ e; cases e
    have hmtab : memChunkTab (pass1 es) smF .root = .none := by
      unfold memChunkTab mLookupResolved mLookup
      have hl : lastIdx (pass1 es) [] = none := (lastIdx_eq_none_iff _ []).mpr ok.noRoot
      simp only [keyPath, hl, hroot, ↓reduceIte, impKey]
      rw [mGetSource_nonhardlink _ _ _ _ _ (by simp [keyType])]
    rw [hdb]
    have hm0 : (attr0 (pass1 es) .root).mode = modeDir + 0o755 := rfl
    refine ⟨rfl, rfl, rfl, herr2, inv.kids _, ?_, ?_, ?_, ?_, ?_, ?_⟩
    · rw [hattr]; simp only [memNode, attr0, rootAttr]; rfl
    · rw [hmode]; simp only [memNode, attr0, rootAttr]; decide
    · rw [hsize]; rfl
    · show (0 : Int) = _
      rw [hchunks, hcinv.others .root hnotreg, readChunks_nil]; rfl
    · show false = fmIsRegular (readAttr b).mode
      rw [hmode, hm0]; decide
    · intro x _
      show (memChunkTab (pass1 es) smF .root).lookup x = _
      rw [hmtab, hchunks, hcinv.others .root hnotreg, readChunks_nil]
      simp [ChunkTab.lookup, searchChunk]
  | imp p =>
    obtain ⟨hp, hpne⟩ := hk
    obtain ⟨hattr, hmode, hsize⟩ := attr_agree b (attr0 (pass1 es) (.imp p)) (smF.nl (.imp p)) hbe hnl
      (attr0_mode_lt _ _) (by simp [attr0, rootAttr])
    have hnotreg : ∀ r mr, (pass1 es)[r]? = some mr → mr.e.type = "reg" → Key.imp p ≠ .ent r := by
      intro r mr _ _ e; cases e
    have hmtab : memChunkTab (pass1 es) smF (.imp p) = .none := by
      unfold memChunkTab mLookupResolved mLookup
      simp only [keyPath, inv.impsNone p hp, hp, ↓reduceIte, impKey, hpne]
      rw [mGetSource_nonhardlink _ _ _ _ _ (by simp [keyType])]
    rw [hdb]
    have hm0 : (attr0 (pass1 es) (.imp p)).mode = modeDir + 0o755 := rfl
    refine ⟨rfl, rfl, rfl, herr2, inv.kids _, ?_, ?_, ?_, ?_, ?_, ?_⟩
    · rw [hattr]; simp only [memNode, attr0, rootAttr]; rfl
    · rw [hmode]; simp only [memNode, attr0, rootAttr]; decide
    · rw [hsize]; rfl
    · show (0 : Int) = _
      rw [hchunks, hcinv.others _ hnotreg, readChunks_nil]; rfl
    · show false = fmIsRegular (readAttr b).mode
      rw [hmode, hm0]; decide
    · intro x _
      show (memChunkTab (pass1 es) smF (.imp p)).lookup x = _
      rw [hmtab, hchunks, hcinv.others _ hnotreg, readChunks_nil]
      simp [ChunkTab.lookup, searchChunk]

end SV.Toc

namespace SV.Toc

theorem memNode_kids {ms : List MEnt} {i : Nat} {imps : List Path} (s : MState) (k : Key)
    (hk : Created ms i imps k) : (memNode ms s k).kids = s.kids k := by
  cases k with
  | root => rfl
  | imp p => rfl
  | ent j =>
    obtain ⟨_, m, hm, _, _⟩ := hk
    simp [memNode, hm]

/-- Both interpreters accept a SpecConforming TOC and build trees that agree node by node. -/
theorem trees_agree {es : List Entry} (sc : SpecConforming es) :
    ∃ smF sdF,
      memTree es = .accept { root := .root, node := memNode (pass1 es) smF } ∧
      dbTree es = .accept { root := .root, node := dbNode sdF } ∧
      TreesAgree { root := .root, node := memNode (pass1 es) smF } { root := .root, node := dbNode sdF }
        (Created (pass1 es) es.length smF.imps) := by
  obtain ⟨smF, sdF, h1, h2, inv, hcp, hroot, hhl⟩ := final_states sc
  have ok := spec_treeOK sc
  have hl : lastIdx (pass1 es) [] = none := (lastIdx_eq_none_iff _ []).mpr ok.noRoot
  have hsrc : ∀ org, org ∈ smF.hlSources → smF.kids org = [] := by
    intro org horg
    rw [inv.kids]
    exact inv.noKids org (fun h => (hhl org horg).2 h.2)
  refine ⟨smF, sdF, memTree_accept h1 hroot hl hsrc, dbTree_accept h2, ⟨rfl, trivial, ?_, ?_⟩⟩
  · intro k hk
    exact node_agree sc inv hcp hroot k hk
  · intro k hk kv hkv
    have : (memNode (pass1 es) smF k).kids = smF.kids k := memNode_kids smF k hk
    simp only at hkv
    rw [this, inv.kids] at hkv
    exact inv.kidsCreated k kv hkv

/-- the canonical views of both stores coincide -/
theorem views_agree {es : List Entry} (sc : SpecConforming es) :
    ∃ tm td, memTree es = .accept tm ∧ dbTree es = .accept td ∧ view tm = view td := by
  obtain ⟨smF, sdF, h1, h2, ag⟩ := trees_agree sc
  exact ⟨_, _, h1, h2, view_agree ag⟩

end SV.Toc
