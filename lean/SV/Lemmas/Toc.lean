/-
Helper lemmas for the shared TOC model (`SV.Model.Toc`): name cleaning, `sort.Search`, the
chunk tables of both stores, the db attribute encoding.
-/
import SV.Model.Toc

namespace SV.Toc

/-! ## cleanName -/

/-- a component `path.Clean` keeps -/
def Plain (c : List Char) : Prop := c ≠ [] ∧ c ≠ ['.'] ∧ c ≠ ['.', '.'] ∧ '/' ∉ c

theorem splitSlash_ne_nil (cs : List Char) : splitSlash cs ≠ [] := by
  induction cs with
  | nil => simp [splitSlash]
  | cons c cs ih =>
    unfold splitSlash
    split
    · simp
    · split <;> simp

theorem splitSlash_noSlash (cs : List Char) : ∀ c ∈ splitSlash cs, '/' ∉ c := by
  induction cs with
  | nil => simp [splitSlash]
  | cons c cs ih =>
    unfold splitSlash
    split
    · intro x hx
      rcases List.mem_cons.mp hx with h | h
      · subst h; simp
      · exact ih x h
    · rename_i hc
      split
      · intro x hx
        simp at hx; subst hx
        simp; exact fun h => hc h.symm
      · rename_i y ys heq
        intro x hx
        rcases List.mem_cons.mp hx with h | h
        · subst h
          have := ih y (by rw [heq]; simp)
          simp; exact ⟨fun h => hc h.symm, this⟩
        · exact ih x (by rw [heq]; simp [h])

theorem splitSlash_single (x : List Char) (h : '/' ∉ x) : splitSlash x = [x] := by
  induction x with
  | nil => simp [splitSlash]
  | cons c x ih =>
    have hc : c ≠ '/' := fun e => h (by simp [e])
    have hx : '/' ∉ x := fun e => h (by simp [e])
    unfold splitSlash
    simp [hc, ih hx]

theorem splitSlash_append (x r : List Char) (h : '/' ∉ x) :
    splitSlash (x ++ '/' :: r) = x :: splitSlash r := by
  induction x with
  | nil => simp [splitSlash]
  | cons c x ih =>
    have hc : c ≠ '/' := fun e => h (by simp [e])
    have hx : '/' ∉ x := fun e => h (by simp [e])
    have := ih hx
    simp only [List.cons_append]
    rw [splitSlash]
    simp [hc, this]

theorem splitSlash_joinSlash (ps : List (List Char)) (hne : ps ≠ []) (h : ∀ c ∈ ps, '/' ∉ c) :
    splitSlash (joinSlash ps) = ps := by
  induction ps with
  | nil => exact absurd rfl hne
  | cons x rest ih =>
    cases rest with
    | nil => simp [joinSlash]; exact splitSlash_single x (h x (by simp))
    | cons y rest =>
      simp only [joinSlash]
      rw [splitSlash_append x _ (h x (by simp))]
      rw [ih (by simp) (fun c hc => h c (List.mem_cons_of_mem _ hc))]

theorem cleanComps_plain (cs acc : List (List Char)) (hcs : ∀ c ∈ cs, '/' ∉ c)
    (hacc : ∀ c ∈ acc, Plain c) : ∀ c ∈ cleanComps cs acc, Plain c := by
  induction cs generalizing acc with
  | nil => intro c hc; simp [cleanComps] at hc; exact hacc c hc
  | cons x cs ih =>
    have hcs' : ∀ c ∈ cs, '/' ∉ c := fun c hc => hcs c (List.mem_cons_of_mem _ hc)
    unfold cleanComps
    split
    · exact ih acc hcs' hacc
    · rename_i h1
      split
      · exact ih acc.tail hcs' (fun c hc => hacc c (List.mem_of_mem_tail hc))
      · rename_i h2
        apply ih (x :: acc) hcs'
        intro c hc
        rcases List.mem_cons.mp hc with e | e
        · subst e
          exact ⟨fun e => h1 (Or.inl e), fun e => h1 (Or.inr e), h2, hcs _ (by simp)⟩
        · exact hacc c e

theorem cleanComps_of_plain (ps acc : List (List Char)) (h : ∀ c ∈ ps, Plain c) :
    cleanComps ps acc = acc.reverse ++ ps := by
  induction ps generalizing acc with
  | nil => simp [cleanComps]
  | cons x ps ih =>
    have hx := h x (by simp)
    unfold cleanComps
    rw [if_neg (by intro e; rcases e with e | e; exact hx.1 e; exact hx.2.1 e), if_neg hx.2.2.1]
    rw [ih (x :: acc) (fun c hc => h c (List.mem_cons_of_mem _ hc))]
    simp

theorem cleanChars_plain (cs : List Char) : ∀ c ∈ cleanChars cs, Plain c :=
  cleanComps_plain _ [] (splitSlash_noSlash cs) (by simp)

/-- idempotence on character lists -/
theorem cleanChars_idem (cs : List Char) :
    cleanChars (joinSlash (cleanChars cs)) = cleanChars cs := by
  have hp := cleanChars_plain cs
  generalize cleanChars cs = ps at hp
  by_cases hne : ps = []
  · subst hne; simp [joinSlash, cleanChars, splitSlash, cleanComps]
  · unfold cleanChars
    rw [splitSlash_joinSlash ps hne (fun c hc => (hp c hc).2.2.2)]
    rw [cleanComps_of_plain ps [] hp]; simp

theorem cleanName_render (s : String) :
    cleanName (renderPath (cleanName s)) = cleanName s := by
  unfold cleanName renderPath
  rw [String.toList_ofList]
  have : ((cleanChars s.toList).map String.ofList).map String.toList = cleanChars s.toList := by
    rw [List.map_map]
    have : (String.toList ∘ String.ofList) = id := by funext l; simp
    rw [this]; simp
  rw [this, cleanChars_idem]

end SV.Toc

namespace SV.Toc

/-! ## `sort.Search` -/

/-- the loop of `sort.Search` stays inside `[i, j]`, whatever the predicate -/
theorem searchLoop_range (f : Nat → Bool) : ∀ (d i j : Nat), j - i = d → i ≤ j →
    i ≤ searchLoop f i j ∧ searchLoop f i j ≤ j := by
  intro d
  induction d using Nat.strongRecOn with
  | _ d ih =>
    intro i j hd hij
    unfold searchLoop
    by_cases h : i < j
    · simp only [h, ↓reduceDIte]
      split
      · have := ih ((i + j) / 2 - i) (by omega) i ((i + j) / 2) rfl (by omega)
        omega
      · have := ih (j - ((i + j) / 2 + 1)) (by omega) ((i + j) / 2 + 1) j rfl (by omega)
        omega
    · simp [h]; omega

/-- for a monotone predicate `sort.Search` returns the first index at which it holds -/
theorem searchLoop_first (f : Nat → Bool) (hm : ∀ a b, a ≤ b → f a = true → f b = true) :
    ∀ (d i j : Nat), j - i = d → i ≤ j → (∀ k, k < i → f k = false) → (∀ k, j ≤ k → f k = true) →
    (∀ k, k < searchLoop f i j → f k = false) ∧ (∀ k, searchLoop f i j ≤ k → f k = true) := by
  intro d
  induction d using Nat.strongRecOn with
  | _ d ih =>
    intro i j hd hij hlo hhi
    unfold searchLoop
    by_cases h : i < j
    · simp only [h, ↓reduceDIte]
      split
      · rename_i hf
        exact ih ((i + j) / 2 - i) (by omega) i ((i + j) / 2) rfl (by omega) hlo
          (fun k hk => hm _ _ hk hf)
      · rename_i hf
        refine ih (j - ((i + j) / 2 + 1)) (by omega) ((i + j) / 2 + 1) j rfl (by omega) ?_ hhi
        intro k hk
        cases hfk : f k with
        | false => rfl
        | true => exact absurd (hm k ((i + j) / 2) (by omega) hfk) hf
    · simp only [h, ↓reduceDIte]
      have : i = j := by omega
      subst this
      exact ⟨hlo, hhi⟩

theorem searchFirst_le (n : Nat) (f : Nat → Bool) : searchFirst n f ≤ n :=
  (searchLoop_range f n 0 n rfl (Nat.zero_le _)).2

theorem find?_eq_getElem?_first {α : Type} (p : α → Bool) :
    ∀ (l : List α) (r : Nat), (∀ k y, k < r → l[k]? = some y → p y = false) →
      (∀ y, l[r]? = some y → p y = true) → r ≤ l.length → l.find? p = l[r]? := by
  intro l
  induction l with
  | nil => intro r _ _ hr; simp at hr; subst hr; simp
  | cons x xs ih =>
    intro r h1 h2 hr
    cases r with
    | zero =>
      have := h2 x (by simp)
      simp [List.find?, this]
    | succ r =>
      have hx : p x = false := h1 0 x (by omega) (by simp)
      simp only [List.find?, hx, List.getElem?_cons_succ]
      apply ih r
      · intro k y hk hy; exact h1 (k + 1) y (by omega) (by simpa using hy)
      · intro y hy; exact h2 y (by simpa using hy)
      · simpa using hr

/-! ## Chunk tables -/

/-- the row's end lies beyond `x` -/
def covers (x : Int) (r : Chunk) : Bool := decide (x < r.chunkOffset + r.chunkSize)

/-- rows tile `[s, t)`: contiguous, each of positive size -/
def Contig : Int → Int → List Chunk → Prop
  | s, t, [] => s = t
  | s, t, r :: rs => r.chunkOffset = s ∧ r.chunkSize > 0 ∧ Contig (s + r.chunkSize) t rs

theorem Contig.le : ∀ {rows : List Chunk} {s t : Int}, Contig s t rows → s ≤ t := by
  intro rows
  induction rows with
  | nil => intro s t h; simp [Contig] at h; omega
  | cons r rs ih => intro s t h; have := ih h.2.2; have := h.2.1; omega

/-- every row of a contiguous table starts at or after `s` and has positive size; ends grow -/
theorem Contig.getElem_mono : ∀ {rows : List Chunk} {s t : Int}, Contig s t rows →
    ∀ (a b : Nat) (ra rb : Chunk), a ≤ b → rows[a]? = some ra → rows[b]? = some rb →
      s ≤ ra.chunkOffset ∧ ra.chunkSize > 0 ∧
      ra.chunkOffset + ra.chunkSize ≤ rb.chunkOffset + rb.chunkSize := by
  intro rows
  induction rows with
  | nil => intro s t _ a b ra rb _ ha; simp at ha
  | cons r rs ih =>
    intro s t h a b ra rb hab ha hb
    obtain ⟨h1, h2, h3⟩ := h
    cases a with
    | zero =>
      simp at ha; subst ha
      cases b with
      | zero => simp at hb; subst hb; omega
      | succ b =>
        simp at hb
        have := ih h3 b b rb rb (Nat.le_refl _) hb hb
        omega
    | succ a =>
      cases b with
      | zero => omega
      | succ b =>
        simp at ha hb
        have := ih h3 a b ra rb (by omega) ha hb
        omega

theorem chunkPred_eq_covers (rows : List Chunk) (x : Int) (i : Nat) (r : Chunk)
    (hr : rows[i]? = some r) (hpos : r.chunkSize > 0) : chunkPred rows x i = covers x r := by
  unfold chunkPred covers
  rw [hr]
  simp only [decide_eq_decide]
  constructor
  · rintro (h | h) <;> omega
  · intro h; omega

/-- On a contiguous table the binary search of both stores finds the first row whose end lies
beyond the offset. -/
theorem searchChunk_contig (rows : List Chunk) (s t : Int) (hc : Contig s t rows) (x : Int) :
    searchChunk rows x = (rows.find? (covers x)).map fun e => (e.chunkOffset, e.chunkSize, e.digest) := by
  have hmono : ∀ a b, a ≤ b → chunkPred rows x a = true → chunkPred rows x b = true := by
    intro a b hab ha
    cases hb : rows[b]? with
    | none => simp [chunkPred, hb]
    | some rb =>
      have hlt : b < rows.length := by
        rcases Nat.lt_or_ge b rows.length with h | h
        · exact h
        · rw [List.getElem?_eq_none h] at hb; cases hb
      have hra : rows[a]? = some rows[a] := List.getElem?_eq_getElem (by omega)
      have hm := hc.getElem_mono a b _ rb hab hra hb
      rw [chunkPred_eq_covers rows x a _ hra hm.2.1] at ha
      have hmb := hc.getElem_mono b b rb rb (Nat.le_refl _) hb hb
      rw [chunkPred_eq_covers rows x b rb hb hmb.2.1]
      simp only [covers, decide_eq_true_eq] at ha ⊢
      omega
  have hsp := searchLoop_first (chunkPred rows x) hmono rows.length 0 rows.length rfl (Nat.zero_le _)
    (by intro k hk; omega)
    (by intro k hk; simp [chunkPred, List.getElem?_eq_none hk])
  have hle := searchFirst_le rows.length (chunkPred rows x)
  unfold searchChunk
  have hfind : rows.find? (covers x) = rows[searchFirst rows.length (chunkPred rows x)]? := by
    apply find?_eq_getElem?_first
    · intro k y hk hy
      have := hsp.1 k hk
      have hm := hc.getElem_mono k k y y (Nat.le_refl _) hy hy
      rwa [chunkPred_eq_covers rows x k y hy hm.2.1] at this
    · intro y hy
      have := hsp.2 _ (Nat.le_refl (searchLoop (chunkPred rows x) 0 rows.length))
      have hm := hc.getElem_mono _ _ y y (Nat.le_refl _) hy hy
      rwa [show searchLoop (chunkPred rows x) 0 rows.length = searchFirst rows.length (chunkPred rows x) from rfl,
        chunkPred_eq_covers rows x _ y hy hm.2.1] at this
    · exact hle
  rw [hfind]
  cases rows[searchFirst rows.length (chunkPred rows x)]? <;> rfl

end SV.Toc

namespace SV.Toc

/-! ## `readChunks` on a contiguous table -/

def eraseSize (r : Chunk) : Chunk := { r with chunkSize := 0 }

/-- chunk offsets strictly increase -/
def StrictOff (l : List Chunk) : Prop := l.Pairwise fun a b => a.chunkOffset < b.chunkOffset

theorem Contig.off_ge : ∀ {rows : List Chunk} {s t : Int}, Contig s t rows →
    ∀ r ∈ rows, s ≤ r.chunkOffset := by
  intro rows
  induction rows with
  | nil => intro s t _ r hr; cases hr
  | cons x xs ih =>
    intro s t h r hr
    rcases List.mem_cons.mp hr with e | e
    · subst e; have := h.1; omega
    · have := ih h.2.2 r e; have := h.2.1; omega

theorem Contig.strictOff : ∀ {rows : List Chunk} {s t : Int}, Contig s t rows → StrictOff rows := by
  intro rows
  induction rows with
  | nil => intro s t _; exact List.Pairwise.nil
  | cons x xs ih =>
    intro s t h
    refine List.Pairwise.cons ?_ (ih h.2.2)
    intro r hr
    have := h.2.2.off_ge r hr
    have := h.1; have := h.2.1
    omega

theorem strictOff_of_eraseSize {a b : List Chunk} (h : a.map eraseSize = b.map eraseSize)
    (hb : StrictOff b) : StrictOff a := by
  have ho : a.map (·.chunkOffset) = b.map (·.chunkOffset) := by
    have := congrArg (List.map (·.chunkOffset)) h
    simpa [List.map_map, Function.comp_def, eraseSize] using this
  unfold StrictOff at *
  have hb' : (b.map (·.chunkOffset)).Pairwise (· < ·) := by
    rw [List.pairwise_map]; exact hb
  rw [← ho, List.pairwise_map] at hb'
  exact hb'

theorem putChunk_fresh (c : Chunk) (acc : List Chunk) (h : ∀ x ∈ acc, x.chunkOffset ≠ c.chunkOffset) :
    putChunk c acc = acc ++ [c] := by
  induction acc with
  | nil => rfl
  | cons x xs ih =>
    unfold putChunk
    rw [if_neg (h x (by simp))]
    rw [ih (fun y hy => h y (List.mem_cons_of_mem _ hy))]
    rfl

theorem foldl_putChunk (rest acc : List Chunk) (h : StrictOff (acc ++ rest)) :
    rest.foldl (fun acc c => putChunk c acc) acc = acc ++ rest := by
  induction rest generalizing acc with
  | nil => simp
  | cons c cs ih =>
    simp only [List.foldl_cons]
    have hfresh : ∀ x ∈ acc, x.chunkOffset ≠ c.chunkOffset := by
      intro x hx
      have := (List.pairwise_append.mp h).2.2 x hx c (by simp)
      omega
    rw [putChunk_fresh c acc hfresh]
    rw [ih (acc ++ [c]) (by simpa using h)]
    simp

theorem sortChunks_sorted (l : List Chunk) (h : StrictOff l) : sortChunks l = l := by
  induction l with
  | nil => rfl
  | cons x xs ih =>
    have hx := List.pairwise_cons.mp h
    show insertChunk x (sortChunks xs) = x :: xs
    rw [ih hx.2]
    cases xs with
    | nil => rfl
    | cons y ys =>
      unfold insertChunk
      rw [if_pos (hx.1 y (by simp))]

theorem resize_contig : ∀ (d m : List Chunk) (s t : Int), Contig s t m →
    d.map eraseSize = m.map eraseSize → resize t d = (m, s) := by
  intro d
  induction d with
  | nil =>
    intro m s t hc he
    cases m with
    | nil => simp [Contig] at hc; simp [resize, hc]
    | cons _ _ => simp at he
  | cons x xs ih =>
    intro m s t hc he
    cases m with
    | nil => simp at he
    | cons y ys =>
      simp only [List.map_cons, List.cons.injEq] at he
      obtain ⟨h1, h2, h3⟩ := hc
      have hrec := ih ys (s + y.chunkSize) t h3 he.2
      simp only [resize, hrec]
      have hxy := he.1
      cases x; cases y
      simp only [eraseSize, Chunk.mk.injEq] at hxy
      simp only at h1 h2
      simp only [Prod.mk.injEq, List.cons.injEq, Chunk.mk.injEq]
      refine ⟨⟨⟨hxy.1, ?_, hxy.2.2.1, hxy.2.2.2⟩, trivial⟩, ?_⟩ <;> omega

/-- `readChunks` recomputes exactly the sizes of a contiguous table from its offsets. -/
theorem readChunks_contig (d m : List Chunk) (t : Int) (hc : Contig 0 t m)
    (he : d.map eraseSize = m.map eraseSize) : readChunks d t = m := by
  have hs : StrictOff d := strictOff_of_eraseSize he hc.strictOff
  cases d with
  | nil =>
    cases m with
    | nil => rfl
    | cons _ _ => simp at he
  | cons first rest =>
    unfold readChunks
    have hrest : StrictOff rest := (List.pairwise_cons.mp hs).2
    have hfold : rest.foldl (fun acc c => putChunk c acc) [] = rest := by
      have := foldl_putChunk rest [] (by simpa using hrest)
      simpa using this
    simp only [hfold]
    have hall : (if rest.isEmpty = true then [first] else sortChunks (first :: sortChunks rest)) = first :: rest := by
      cases rest with
      | nil => rfl
      | cons r rs =>
        simp only [List.isEmpty_cons, Bool.false_eq_true, ↓reduceIte]
        rw [sortChunks_sorted _ hrest, sortChunks_sorted _ hs]
    rw [hall, resize_contig (first :: rest) m 0 t hc he]

/-! ## Attribute encoding round trip -/

theorem foldl_bucketPut (rest acc : List (String × String))
    (h : ((acc ++ rest).map Prod.fst).Nodup) :
    rest.foldl (fun acc kv => bucketPut kv acc) acc = acc ++ rest := by
  induction rest generalizing acc with
  | nil => simp
  | cons c cs ih =>
    simp only [List.foldl_cons]
    have hfresh : ∀ x ∈ acc, x.1 ≠ c.1 := by
      intro x hx e
      rw [List.map_append, List.nodup_append] at h
      exact h.2.2 x.1 (List.mem_map_of_mem hx) c.1 (by simp) e
    have hput : bucketPut c acc = acc ++ [c] := by
      clear ih h
      induction acc with
      | nil => rfl
      | cons x xs ih2 =>
        unfold bucketPut
        rw [if_neg (hfresh x (by simp)), ih2 (fun y hy => hfresh y (List.mem_cons_of_mem _ hy))]
        rfl
    rw [hput, ih (acc ++ [c]) (by simpa using h)]
    simp

theorem normNlink_one_zero : normNlink 0 = normNlink 1 := by decide

/-- `readAttr (writeAttr a)` on a fresh bucket is `a` up to what a container can observe
(`NumLink` 1 is stored as "absent" and read back as 0, which FUSE shows as 1 again). -/
theorem readAttr_writeAttr (a : Attr) (hm : a.mode < 4294967296)
    (hx : (a.xattrs.map Prod.fst).Nodup) :
    normalise (readAttr (writeAttr {} a)) = normalise a := by
  have hxs : (readAttr (writeAttr {} a)).xattrs = a.xattrs := by
    unfold writeAttr readAttr
    cases hxa : a.xattrs with
    | nil => simp
    | cons first rest =>
      cases rest with
      | nil => simp
      | cons r rs =>
        have hnd : (([] ++ (r :: rs)).map Prod.fst).Nodup := by
          rw [hxa] at hx; simp at hx ⊢; exact hx.2
        have := foldl_bucketPut (r :: rs) [] hnd
        simp only [List.nil_append] at this
        simp [this]
  have hsz : (readAttr (writeAttr {} a)).size = a.size := by
    unfold writeAttr readAttr putNZ
    cases a.xattrs with
    | nil => by_cases h : a.size = 0 <;> simp [h]
    | cons f r => cases r <;> (by_cases h : a.size = 0 <;> simp [h])
  have huid : (readAttr (writeAttr {} a)).uid = a.uid := by
    unfold writeAttr readAttr putNZ
    cases a.xattrs with
    | nil => by_cases h : a.uid = 0 <;> simp [h]
    | cons f r => cases r <;> (by_cases h : a.uid = 0 <;> simp [h])
  have hgid : (readAttr (writeAttr {} a)).gid = a.gid := by
    unfold writeAttr readAttr putNZ
    cases a.xattrs with
    | nil => by_cases h : a.gid = 0 <;> simp [h]
    | cons f r => cases r <;> (by_cases h : a.gid = 0 <;> simp [h])
  have hdj : (readAttr (writeAttr {} a)).devMajor = a.devMajor := by
    unfold writeAttr readAttr putNZ
    cases a.xattrs with
    | nil => by_cases h : a.devMajor = 0 <;> simp [h]
    | cons f r => cases r <;> (by_cases h : a.devMajor = 0 <;> simp [h])
  have hdn : (readAttr (writeAttr {} a)).devMinor = a.devMinor := by
    unfold writeAttr readAttr putNZ
    cases a.xattrs with
    | nil => by_cases h : a.devMinor = 0 <;> simp [h]
    | cons f r => cases r <;> (by_cases h : a.devMinor = 0 <;> simp [h])
  have hmt : (readAttr (writeAttr {} a)).mtime = a.mtime := by
    unfold writeAttr readAttr
    cases a.xattrs with
    | nil => cases a.mtime <;> simp
    | cons f r => cases r <;> (cases a.mtime <;> simp)
  have hln : (readAttr (writeAttr {} a)).linkName = a.linkName := by
    unfold writeAttr readAttr
    cases a.xattrs with
    | nil => by_cases h : a.linkName = "" <;> simp [h]
    | cons f r => cases r <;> (by_cases h : a.linkName = "" <;> simp [h])
  have hmode : (readAttr (writeAttr {} a)).mode = a.mode := by
    unfold writeAttr readAttr
    cases a.xattrs with
    | nil => by_cases h : a.mode = 0 <;> simp [h] <;> omega
    | cons f r => cases r <;> (by_cases h : a.mode = 0 <;> simp [h] <;> omega)
  have hnl : normNlink (readAttr (writeAttr {} a)).numLink = normNlink a.numLink := by
    unfold writeAttr readAttr putNZ
    by_cases h : a.numLink - 1 = 0
    · have h1 : a.numLink = 1 := by omega
      cases a.xattrs with
      | nil => simp [h1]; exact normNlink_one_zero
      | cons f r => cases r <;> (simp [h1]; exact normNlink_one_zero)
    · cases a.xattrs with
      | nil => simp [h]
      | cons f r => cases r <;> simp [h]
  unfold normalise
  rw [hxs, hsz, huid, hgid, hdj, hdn, hmt, hln, hmode, hnl]

end SV.Toc

namespace SV.Toc

/-! ## bolt buckets -/

theorem get_filter_ne (b : Bolt) (a c : Nat) (h : c ≠ a) :
    Bolt.get (b.filter (·.1 ≠ a)) c = Bolt.get b c := by
  induction b with
  | nil => rfl
  | cons x xs ih =>
    by_cases hx : x.1 = a
    · simp only [List.filter, hx, ne_eq, not_true_eq_false, decide_false]
      rw [ih]
      obtain ⟨i, t⟩ := x
      simp only at hx
      simp [Bolt.get, hx, Ne.symm h]
    · obtain ⟨i, t⟩ := x
      simp only at hx
      simp only [List.filter, ne_eq, hx, not_false_eq_true, decide_true, Bolt.get]
      rw [ih]

end SV.Toc

namespace SV.Toc

theorem goFileMode_lt (t : String) (m : Int) : goFileMode t m < 4294967296 := by
  unfold goFileMode
  simp only [modeSetuid, modeSetgid, modeSticky, modeDir, modeSymlink, modeDevice, modeCharDevice,
    modeNamedPipe]
  have hperm : ((m % 4096).toNat) % 512 < 512 := Nat.mod_lt _ (by decide)
  generalize ((m % 4096).toNat) % 512 = perm at hperm
  generalize (m % 4096).toNat = mm
  split <;> split <;> split <;> (repeat' split) <;> omega

/-! ## mode bits -/

theorem bits_of (perm a b c ty : Nat) (hp : perm < 512) (ha : a ≤ 1) (hb : b ≤ 1) (hc : c ≤ 1)
    (hty : ty = 0 ∨ ty = 2147483648 ∨ ty = 134217728 ∨ ty = 69206016 ∨ ty = 67108864 ∨ ty = 33554432) :
    modeTypeBits (perm + (c * 8388608 + b * 4194304 + a * 1048576) + ty) = ty := by
  unfold modeTypeBits bit modeDir modeSymlink modeDevice modeNamedPipe modeSocket modeCharDevice modeIrregular
  generalize hn : perm + (c * 8388608 + b * 4194304 + a * 1048576) + ty = n
  rcases hty with h | h | h | h | h | h <;> subst h
  · have e31 : n / 2 ^ 31 % 2 = 0 := by omega
    have e27 : n / 2 ^ 27 % 2 = 0 := by omega
    have e26 : n / 2 ^ 26 % 2 = 0 := by omega
    have e25 : n / 2 ^ 25 % 2 = 0 := by omega
    have e24 : n / 2 ^ 24 % 2 = 0 := by omega
    have e21 : n / 2 ^ 21 % 2 = 0 := by omega
    have e19 : n / 2 ^ 19 % 2 = 0 := by omega
    simp [e31, e27, e26, e25, e24, e21, e19]
  · have e31 : n / 2 ^ 31 % 2 = 1 := by omega
    have e27 : n / 2 ^ 27 % 2 = 0 := by omega
    have e26 : n / 2 ^ 26 % 2 = 0 := by omega
    have e25 : n / 2 ^ 25 % 2 = 0 := by omega
    have e24 : n / 2 ^ 24 % 2 = 0 := by omega
    have e21 : n / 2 ^ 21 % 2 = 0 := by omega
    have e19 : n / 2 ^ 19 % 2 = 0 := by omega
    simp [e31, e27, e26, e25, e24, e21, e19]
  · have e31 : n / 2 ^ 31 % 2 = 0 := by omega
    have e27 : n / 2 ^ 27 % 2 = 1 := by omega
    have e26 : n / 2 ^ 26 % 2 = 0 := by omega
    have e25 : n / 2 ^ 25 % 2 = 0 := by omega
    have e24 : n / 2 ^ 24 % 2 = 0 := by omega
    have e21 : n / 2 ^ 21 % 2 = 0 := by omega
    have e19 : n / 2 ^ 19 % 2 = 0 := by omega
    simp [e31, e27, e26, e25, e24, e21, e19]
  · have e31 : n / 2 ^ 31 % 2 = 0 := by omega
    have e27 : n / 2 ^ 27 % 2 = 0 := by omega
    have e26 : n / 2 ^ 26 % 2 = 1 := by omega
    have e25 : n / 2 ^ 25 % 2 = 0 := by omega
    have e24 : n / 2 ^ 24 % 2 = 0 := by omega
    have e21 : n / 2 ^ 21 % 2 = 1 := by omega
    have e19 : n / 2 ^ 19 % 2 = 0 := by omega
    simp [e31, e27, e26, e25, e24, e21, e19]
  · have e31 : n / 2 ^ 31 % 2 = 0 := by omega
    have e27 : n / 2 ^ 27 % 2 = 0 := by omega
    have e26 : n / 2 ^ 26 % 2 = 1 := by omega
    have e25 : n / 2 ^ 25 % 2 = 0 := by omega
    have e24 : n / 2 ^ 24 % 2 = 0 := by omega
    have e21 : n / 2 ^ 21 % 2 = 0 := by omega
    have e19 : n / 2 ^ 19 % 2 = 0 := by omega
    simp [e31, e27, e26, e25, e24, e21, e19]
  · have e31 : n / 2 ^ 31 % 2 = 0 := by omega
    have e27 : n / 2 ^ 27 % 2 = 0 := by omega
    have e26 : n / 2 ^ 26 % 2 = 0 := by omega
    have e25 : n / 2 ^ 25 % 2 = 1 := by omega
    have e24 : n / 2 ^ 24 % 2 = 0 := by omega
    have e21 : n / 2 ^ 21 % 2 = 0 := by omega
    have e19 : n / 2 ^ 19 % 2 = 0 := by omega
    simp [e31, e27, e26, e25, e24, e21, e19]

def typeBitsOf (t : String) : Nat :=
  if t = "dir" then modeDir else if t = "symlink" then modeSymlink
  else if t = "char" then modeDevice + modeCharDevice else if t = "block" then modeDevice
  else if t = "fifo" then modeNamedPipe else 0

theorem modeTypeBits_go (t : String) (m : Int) : modeTypeBits (goFileMode t m) = typeBitsOf t := by
  unfold goFileMode typeBitsOf
  simp only []
  have hperm : ((m % 4096).toNat) % 512 < 512 := Nat.mod_lt _ (by decide)
  generalize ((m % 4096).toNat) % 512 = perm at hperm
  generalize bit (m % 4096).toNat 11 = b1
  generalize bit (m % 4096).toNat 10 = b2
  generalize bit (m % 4096).toNat 9 = b3
  have hfl : ((if b1 = true then modeSetuid else 0) + (if b2 = true then modeSetgid else 0) +
      (if b3 = true then modeSticky else 0)) =
      ((if b1 = true then 1 else 0) * 8388608 + (if b2 = true then 1 else 0) * 4194304 +
        (if b3 = true then 1 else 0) * 1048576) := by
    cases b1 <;> cases b2 <;> cases b3 <;> decide
  rw [hfl]
  apply bits_of perm _ _ _ _ hperm
  · split <;> omega
  · split <;> omega
  · split <;> omega
  · simp only [modeDir, modeSymlink, modeDevice, modeCharDevice, modeNamedPipe]
    (repeat' split) <;> simp

theorem fmIsRegular_go (t : String) (m : Int) : fmIsRegular (goFileMode t m) = decide (typeBitsOf t = 0) := by
  unfold fmIsRegular; rw [modeTypeBits_go]


theorem bit31_of (perm a b c ty : Nat) (hp : perm < 512) (ha : a ≤ 1) (hb : b ≤ 1) (hc : c ≤ 1)
    (hty : ty = 0 ∨ ty = 134217728 ∨ ty = 69206016 ∨ ty = 67108864 ∨ ty = 33554432) :
    bit (perm + (c * 8388608 + b * 4194304 + a * 1048576) + ty) 31 = false := by
  unfold bit
  generalize hn : perm + (c * 8388608 + b * 4194304 + a * 1048576) + ty = n
  have : n / 2 ^ 31 % 2 = 0 := by
    rcases hty with h | h | h | h | h <;> subst h <;> omega
  simp [this]

/-- only the type `dir` sets the directory bit -/
theorem fmIsDir_go_false (t : String) (m : Int) (h : t ≠ "dir") : fmIsDir (goFileMode t m) = false := by
  unfold fmIsDir goFileMode
  simp only []
  have hperm : ((m % 4096).toNat) % 512 < 512 := Nat.mod_lt _ (by decide)
  generalize ((m % 4096).toNat) % 512 = perm at hperm
  generalize bit (m % 4096).toNat 11 = b1
  generalize bit (m % 4096).toNat 10 = b2
  generalize bit (m % 4096).toNat 9 = b3
  have hfl : ((if b1 = true then modeSetuid else 0) + (if b2 = true then modeSetgid else 0) +
      (if b3 = true then modeSticky else 0)) =
      ((if b1 = true then 1 else 0) * 8388608 + (if b2 = true then 1 else 0) * 4194304 +
        (if b3 = true then 1 else 0) * 1048576) := by
    cases b1 <;> cases b2 <;> cases b3 <;> decide
  rw [hfl]
  apply bit31_of perm _ _ _ _ hperm
  · split <;> omega
  · split <;> omega
  · split <;> omega
  · simp only [h, ↓reduceIte, modeSymlink, modeDevice, modeCharDevice, modeNamedPipe]
    (repeat' split) <;> simp

end SV.Toc

