/-
Helper definitions (specification vocabulary) and lemmas for the C14 model `SV.Model.Sort`.
Core Lean only.
-/
import SV.Model.Sort

namespace SV.Sort

/-! ## `tarFile` lookups -/

theorem get_some {tf : List Entry} {k : Name} {e : Entry} (h : get tf k = some e) :
    e ∈ tf ∧ e.key = k := by
  unfold get at h
  exact ⟨List.mem_of_find?_eq_some h, by simpa using List.find?_some h⟩

theorem get_eq_none {tf : List Entry} {k : Name} : get tf k = none ↔ ∀ e ∈ tf, e.key ≠ k := by
  unfold get
  simp

theorem get_isSome_of_mem {tf : List Entry} {e : Entry} (h : e ∈ tf) : (get tf e.key).isSome := by
  cases hg : get tf e.key with
  | some x => rfl
  | none => exact absurd rfl (get_eq_none.mp hg e h)

/-- No two entries of the stream have the same cleaned name. -/
def KeysNodup (tf : List Entry) : Prop := (tf.map Entry.key).Nodup

theorem get_of_mem {tf : List Entry} (hn : KeysNodup tf) {e : Entry} (h : e ∈ tf) :
    get tf e.key = some e := by
  induction tf with
  | nil => cases h
  | cons x xs ih =>
    unfold KeysNodup at hn
    simp only [List.map_cons, List.nodup_cons] at hn
    unfold get
    simp only [List.find?_cons]
    by_cases hx : x.key = e.key
    · simp only [hx, beq_self_eq_true]
      rcases List.mem_cons.mp h with rfl | h'
      · rfl
      · exact absurd (hx ▸ List.mem_map_of_mem h') hn.1
    · have : (x.key == e.key) = false := by simpa using hx
      simp only [this]
      rcases List.mem_cons.mp h with rfl | h'
      · exact absurd rfl hx
      · exact ih hn.2 h'

theorem remove_eq_self {tf : List Entry} {k : Name} (h : get tf k = none) : remove tf k = tf := by
  unfold remove
  rw [List.filter_eq_self]
  intro e he
  simpa using get_eq_none.mp h e he

/-! ## `importTar` = drop landmarks, keep the LAST entry of every cleaned name, in place -/

def nonLandmarks (es : List Entry) : List Entry := es.filter (fun e => !isLandmarkKey e.key)

/-- Keep an entry iff no later entry has the same cleaned name. -/
def dedupLast : List Entry → List Entry
  | [] => []
  | e :: es => if es.any (fun x => x.key == e.key) then dedupLast es else e :: dedupLast es

theorem importStep_eq (tf : List Entry) (e : Entry) :
    importStep tf e = if isLandmarkKey e.key then tf else remove tf e.key ++ [e] := by
  unfold importStep
  by_cases hl : isLandmarkKey e.key = true
  · simp [hl]
  · simp only [hl]
    cases hg : get tf e.key with
    | some x => simp
    | none => simp [remove_eq_self hg]

theorem foldl_importStep (es : List Entry) : ∀ acc : List Entry,
    es.foldl importStep acc =
      acc.filter (fun a => !(nonLandmarks es).any (fun x => x.key == a.key)) ++ dedupLast (nonLandmarks es) := by
  induction es with
  | nil =>
    intro acc
    have : acc.filter (fun _ => true) = acc := List.filter_eq_self.mpr (fun _ _ => rfl)
    simp [nonLandmarks, dedupLast, this]
  | cons e es ih =>
    intro acc
    simp only [List.foldl_cons]
    rw [ih, importStep_eq]
    by_cases hl : isLandmarkKey e.key = true
    · simp [hl, nonLandmarks]
    · have hnl : nonLandmarks (e :: es) = e :: nonLandmarks es := by simp [nonLandmarks, hl]
      have hfilt : (remove acc e.key).filter (fun a => !(nonLandmarks es).any (fun x => x.key == a.key)) =
          acc.filter (fun a => !(e :: nonLandmarks es).any (fun x => x.key == a.key)) := by
        unfold remove
        rw [List.filter_filter]
        apply List.filter_congr
        intro a _
        by_cases hk : e.key = a.key
        · simp [hk]
        · have h1 : (a.key == e.key) = false := by simpa using fun h => hk h.symm
          have h2 : (e.key == a.key) = false := by simpa using hk
          simp [h1, h2]
      simp only [hl, hnl, dedupLast, Bool.false_eq_true, if_false]
      rw [List.filter_append, hfilt, List.append_assoc]
      congr 1
      by_cases ha : (nonLandmarks es).any (fun x => x.key == e.key) = true
      · simp [ha]
      · simp [ha]

theorem importTar_eq (es : List Entry) : importTar es = dedupLast (nonLandmarks es) := by
  unfold importTar
  rw [foldl_importStep]
  simp

theorem dedupLast_sublist : ∀ l : List Entry, (dedupLast l).Sublist l
  | [] => List.Sublist.slnil
  | e :: es => by
    unfold dedupLast
    split
    · exact (dedupLast_sublist es).cons _
    · exact (dedupLast_sublist es).cons_cons _

theorem mem_dedupLast_key {l : List Entry} {e : Entry} (h : e ∈ l) :
    ∃ x ∈ dedupLast l, x.key = e.key := by
  induction l generalizing e with
  | nil => cases h
  | cons a as ih =>
    unfold dedupLast
    by_cases hany : as.any (fun x => x.key == a.key) = true
    · simp only [hany, if_true]
      rcases List.mem_cons.mp h with rfl | h'
      · obtain ⟨y, hy, hyk⟩ := List.any_eq_true.mp hany
        obtain ⟨x, hx, hxk⟩ := ih hy
        exact ⟨x, hx, by rw [hxk]; simpa using hyk⟩
      · exact ih h'
    · simp only [hany]
      rcases List.mem_cons.mp h with rfl | h'
      · exact ⟨e, List.mem_cons_self .., rfl⟩
      · obtain ⟨x, hx, hxk⟩ := ih h'
        exact ⟨x, List.mem_cons_of_mem _ hx, hxk⟩

theorem dedupLast_keysNodup : ∀ l : List Entry, KeysNodup (dedupLast l)
  | [] => by simp [dedupLast, KeysNodup]
  | e :: es => by
    unfold dedupLast
    split
    · exact dedupLast_keysNodup es
    · rename_i hany
      unfold KeysNodup
      simp only [List.map_cons, List.nodup_cons]
      refine ⟨?_, dedupLast_keysNodup es⟩
      intro hmem
      obtain ⟨x, hx, hxk⟩ := List.mem_map.mp hmem
      apply hany
      exact List.any_eq_true.mpr ⟨x, (dedupLast_sublist es).subset hx, by simpa using hxk⟩

/-- "Last duplicate wins": an entry survives iff it is an occurrence with no later entry of the
same cleaned name. -/
theorem mem_dedupLast_iff {l : List Entry} {e : Entry} :
    e ∈ dedupLast l ↔ ∃ pre post, l = pre ++ e :: post ∧ ∀ x ∈ post, x.key ≠ e.key := by
  induction l with
  | nil => simp [dedupLast]
  | cons a as ih =>
    unfold dedupLast
    constructor
    · intro h
      by_cases hany : as.any (fun x => x.key == a.key) = true
      · simp only [hany, if_true] at h
        obtain ⟨pre, post, hl, hp⟩ := ih.mp h
        exact ⟨a :: pre, post, by simp [hl], hp⟩
      · simp only [hany] at h
        rcases List.mem_cons.mp h with rfl | h'
        · refine ⟨[], as, rfl, ?_⟩
          intro x hx hk
          exact hany (List.any_eq_true.mpr ⟨x, hx, by simpa using hk⟩)
        · obtain ⟨pre, post, hl, hp⟩ := ih.mp h'
          exact ⟨a :: pre, post, by simp [hl], hp⟩
    · rintro ⟨pre, post, hl, hp⟩
      cases pre with
      | nil =>
        simp only [List.nil_append, List.cons.injEq] at hl
        obtain ⟨rfl, rfl⟩ := hl
        have hany : ¬ (as.any (fun x => x.key == a.key) = true) := by
          intro hany
          obtain ⟨y, hy, hyk⟩ := List.any_eq_true.mp hany
          exact hp y hy (by simpa using hyk)
        simp [hany]
      | cons b pre =>
        simp only [List.cons_append, List.cons.injEq] at hl
        obtain ⟨rfl, rfl⟩ := hl
        have : e ∈ dedupLast (pre ++ e :: post) := ih.mpr ⟨pre, post, rfl, hp⟩
        split
        · exact this
        · exact List.mem_cons_of_mem _ this

/-! ## `moveRec`: specification vocabulary -/

/-- `Reach inp k d`: placing `k` may touch `d` — `k` itself, and, as long as the name is a non-root
entry of the tar, its parent directory and (for a hardlink) its target, transitively.  This is
exactly the call graph of `moveRec`. -/
inductive Reach (inp : List Entry) : Name → Name → Prop
  | refl (k : Name) : Reach inp k k
  | parent {k d : Name} {e : Entry} :
      k ≠ [] → get inp k = some e → Reach inp k.dropLast d → Reach inp k d
  | link {k d : Name} {e : Entry} :
      k ≠ [] → get inp k = some e → e.isLink = true →
      Reach inp (cleanEntryName e.linkName) d → Reach inp k d

/-- `b` is needed by a prerequisite of the tar entry `a` (its parent directory or hardlink target). -/
def StrictReach (inp : List Entry) (a b : Name) : Prop :=
  a ≠ [] ∧ ∃ e, get inp a = some e ∧
    (Reach inp a.dropLast b ∨ (e.isLink = true ∧ Reach inp (cleanEntryName e.linkName) b))

/-- `k` is needed by one of its own prerequisites: `k` lies on a cycle of the parent/hardlink graph. -/
def SelfReach (inp : List Entry) (k : Name) : Prop := StrictReach inp k k

/-- The error status of `moveRecVisiting` as a pure function of the tar and the recursion path (it
does not depend on what has been moved already, `moveRec_status`). -/
def resolve (inp : List Entry) : Nat → List Name → Name → Status
  | 0, _, _ => .diverge
  | fuel + 1, vis, k =>
    if k = [] then .ok
    else
      match get inp k with
      | none => .notFound
      | some e =>
        if vis.contains k then .cycle
        else if resolve inp fuel (k :: vis) k.dropLast ≠ .ok then resolve inp fuel (k :: vis) k.dropLast
        else if e.isLink then resolve inp fuel (k :: vis) (cleanEntryName e.linkName) else .ok

/-- The prerequisite `d` is satisfied by the entries `pre`: unless `d` is the root it is an entry of
the tar, and that entry (for the root: if there is one) is in `pre`. -/
def PlacedIn (inp : List Entry) (pre : List Entry) (d : Name) : Prop :=
  (d ≠ [] → (get inp d).isSome) ∧ ∀ x, get inp d = some x → x ∈ pre

/-- Parent directory and hardlink target of `e` are among `pre`. -/
def ClosedAt (inp : List Entry) (pre : List Entry) (e : Entry) : Prop :=
  e.key ≠ [] →
    PlacedIn inp pre e.key.dropLast ∧
    (e.isLink = true → PlacedIn inp pre (cleanEntryName e.linkName))

/-- `ClosedAt` for every entry w.r.t. the entries placed before it; the list is given last-placed
first. -/
def ClosedR (inp : List Entry) : List Entry → Prop
  | [] => True
  | e :: rest => ClosedAt inp rest e ∧ ClosedR inp rest

/-- Invariant of the `sorted` / `picked` pair while `sortEntries` runs. -/
structure Inv (inp : List Entry) (st : MState) : Prop where
  sub : ∀ e ∈ st.out, get inp e.key = some e
  picked : ∀ k, k ∈ st.picked ↔ ∃ e ∈ st.out, e.key = k
  nodup : KeysNodup st.out
  closed : ClosedR inp st.out.reverse

theorem PlacedIn.mono {inp pre pre' d} (h : PlacedIn inp pre d) (hs : ∀ x ∈ pre, x ∈ pre') :
    PlacedIn inp pre' d :=
  ⟨h.1, fun x hx => hs x (h.2 x hx)⟩

theorem Inv.empty (inp : List Entry) : Inv inp ⟨[], []⟩ :=
  ⟨by simp, by simp, by simp [KeysNodup], by simp [ClosedR]⟩

theorem Inv.check {inp st} (h : Inv inp st) (k : Name) :
    ((get inp k).isNone && (get st.out k).isNone && !st.picked.contains k) = (get inp k).isNone := by
  cases hg : get inp k with
  | some e => simp
  | none =>
    have h1 : get st.out k = none := by
      rw [get_eq_none]
      intro e he hk
      have := h.sub e he
      rw [hk, hg] at this
      cases this
    have h2 : k ∉ st.picked := by
      intro hp
      obtain ⟨e, he, hk⟩ := (h.picked k).mp hp
      have := h.sub e he
      rw [hk, hg] at this
      cases this
    simp [h1, h2]

theorem Inv.mem_of_picked {inp st} (h : Inv inp st) {k : Name} {e : Entry}
    (hg : get inp k = some e) (hp : k ∈ st.picked) : e ∈ st.out := by
  obtain ⟨e', he', hk⟩ := (h.picked k).mp hp
  have := h.sub e' he'
  rw [hk, hg] at this
  cases this
  exact he'

theorem Inv.add {inp st} (h : Inv inp st) {k : Name} {e : Entry} (hg : get inp k = some e)
    (hp : k ∉ st.picked) (hc : ClosedAt inp st.out e) : Inv inp (st.add k e) := by
  have hek : e.key = k := (get_some hg).2
  refine ⟨?_, ?_, ?_, ?_⟩
  · intro x hx
    simp only [MState.add, List.mem_append, List.mem_singleton] at hx
    rcases hx with hx | rfl
    · exact h.sub x hx
    · rw [hek]; exact hg
  · intro k'
    show k' ∈ k :: st.picked ↔ ∃ x ∈ st.out ++ [e], x.key = k'
    rw [List.mem_cons]
    simp only [List.mem_append, List.mem_singleton]
    constructor
    · rintro (rfl | hk')
      · exact ⟨e, Or.inr rfl, hek⟩
      · obtain ⟨x, hx, hxk⟩ := (h.picked k').mp hk'
        exact ⟨x, Or.inl hx, hxk⟩
    · rintro ⟨x, hx | rfl, hxk⟩
      · exact Or.inr ((h.picked k').mpr ⟨x, hx, hxk⟩)
      · exact Or.inl (hxk.symm.trans hek)
  · have := h.nodup
    unfold KeysNodup at this ⊢
    simp only [MState.add, List.map_append, List.map_cons, List.map_nil]
    rw [List.nodup_append]
    refine ⟨this, by simp, ?_⟩
    intro a ha b hb
    simp only [List.mem_singleton] at hb
    subst hb
    intro hab
    obtain ⟨x, hx, hxk⟩ := List.mem_map.mp ha
    exact hp ((h.picked k).mpr ⟨x, hx, by rw [hxk, hab, hek]⟩)
  · simp only [MState.add, List.reverse_append, List.reverse_cons, List.reverse_nil, List.nil_append,
      List.singleton_append]
    refine ⟨?_, h.closed⟩
    intro hne
    have := hc hne
    exact ⟨this.1.mono (fun x hx => List.mem_reverse.mpr hx),
      fun hl => (this.2 hl).mono (fun x hx => List.mem_reverse.mpr hx)⟩

theorem moveRec_zero (inp k st vis) : moveRecVisiting inp 0 k st vis = (st, .diverge) := rfl

theorem moveRec_root (inp fuel st vis) : moveRecVisiting inp (fuel + 1) [] st vis =
    match get inp [] with
    | some e => if st.picked.contains [] then (st, .ok) else (st.add [] e, .ok)
    | none => (st, .ok) := by
  cases h : get inp [] <;> simp [moveRecVisiting, h]

theorem moveRec_missing {inp st} (h : Inv inp st) (fuel vis) {k : Name} (hk : k ≠ [])
    (hg : get inp k = none) : moveRecVisiting inp (fuel + 1) k st vis = (st, .notFound) := by
  have := h.check k
  simp only [moveRecVisiting, hk, if_false]
  rw [this, hg]
  simp

theorem moveRec_cycle {inp st} (h : Inv inp st) (fuel) {vis : List Name} {k : Name} (hk : k ≠ [])
    {e : Entry} (hg : get inp k = some e) (hv : k ∈ vis) :
    moveRecVisiting inp (fuel + 1) k st vis = (st, .cycle) := by
  have := h.check k
  simp only [moveRecVisiting, hk, if_false]
  rw [this, hg]
  simp [hv]

theorem moveRec_found {inp st} (h : Inv inp st) (fuel) {vis : List Name} {k : Name} (hk : k ≠ [])
    {e : Entry} (hg : get inp k = some e) (hv : k ∉ vis) :
    moveRecVisiting inp (fuel + 1) k st vis =
      (let r1 := moveRecVisiting inp fuel k.dropLast st (k :: vis)
       if r1.2 ≠ .ok then r1 else
       let r2 := if e.isLink then moveRecVisiting inp fuel (cleanEntryName e.linkName) r1.1 (k :: vis) else (r1.1, .ok)
       if r2.2 ≠ .ok then r2 else
       if r2.1.picked.contains k then (r2.1, .ok) else (r2.1.add k e, .ok)) := by
  have := h.check k
  simp only [moveRecVisiting, hk, if_false]
  rw [this, hg]
  simp [hv]

/-- What one call `moveRecVisiting inp fuel k st vis = r` guarantees (`[] ∉ vis`: the root is never
put on the recursion path). -/
structure MovePost (inp : List Entry) (fuel : Nat) (k : Name) (st : MState) (vis : List Name)
    (r : MState × Status) : Prop where
  inv : Inv inp r.1
  block : ∃ b, r.1.out = st.out ++ b ∧ (∀ x ∈ b, Reach inp k x.key) ∧ (∀ x ∈ b, x.key ∉ vis) ∧
    (r.2 = .ok → ∀ e, get inp k = some e → e ∉ st.out → b.getLast? = some e)
  placed : r.2 = .ok → PlacedIn inp r.1.out k
  status : r.2 = resolve inp fuel vis k

theorem moveRec_spec (inp : List Entry) :
    ∀ fuel k st vis, Inv inp st → [] ∉ vis →
      MovePost inp fuel k st vis (moveRecVisiting inp fuel k st vis) := by
  intro fuel
  induction fuel with
  | zero =>
    intro k st vis h _
    exact ⟨h, ⟨[], by simp [moveRec_zero], by simp, by simp, by simp [moveRec_zero]⟩,
      by simp [moveRec_zero], rfl⟩
  | succ f ih =>
    intro k st vis h hroot
    by_cases hk : k = []
    · subst hk
      rw [moveRec_root]
      cases hg : get inp [] with
      | none =>
        refine ⟨h, ⟨[], by simp, by simp, by simp, ?_⟩, ?_, by simp [resolve]⟩
        · intro _ e he; rw [hg] at he; cases he
        · intro _; exact ⟨fun hne => absurd rfl hne, fun x hx => by rw [hg] at hx; cases hx⟩
      | some e =>
        have hek : e.key = [] := (get_some hg).2
        by_cases hp : st.picked.contains [] = true
        · have hp' : [] ∈ st.picked := by simpa using hp
          have hmem : e ∈ st.out := h.mem_of_picked hg hp'
          simp only [hp, if_true]
          refine ⟨h, ⟨[], by simp, by simp, by simp, ?_⟩, ?_, by simp [resolve]⟩
          · intro _ e' he' hne
            rw [hg] at he'; cases he'
            exact absurd hmem hne
          · intro _
            exact ⟨fun hne => absurd rfl hne, fun x hx => by rw [hg] at hx; cases hx; exact hmem⟩
        · have hp' : [] ∉ st.picked := by simpa using hp
          simp only [hp]
          have hinv : Inv inp (st.add [] e) := h.add hg hp' (fun hne => absurd hek hne)
          refine ⟨hinv, ⟨[e], rfl, ?_, ?_, ?_⟩, ?_, by simp [resolve]⟩
          · intro x hx
            simp only [List.mem_singleton] at hx
            subst hx
            rw [hek]; exact Reach.refl _
          · intro x hx
            simp only [List.mem_singleton] at hx
            subst hx
            rw [hek]; exact hroot
          · intro _ e' he' _
            rw [hg] at he'; cases he'
            rfl
          · intro _
            exact ⟨fun hne => absurd rfl hne, fun x hx => by
              rw [hg] at hx; cases hx; simp [MState.add]⟩
    · cases hg : get inp k with
      | none =>
        rw [moveRec_missing h f vis hk hg]
        refine ⟨h, ⟨[], by simp, by simp, by simp, by simp⟩, by simp, ?_⟩
        simp [resolve, hk, hg]
      | some e =>
        have hek : e.key = k := (get_some hg).2
        by_cases hv : k ∈ vis
        · rw [moveRec_cycle h f hk hg hv]
          refine ⟨h, ⟨[], by simp, by simp, by simp, by simp⟩, by simp, ?_⟩
          simp [resolve, hk, hg, hv]
        rw [moveRec_found h f hk hg hv]
        have hroot' : [] ∉ k :: vis := by
          intro hm
          rcases List.mem_cons.mp hm with h' | h'
          · exact hk h'.symm
          · exact hroot h'
        have h1 := ih k.dropLast st (k :: vis) h hroot'
        generalize moveRecVisiting inp f k.dropLast st (k :: vis) = r1 at h1
        obtain ⟨b1, hb1, hreach1, hvis1, _⟩ := h1.block
        have hres : resolve inp (f + 1) vis k =
            if resolve inp f (k :: vis) k.dropLast ≠ .ok then resolve inp f (k :: vis) k.dropLast
            else if e.isLink then resolve inp f (k :: vis) (cleanEntryName e.linkName) else .ok := by
          simp [resolve, hk, hg, hv]
        by_cases hs1 : r1.2 = .ok
        · -- the parent call succeeded
          have hpl1 := h1.placed hs1
          simp only [hs1, ne_eq, not_true_eq_false, if_false]
          -- the hardlink-target call (or nothing)
          have h2 : ∃ r2, (if e.isLink then moveRecVisiting inp f (cleanEntryName e.linkName) r1.1 (k :: vis) else (r1.1, .ok)) = r2 ∧
              Inv inp r2.1 ∧ (∃ b2, r2.1.out = r1.1.out ++ b2 ∧
                (∀ x ∈ b2, e.isLink = true ∧ Reach inp (cleanEntryName e.linkName) x.key) ∧
                (∀ x ∈ b2, x.key ∉ k :: vis)) ∧
              (r2.2 = .ok → e.isLink = true → PlacedIn inp r2.1.out (cleanEntryName e.linkName)) ∧
              r2.2 = (if e.isLink then resolve inp f (k :: vis) (cleanEntryName e.linkName) else .ok) := by
            by_cases hl : e.isLink = true
            · have h2 := ih (cleanEntryName e.linkName) r1.1 (k :: vis) h1.inv hroot'
              rw [if_pos hl]
              obtain ⟨b2, hb2, hreach2, hvis2, _⟩ := h2.block
              exact ⟨_, rfl, h2.inv, ⟨b2, hb2, fun x hx => ⟨hl, hreach2 x hx⟩, hvis2⟩, fun hok _ => h2.placed hok,
                by rw [if_pos hl]; exact h2.status⟩
            · rw [if_neg hl, if_neg hl]
              exact ⟨_, rfl, h1.inv, ⟨[], by simp, by simp, by simp⟩, fun _ hl' => absurd hl' hl, by simp⟩
          obtain ⟨r2, hr2, hinv2, ⟨b2, hb2, hreach2, hvis2⟩, hpl2, hst2⟩ := h2
          rw [hr2]
          have hsub12 : ∀ x ∈ r1.1.out, x ∈ r2.1.out := fun x hx => by rw [hb2]; exact List.mem_append_left _ hx
          have hreachB : ∀ x ∈ b1 ++ b2, Reach inp k x.key := by
            intro x hx
            rcases List.mem_append.mp hx with hx | hx
            · exact Reach.parent hk hg (hreach1 x hx)
            · exact Reach.link hk hg (hreach2 x hx).1 (hreach2 x hx).2
          have hvisB : ∀ x ∈ b1 ++ b2, x.key ∉ k :: vis := by
            intro x hx
            rcases List.mem_append.mp hx with hx | hx
            · exact hvis1 x hx
            · exact hvis2 x hx
          have hvisB' : ∀ x ∈ b1 ++ b2, x.key ∉ vis :=
            fun x hx hm => hvisB x hx (List.mem_cons_of_mem _ hm)
          by_cases hs2 : r2.2 = .ok
          · simp only [hs2, not_true_eq_false, if_false]
            have hstat : Status.ok = resolve inp (f + 1) vis k := by
              rw [hres, ← h1.status, hs1, ← hst2, hs2]; simp
            by_cases hp : r2.1.picked.contains k = true
            · have hp' : k ∈ r2.1.picked := by simpa using hp
              have hmem : e ∈ r2.1.out := hinv2.mem_of_picked hg hp'
              simp only [hp, if_true]
              refine ⟨hinv2, ⟨b1 ++ b2, by rw [hb2, hb1, List.append_assoc], hreachB, hvisB', ?_⟩, ?_, hstat⟩
              · intro _ e' he' hne
                rw [hg] at he'; cases he'
                -- `e` was not placed before, and the sub-calls never place a name on the path
                rw [hb2, hb1, List.append_assoc] at hmem
                rcases List.mem_append.mp hmem with hm | hm
                · exact absurd hm hne
                · exact absurd (by rw [hek]; exact List.mem_cons_self ..) (hvisB e hm)
              · intro _
                exact ⟨fun _ => by simp [hg], fun x hx => by rw [hg] at hx; cases hx; exact hmem⟩
            · have hp' : k ∉ r2.1.picked := by simpa using hp
              simp only [hp]
              have hclosed : ClosedAt inp r2.1.out e := by
                intro _
                rw [hek]
                exact ⟨hpl1.mono hsub12, fun hl => hpl2 hs2 hl⟩
              have hinv3 : Inv inp (r2.1.add k e) := hinv2.add hg hp' hclosed
              refine ⟨hinv3, ⟨b1 ++ b2 ++ [e], ?_, ?_, ?_, ?_⟩, ?_, hstat⟩
              · simp only [MState.add]; rw [hb2, hb1]; simp [List.append_assoc]
              · intro x hx
                rcases List.mem_append.mp hx with hx | hx
                · exact hreachB x hx
                · simp only [List.mem_singleton] at hx
                  subst hx
                  rw [hek]; exact Reach.refl _
              · intro x hx
                rcases List.mem_append.mp hx with hx | hx
                · exact hvisB' x hx
                · simp only [List.mem_singleton] at hx
                  subst hx
                  rw [hek]; exact hv
              · intro _ e' he' _
                rw [hg] at he'; cases he'
                simp
              · intro _
                exact ⟨fun _ => by simp [hg], fun x hx => by rw [hg] at hx; cases hx; simp [MState.add]⟩
          · -- the hardlink-target call failed
            simp only [hs2, not_false_eq_true, if_true]
            refine ⟨hinv2, ⟨b1 ++ b2, by rw [hb2, hb1, List.append_assoc], hreachB, hvisB', fun h' => absurd h' hs2⟩,
              fun h' => absurd h' hs2, ?_⟩
            rw [hres, ← h1.status, hs1, hst2]; simp
        · -- the parent call failed
          simp only [hs1, ne_eq, not_false_eq_true, if_true]
          refine ⟨h1.inv, ⟨b1, hb1, fun x hx => Reach.parent hk hg (hreach1 x hx),
            fun x hx hm => hvis1 x hx (List.mem_cons_of_mem _ hm), fun h' => absurd h' hs1⟩,
            fun h' => absurd h' hs1, ?_⟩
          rw [hres, ← h1.status]; simp [hs1]

/-! ## When `moveRec` reports an error, and why it terminates -/

/-- Placing `k` needs a name that is not in the tar. -/
def Missing (inp : List Entry) (k : Name) : Prop :=
  ∃ d, Reach inp k d ∧ d ≠ [] ∧ get inp d = none

/-- Placing `k` runs into a cycle of the parent/hardlink graph. -/
def ReachesCycle (inp : List Entry) (k : Name) : Prop :=
  ∃ d, Reach inp k d ∧ SelfReach inp d

theorem reach_root {inp : List Entry} {d : Name} (h : Reach inp [] d) : d = [] := by
  cases h with
  | refl => rfl
  | parent hk _ _ => exact absurd rfl hk
  | link hk _ _ _ => exact absurd rfl hk

theorem reach_trans {inp : List Entry} {a b c : Name} (h1 : Reach inp a b) (h2 : Reach inp b c) :
    Reach inp a c := by
  induction h1 with
  | refl => exact h2
  | parent hk hg _ ih => exact Reach.parent hk hg (ih h2)
  | link hk hg hl _ ih => exact Reach.link hk hg hl (ih h2)

theorem StrictReach.step {inp : List Entry} {v k d : Name} (h : StrictReach inp v k)
    (hr : Reach inp k d) : StrictReach inp v d := by
  obtain ⟨hv, e, hg, h' | ⟨hl, h'⟩⟩ := h
  · exact ⟨hv, e, hg, Or.inl (reach_trans h' hr)⟩
  · exact ⟨hv, e, hg, Or.inr ⟨hl, reach_trans h' hr⟩⟩

theorem resolve_succ_found {inp : List Entry} {vis : List Name} {k : Name} {e : Entry} (f : Nat)
    (hk : k ≠ []) (hg : get inp k = some e) (hv : k ∉ vis) : resolve inp (f + 1) vis k =
      if resolve inp f (k :: vis) k.dropLast ≠ .ok then resolve inp f (k :: vis) k.dropLast
      else if e.isLink then resolve inp f (k :: vis) (cleanEntryName e.linkName) else .ok := by
  simp [resolve, hk, hg, hv]

theorem resolve_succ_cycle {inp : List Entry} {vis : List Name} {k : Name} {e : Entry} (f : Nat)
    (hk : k ≠ []) (hg : get inp k = some e) (hv : k ∈ vis) : resolve inp (f + 1) vis k = .cycle := by
  simp [resolve, hk, hg, hv]

theorem resolve_notFound {inp : List Entry} :
    ∀ f vis k, resolve inp f vis k = .notFound → Missing inp k := by
  intro f
  induction f with
  | zero => intro vis k h; simp [resolve] at h
  | succ f ih =>
    intro vis k h
    by_cases hk : k = []
    · simp [resolve, hk] at h
    · cases hg : get inp k with
      | none => exact ⟨k, Reach.refl _, hk, hg⟩
      | some e =>
        by_cases hv : k ∈ vis
        · rw [resolve_succ_cycle f hk hg hv] at h; cases h
        rw [resolve_succ_found f hk hg hv] at h
        by_cases h1 : resolve inp f (k :: vis) k.dropLast = .ok
        · simp only [h1, ne_eq, not_true_eq_false, if_false] at h
          by_cases hl : e.isLink = true
          · simp only [hl, if_true] at h
            obtain ⟨d, hr, hd, hn⟩ := ih _ _ h
            exact ⟨d, Reach.link hk hg hl hr, hd, hn⟩
          · simp [hl] at h
        · simp only [ne_eq, h1, not_false_eq_true, if_true] at h
          obtain ⟨d, hr, hd, hn⟩ := ih _ _ h
          exact ⟨d, Reach.parent hk hg hr, hd, hn⟩

theorem resolve_ok {inp : List Entry} :
    ∀ f vis k, resolve inp f vis k = .ok → ¬ Missing inp k := by
  intro f
  induction f with
  | zero => intro vis k h; simp [resolve] at h
  | succ f ih =>
    intro vis k h
    rintro ⟨d, hr, hd, hn⟩
    by_cases hk : k = []
    · subst hk
      exact hd (reach_root hr)
    · cases hg : get inp k with
      | none => simp [resolve, hk, hg] at h
      | some e =>
        by_cases hv : k ∈ vis
        · rw [resolve_succ_cycle f hk hg hv] at h; cases h
        rw [resolve_succ_found f hk hg hv] at h
        by_cases h1 : resolve inp f (k :: vis) k.dropLast = .ok
        · simp only [h1, ne_eq, not_true_eq_false, if_false] at h
          cases hr with
          | refl => rw [hg] at hn; cases hn
          | parent _ _ hr' => exact ih _ _ h1 ⟨d, hr', hd, hn⟩
          | link _ hg' hl hr' =>
            rw [hg] at hg'; cases hg'
            simp only [hl, if_true] at h
            exact ih _ _ h ⟨d, hr', hd, hn⟩
        · simp only [ne_eq, h1, not_false_eq_true, if_true] at h

/-- The cycle error is reported only when there is a cycle: every name on the recursion path
needs the current name, so meeting one of them again closes a cycle. -/
theorem resolve_cycle {inp : List Entry} :
    ∀ f vis k, (∀ v ∈ vis, StrictReach inp v k) → resolve inp f vis k = .cycle →
      ReachesCycle inp k := by
  intro f
  induction f with
  | zero => intro vis k _ h; simp [resolve] at h
  | succ f ih =>
    intro vis k hpath h
    by_cases hk : k = []
    · simp [resolve, hk] at h
    · cases hg : get inp k with
      | none => simp [resolve, hk, hg] at h
      | some e =>
        by_cases hv : k ∈ vis
        · exact ⟨k, Reach.refl _, hpath k hv⟩
        rw [resolve_succ_found f hk hg hv] at h
        by_cases h1 : resolve inp f (k :: vis) k.dropLast = .ok
        · simp only [h1, ne_eq, not_true_eq_false, if_false] at h
          by_cases hl : e.isLink = true
          · simp only [hl, if_true] at h
            have hstep : Reach inp k (cleanEntryName e.linkName) := Reach.link hk hg hl (Reach.refl _)
            obtain ⟨d, hr, hd⟩ := ih (k :: vis) _ (by
              intro v hv'
              rcases List.mem_cons.mp hv' with rfl | hv''
              · exact ⟨hk, e, hg, Or.inr ⟨hl, Reach.refl _⟩⟩
              · exact (hpath v hv'').step hstep) h
            exact ⟨d, Reach.link hk hg hl hr, hd⟩
          · simp [hl] at h
        · simp only [ne_eq, h1, not_false_eq_true, if_true] at h
          have hstep : Reach inp k k.dropLast := Reach.parent hk hg (Reach.refl _)
          obtain ⟨d, hr, hd⟩ := ih (k :: vis) _ (by
            intro v hv'
            rcases List.mem_cons.mp hv' with rfl | hv''
            · exact ⟨hk, e, hg, Or.inl (Reach.refl _)⟩
            · exact (hpath v hv'').step hstep) h
          exact ⟨d, Reach.parent hk hg hr, hd⟩

/-- Termination, unconditionally: the names on the recursion path are pairwise different entries
of the tar, so the path is never longer than the tar and `inp.length + 1` fuel is never used up. -/
theorem resolve_terminates_aux {inp : List Entry} :
    ∀ f (vis : List Name) k, vis.Nodup → (∀ v ∈ vis, v ∈ inp.map Entry.key) →
      inp.length + 1 ≤ vis.length + f → resolve inp f vis k ≠ .diverge := by
  intro f
  induction f with
  | zero =>
    intro vis k hnd hsub hlen
    have := List.Nodup.length_le_of_subset hnd (fun v hv => hsub v hv)
    simp only [List.length_map] at this
    omega
  | succ f ih =>
    intro vis k hnd hsub hlen
    by_cases hk : k = []
    · simp [resolve, hk]
    · cases hg : get inp k with
      | none => simp [resolve, hk, hg]
      | some e =>
        by_cases hv : k ∈ vis
        · rw [resolve_succ_cycle f hk hg hv]; simp
        rw [resolve_succ_found f hk hg hv]
        have hnd' : (k :: vis).Nodup := List.nodup_cons.mpr ⟨hv, hnd⟩
        have hsub' : ∀ v ∈ k :: vis, v ∈ inp.map Entry.key := by
          intro v hv'
          rcases List.mem_cons.mp hv' with rfl | hv''
          · exact List.mem_map.mpr ⟨e, (get_some hg).1, (get_some hg).2⟩
          · exact hsub v hv''
        have hlen' : inp.length + 1 ≤ (k :: vis).length + f := by simp only [List.length_cons]; omega
        by_cases h1 : resolve inp f (k :: vis) k.dropLast = .ok
        · simp only [h1, ne_eq, not_true_eq_false, if_false]
          by_cases hl : e.isLink = true
          · simp only [hl, if_true]
            exact ih _ _ hnd' hsub' hlen'
          · simp [hl]
        · simp only [ne_eq, h1, not_false_eq_true, if_true]
          exact ih _ _ hnd' hsub' hlen'

theorem resolve_terminates (inp : List Entry) (k : Name) :
    resolve inp (moveFuel inp) [] k ≠ .diverge :=
  resolve_terminates_aux _ [] k (by simp) (by simp) (by simp [moveFuel])

/-- The parent/hardlink graph of the tar has no cycle: some rank strictly decreases from every
non-root entry to its parent directory and, for a hardlink, to its target. -/
def NoLinkCycle (inp : List Entry) : Prop :=
  ∃ rank : Name → Nat, ∀ k e, k ≠ [] → get inp k = some e →
    rank k.dropLast < rank k ∧ (e.isLink = true → rank (cleanEntryName e.linkName) < rank k)

theorem reach_rank {inp : List Entry} {rank : Name → Nat}
    (hrank : ∀ k e, k ≠ [] → get inp k = some e →
      rank k.dropLast < rank k ∧ (e.isLink = true → rank (cleanEntryName e.linkName) < rank k))
    {k d : Name} (h : Reach inp k d) : rank d ≤ rank k := by
  induction h with
  | refl => exact Nat.le_refl _
  | parent hk hg _ ih => have := (hrank _ _ hk hg).1; omega
  | link hk hg hl _ ih => have := (hrank _ _ hk hg).2 hl; omega

theorem not_selfReach {inp : List Entry} (h : NoLinkCycle inp) (k : Name) : ¬ SelfReach inp k := by
  obtain ⟨rank, hrank⟩ := h
  rintro ⟨hk, e, hg, hr | ⟨hl, hr⟩⟩
  · have := reach_rank hrank hr
    have := (hrank k e hk hg).1
    omega
  · have := reach_rank hrank hr
    have := (hrank k e hk hg).2 hl
    omega

theorem not_reachesCycle {inp : List Entry} (h : NoLinkCycle inp) (k : Name) : ¬ ReachesCycle inp k :=
  fun ⟨d, _, hd⟩ => not_selfReach h d hd

theorem moveRec_status {inp : List Entry} {st : MState} (h : Inv inp st) (fuel : Nat) (k : Name) :
    (moveRec inp fuel k st).2 = resolve inp fuel [] k :=
  (moveRec_spec inp fuel k st [] h (by simp)).status

/-! ## The loop over the prioritized list -/

/-- The step for the listed path `l`: starting from the group `before`, the block `b` is appended.
Every entry of `b` is `l` itself or something `l` needs; if nothing `l` needs is missing then
`l`'s entry is in the group afterwards and, unless it had been placed earlier already, it is the
LAST entry of the block (all of its not-yet-placed prerequisites come before it). -/
def BlockOK (inp : List Entry) (l : String) (before b : List Entry) : Prop :=
  (∀ x ∈ b, Reach inp (cleanEntryName l) x.key) ∧
  (¬ Missing inp (cleanEntryName l) →
    PlacedIn inp (before ++ b) (cleanEntryName l) ∧
    ∀ e, get inp (cleanEntryName l) = some e → e ∉ before → b.getLast? = some e)

/-- One block per listed path, in the order of the list. -/
def StepsOK (inp : List Entry) : List String → List Entry → List (List Entry) → Prop
  | [], _, [] => True
  | l :: ls, before, b :: bs => BlockOK inp l before b ∧ StepsOK inp ls (before ++ b) bs
  | _, _, _ => False

/-- The listed paths that are reported back / abort the build. -/
def missedOf (inp : List Entry) (ls : List String) : List String :=
  ls.filter (fun l => resolve inp (moveFuel inp) [] (cleanEntryName l) == .notFound)

/-- What a run of the loop guarantees — for every tar, cyclic or not. -/
theorem sortLoop_spec {inp : List Entry} (allow : Bool) :
    ∀ ls st missed, Inv inp st →
      sortLoop inp (moveFuel inp) allow ls st missed ≠ .diverge ∧
      (sortLoop inp (moveFuel inp) allow ls st missed = .err →
        (allow = false ∧ ∃ l ∈ ls, Missing inp (cleanEntryName l)) ∨
        (∃ l ∈ ls, ReachesCycle inp (cleanEntryName l))) ∧
      (∀ st' missed', sortLoop inp (moveFuel inp) allow ls st missed = .done st' missed' →
        Inv inp st' ∧
        (∃ blocks, st'.out = st.out ++ blocks.flatten ∧ StepsOK inp ls st.out blocks) ∧
        missed' = missed ++ missedOf inp ls ∧
        (∀ l ∈ ls, resolve inp (moveFuel inp) [] (cleanEntryName l) = .ok ∨
          resolve inp (moveFuel inp) [] (cleanEntryName l) = .notFound) ∧
        (allow = false → ∀ l ∈ ls, ¬ Missing inp (cleanEntryName l))) := by
  intro ls
  induction ls with
  | nil =>
    intro st missed h
    refine ⟨by simp [sortLoop], by simp [sortLoop], ?_⟩
    intro st' missed' hd
    simp only [sortLoop, LoopRes.done.injEq] at hd
    obtain ⟨rfl, rfl⟩ := hd
    exact ⟨h, ⟨[], by simp, trivial⟩, by simp [missedOf], by simp, by simp⟩
  | cons l ls ih =>
    intro st missed h
    have hm := moveRec_spec inp (moveFuel inp) (cleanEntryName l) st [] h (by simp)
    obtain ⟨b, hb, hreach, _, hlast⟩ := hm.block
    have hstat := hm.status
    have hmr : moveRec inp (moveFuel inp) (cleanEntryName l) st =
        moveRecVisiting inp (moveFuel inp) (cleanEntryName l) st [] := rfl
    rcases hr : moveRecVisiting inp (moveFuel inp) (cleanEntryName l) st [] with ⟨st1, s1⟩
    rw [hr] at hm hb hlast hstat hmr
    simp only at hb hlast hstat
    cases s1 with
    | ok =>
      have hres : resolve inp (moveFuel inp) [] (cleanEntryName l) = .ok := hstat.symm
      have hmiss : ¬ Missing inp (cleanEntryName l) := resolve_ok _ _ _ hres
      obtain ⟨ih1, ih2, ih3⟩ := ih st1 missed hm.inv
      have hloop : sortLoop inp (moveFuel inp) allow (l :: ls) st missed =
          sortLoop inp (moveFuel inp) allow ls st1 missed := by
        simp only [sortLoop, hmr]
      rw [hloop]
      refine ⟨ih1, ?_, ?_⟩
      · intro he
        rcases ih2 he with ⟨ha, l', hl', hm'⟩ | ⟨l', hl', hm'⟩
        · exact Or.inl ⟨ha, l', List.mem_cons_of_mem _ hl', hm'⟩
        · exact Or.inr ⟨l', List.mem_cons_of_mem _ hl', hm'⟩
      · intro st' missed' hd
        obtain ⟨hinv', ⟨blocks, hout, hsteps⟩, hmissed, hnd, hall⟩ := ih3 st' missed' hd
        refine ⟨hinv', ⟨b :: blocks, ?_, ?_⟩, ?_, ?_, ?_⟩
        · rw [hout, hb, List.flatten_cons, List.append_assoc]
        · refine ⟨⟨hreach, fun _ => ⟨?_, ?_⟩⟩, ?_⟩
          · rw [← hb]; exact hm.placed rfl
          · intro e he hne
            exact hlast rfl e he hne
          · rw [← hb]; exact hsteps
        · rw [hmissed]
          simp [missedOf, hres]
        · intro l' hl'
          rcases List.mem_cons.mp hl' with rfl | hl''
          · exact Or.inl hres
          · exact hnd l' hl''
        · intro ha l' hl'
          rcases List.mem_cons.mp hl' with rfl | hl''
          · exact hmiss
          · exact hall ha l' hl''
    | notFound =>
      have hres : resolve inp (moveFuel inp) [] (cleanEntryName l) = .notFound := hstat.symm
      have hmiss : Missing inp (cleanEntryName l) := resolve_notFound _ _ _ hres
      cases allow with
      | false =>
        have hloop : sortLoop inp (moveFuel inp) false (l :: ls) st missed = .err := by
          simp only [sortLoop, hmr]
          simp
        rw [hloop]
        refine ⟨by simp, fun _ => Or.inl ⟨rfl, l, List.mem_cons_self .., hmiss⟩, ?_⟩
        intro st' missed' hd
        cases hd
      | true =>
        obtain ⟨ih1, ih2, ih3⟩ := ih st1 (missed ++ [l]) hm.inv
        have hloop : sortLoop inp (moveFuel inp) true (l :: ls) st missed =
            sortLoop inp (moveFuel inp) true ls st1 (missed ++ [l]) := by
          simp only [sortLoop, hmr]
          simp
        rw [hloop]
        refine ⟨ih1, ?_, ?_⟩
        · intro he
          rcases ih2 he with ⟨ha, _⟩ | ⟨l', hl', hm'⟩
          · cases ha
          · exact Or.inr ⟨l', List.mem_cons_of_mem _ hl', hm'⟩
        · intro st' missed' hd
          obtain ⟨hinv', ⟨blocks, hout, hsteps⟩, hmissed, hnd, _⟩ := ih3 st' missed' hd
          refine ⟨hinv', ⟨b :: blocks, ?_, ?_⟩, ?_, ?_, ?_⟩
          · rw [hout, hb, List.flatten_cons, List.append_assoc]
          · refine ⟨⟨hreach, fun hnm => absurd hmiss hnm⟩, ?_⟩
            rw [← hb]; exact hsteps
          · rw [hmissed]
            simp [missedOf, hres]
          · intro l' hl'
            rcases List.mem_cons.mp hl' with rfl | hl''
            · exact Or.inr hres
            · exact hnd l' hl''
          · intro ha; cases ha
    | cycle =>
      have hres : resolve inp (moveFuel inp) [] (cleanEntryName l) = .cycle := hstat.symm
      have hcyc : ReachesCycle inp (cleanEntryName l) := resolve_cycle _ [] _ (by simp) hres
      have hloop : sortLoop inp (moveFuel inp) allow (l :: ls) st missed = .err := by
        simp only [sortLoop, hmr]
      rw [hloop]
      refine ⟨by simp, fun _ => Or.inr ⟨l, List.mem_cons_self .., hcyc⟩, ?_⟩
      intro _ _ h'; cases h'
    | diverge => exact absurd hstat.symm (resolve_terminates inp _)

theorem moveRecOld_link {inp : List Entry} {k : Name} {e : Entry} (f : Nat) (st : MState)
    (hk : k ≠ []) (hg : get inp k = some e) (hl : e.isLink = true) :
    moveRecOld inp (f + 1) k st =
      (let r1 := moveRecOld inp f k.dropLast st
       if r1.2 ≠ .ok then r1 else
       let r2 := moveRecOld inp f (cleanEntryName e.linkName) r1.1
       if r2.2 ≠ .ok then r2 else
       if r2.1.picked.contains k then (r2.1, .ok) else (r2.1.add k e, .ok)) := by
  simp [moveRecOld, hk, hg, hl]

/-! ## Dumping the rest -/

theorem nodup_of_keysNodup {l : List Entry} (h : KeysNodup l) : l.Nodup := by
  induction l with
  | nil => simp
  | cons a l ih =>
    unfold KeysNodup at h
    simp only [List.map_cons, List.nodup_cons] at h
    rw [List.nodup_cons]
    exact ⟨fun ha => h.1 (List.mem_map_of_mem ha), ih h.2⟩

theorem Inv.mem_out_iff {inp : List Entry} {st : MState} (h : Inv inp st) (hn : KeysNodup inp)
    {e : Entry} (he : e ∈ inp) : e.key ∈ st.picked ↔ e ∈ st.out := by
  constructor
  · intro hp
    exact h.mem_of_picked (get_of_mem hn he) hp
  · intro ho
    exact (h.picked _).mpr ⟨e, ho, rfl⟩

theorem dump_picked {inp : List Entry} {st : MState} (h : Inv inp st) (hn : KeysNodup inp) :
    dump inp st.picked = inp.filter (fun e => decide (e ∉ st.out)) := by
  unfold dump
  by_cases hemp : st.picked.isEmpty = true
  · simp only [hemp, if_true]
    symm
    rw [List.filter_eq_self]
    intro e he
    simp only [decide_eq_true_eq]
    intro ho
    have : e.key ∈ st.picked := (h.mem_out_iff hn he).mpr ho
    rw [List.isEmpty_iff] at hemp
    rw [hemp] at this
    cases this
  · simp only [hemp]
    apply List.filter_congr
    intro e he
    have := h.mem_out_iff hn he
    by_cases ho : e ∈ st.out
    · simp [ho, this.mpr ho]
    · have hp : e.key ∉ st.picked := fun hp => ho (this.mp hp)
      simp [ho, hp]

theorem Inv.out_subset {inp : List Entry} {st : MState} (h : Inv inp st) :
    ∀ e ∈ st.out, e ∈ inp :=
  fun e he => (get_some (h.sub e he)).1

theorem closedR_split' {inp : List Entry} : ∀ (rl : List Entry), ClosedR inp rl →
    ∀ a e b, rl = a ++ e :: b → ClosedAt inp b e := by
  intro rl
  induction rl with
  | nil => intro _ a e b h; simp at h
  | cons x xs ih =>
    intro hc a e b hsplit
    cases a with
    | nil =>
      simp only [List.nil_append, List.cons.injEq] at hsplit
      obtain ⟨rfl, rfl⟩ := hsplit
      exact hc.1
    | cons y ys =>
      simp only [List.cons_append, List.cons.injEq] at hsplit
      exact ih hc.2 ys e b hsplit.2

/-- `ClosedR` unfolded: every entry of the group has its prerequisites strictly before it. -/
theorem closedR_split {inp : List Entry} (out : List Entry) (hc : ClosedR inp out.reverse)
    (pre : List Entry) (e : Entry) (post : List Entry) (h : out = pre ++ e :: post) :
    ClosedAt inp pre e := by
  have hr : out.reverse = post.reverse ++ e :: pre.reverse := by
    rw [h]; simp
  have := closedR_split' _ hc _ _ _ hr
  intro hne
  have h2 := this hne
  exact ⟨h2.1.mono (fun x hx => List.mem_reverse.mp hx),
    fun hl => (h2.2 hl).mono (fun x hx => List.mem_reverse.mp hx)⟩

/-! ## Compressed offsets (abstract writer, the compressor is an oracle) -/

theorem chunkStep_spec (mc : Int) (w : WState) (force : Bool) (a b : Nat)
    (hw : w.prevOffset ≤ w.cwN) :
    (chunkStep mc w force a b).1.prevOffset ≤ (chunkStep mc w force a b).1.cwN ∧
    w.cwN ≤ (chunkStep mc w force a b).1.cwN ∧
    w.prevOffset ≤ (chunkStep mc w force a b).1.prevOffset ∧
    (chunkStep mc w force a b).2.1 = (chunkStep mc w force a b).1.prevOffset ∧
    (force = true → (chunkStep mc w force a b).2.2 = true ∧
      (chunkStep mc w force a b).2.1 = w.cwN + a + b) := by
  by_cases hc : (force || decide (mc ≤ ((w.cwN + a : Nat) : Int) - (w.prevOffset : Int))) = true
  · have heq : chunkStep mc w force a b =
        ({ cwN := w.cwN + a + b, prevOffset := w.cwN + a + b }, w.cwN + a + b, true) := by
      unfold chunkStep
      simp only [hc, if_true]
    rw [heq]
    exact ⟨Nat.le_refl _, by show w.cwN ≤ w.cwN + a + b; omega,
      by show w.prevOffset ≤ w.cwN + a + b; omega, rfl, fun _ => ⟨rfl, rfl⟩⟩
  · have heq : chunkStep mc w force a b =
        ({ cwN := w.cwN + a, prevOffset := w.prevOffset }, w.prevOffset, false) := by
      unfold chunkStep
      simp only [hc]
      rfl
    rw [heq]
    refine ⟨by show w.prevOffset ≤ w.cwN + a; omega, by show w.cwN ≤ w.cwN + a; omega,
      Nat.le_refl _, rfl, ?_⟩
    intro hf
    simp [hf] at hc

theorem runPart_nil {τ : Type} (mc : Int) (w : WState) :
    runPart (τ := τ) mc w [] = ([], w) := rfl

theorem runPart_cons {τ : Type} (mc : Int) (w : WState) (c : ChunkIn τ) (cs : List (ChunkIn τ)) :
    runPart mc w (c :: cs) =
      ({ tag := c.tag, force := c.force, off := (chunkStep mc w c.force c.a c.b).2.1,
         fresh := (chunkStep mc w c.force c.a c.b).2.2 } ::
        (runPart mc (chunkStep mc w c.force c.a c.b).1 cs).1,
       (runPart mc (chunkStep mc w c.force c.a c.b).1 cs).2) := rfl

theorem runPart_cons_fst {τ : Type} (mc : Int) (w : WState) (c : ChunkIn τ) (cs : List (ChunkIn τ)) :
    (runPart mc w (c :: cs)).1 =
      { tag := c.tag, force := c.force, off := (chunkStep mc w c.force c.a c.b).2.1,
        fresh := (chunkStep mc w c.force c.a c.b).2.2 } ::
        (runPart mc (chunkStep mc w c.force c.a c.b).1 cs).1 := rfl

theorem runPart_cons_snd {τ : Type} (mc : Int) (w : WState) (c : ChunkIn τ) (cs : List (ChunkIn τ)) :
    (runPart mc w (c :: cs)).2 = (runPart mc (chunkStep mc w c.force c.a c.b).1 cs).2 := rfl

theorem runPart_tags {τ : Type} (mc : Int) : ∀ (cs : List (ChunkIn τ)) (w : WState),
    (runPart mc w cs).1.map (fun o => (o.tag, o.force)) = cs.map (fun c => (c.tag, c.force)) := by
  intro cs
  induction cs with
  | nil => intro w; rfl
  | cons c cs ih => intro w; rw [runPart_cons_fst]; simp [ih]

theorem runPart_mono {τ : Type} (mc : Int) : ∀ (cs : List (ChunkIn τ)) (w : WState),
    w.prevOffset ≤ w.cwN →
    (runPart mc w cs).2.prevOffset ≤ (runPart mc w cs).2.cwN ∧
    w.cwN ≤ (runPart mc w cs).2.cwN ∧
    w.prevOffset ≤ (runPart mc w cs).2.prevOffset ∧
    (∀ o ∈ (runPart mc w cs).1, w.prevOffset ≤ o.off ∧ o.off ≤ (runPart mc w cs).2.prevOffset) ∧
    (runPart mc w cs).1.Pairwise (fun x y => x.off ≤ y.off) := by
  intro cs
  induction cs with
  | nil => intro w hw; simp [runPart_nil, hw]
  | cons c cs ih =>
    intro w hw
    obtain ⟨s1, s2, s3, s4, _⟩ := chunkStep_spec mc w c.force c.a c.b hw
    obtain ⟨i1, i2, i3, i4, i5⟩ := ih (chunkStep mc w c.force c.a c.b).1 s1
    rw [runPart_cons_fst, runPart_cons_snd]
    refine ⟨i1, by omega, by omega, ?_, ?_⟩
    · intro o ho
      rcases List.mem_cons.mp ho with rfl | ho'
      · show w.prevOffset ≤ (chunkStep mc w c.force c.a c.b).2.1 ∧
          (chunkStep mc w c.force c.a c.b).2.1 ≤ _
        omega
      · have := i4 o ho'; omega
    · rw [List.pairwise_cons]
      refine ⟨?_, i5⟩
      intro o ho
      have := i4 o ho
      show (chunkStep mc w c.force c.a c.b).2.1 ≤ o.off
      omega

theorem runPart_forced {τ : Type} (mc : Int) : ∀ (cs : List (ChunkIn τ)) (w : WState),
    w.prevOffset ≤ w.cwN → (∀ c ∈ cs, c.force = true → 1 ≤ c.a + c.b) →
    ∀ pre x post, (runPart mc w cs).1 = pre ++ x :: post → x.force = true →
      x.fresh = true ∧ w.cwN < x.off ∧ ∀ y ∈ pre, y.off < x.off := by
  intro cs
  induction cs with
  | nil => intro w _ _ pre x post h; simp [runPart_nil] at h
  | cons c cs ih =>
    intro w hw hpos pre x post hsplit hforce
    obtain ⟨s1, s2, s3, s4, s5⟩ := chunkStep_spec mc w c.force c.a c.b hw
    rw [runPart_cons_fst] at hsplit
    cases pre with
    | nil =>
      simp only [List.nil_append, List.cons.injEq] at hsplit
      obtain ⟨hx, _⟩ := hsplit
      subst hx
      have hforce' : c.force = true := hforce
      have hp := hpos c (List.mem_cons_self ..) hforce'
      obtain ⟨f1, f2⟩ := s5 hforce'
      refine ⟨f1, ?_, by simp⟩
      show w.cwN < (chunkStep mc w c.force c.a c.b).2.1
      omega
    | cons y ys =>
      simp only [List.cons_append, List.cons.injEq] at hsplit
      obtain ⟨hy, hrest⟩ := hsplit
      obtain ⟨g1, g2, g3⟩ := ih _ s1 (fun c' hc' => hpos c' (List.mem_cons_of_mem _ hc')) ys x post hrest hforce
      refine ⟨g1, by omega, ?_⟩
      intro z hz
      rcases List.mem_cons.mp hz with rfl | hz'
      · subst hy
        show (chunkStep mc w c.force c.a c.b).2.1 < x.off
        omega
      · exact g3 z hz'

theorem combine_nil {τ : Type} (mc : Int) (base : Nat) : combine (τ := τ) mc base [] = [] := rfl

theorem combine_cons {τ : Type} (mc : Int) (base : Nat) (cs : List (ChunkIn τ)) (tail : Nat)
    (ps : List (List (ChunkIn τ) × Nat)) :
    combine mc base ((cs, tail) :: ps) =
      (runPart mc ⟨0, 0⟩ cs).1.map (fun o => { o with off := o.off + base }) ++
        combine mc (base + (runPart mc ⟨0, 0⟩ cs).2.cwN + tail) ps := rfl

theorem combine_tags {τ : Type} (mc : Int) : ∀ (ps : List (List (ChunkIn τ) × Nat)) (base : Nat),
    (combine mc base ps).map (fun o => (o.tag, o.force)) =
      (ps.flatMap (·.1)).map (fun c => (c.tag, c.force)) := by
  intro ps
  induction ps with
  | nil => intro base; rfl
  | cons p ps ih =>
    intro base
    obtain ⟨cs, tail⟩ := p
    rw [combine_cons, List.map_append, ih, List.flatMap_cons, List.map_append, List.map_map]
    congr 1
    rw [← runPart_tags mc cs ⟨0, 0⟩]
    rfl

theorem combine_spec {τ : Type} (mc : Int) : ∀ (ps : List (List (ChunkIn τ) × Nat)) (base : Nat),
    (∀ p ∈ ps, ∀ c ∈ p.1, c.force = true → 1 ≤ c.a + c.b) →
    (∀ o ∈ combine mc base ps, base ≤ o.off) ∧
    (combine mc base ps).Pairwise (fun x y => x.off ≤ y.off) ∧
    (∀ pre x post, combine mc base ps = pre ++ x :: post → x.force = true →
      x.fresh = true ∧ base < x.off ∧ ∀ y ∈ pre, y.off < x.off) := by
  intro ps
  induction ps with
  | nil =>
    intro base _
    refine ⟨by simp [combine_nil], by simp [combine_nil], ?_⟩
    intro pre x post h; simp [combine_nil] at h
  | cons p ps ih =>
    intro base hpos
    obtain ⟨cs, tail⟩ := p
    have hpos1 : ∀ c ∈ cs, c.force = true → 1 ≤ c.a + c.b := hpos (cs, tail) (List.mem_cons_self ..)
    obtain ⟨m1, m2, m3, m4, m5⟩ := runPart_mono mc cs ⟨0, 0⟩ (Nat.le_refl _)
    obtain ⟨i1, i2, i3⟩ := ih (base + (runPart mc ⟨0, 0⟩ cs).2.cwN + tail)
      (fun p hp => hpos p (List.mem_cons_of_mem _ hp))
    rw [combine_cons]
    -- offsets of the first writer lie in [base, base + its size]
    have hA : ∀ y ∈ (runPart mc ⟨0, 0⟩ cs).1.map (fun o => { o with off := o.off + base }),
        base ≤ y.off ∧ y.off ≤ base + (runPart mc ⟨0, 0⟩ cs).2.cwN := by
      intro y hy
      obtain ⟨o, ho, rfl⟩ := List.mem_map.mp hy
      have := m4 o ho
      simp only; omega
    refine ⟨?_, ?_, ?_⟩
    · intro o ho
      rcases List.mem_append.mp ho with ho | ho
      · exact (hA o ho).1
      · have := i1 o ho; omega
    · rw [List.pairwise_append]
      refine ⟨?_, i2, ?_⟩
      · rw [List.pairwise_map]
        exact m5.imp (fun h => by simp only; omega)
      · intro x hx y hy
        have := (hA x hx).2
        have := i1 y hy
        omega
    · intro pre x post hsplit hforce
      rcases List.append_eq_append_iff.mp hsplit with ⟨a', hpre, hB⟩ | ⟨c', hAeq, hxs⟩
      · -- x belongs to a later writer
        obtain ⟨g1, g2, g3⟩ := i3 a' x post hB hforce
        refine ⟨g1, by omega, ?_⟩
        intro y hy
        rw [hpre] at hy
        rcases List.mem_append.mp hy with hy | hy
        · have := (hA y hy).2; omega
        · exact g3 y hy
      · cases c' with
        | nil =>
          simp only [List.nil_append] at hxs
          simp only [List.append_nil] at hAeq
          obtain ⟨g1, g2, g3⟩ := i3 [] x post hxs.symm hforce
          refine ⟨g1, by omega, ?_⟩
          intro y hy
          rw [← hAeq] at hy
          have := (hA y hy).2; omega
        | cons z zs =>
          simp only [List.cons_append, List.cons.injEq] at hxs
          obtain ⟨rfl, _⟩ := hxs
          -- x belongs to the first writer
          obtain ⟨l1, l2, hl, hl1, hl2⟩ := List.map_eq_append_iff.mp hAeq
          obtain ⟨x0, l3, rfl, hx0, _⟩ := List.map_eq_cons_iff.mp hl2
          subst hx0
          obtain ⟨g1, g2, g3⟩ := runPart_forced mc cs ⟨0, 0⟩ (Nat.le_refl _) hpos1 l1 x0 l3 hl hforce
          refine ⟨g1, by simp only; omega, ?_⟩
          intro y hy
          rw [← hl1] at hy
          obtain ⟨o, ho, rfl⟩ := List.mem_map.mp hy
          have := g3 o ho
          simp only; omega

theorem effChunkSize_pos (c : Int) : 0 < effChunkSize c := by
  unfold effChunkSize
  split <;> omega

theorem chunkOffsets_one (cs : Nat) (h : 0 < cs) : chunkOffsets cs 1 = [0] := by
  unfold chunkOffsets
  have h1 : cs ≠ 0 := by omega
  have h2 : (1 + cs - 1) / cs = 1 := by
    have : 1 + cs - 1 = cs := by omega
    rw [this]; exact Nat.div_self h
  rw [if_neg h1, h2]
  simp

theorem emitted_append (a b : List Entry) : emitted (a ++ b) = emitted a ++ emitted b := by
  simp [emitted]

theorem chunkTags_append (cs : Nat) (a b : List Entry) :
    chunkTags cs (a ++ b) = chunkTags cs a ++ chunkTags cs b := by
  simp [chunkTags, emitted_append]

theorem mem_chunkTags {cs : Nat} {l : List Entry} {t : Entry × Bool} (h : t ∈ chunkTags cs l) :
    t.1 ∈ l := by
  unfold chunkTags at h
  obtain ⟨e, he, ht⟩ := List.mem_flatMap.mp h
  have hel : e ∈ l := (List.mem_filter.mp he).1
  by_cases hr : e.isReg = true
  · simp only [hr, if_true] at ht
    obtain ⟨_, _, rfl⟩ := List.mem_map.mp ht
    exact hel
  · simp [hr] at ht

/-! ## `sortEntries` as a whole -/

theorem importTar_keysNodup (es : List Entry) : KeysNodup (importTar es) := by
  rw [importTar_eq]; exact dedupLast_keysNodup _

theorem importTar_not_landmark {es : List Entry} {e : Entry} (h : e ∈ importTar es) :
    isLandmarkKey e.key = false := by
  rw [importTar_eq] at h
  have := (dedupLast_sublist _).subset h
  unfold nonLandmarks at this
  simpa using (List.mem_filter.mp this).2

theorem landmarkFor_isLandmark (prio : List String) : isLandmarkKey (landmarkFor prio).key = true := by
  unfold landmarkFor
  split <;> decide

theorem landmarkFor_not_toc (prio : List String) : ((landmarkFor prio).key == [tocTarName]) = false := by
  unfold landmarkFor
  split <;> decide

theorem landmarkFor_needsOpenGz (prio : List String) : needsOpenGz (landmarkFor prio) = true := by
  unfold landmarkFor
  split <;> decide

theorem landmarkFor_reg (prio : List String) :
    (landmarkFor prio).isReg = true ∧ (landmarkFor prio).size = 1 := by
  unfold landmarkFor
  split <;> exact ⟨rfl, rfl⟩

theorem landmarkFor_nil : landmarkFor [] = landmarkEntry noPrefetchLandmark := rfl

theorem landmarkFor_cons (l : String) (ls : List String) :
    landmarkFor (l :: ls) = landmarkEntry prefetchLandmark := rfl

theorem sortEntries_nil (es : List Entry) (allow : Bool) :
    sortEntries es [] allow = .ok (landmarkEntry noPrefetchLandmark :: importTar es) [] := by
  simp [sortEntries, sortLoop, dump, landmarkFor]

/-- Everything the property theorems need about a run of `sortEntries`, in one place — for every
tar and every list. -/
theorem sortEntries_structure {es : List Entry} (prio : List String) (allow : Bool) :
    sortEntries es prio allow ≠ .diverge ∧
    (sortEntries es prio allow = .err →
      (allow = false ∧ ∃ l ∈ prio, Missing (importTar es) (cleanEntryName l)) ∨
      (∃ l ∈ prio, ReachesCycle (importTar es) (cleanEntryName l))) ∧
    (∀ out missed, sortEntries es prio allow = .ok out missed →
      ∃ blocks,
        out = blocks.flatten ++ landmarkFor prio ::
          (importTar es).filter (fun e => decide (e ∉ blocks.flatten)) ∧
        StepsOK (importTar es) prio [] blocks ∧
        (∀ e ∈ blocks.flatten, e ∈ importTar es) ∧
        KeysNodup blocks.flatten ∧
        ClosedR (importTar es) blocks.flatten.reverse ∧
        missed = missedOf (importTar es) prio ∧
        (∀ l ∈ prio, resolve (importTar es) (moveFuel (importTar es)) [] (cleanEntryName l) = .ok ∨
          resolve (importTar es) (moveFuel (importTar es)) [] (cleanEntryName l) = .notFound) ∧
        (allow = false → ∀ l ∈ prio, ¬ Missing (importTar es) (cleanEntryName l))) := by
  obtain ⟨h1, h2, h3⟩ := sortLoop_spec (inp := importTar es) allow prio ⟨[], []⟩ [] (Inv.empty _)
  unfold sortEntries
  simp only
  cases hl : sortLoop (importTar es) (moveFuel (importTar es)) allow prio ⟨[], []⟩ [] with
  | diverge => exact absurd hl h1
  | err =>
    refine ⟨by simp, fun _ => h2 hl, ?_⟩
    intro out missed h; cases h
  | done st missed' =>
    refine ⟨by simp, by simp, ?_⟩
    intro out missed h
    simp only [Outcome.ok.injEq] at h
    obtain ⟨hout, hmissed⟩ := h
    obtain ⟨hinv, ⟨blocks, hblocks, hsteps⟩, hm, hnd, hall⟩ := h3 st missed' hl
    simp only [List.nil_append] at hblocks hm
    refine ⟨blocks, ?_, hsteps, ?_, ?_, ?_, ?_, hnd, hall⟩
    · rw [← hout, dump_picked hinv (importTar_keysNodup es), ← hblocks]
      simp [dump]
    · rw [← hblocks]; exact hinv.out_subset
    · rw [← hblocks]; exact hinv.nodup
    · rw [← hblocks]; exact hinv.closed
    · rw [← hmissed, hm]

/-- For a name whose status is `ok` or `notFound`: it is reported missing iff it is `Missing`. -/
theorem resolve_notFound_iff {inp : List Entry} {f : Nat} {vis : List Name} {k : Name}
    (h : resolve inp f vis k = .ok ∨ resolve inp f vis k = .notFound) :
    resolve inp f vis k = .notFound ↔ Missing inp k := by
  constructor
  · exact resolve_notFound f vis k
  · intro hm
    rcases h with h | h
    · exact absurd hm (resolve_ok f vis k h)
    · exact h

theorem stepsOK_append {inp : List Entry} : ∀ (p q : List String) (before : List Entry)
    (blocks : List (List Entry)), StepsOK inp (p ++ q) before blocks →
    ∃ bs1 bs2, blocks = bs1 ++ bs2 ∧ StepsOK inp p before bs1 ∧
      StepsOK inp q (before ++ bs1.flatten) bs2 := by
  intro p
  induction p with
  | nil =>
    intro q before blocks h
    exact ⟨[], blocks, rfl, trivial, by simpa using h⟩
  | cons l p ih =>
    intro q before blocks h
    cases blocks with
    | nil => exact absurd h (by simp [StepsOK])
    | cons b bs =>
      simp only [List.cons_append, StepsOK] at h
      obtain ⟨bs1, bs2, hbs, h1, h2⟩ := ih q (before ++ b) bs h.2
      refine ⟨b :: bs1, bs2, by simp [hbs], ⟨h.1, h1⟩, ?_⟩
      simpa [List.append_assoc] using h2

theorem stepsOK_reach {inp : List Entry} : ∀ (ls : List String) (before : List Entry)
    (blocks : List (List Entry)), StepsOK inp ls before blocks →
    ∀ x ∈ blocks.flatten, ∃ l ∈ ls, Reach inp (cleanEntryName l) x.key := by
  intro ls
  induction ls with
  | nil =>
    intro before blocks h x hx
    cases blocks with
    | nil => simp at hx
    | cons b bs => exact absurd h (by simp [StepsOK])
  | cons l ls ih =>
    intro before blocks h x hx
    cases blocks with
    | nil => exact absurd h (by simp [StepsOK])
    | cons b bs =>
      simp only [StepsOK] at h
      simp only [List.flatten_cons, List.mem_append] at hx
      rcases hx with hx | hx
      · exact ⟨l, List.mem_cons_self .., h.1.1 x hx⟩
      · obtain ⟨l', hl', hr⟩ := ih _ _ h.2 x hx
        exact ⟨l', List.mem_cons_of_mem _ hl', hr⟩

theorem stepsOK_single {inp : List Entry} {l : String} {before : List Entry}
    {blocks : List (List Entry)} (h : StepsOK inp [l] before blocks) :
    ∃ b, blocks = [b] ∧ BlockOK inp l before b := by
  cases blocks with
  | nil => exact absurd h (by simp [StepsOK])
  | cons b bs =>
    cases bs with
    | nil => exact ⟨b, rfl, h.1⟩
    | cons c cs => exact absurd h.2 (by simp [StepsOK])

end SV.Sort
