/-
Helper lemmas for C13: the invariant `WF` is inductive for `step`, the variant `mu` decreases on
every event except `doPrio`, and some event other than `doPrio` is enabled until every invocation
has returned.
-/
import SV.Model.Task

namespace SV.Task

/-! ### sums over the invocation list -/

theorem sumBy_set (f : Invo → Nat) :
    ∀ (l : List Invo) (i : Nat) (v v' : Invo), l[i]? = some v →
      sumBy f (l.set i v') + f v = sumBy f l + f v'
  | [], i, v, v', h => by simp at h
  | a :: l, 0, v, v', h => by
    simp at h; subst h; simp [sumBy]; omega
  | a :: l, i + 1, v, v', h => by
    simp at h
    have := sumBy_set f l i v v' h
    simp [sumBy]; omega

theorem sumBy_le (f g : Invo → Nat) :
    ∀ (l : List Invo), (∀ v ∈ l, f v ≤ g v) → sumBy f l ≤ sumBy g l
  | [], _ => by simp [sumBy]
  | a :: l, h => by
    have h1 := h a (by simp)
    have h2 := sumBy_le f g l (fun v hv => h v (by simp [hv]))
    simp [sumBy]; omega

theorem sumBy_congr (f g : Invo → Nat) (l : List Invo) (h : ∀ v ∈ l, f v = g v) :
    sumBy f l = sumBy g l :=
  Nat.le_antisymm (sumBy_le f g l fun v hv => Nat.le_of_eq (h v hv))
    (sumBy_le g f l fun v hv => Nat.le_of_eq (h v hv).symm)

theorem sumBy_replicate_zero (f : Invo → Nat) (v : Invo) (h : f v = 0) :
    ∀ n, sumBy f (List.replicate n v) = 0
  | 0 => by simp [sumBy]
  | n + 1 => by simp [List.replicate_succ, sumBy, h, sumBy_replicate_zero f v h n]

theorem exists_of_sumBy_pos (f : Invo → Nat) :
    ∀ (l : List Invo), 0 < sumBy f l → ∃ (i : Nat) (v : Invo), l[i]? = some v ∧ 0 < f v
  | [], h => by simp [sumBy] at h
  | a :: l, h => by
    by_cases ha : 0 < f a
    · exact ⟨0, a, by simp, ha⟩
    · have : 0 < sumBy f l := by simp [sumBy] at h; omega
      obtain ⟨i, v, hi, hv⟩ := exists_of_sumBy_pos f l this
      exact ⟨i + 1, v, by simpa using hi, hv⟩

/-! ### the invariant is inductive -/

theorem good_doPrio {epoch prio : Nat} {v : Invo} (h : Good epoch prio v) :
    Good (epoch + 1) (prio + 1) v := by
  unfold Good at *
  refine ⟨h.1, ?_⟩
  have h2 := h.2
  split <;> simp_all <;> omega

theorem good_silence {epoch prio : Nat} {v : Invo} (h : Good epoch prio v) :
    Good epoch (prio - 1) v := by
  unfold Good at *
  refine ⟨h.1, ?_⟩
  have h2 := h.2
  split <;> simp_all

/-- Weight of one invocation in the progress variant. -/
def wt (epoch prio : Nat) (v : Invo) : Nat :=
  match v.pc with
  | .returned => 0
  | .finished => 1
  | .doneOk => 2
  | .running e0 => (if e0 < epoch then 12 else 4) + v.aliveN
  | .cancelling => 10 + v.aliveN
  | .cancelDone => 9
  | .backoff => 9
  | .waitZero => 8
  | .passed => if prio = 0 then 7 else 11
  | .haveSem => if prio = 0 then 6 else 10

/-- The progress variant: pending prioritized work + the distance of every invocation from
`returned`. -/
def mu (s : State) : Nat :=
  s.prio + (s.prio - s.silent) + sumBy (wt s.epoch s.prio) s.invs

/-- Everything the proofs need about one local action of the repaired protocol. -/
theorem localStep_spec {sf prio epoch : Nat} {v : Invo} {a : Act} {sf' : Nat} {v' : Invo}
    (h : localStep true sf prio epoch v a = some (sf', v')) (hg : Good epoch prio v) :
    Good epoch prio v' ∧ sf' + holdW v' = sf + holdW v ∧ wt epoch prio v' < wt epoch prio v := by
  obtain ⟨pc, cur, orph, canc⟩ := v
  obtain ⟨ho, hg⟩ := hg
  simp only at ho
  subst ho
  cases a <;> cases pc <;> simp [localStep] at h <;>
    (try (obtain ⟨h1, h2, h3⟩ := h; subst h2; subst h3)) <;>
    (try (obtain ⟨h2, h3⟩ := h; subst h2; subst h3)) <;>
    simp_all [Good, holdW, holds, wt, Invo.aliveN] <;>
    first
      | omega
      | (split <;> omega)
      | (split <;> split <;> omega)

end SV.Task
