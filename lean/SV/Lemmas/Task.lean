/-
Helper lemmas for C13: the invariant `WF` is inductive for `step`, the variant `mu` decreases on
every event except `doPrio`, and some event other than `doPrio` is enabled until every invocation
has returned.
-/
import SV.Model.Task

namespace SV.Task

/-! ### sums over the invocation list -/

theorem sumBy_set (f : Invo → Nat) :
    ∀ (l : List Invo) (i : Nat) (v v' : Invo), l[i]? = some v →
      sumBy f (l.set i v') + f v = sumBy f l + f v'
  | [], i, v, v', h => by simp at h
  | a :: l, 0, v, v', h => by
    simp at h; subst h; simp [sumBy]; omega
  | a :: l, i + 1, v, v', h => by
    simp at h
    have := sumBy_set f l i v v' h
    simp [sumBy]; omega

theorem sumBy_le (f g : Invo → Nat) :
    ∀ (l : List Invo), (∀ v ∈ l, f v ≤ g v) → sumBy f l ≤ sumBy g l
  | [], _ => by simp [sumBy]
  | a :: l, h => by
    have h1 := h a (by simp)
    have h2 := sumBy_le f g l (fun v hv => h v (by simp [hv]))
    simp [sumBy]; omega

theorem sumBy_congr (f g : Invo → Nat) (l : List Invo) (h : ∀ v ∈ l, f v = g v) :
    sumBy f l = sumBy g l :=
  Nat.le_antisymm (sumBy_le f g l fun v hv => Nat.le_of_eq (h v hv))
    (sumBy_le g f l fun v hv => Nat.le_of_eq (h v hv).symm)

theorem sumBy_replicate_zero (f : Invo → Nat) (v : Invo) (h : f v = 0) :
    ∀ n, sumBy f (List.replicate n v) = 0
  | 0 => by simp [sumBy]
  | n + 1 => by simp [List.replicate_succ, sumBy, h, sumBy_replicate_zero f v h n]

theorem exists_of_sumBy_pos (f : Invo → Nat) :
    ∀ (l : List Invo), 0 < sumBy f l → ∃ (i : Nat) (v : Invo), l[i]? = some v ∧ 0 < f v
  | [], h => by simp [sumBy] at h
  | a :: l, h => by
    by_cases ha : 0 < f a
    · exact ⟨0, a, by simp, ha⟩
    · have : 0 < sumBy f l := by simp [sumBy] at h; omega
      obtain ⟨i, v, hi, hv⟩ := exists_of_sumBy_pos f l this
      exact ⟨i + 1, v, by simpa using hi, hv⟩

/-! ### the invariant is inductive -/

theorem good_doPrio {epoch prio : Nat} {v : Invo} (h : Good epoch prio v) :
    Good (epoch + 1) (prio + 1) v := by
  unfold Good at *
  refine ⟨h.1, ?_⟩
  have h2 := h.2
  split <;> simp_all <;> omega

theorem good_silence {epoch prio : Nat} {v : Invo} (h : Good epoch prio v) :
    Good epoch (prio - 1) v := by
  unfold Good at *
  refine ⟨h.1, ?_⟩
  have h2 := h.2
  split <;> simp_all

/-- Weight of one invocation in the progress variant. -/
def wt (epoch prio : Nat) (v : Invo) : Nat :=
  match v.pc with
  | .returned => 0
  | .finished => 1
  | .doneOk => 2
  | .running e0 => (if e0 < epoch then 12 else 4) + v.aliveN
  | .cancelling => 10 + v.aliveN
  | .cancelDone => 9
  | .backoff => 9
  | .waitZero => 8
  | .passed => if prio = 0 then 7 else 11
  | .haveSem => if prio = 0 then 6 else 10

/-- The progress variant: pending prioritized work + the distance of every invocation from
`returned`. -/
def mu (s : State) : Nat :=
  s.prio + (s.prio - s.silent) + sumBy (wt s.epoch s.prio) s.invs

/-- Everything the proofs need about one local action of the repaired protocol. -/
theorem localStep_spec {sf prio epoch : Nat} {v : Invo} {a : Act} {sf' : Nat} {v' : Invo}
    (h : localStep true sf prio epoch v a = some (sf', v')) (hg : Good epoch prio v) :
    Good epoch prio v' ∧ sf' + holdW v' = sf + holdW v ∧ wt epoch prio v' < wt epoch prio v := by
  obtain ⟨pc, cur, orph, canc⟩ := v
  obtain ⟨ho, hg⟩ := hg
  simp only at ho
  subst ho
  cases a <;> cases pc <;> simp [localStep] at h <;>
    (try (obtain ⟨h1, h2, h3⟩ := h; subst h2; subst h3)) <;>
    (try (obtain ⟨h2, h3⟩ := h; subst h2; subst h3)) <;>
    simp_all [Good, holdW, holds, wt, Invo.aliveN] <;>
    first
      | omega
      | (split <;> omega)
      | (split <;> split <;> omega)

/-- The number of alive bodies of an invocation grows only in `decideStart`, and then `prio = 0`. -/
theorem localStep_alive {sf prio epoch : Nat} {v : Invo} {a : Act} {sf' : Nat} {v' : Invo}
    (h : localStep true sf prio epoch v a = some (sf', v')) :
    v'.aliveN ≤ v.aliveN ∨ (a = .decideStart ∧ prio = 0) := by
  obtain ⟨pc, cur, orph, canc⟩ := v
  cases a <;> cases pc <;> simp [localStep] at h <;>
    (try (obtain ⟨h1, h2, h3⟩ := h; subst h2; subst h3)) <;>
    (try (obtain ⟨h2, h3⟩ := h; subst h2; subst h3)) <;>
    simp_all [Invo.aliveN] <;>
    first
      | omega
      | (split <;> omega)

theorem wf_init (cap n : Nat) : WF (init cap n) := by
  refine ⟨Nat.le_refl _, ?_, ?_⟩
  · have : sumBy holdW (List.replicate n ({} : Invo)) = 0 :=
      sumBy_replicate_zero holdW {} (by decide) n
    simp [init, holders, this]
  · intro v hv
    have := List.eq_of_mem_replicate hv
    subst this
    show Good 0 0 ({} : Invo)
    decide

theorem run_nil (s : State) : run s [] = some s := rfl

theorem run_cons (s : State) (e : Event) (es : List Event) :
    run s (e :: es) = (step s e).bind (fun s1 => run s1 es) := by
  simp only [run, runGen, step]; cases stepGen true s e <;> rfl

theorem wf_step {s s' : State} {e : Event} (hw : WF s) (h : step s e = some s') : WF s' := by
  obtain ⟨h1, h2, h3⟩ := hw
  cases e with
  | doPrio =>
    simp [step, stepGen] at h; subst h
    exact ⟨by simp; omega, by simpa [holders] using h2, fun v hv => good_doPrio (h3 v hv)⟩
  | donePrio =>
    simp [step, stepGen] at h; obtain ⟨hlt, rfl⟩ := h
    exact ⟨by simp; omega, by simpa [holders] using h2, h3⟩
  | silenceElapsed =>
    simp [step, stepGen] at h; obtain ⟨hlt, rfl⟩ := h
    exact ⟨by simp; omega, by simpa [holders] using h2, fun v hv => good_silence (h3 v hv)⟩
  | inv i a =>
    simp only [step, stepGen] at h
    split at h
    · cases h
    · rename_i v hv
      split at h
      · cases h
      · rename_i sf v' hl
        cases h
        have hm := List.mem_of_getElem? hv
        obtain ⟨g1, g2, _⟩ := localStep_spec hl (h3 v hm)
        refine ⟨h1, ?_, ?_⟩
        · have := sumBy_set holdW s.invs i v v' hv
          simp only [holders] at h2 ⊢; omega
        · intro w hw
          rcases List.mem_or_eq_of_mem_set hw with hw | hw
          · exact h3 w hw
          · subst hw; exact g1

theorem wf_run {s s' : State} {es : List Event} (hw : WF s) (h : run s es = some s') : WF s' := by
  induction es generalizing s with
  | nil => simp [run_nil] at h; subst h; exact hw
  | cons e es ih =>
    rw [run_cons] at h
    cases h1 : step s e with
    | none => simp [h1] at h
    | some s1 => simp [h1] at h; exact ih (wf_step hw h1) h

/-- States reachable from the initial state by ANY sequence of events (any interleaving). -/
def Reachable (cap n : Nat) (s : State) : Prop := ∃ es, run (init cap n) es = some s

theorem Reachable.wf {cap n : Nat} {s : State} (h : Reachable cap n s) : WF s := by
  obtain ⟨es, h⟩ := h
  exact wf_run (wf_init cap n) h

theorem run_append {s s1 : State} {es : List Event} (h : run s es = some s1) (fs : List Event) :
    run s (es ++ fs) = run s1 fs := by
  induction es generalizing s with
  | nil => simp [run_nil] at h; subst h; rfl
  | cons e es ih =>
    rw [List.cons_append, run_cons]
    rw [run_cons] at h
    cases h2 : step s e with
    | none => simp [h2] at h
    | some s2 => simp [h2] at h; simpa using ih h

theorem Reachable.next {cap n : Nat} {s s' : State} {e : Event} (h : Reachable cap n s)
    (hs : step s e = some s') : Reachable cap n s' := by
  obtain ⟨es, h⟩ := h
  refine ⟨es ++ [e], ?_⟩
  rw [run_append h, run_cons, hs]
  rfl

theorem cap_step {s s' : State} {e : Event} (h : step s e = some s') : s'.cap = s.cap := by
  cases e <;> simp only [step, stepGen] at h
  · cases h; rfl
  · split at h <;> cases h; rfl
  · split at h <;> cases h; rfl
  · split at h
    · cases h
    · split at h <;> cases h; rfl

theorem cap_run {s0 s : State} {es : List Event} (h : run s0 es = some s) : s.cap = s0.cap := by
  induction es generalizing s0 with
  | nil => simp [run_nil] at h; subst h; rfl
  | cons e es ih =>
    rw [run_cons] at h
    cases h1 : step s0 e with
    | none => simp [h1] at h
    | some s1 => simp [h1] at h; rw [ih h, cap_step h1]

theorem Reachable.cap_eq {cap n : Nat} {s : State} (h : Reachable cap n s) : s.cap = cap := by
  obtain ⟨es, h⟩ := h
  exact cap_run h

/-! ### consequences of the invariant -/

theorem aliveN_le_holdW {epoch prio : Nat} {v : Invo} (h : Good epoch prio v) :
    v.aliveN ≤ holdW v ∧ (holds v.pc = false → v.aliveN = 0) := by
  obtain ⟨pc, cur, orph, canc⟩ := v
  obtain ⟨ho, hg⟩ := h
  simp only at ho; subst ho
  cases pc <;> cases cur <;> simp_all [holdW, holds, Invo.aliveN]

theorem wf_safe {s : State} (hw : WF s) : Safe s := by
  obtain ⟨_, h2, h3⟩ := hw
  refine ⟨?_, ?_⟩
  · have := sumBy_le Invo.aliveN holdW s.invs (fun v hv => (aliveN_le_holdW (h3 v hv)).1)
    simp only [aliveTotal, holders] at *; omega
  · intro v hv
    have := aliveN_le_holdW (h3 v hv)
    refine ⟨?_, this.2⟩
    have h1 := this.1
    unfold holdW at h1
    split at h1 <;> omega

/-! ### progress -/

theorem wt_silence (epoch prio : Nat) (v : Invo) : wt epoch (prio - 1) v ≤ wt epoch prio v := by
  unfold wt
  split <;> first
    | omega
    | (split <;> split <;> omega)

theorem mu_step {s s' : State} {e : Event} (hw : WF s) (he : e ≠ .doPrio)
    (h : step s e = some s') : mu s' < mu s := by
  obtain ⟨h1, h2, h3⟩ := hw
  cases e with
  | doPrio => exact absurd rfl he
  | donePrio =>
    simp [step, stepGen] at h; obtain ⟨hlt, rfl⟩ := h
    simp only [mu]; omega
  | silenceElapsed =>
    simp [step, stepGen] at h; obtain ⟨hlt, rfl⟩ := h
    have := sumBy_le (wt s.epoch (s.prio - 1)) (wt s.epoch s.prio) s.invs
      (fun v _ => wt_silence s.epoch s.prio v)
    simp only [mu]; omega
  | inv i a =>
    simp only [step, stepGen] at h
    split at h
    · cases h
    · rename_i v hv
      split at h
      · cases h
      · rename_i sf v' hl
        cases h
        have hm := List.mem_of_getElem? hv
        obtain ⟨_, _, g3⟩ := localStep_spec hl (h3 v hm)
        have := sumBy_set (wt s.epoch s.prio) s.invs i v v' hv
        simp only [mu]; omega

theorem mu_run {s s' : State} {es : List Event} (hw : WF s) (hno : Event.doPrio ∉ es)
    (h : run s es = some s') : mu s' + es.length ≤ mu s := by
  induction es generalizing s with
  | nil => simp [run_nil] at h; subst h; simp
  | cons e es ih =>
    rw [run_cons] at h
    cases h1 : step s e with
    | none => simp [h1] at h
    | some s1 =>
      simp [h1] at h
      have he : e ≠ .doPrio := fun hh => hno (by simp [hh])
      have hno' : Event.doPrio ∉ es := fun hh => hno (by simp [hh])
      have := ih (wf_step hw h1) hno' h
      have := mu_step hw he h1
      simp only [List.length_cons]; omega

theorem step_inv_isSome {s : State} {j : Nat} {w : Invo} {a : Act} (hj : s.invs[j]? = some w)
    (h : (localStep true s.semFree s.prio s.epoch w a).isSome) : (step s (.inv j a)).isSome := by
  simp only [step, stepGen, hj]
  cases hl : localStep true s.semFree s.prio s.epoch w a with
  | none => simp [hl] at h
  | some p => simp

/-- An invocation that holds a semaphore slot can always move (when `prio = 0`), provided bodies
return: this is where the "bodies terminate" part of the fairness assumption enters. -/
theorem holder_enabled {s : State} (hp : s.prio = 0) {j : Nat} {w : Invo}
    (hj : s.invs[j]? = some w) (hh : holds w.pc = true) : ∃ a, (step s (.inv j a)).isSome := by
  obtain ⟨pc, cur, orph, canc⟩ := w
  cases pc <;> simp [holds] at hh
  · exact ⟨.decideStart, step_inv_isSome hj (by simp [localStep, hp])⟩
  · exact ⟨.release, step_inv_isSome hj (by simp [localStep])⟩
  · cases cur
    · exact ⟨.observeDone, step_inv_isSome hj (by simp [localStep])⟩
    · exact ⟨.bodyReturns, step_inv_isSome hj (by simp [localStep])⟩
  · cases cur
    · exact ⟨.observeDoneAfterCancel, step_inv_isSome hj (by simp [localStep])⟩
    · exact ⟨.bodyReturns, step_inv_isSome hj (by simp [localStep])⟩
  · exact ⟨.release, step_inv_isSome hj (by simp [localStep])⟩
  · exact ⟨.release, step_inv_isSome hj (by simp [localStep])⟩

theorem some_event_enabled {s : State} (hw : WF s) (hcap : 0 < s.cap)
    (hnot : ∃ v ∈ s.invs, v.pc ≠ .returned) : ∃ e, e ≠ Event.doPrio ∧ (step s e).isSome := by
  obtain ⟨h1, h2, _⟩ := hw
  by_cases hp : s.prio = 0
  · obtain ⟨v, hv, hne⟩ := hnot
    obtain ⟨i, hi⟩ := List.getElem?_of_mem hv
    by_cases hh : holds v.pc = true
    · obtain ⟨a, ha⟩ := holder_enabled hp hi hh
      exact ⟨.inv i a, by simp, ha⟩
    · obtain ⟨pc, cur, orph, canc⟩ := v
      cases pc <;> simp [holds] at hh hne
      · exact ⟨.inv i .passWait, by simp, step_inv_isSome hi (by simp [localStep, hp])⟩
      · by_cases hs : 0 < s.semFree
        · exact ⟨.inv i .acquire, by simp, step_inv_isSome hi (by simp [localStep, hs])⟩
        · have : 0 < sumBy holdW s.invs := by simp only [holders] at h2; omega
          obtain ⟨j, w, hj, hwp⟩ := exists_of_sumBy_pos holdW s.invs this
          have hh' : holds w.pc = true := by
            unfold holdW at hwp; split at hwp
            · assumption
            · omega
          obtain ⟨a, ha⟩ := holder_enabled hp hj hh'
          exact ⟨.inv j a, by simp, ha⟩
      · exact ⟨.inv i .ret, by simp, step_inv_isSome hi (by simp [localStep])⟩
  · by_cases hs : s.silent < s.prio
    · exact ⟨.donePrio, by simp, by simp [step, stepGen, hs]⟩
    · exact ⟨.silenceElapsed, by simp, by
        have : 0 < s.silent ∧ 0 < s.prio := by omega
        simp [step, stepGen, this]⟩

/-- All invocations have returned. -/
def AllReturned (s : State) : Prop := ∀ v ∈ s.invs, v.pc = .returned

instance (s : State) : Decidable (AllReturned s) := by unfold AllReturned; infer_instance

theorem exists_of_get {o : Option State} (h : o.isSome = true) (P : State → Prop)
    (hp : P (o.get h)) : ∃ s, o = some s ∧ P s := ⟨o.get h, by simp, hp⟩

/-! ### `bg.pass_wait` is logged after its linearisation point -/

theorem forcePass_eq_passWait (s : State) (i : Nat) (hp : s.prio = 0) :
    forcePass s i = step s (.inv i .passWait) := by
  simp only [forcePass, step, stepGen, localStep, hp]
  cases s.invs[i]? with
  | none => rfl
  | some v => by_cases h : v.pc = .waitZero <;> simp [h]

/-- `forcePass i` commutes with every event that is not an action of invocation `i`: applying it
where the hook logged `bg.pass_wait` gives the same state as taking `passWait` at the earlier
point where the wait loop read `prioritizedTasks == 0`. -/
theorem forcePass_comm (s : State) (i : Nat) (e : Event) (he : ∀ a, e ≠ .inv i a) :
    (forcePass s i).bind (fun s1 => step s1 e) = (step s e).bind (fun s1 => forcePass s1 i) := by
  cases e with
  | doPrio =>
    simp only [forcePass, step, stepGen]
    cases hi : s.invs[i]? with
    | none => simp [hi]
    | some v => by_cases hv : v.pc = .waitZero <;> simp [hv, hi]
  | donePrio =>
    simp only [forcePass, step, stepGen]
    cases hi : s.invs[i]? with
    | none => by_cases h : s.silent < s.prio <;> simp [h, hi]
    | some v =>
      by_cases hv : v.pc = .waitZero <;> by_cases h : s.silent < s.prio <;> simp [hv, h, hi]
  | silenceElapsed =>
    simp only [forcePass, step, stepGen]
    cases hi : s.invs[i]? with
    | none => by_cases h : 0 < s.silent ∧ 0 < s.prio <;> simp [h, hi]
    | some v =>
      by_cases hv : v.pc = .waitZero <;> by_cases h : 0 < s.silent ∧ 0 < s.prio <;>
        simp [hv, h, hi]
  | inv j a =>
    have hij : i ≠ j := fun hh => he a (by rw [hh])
    have hji : j ≠ i := Ne.symm hij
    simp only [forcePass, step, stepGen]
    cases hi : s.invs[i]? with
    | none =>
      cases hj : s.invs[j]? with
      | none => simp
      | some w =>
        cases hl : localStep true s.semFree s.prio s.epoch w a with
        | none => simp [hl]
        | some p => simp [hl, List.getElem?_set_ne hji, hi]
    | some v =>
      by_cases hv : v.pc = .waitZero
      · cases hj : s.invs[j]? with
        | none => simp [hv, List.getElem?_set_ne hij, hj]
        | some w =>
          cases hl : localStep true s.semFree s.prio s.epoch w a with
          | none => simp [hv, List.getElem?_set_ne hij, hj, hl]
          | some p =>
            simp [hv, List.getElem?_set_ne hij, hj, hl, List.getElem?_set_ne hji, hi,
              List.set_comm _ _ hij]
      · cases hj : s.invs[j]? with
        | none => simp [hv]
        | some w =>
          cases hl : localStep true s.semFree s.prio s.epoch w a with
          | none => simp [hv, hl]
          | some p => simp [hv, hl, List.getElem?_set_ne hji, hi]

end SV.Task
