import SV.Model.FuseMgr

namespace SV.FuseMgr

/-! ## association lists -/

theorem aget_ains {β : Type} (k k' : Nat) (v : β) (l : List (Nat × β)) :
    aget k' (ains k v l) = if k' = k then some v else aget k' l := by
  induction l with
  | nil => simp [ains, aget, eq_comm]
  | cons e t ih =>
    obtain ⟨a, b⟩ := e
    simp only [ains]
    split
    · simp only [aget]; grind
    · split
      · simp only [aget]; grind
      · simp only [aget, ih]; grind

theorem aget_adel {β : Type} (k k' : Nat) (l : List (Nat × β)) :
    aget k' (adel k l) = if k' = k then none else aget k' l := by
  induction l with
  | nil => simp [adel, aget]
  | cons e t ih =>
    obtain ⟨a, b⟩ := e
    unfold adel at ih ⊢
    simp only [List.filter]
    split
    · simp only [aget, ih]; grind
    · simp only [aget, ih]; grind

theorem aget_of_mem {β : Type} (k : Nat) (v : β) (l : List (Nat × β)) (h : (k, v) ∈ l) :
    aget k l ≠ none := by
  induction l with
  | nil => simp at h
  | cons e t ih =>
    obtain ⟨a, b⟩ := e
    simp only [aget]
    split
    · simp
    · rename_i hne
      rcases List.mem_cons.mp h with h | h
      · simp at h; exact absurd h.1.symm hne
      · exact ih h

theorem mem_of_aget {β : Type} (k : Nat) (v : β) (l : List (Nat × β)) (h : aget k l = some v) :
    (k, v) ∈ l := by
  induction l with
  | nil => simp [aget] at h
  | cons e t ih =>
    obtain ⟨a, b⟩ := e
    simp only [aget] at h
    split at h
    · rename_i he; subst he; simp at h; subst h; exact List.mem_cons_self ..
    · exact List.mem_cons_of_mem _ (ih h)

/-- keys strictly ascending. -/
def Sorted {β : Type} (l : List (Nat × β)) : Prop := (l.map Prod.fst).Pairwise (· < ·)

theorem sorted_nil {β : Type} : Sorted ([] : List (Nat × β)) := by simp [Sorted]

theorem mem_keys_ains {β : Type} (k : Nat) (v : β) (l : List (Nat × β)) (x : Nat)
    (h : x ∈ (ains k v l).map Prod.fst) : x = k ∨ x ∈ l.map Prod.fst := by
  induction l with
  | nil => simp [ains] at h; exact Or.inl h
  | cons e t ih =>
    obtain ⟨a, b⟩ := e
    simp only [ains] at h
    split at h
    · simp at h ⊢; rcases h with h | h | h
      · exact Or.inl h
      · exact Or.inr (Or.inl h)
      · exact Or.inr (Or.inr h)
    · split at h
      · simp at h ⊢; rcases h with h | h
        · exact Or.inl h
        · exact Or.inr (Or.inr h)
      · simp only [List.map_cons, List.mem_cons] at h ⊢
        rcases h with h | h
        · exact Or.inr (Or.inl h)
        · rcases ih h with h | h
          · exact Or.inl h
          · exact Or.inr (Or.inr h)

theorem sorted_ains {β : Type} (k : Nat) (v : β) (l : List (Nat × β)) (h : Sorted l) :
    Sorted (ains k v l) := by
  induction l with
  | nil => simp [ains, Sorted]
  | cons e t ih =>
    obtain ⟨a, b⟩ := e
    unfold Sorted at h ih ⊢
    simp only [List.map_cons, List.pairwise_cons] at h
    simp only [ains]
    split
    · rename_i hlt
      simp only [List.map_cons, List.pairwise_cons]
      refine ⟨?_, h⟩
      intro x hx
      rcases List.mem_cons.mp hx with hx | hx
      · omega
      · have := h.1 x hx; omega
    · split
      · rename_i _ heq
        subst heq
        simp only [List.map_cons, List.pairwise_cons]
        exact h
      · rename_i h1 h2
        simp only [List.map_cons, List.pairwise_cons]
        refine ⟨?_, ih h.2⟩
        intro x hx
        rcases mem_keys_ains k v t x hx with hx | hx
        · omega
        · exact h.1 x hx

theorem sorted_adel {β : Type} (k : Nat) (l : List (Nat × β)) (h : Sorted l) : Sorted (adel k l) := by
  unfold Sorted adel at *
  exact List.Pairwise.sublist (List.Sublist.map _ List.filter_sublist) h

/-! ## the invariant -/

/-- The quiescent invariant of the manager (holds between any two RPCs). -/
structure Inv (s : St) : Prop where
  ready_fs : s.status = .ready → s.curFs ≠ none ∧ s.lastInit ≠ none
  fs_cfg : s.curFs ≠ none → s.cfg ≠ none
  live_iff : ∀ f mp, (f, mp) ∈ s.live ↔ aget mp s.fsMap = some f
  live_nodup : (s.live.map Prod.snd).Nodup
  map_lt : ∀ mp f, aget mp s.fsMap = some f → f < s.nextFs
  cur_lt : ∀ f, s.curFs = some f → f < s.nextFs
  map_cur : ∀ mp f, aget mp s.fsMap = some f → s.curFs ≠ none
  sub : s.closed = false → ∀ mp, aget mp s.fsMap ≠ none → aget mp s.store ≠ none
  sup : s.closed = false → s.lastInit = some .ok → ∀ mp, aget mp s.store ≠ none → aget mp s.fsMap ≠ none
  sorted : Sorted s.store

theorem inv_init0 : Inv {} := by
  constructor <;> simp [aget, Sorted]

theorem mountCore_cases (s : St) (mp : Mp) (lab : Lab) (ok : Bool) :
    (∃ g, aget mp s.fsMap = some g ∧ mountCore s mp lab ok = ⟨s, .ok, []⟩) ∨
    (aget mp s.fsMap = none ∧ s.curFs = none ∧ mountCore s mp lab ok = ⟨s, .panic, []⟩) ∨
    (∃ f, aget mp s.fsMap = none ∧ s.curFs = some f ∧ ok = true ∧
      mountCore s mp lab ok = ⟨s.mounted mp f, .ok, [.mount f mp lab true]⟩) ∨
    (∃ f, aget mp s.fsMap = none ∧ s.curFs = some f ∧ ok = false ∧
      mountCore s mp lab ok = ⟨s, .err, [.mount f mp lab false]⟩) := by
  unfold mountCore
  cases h1 : aget mp s.fsMap with
  | some g => simp
  | none =>
    cases h2 : s.curFs with
    | none => simp
    | some f => cases ok <;> simp

theorem inv_mounted (s : St) (mp : Mp) (f : FsId) (h : Inv s) (hn : aget mp s.fsMap = none)
    (hc : s.curFs = some f) (hs : s.closed = false → aget mp s.store ≠ none) : Inv (s.mounted mp f) := by
  have hl := h.live_iff
  constructor
  · exact h.ready_fs
  · exact h.fs_cfg
  · intro g m
    simp only [St.mounted, aget_ains, List.mem_cons, Prod.mk.injEq]
    have := hl g m
    grind
  · simp only [St.mounted, List.map_cons, List.nodup_cons]
    refine ⟨?_, h.live_nodup⟩
    intro hm
    obtain ⟨⟨g, m⟩, hgm, rfl⟩ := List.mem_map.mp hm
    have := (hl g m).mp hgm
    simp_all
  · intro m g
    simp only [St.mounted, aget_ains]
    have := h.map_lt m g
    have := h.cur_lt f hc
    grind
  · exact h.cur_lt
  · intro m g _
    simp [St.mounted, hc]
  · intro hcl m
    simp only [St.mounted, aget_ains]
    have := h.sub hcl m
    have := hs hcl
    grind
  · intro hcl hli m
    simp only [St.mounted, aget_ains]
    have := h.sup hcl hli m
    grind
  · exact h.sorted

/-- Fields `restore` never touches. -/
def SameBut (s t : St) : Prop :=
  t.status = s.status ∧ t.curFs = s.curFs ∧ t.cfg = s.cfg ∧ t.store = s.store ∧ t.closed = s.closed ∧
  t.nextFs = s.nextFs ∧ t.fsCfg = s.fsCfg ∧ t.lastInit = s.lastInit

/-- Everything the theorems need to know about `restoreFuseInfo`. -/
structure RestoreSpec (f : FsId) (es : List (Mp × Rec)) (s : St) (o : Out) : Prop where
  frame : SameBut s o.st
  inv : Inv o.st
  mono : ∀ mp g, aget mp s.fsMap = some g → aget mp o.st.fsMap = some g
  fresh : ∀ mp g, aget mp o.st.fsMap = some g → aget mp s.fsMap = some g ∨
    (aget mp s.fsMap = none ∧ g = f ∧ ∃ r, aget mp es = some r ∧ Call.mount f mp r.labels true ∈ o.calls)
  calls : ∀ c ∈ o.calls, ∃ mp lab ok, c = Call.mount f mp lab ok ∧ aget mp s.fsMap = none ∧
    aget mp es ≠ none
  nopanic : o.resp ≠ .panic
  onerr : o.resp = .err → ∃ mp lab, Call.mount f mp lab false ∈ o.calls
  onok : o.resp = .ok → ∀ mp r, aget mp es = some r →
    aget mp o.st.fsMap ≠ none ∧
    (aget mp s.fsMap = none → Call.mount f mp r.labels true ∈ o.calls ∧ aget mp o.st.fsMap = some f)

theorem restore_spec (failMp : Mp → Bool) (f : FsId) (es : List (Mp × Rec)) :
    ∀ s : St, Inv s → s.curFs = some f →
      (∀ mp r, aget mp es = some r → s.closed = false → aget mp s.store ≠ none) →
      RestoreSpec f es s (restore failMp es s) := by
  induction es with
  | nil =>
    intro s h hc _
    simp only [restore]
    exact ⟨⟨rfl, rfl, rfl, rfl, rfl, rfl, rfl, rfl⟩, h, fun _ _ h => h, fun _ _ h => Or.inl h,
      by simp, by simp, by simp, by simp [aget]⟩
  | cons e rest ih =>
    obtain ⟨mp, r⟩ := e
    intro s h hc hes
    have hes' : ∀ m r', m ≠ mp → aget m rest = some r' → s.closed = false → aget m s.store ≠ none := by
      intro m r' hne hm
      exact hes m r' (by simp [aget, Ne.symm hne, hm])
    simp only [restore]
    rcases mountCore_cases s mp r.labels (!failMp mp) with
      ⟨g, hg, heq⟩ | ⟨_, hcn, _⟩ | ⟨f', hn, hc', hok, heq⟩ | ⟨f', hn, hc', hok, heq⟩
    · -- already in fsMap: skipped
      rw [heq]
      simp only
      have hes2 : ∀ m r', aget m rest = some r' → s.closed = false → aget m s.store ≠ none := by
        intro m r' hm
        by_cases hne : m = mp
        · subst hne; exact hes m r (by simp [aget])
        · exact hes' m r' hne hm
      have I := ih s h hc hes2
      refine ⟨I.frame, I.inv, I.mono, ?_, ?_, I.nopanic, ?_, ?_⟩
      · intro m g' hm
        rcases I.fresh m g' hm with h1 | ⟨h1, h2, r', h3, h4⟩
        · exact Or.inl h1
        · refine Or.inr ⟨h1, h2, r', ?_, by simpa using h4⟩
          have : mp ≠ m := by intro e; subst e; simp [hg] at h1
          simp [aget, this, h3]
      · intro c hcm
        obtain ⟨m, lab, ok, h1, h2, h3⟩ := I.calls c (by simpa using hcm)
        refine ⟨m, lab, ok, h1, h2, ?_⟩
        simp only [aget]; split <;> simp [h3]
      · intro he
        obtain ⟨m, lab, hm⟩ := I.onerr he
        exact ⟨m, lab, by simpa using hm⟩
      · intro hok m r' hm
        simp only [aget] at hm
        split at hm
        · rename_i hmm; subst hmm
          refine ⟨by rw [I.mono _ _ hg]; simp, ?_⟩
          intro hnn; simp [hg] at hnn
        · have := I.onok hok m r' hm
          exact ⟨this.1, fun hnn => by simpa using this.2 hnn⟩
    · simp [hc] at hcn
    · -- mounted on the current filesystem
      rw [heq]
      simp only
      have hff : f' = f := by rw [hc] at hc'; exact (Option.some.inj hc').symm
      subst hff
      have hstore : s.closed = false → aget mp s.store ≠ none := hes mp r (by simp [aget])
      have h1 : Inv (s.mounted mp f') := inv_mounted s mp f' h hn hc hstore
      have hes2 : ∀ m r', aget m rest = some r' → (s.mounted mp f').closed = false →
          aget m (s.mounted mp f').store ≠ none := by
        intro m r' hm
        by_cases hne : m = mp
        · subst hne; exact hes m r (by simp [aget])
        · exact hes' m r' hne hm
      have I := ih (s.mounted mp f') h1 hc hes2
      obtain ⟨F1, F2, F3, F4, F5, F6, F7, F8⟩ := I.frame
      refine ⟨⟨F1, F2, F3, F4, F5, F6, F7, F8⟩, I.inv, ?_, ?_, ?_, I.nopanic, ?_, ?_⟩
      · intro m g hm
        apply I.mono
        simp only [St.mounted, aget_ains]
        have : m ≠ mp := by intro e; subst e; simp [hn] at hm
        simp [this, hm]
      · intro m g hm
        rcases I.fresh m g hm with h2 | ⟨h2, h3, r', h4, h5⟩
        · simp only [St.mounted, aget_ains] at h2
          split at h2
          · rename_i hmm; subst hmm
            refine Or.inr ⟨hn, (Option.some.inj h2).symm, r, by simp [aget], by simp⟩
          · exact Or.inl h2
        · simp only [St.mounted, aget_ains] at h2
          split at h2
          · simp at h2
          · rename_i hne
            refine Or.inr ⟨h2, h3, r', by simp [aget, Ne.symm hne, h4], by simp [h5]⟩
      · intro c hcm
        simp only [List.cons_append, List.nil_append, List.mem_cons] at hcm
        rcases hcm with hcm | hcm
        · exact ⟨mp, r.labels, true, hcm, hn, by simp [aget]⟩
        · obtain ⟨m, lab, ok, h2, h3, h4⟩ := I.calls c hcm
          simp only [St.mounted, aget_ains] at h3
          split at h3
          · simp at h3
          · refine ⟨m, lab, ok, h2, h3, ?_⟩
            simp only [aget]; split <;> simp [h4]
      · intro he
        obtain ⟨m, lab, hm⟩ := I.onerr he
        exact ⟨m, lab, by simp [hm]⟩
      · intro hok' m r' hm
        simp only [aget] at hm
        split at hm
        · rename_i hmm; subst hmm
          have hr : r' = r := (Option.some.inj hm).symm
          subst hr
          have : aget mp (restore failMp rest (s.mounted mp f')).st.fsMap = some f' :=
            I.mono mp f' (by simp [St.mounted, aget_ains])
          exact ⟨by simp [this], fun _ => ⟨by simp, this⟩⟩
        · rename_i hne
          have := I.onok hok' m r' hm
          refine ⟨this.1, fun hnn => ?_⟩
          have h2 : aget m (s.mounted mp f').fsMap = none := by
            simp [St.mounted, aget_ains, Ne.symm hne, hnn]
          have := this.2 h2
          exact ⟨by simp [this.1], this.2⟩
    · -- fs.Mount failed: restore stops here
      rw [heq]
      simp only
      have hff : f' = f := by rw [hc] at hc'; exact (Option.some.inj hc').symm
      subst hff
      refine ⟨⟨rfl, rfl, rfl, rfl, rfl, rfl, rfl, rfl⟩, h, fun _ _ h => h, fun _ _ h => Or.inl h,
        ?_, by simp, ?_, by simp⟩
      · intro c hcm
        simp only [List.mem_singleton] at hcm
        exact ⟨mp, r.labels, false, hcm, hn, by simp [aget]⟩
      · intro _; exact ⟨mp, r.labels, by simp⟩

end SV.FuseMgr
