import SV.Model.FuseMgr

namespace SV.FuseMgr

/-! ## association lists -/

theorem aget_ains {β : Type} (k k' : Nat) (v : β) (l : List (Nat × β)) :
    aget k' (ains k v l) = if k' = k then some v else aget k' l := by
  induction l with
  | nil => simp [ains, aget, eq_comm]
  | cons e t ih =>
    obtain ⟨a, b⟩ := e
    simp only [ains]
    split
    · simp only [aget]; grind
    · split
      · simp only [aget]; grind
      · simp only [aget, ih]; grind

theorem aget_adel {β : Type} (k k' : Nat) (l : List (Nat × β)) :
    aget k' (adel k l) = if k' = k then none else aget k' l := by
  induction l with
  | nil => simp [adel, aget]
  | cons e t ih =>
    obtain ⟨a, b⟩ := e
    unfold adel at ih ⊢
    simp only [List.filter]
    split
    · simp only [aget, ih]; grind
    · simp only [aget, ih]; grind

theorem aget_of_mem {β : Type} (k : Nat) (v : β) (l : List (Nat × β)) (h : (k, v) ∈ l) :
    aget k l ≠ none := by
  induction l with
  | nil => simp at h
  | cons e t ih =>
    obtain ⟨a, b⟩ := e
    simp only [aget]
    split
    · simp
    · rename_i hne
      rcases List.mem_cons.mp h with h | h
      · simp at h; exact absurd h.1.symm hne
      · exact ih h

theorem mem_of_aget {β : Type} (k : Nat) (v : β) (l : List (Nat × β)) (h : aget k l = some v) :
    (k, v) ∈ l := by
  induction l with
  | nil => simp [aget] at h
  | cons e t ih =>
    obtain ⟨a, b⟩ := e
    simp only [aget] at h
    split at h
    · rename_i he; subst he; simp at h; subst h; exact List.mem_cons_self ..
    · exact List.mem_cons_of_mem _ (ih h)

/-- keys strictly ascending. -/
def Sorted {β : Type} (l : List (Nat × β)) : Prop := (l.map Prod.fst).Pairwise (· < ·)

theorem sorted_nil {β : Type} : Sorted ([] : List (Nat × β)) := by simp [Sorted]

theorem mem_keys_ains {β : Type} (k : Nat) (v : β) (l : List (Nat × β)) (x : Nat)
    (h : x ∈ (ains k v l).map Prod.fst) : x = k ∨ x ∈ l.map Prod.fst := by
  induction l with
  | nil => simp [ains] at h; exact Or.inl h
  | cons e t ih =>
    obtain ⟨a, b⟩ := e
    simp only [ains] at h
    split at h
    · simp at h ⊢; rcases h with h | h | h
      · exact Or.inl h
      · exact Or.inr (Or.inl h)
      · exact Or.inr (Or.inr h)
    · split at h
      · simp at h ⊢; rcases h with h | h
        · exact Or.inl h
        · exact Or.inr (Or.inr h)
      · simp only [List.map_cons, List.mem_cons] at h ⊢
        rcases h with h | h
        · exact Or.inr (Or.inl h)
        · rcases ih h with h | h
          · exact Or.inl h
          · exact Or.inr (Or.inr h)

theorem sorted_ains {β : Type} (k : Nat) (v : β) (l : List (Nat × β)) (h : Sorted l) :
    Sorted (ains k v l) := by
  induction l with
  | nil => simp [ains, Sorted]
  | cons e t ih =>
    obtain ⟨a, b⟩ := e
    unfold Sorted at h ih ⊢
    simp only [List.map_cons, List.pairwise_cons] at h
    simp only [ains]
    split
    · rename_i hlt
      simp only [List.map_cons, List.pairwise_cons]
      refine ⟨?_, h⟩
      intro x hx
      rcases List.mem_cons.mp hx with hx | hx
      · omega
      · have := h.1 x hx; omega
    · split
      · rename_i _ heq
        subst heq
        simp only [List.map_cons, List.pairwise_cons]
        exact h
      · rename_i h1 h2
        simp only [List.map_cons, List.pairwise_cons]
        refine ⟨?_, ih h.2⟩
        intro x hx
        rcases mem_keys_ains k v t x hx with hx | hx
        · omega
        · exact h.1 x hx

theorem sorted_adel {β : Type} (k : Nat) (l : List (Nat × β)) (h : Sorted l) : Sorted (adel k l) := by
  unfold Sorted adel at *
  exact List.Pairwise.sublist (List.Sublist.map _ List.filter_sublist) h

end SV.FuseMgr
