import SV.Model.FuseMgr

namespace SV.FuseMgr

/-! ## association lists -/

theorem aget_ains {β : Type} (k k' : Nat) (v : β) (l : List (Nat × β)) :
    aget k' (ains k v l) = if k' = k then some v else aget k' l := by
  induction l with
  | nil => simp [ains, aget, eq_comm]
  | cons e t ih =>
    obtain ⟨a, b⟩ := e
    simp only [ains]
    split
    · simp only [aget]; grind
    · split
      · simp only [aget]; grind
      · simp only [aget, ih]; grind

theorem aget_adel {β : Type} (k k' : Nat) (l : List (Nat × β)) :
    aget k' (adel k l) = if k' = k then none else aget k' l := by
  induction l with
  | nil => simp [adel, aget]
  | cons e t ih =>
    obtain ⟨a, b⟩ := e
    unfold adel at ih ⊢
    simp only [List.filter]
    split
    · simp only [aget, ih]; grind
    · simp only [aget, ih]; grind

theorem aget_of_mem {β : Type} (k : Nat) (v : β) (l : List (Nat × β)) (h : (k, v) ∈ l) :
    aget k l ≠ none := by
  induction l with
  | nil => simp at h
  | cons e t ih =>
    obtain ⟨a, b⟩ := e
    simp only [aget]
    split
    · simp
    · rename_i hne
      rcases List.mem_cons.mp h with h | h
      · simp at h; exact absurd h.1.symm hne
      · exact ih h

theorem mem_of_aget {β : Type} (k : Nat) (v : β) (l : List (Nat × β)) (h : aget k l = some v) :
    (k, v) ∈ l := by
  induction l with
  | nil => simp [aget] at h
  | cons e t ih =>
    obtain ⟨a, b⟩ := e
    simp only [aget] at h
    split at h
    · rename_i he; subst he; simp at h; subst h; exact List.mem_cons_self ..
    · exact List.mem_cons_of_mem _ (ih h)

/-- keys strictly ascending. -/
def Sorted {β : Type} (l : List (Nat × β)) : Prop := (l.map Prod.fst).Pairwise (· < ·)

theorem sorted_nil {β : Type} : Sorted ([] : List (Nat × β)) := by simp [Sorted]

theorem mem_keys_ains {β : Type} (k : Nat) (v : β) (l : List (Nat × β)) (x : Nat)
    (h : x ∈ (ains k v l).map Prod.fst) : x = k ∨ x ∈ l.map Prod.fst := by
  induction l with
  | nil => simp [ains] at h; exact Or.inl h
  | cons e t ih =>
    obtain ⟨a, b⟩ := e
    simp only [ains] at h
    split at h
    · simp at h ⊢; rcases h with h | h | h
      · exact Or.inl h
      · exact Or.inr (Or.inl h)
      · exact Or.inr (Or.inr h)
    · split at h
      · simp at h ⊢; rcases h with h | h
        · exact Or.inl h
        · exact Or.inr (Or.inr h)
      · simp only [List.map_cons, List.mem_cons] at h ⊢
        rcases h with h | h
        · exact Or.inr (Or.inl h)
        · rcases ih h with h | h
          · exact Or.inl h
          · exact Or.inr (Or.inr h)

theorem sorted_ains {β : Type} (k : Nat) (v : β) (l : List (Nat × β)) (h : Sorted l) :
    Sorted (ains k v l) := by
  induction l with
  | nil => simp [ains, Sorted]
  | cons e t ih =>
    obtain ⟨a, b⟩ := e
    unfold Sorted at h ih ⊢
    simp only [List.map_cons, List.pairwise_cons] at h
    simp only [ains]
    split
    · rename_i hlt
      simp only [List.map_cons, List.pairwise_cons]
      refine ⟨?_, h⟩
      intro x hx
      rcases List.mem_cons.mp hx with hx | hx
      · omega
      · have := h.1 x hx; omega
    · split
      · rename_i _ heq
        subst heq
        simp only [List.map_cons, List.pairwise_cons]
        exact h
      · rename_i h1 h2
        simp only [List.map_cons, List.pairwise_cons]
        refine ⟨?_, ih h.2⟩
        intro x hx
        rcases mem_keys_ains k v t x hx with hx | hx
        · omega
        · exact h.1 x hx

theorem sorted_adel {β : Type} (k : Nat) (l : List (Nat × β)) (h : Sorted l) : Sorted (adel k l) := by
  unfold Sorted adel at *
  exact List.Pairwise.sublist (List.Sublist.map _ List.filter_sublist) h

/-! ## frame of the store updates -/

theorem putRec_frame (s : St) (mp : Mp) (r : Rec) :
    (putRec s mp r).status = s.status ∧ (putRec s mp r).curFs = s.curFs ∧ (putRec s mp r).cfg = s.cfg ∧
    (putRec s mp r).fsMap = s.fsMap ∧ (putRec s mp r).closed = s.closed ∧ (putRec s mp r).live = s.live ∧
    (putRec s mp r).nextFs = s.nextFs ∧ (putRec s mp r).fsCfg = s.fsCfg ∧
    (putRec s mp r).lastInit = s.lastInit := by
  unfold putRec; split <;> simp

theorem delRec_frame (s : St) (mp : Mp) :
    (delRec s mp).status = s.status ∧ (delRec s mp).curFs = s.curFs ∧ (delRec s mp).cfg = s.cfg ∧
    (delRec s mp).fsMap = s.fsMap ∧ (delRec s mp).closed = s.closed ∧ (delRec s mp).live = s.live ∧
    (delRec s mp).nextFs = s.nextFs ∧ (delRec s mp).fsCfg = s.fsCfg ∧
    (delRec s mp).lastInit = s.lastInit := by
  unfold delRec; split <;> simp

/-! ## the invariant -/

/-- The quiescent invariant of the manager (holds between any two RPCs). -/
structure Inv (s : St) : Prop where
  ready_fs : s.status = .ready → s.curFs ≠ none ∧ s.lastInit ≠ none
  fs_cfg : s.curFs ≠ none → s.cfg ≠ none
  live_iff : ∀ f mp, (f, mp) ∈ s.live ↔ aget mp s.fsMap = some f
  live_nodup : (s.live.map Prod.snd).Nodup
  map_lt : ∀ mp f, aget mp s.fsMap = some f → f < s.nextFs
  cur_lt : ∀ f, s.curFs = some f → f < s.nextFs
  map_cur : ∀ mp f, aget mp s.fsMap = some f → s.curFs ≠ none
  sub : s.closed = false → ∀ mp, aget mp s.fsMap ≠ none → aget mp s.store ≠ none
  sup : s.closed = false → s.lastInit = some .ok → ∀ mp, aget mp s.store ≠ none → aget mp s.fsMap ≠ none
  sorted : Sorted s.store

theorem inv_init0 : Inv {} := by
  constructor <;> simp [aget, Sorted]

theorem mountCore_cases (s : St) (mp : Mp) (lab : Lab) (ok : Bool) :
    (∃ g, aget mp s.fsMap = some g ∧ mountCore s mp lab ok = ⟨s, .ok, []⟩) ∨
    (aget mp s.fsMap = none ∧ s.curFs = none ∧ mountCore s mp lab ok = ⟨s, .panic, []⟩) ∨
    (∃ f, aget mp s.fsMap = none ∧ s.curFs = some f ∧ ok = true ∧
      mountCore s mp lab ok = ⟨s.mounted mp f, .ok, [.mount f mp lab true]⟩) ∨
    (∃ f, aget mp s.fsMap = none ∧ s.curFs = some f ∧ ok = false ∧
      mountCore s mp lab ok = ⟨s, .err, [.mount f mp lab false]⟩) := by
  unfold mountCore
  cases h1 : aget mp s.fsMap with
  | some g => simp
  | none =>
    cases h2 : s.curFs with
    | none => simp
    | some f => cases ok <;> simp

/-- A successful `fs.Mount` + `fsMap.Store`, with the store either untouched (restore: the key is
already recorded) or extended by exactly that key (`Mount` RPC). -/
theorem inv_mounted' (s : St) (mp : Mp) (f : FsId) (st' : List (Mp × Rec)) (h : Inv s)
    (hn : aget mp s.fsMap = none) (hc : s.curFs = some f) (hsorted : Sorted st')
    (hst : s.closed = false → ∀ m, aget m st' ≠ none ↔ (m = mp ∨ aget m s.store ≠ none)) :
    Inv { s.mounted mp f with store := st' } := by
  have hl := h.live_iff
  constructor
  · exact h.ready_fs
  · exact h.fs_cfg
  · intro g m
    simp only [St.mounted, aget_ains, List.mem_cons, Prod.mk.injEq]
    have := hl g m
    grind
  · simp only [St.mounted, List.map_cons, List.nodup_cons]
    refine ⟨?_, h.live_nodup⟩
    intro hm
    obtain ⟨⟨g, m⟩, hgm, rfl⟩ := List.mem_map.mp hm
    have := (hl g m).mp hgm
    simp_all
  · intro m g
    simp only [St.mounted, aget_ains]
    have := h.map_lt m g
    have := h.cur_lt f hc
    grind
  · exact h.cur_lt
  · intro m g _
    simp [St.mounted, hc]
  · intro hcl m
    simp only [St.mounted, aget_ains]
    have := h.sub hcl m
    have := hst hcl m
    grind
  · intro hcl hli m
    simp only [St.mounted, aget_ains]
    have := h.sup hcl hli m
    have := hst hcl m
    grind
  · exact hsorted

theorem inv_mounted (s : St) (mp : Mp) (f : FsId) (h : Inv s) (hn : aget mp s.fsMap = none)
    (hc : s.curFs = some f) (hs : s.closed = false → aget mp s.store ≠ none) : Inv (s.mounted mp f) := by
  have := inv_mounted' s mp f s.store h hn hc h.sorted (by
    intro hcl m
    have := hs hcl
    grind)
  exact this

/-- Fields `restore` never touches. -/
def SameBut (s t : St) : Prop :=
  t.status = s.status ∧ t.curFs = s.curFs ∧ t.cfg = s.cfg ∧ t.store = s.store ∧ t.closed = s.closed ∧
  t.nextFs = s.nextFs ∧ t.fsCfg = s.fsCfg ∧ t.lastInit = s.lastInit

/-- Everything the theorems need to know about `restoreFuseInfo`. -/
structure RestoreSpec (f : FsId) (es : List (Mp × Rec)) (s : St) (o : Out) : Prop where
  frame : SameBut s o.st
  inv : Inv o.st
  mono : ∀ mp g, aget mp s.fsMap = some g → aget mp o.st.fsMap = some g
  fresh : ∀ mp g, aget mp o.st.fsMap = some g → aget mp s.fsMap = some g ∨
    (aget mp s.fsMap = none ∧ g = f ∧ ∃ r, aget mp es = some r ∧ Call.mount f mp r.labels true ∈ o.calls)
  calls : ∀ c ∈ o.calls, ∃ mp lab ok, c = Call.mount f mp lab ok ∧ aget mp s.fsMap = none ∧
    aget mp es ≠ none
  nopanic : o.resp ≠ .panic
  onerr : o.resp = .err → ∃ mp lab, Call.mount f mp lab false ∈ o.calls
  onok : o.resp = .ok → ∀ mp r, aget mp es = some r →
    aget mp o.st.fsMap ≠ none ∧
    (aget mp s.fsMap = none → Call.mount f mp r.labels true ∈ o.calls ∧ aget mp o.st.fsMap = some f)

theorem restore_spec (failMp : Mp → Bool) (f : FsId) (es : List (Mp × Rec)) :
    ∀ s : St, Inv s → s.curFs = some f →
      (∀ mp r, aget mp es = some r → s.closed = false → aget mp s.store ≠ none) →
      RestoreSpec f es s (restore failMp es s) := by
  induction es with
  | nil =>
    intro s h hc _
    simp only [restore]
    exact ⟨⟨rfl, rfl, rfl, rfl, rfl, rfl, rfl, rfl⟩, h, fun _ _ h => h, fun _ _ h => Or.inl h,
      by simp, by simp, by simp, by simp [aget]⟩
  | cons e rest ih =>
    obtain ⟨mp, r⟩ := e
    intro s h hc hes
    have hes' : ∀ m r', m ≠ mp → aget m rest = some r' → s.closed = false → aget m s.store ≠ none := by
      intro m r' hne hm
      exact hes m r' (by simp [aget, Ne.symm hne, hm])
    simp only [restore]
    rcases mountCore_cases s mp r.labels (!failMp mp) with
      ⟨g, hg, heq⟩ | ⟨_, hcn, _⟩ | ⟨f', hn, hc', hok, heq⟩ | ⟨f', hn, hc', hok, heq⟩
    · -- already in fsMap: skipped
      rw [heq]
      simp only
      have hes2 : ∀ m r', aget m rest = some r' → s.closed = false → aget m s.store ≠ none := by
        intro m r' hm
        by_cases hne : m = mp
        · subst hne; exact hes m r (by simp [aget])
        · exact hes' m r' hne hm
      have I := ih s h hc hes2
      refine ⟨I.frame, I.inv, I.mono, ?_, ?_, I.nopanic, ?_, ?_⟩
      · intro m g' hm
        rcases I.fresh m g' hm with h1 | ⟨h1, h2, r', h3, h4⟩
        · exact Or.inl h1
        · refine Or.inr ⟨h1, h2, r', ?_, by simpa using h4⟩
          have : mp ≠ m := by intro e; subst e; simp [hg] at h1
          simp [aget, this, h3]
      · intro c hcm
        obtain ⟨m, lab, ok, h1, h2, h3⟩ := I.calls c (by simpa using hcm)
        refine ⟨m, lab, ok, h1, h2, ?_⟩
        simp only [aget]; split <;> simp [h3]
      · intro he
        obtain ⟨m, lab, hm⟩ := I.onerr he
        exact ⟨m, lab, by simpa using hm⟩
      · intro hok m r' hm
        simp only [aget] at hm
        split at hm
        · rename_i hmm; subst hmm
          refine ⟨by rw [I.mono _ _ hg]; simp, ?_⟩
          intro hnn; simp [hg] at hnn
        · have := I.onok hok m r' hm
          exact ⟨this.1, fun hnn => by simpa using this.2 hnn⟩
    · simp [hc] at hcn
    · -- mounted on the current filesystem
      rw [heq]
      simp only
      have hff : f' = f := by rw [hc] at hc'; exact (Option.some.inj hc').symm
      subst hff
      have hstore : s.closed = false → aget mp s.store ≠ none := hes mp r (by simp [aget])
      have h1 : Inv (s.mounted mp f') := inv_mounted s mp f' h hn hc hstore
      have hes2 : ∀ m r', aget m rest = some r' → (s.mounted mp f').closed = false →
          aget m (s.mounted mp f').store ≠ none := by
        intro m r' hm
        by_cases hne : m = mp
        · subst hne; exact hes m r (by simp [aget])
        · exact hes' m r' hne hm
      have I := ih (s.mounted mp f') h1 hc hes2
      obtain ⟨F1, F2, F3, F4, F5, F6, F7, F8⟩ := I.frame
      refine ⟨⟨F1, F2, F3, F4, F5, F6, F7, F8⟩, I.inv, ?_, ?_, ?_, I.nopanic, ?_, ?_⟩
      · intro m g hm
        apply I.mono
        simp only [St.mounted, aget_ains]
        have : m ≠ mp := by intro e; subst e; simp [hn] at hm
        simp [this, hm]
      · intro m g hm
        rcases I.fresh m g hm with h2 | ⟨h2, h3, r', h4, h5⟩
        · simp only [St.mounted, aget_ains] at h2
          split at h2
          · rename_i hmm; subst hmm
            refine Or.inr ⟨hn, (Option.some.inj h2).symm, r, by simp [aget], by simp⟩
          · exact Or.inl h2
        · simp only [St.mounted, aget_ains] at h2
          split at h2
          · simp at h2
          · rename_i hne
            refine Or.inr ⟨h2, h3, r', by simp [aget, Ne.symm hne, h4], by simp [h5]⟩
      · intro c hcm
        simp only [List.cons_append, List.nil_append, List.mem_cons] at hcm
        rcases hcm with hcm | hcm
        · exact ⟨mp, r.labels, true, hcm, hn, by simp [aget]⟩
        · obtain ⟨m, lab, ok, h2, h3, h4⟩ := I.calls c hcm
          simp only [St.mounted, aget_ains] at h3
          split at h3
          · simp at h3
          · refine ⟨m, lab, ok, h2, h3, ?_⟩
            simp only [aget]; split <;> simp [h4]
      · intro he
        obtain ⟨m, lab, hm⟩ := I.onerr he
        exact ⟨m, lab, by simp [hm]⟩
      · intro hok' m r' hm
        simp only [aget] at hm
        split at hm
        · rename_i hmm; subst hmm
          have hr : r' = r := (Option.some.inj hm).symm
          subst hr
          have : aget mp (restore failMp rest (s.mounted mp f')).st.fsMap = some f' :=
            I.mono mp f' (by simp [St.mounted, aget_ains])
          exact ⟨by simp [this], fun _ => ⟨by simp, this⟩⟩
        · rename_i hne
          have := I.onok hok' m r' hm
          refine ⟨this.1, fun hnn => ?_⟩
          have h2 : aget m (s.mounted mp f').fsMap = none := by
            simp [St.mounted, aget_ains, Ne.symm hne, hnn]
          have := this.2 h2
          exact ⟨by simp [this.1], this.2⟩
    · -- fs.Mount failed: restore stops here
      rw [heq]
      simp only
      have hff : f' = f := by rw [hc] at hc'; exact (Option.some.inj hc').symm
      subst hff
      refine ⟨⟨rfl, rfl, rfl, rfl, rfl, rfl, rfl, rfl⟩, h, fun _ _ h => h, fun _ _ h => Or.inl h,
        ?_, by simp, ?_, by simp⟩
      · intro c hcm
        simp only [List.mem_singleton] at hcm
        exact ⟨mp, r.labels, false, hcm, hn, by simp [aget]⟩
      · intro _; exact ⟨mp, r.labels, by simp⟩

/-! ## every operation preserves the invariant -/

theorem inv_finish (s : St) (r : Resp) (calls : List Call) (h : Inv s) (hst : s.status ≠ .ready)
    (hr : s.closed = false → r = .ok → ∀ mp, aget mp s.store ≠ none → aget mp s.fsMap ≠ none) :
    Inv (finishInit false s r calls).st := by
  simp only [finishInit, Bool.false_or]
  constructor
  · intro hrdy
    split at hrdy
    · rename_i hsome
      refine ⟨?_, by simp⟩
      intro hn
      have hn' : s.curFs = none := hn
      simp [hn'] at hsome
    · exact absurd hrdy hst
  · exact h.fs_cfg
  · exact h.live_iff
  · exact h.live_nodup
  · exact h.map_lt
  · exact h.cur_lt
  · exact h.map_cur
  · exact h.sub
  · intro hcl hli
    simp only [Option.some.injEq] at hli
    exact hr hcl hli
  · exact h.sorted

theorem inv_withCfg (s : St) (cfg : Cfg) (h : Inv s) : Inv (s.withCfg cfg) :=
  ⟨by simp [St.withCfg], by simp [St.withCfg], h.live_iff, h.live_nodup, h.map_lt, h.cur_lt,
    h.map_cur, h.sub, h.sup, h.sorted⟩

theorem inv_installed (s : St) (cfg : Cfg) (h : Inv s) : Inv (s.installed cfg) := by
  refine ⟨by simp [St.installed], by simp [St.installed], h.live_iff, h.live_nodup, ?_, ?_,
    by simp [St.installed], h.sub, h.sup, h.sorted⟩
  · intro m g hm
    exact Nat.lt_succ_of_lt (h.map_lt m g hm)
  · intro g hg
    have : s.nextFs = g := Option.some.inj hg
    subst this
    exact Nat.lt_succ_self _

theorem inv_init (s : St) (cfg : Cfg) (stage : Stage) (failMp : Mp → Bool) (h : Inv s) :
    Inv (init s cfg stage failMp).st := by
  unfold init initWith
  cases stage with
  | parse =>
    exact inv_finish _ _ _ ⟨by simp, h.fs_cfg, h.live_iff, h.live_nodup, h.map_lt, h.cur_lt, h.map_cur,
      h.sub, h.sup, h.sorted⟩ (by simp) (by simp)
  | cfgfunc => exact inv_finish _ _ _ (inv_withCfg s cfg h) (by simp [St.withCfg]) (by simp)
  | construct => exact inv_finish _ _ _ (inv_withCfg s cfg h) (by simp [St.withCfg]) (by simp)
  | ok =>
    simp only
    split
    · exact inv_finish _ _ _ (inv_installed s cfg h) (by simp [St.installed]) (by simp)
    · have I := restore_spec failMp s.nextFs s.store _ (inv_installed s cfg h) rfl
        (by intro m r hm _; simp [St.installed, hm])
      refine inv_finish _ _ _ I.inv ?_ ?_
      · rw [I.frame.1]; simp [St.installed]
      · intro _ hok m hm
        rw [I.frame.2.2.2.1] at hm
        simp only [St.installed] at hm
        cases hr : aget m s.store with
        | none => exact absurd hr hm
        | some r => exact (I.onok hok m r hr).1

theorem inv_putRec (s : St) (mp : Mp) (r : Rec) (h : Inv s) (hm : aget mp s.fsMap ≠ none) :
    Inv (putRec s mp r) := by
  unfold putRec
  split
  · exact h
  · refine ⟨h.ready_fs, h.fs_cfg, h.live_iff, h.live_nodup, h.map_lt, h.cur_lt, h.map_cur, ?_, ?_,
      sorted_ains _ _ _ h.sorted⟩
    · intro hc m hmm
      simp only [aget_ains]
      have := h.sub hc m hmm
      grind
    · intro hc hli m
      simp only [aget_ains]
      have := h.sup hc hli m
      grind

/-- `fs.Mount` + `fsMap.Store` + `storeFuseInfo` as done by the `Mount` RPC. -/
theorem inv_mounted_put (s : St) (mp : Mp) (f : FsId) (r : Rec) (h : Inv s)
    (hn : aget mp s.fsMap = none) (hc : s.curFs = some f) : Inv (putRec (s.mounted mp f) mp r) := by
  unfold putRec
  have hcl : (s.mounted mp f).closed = s.closed := rfl
  rw [hcl]
  split
  · rename_i hclosed
    exact inv_mounted s mp f h hn hc (by simp [hclosed])
  · exact inv_mounted' s mp f (ains mp r s.store) h hn hc (sorted_ains _ _ _ h.sorted) (by
      intro _ m; simp only [aget_ains]; grind)

theorem inv_mount (s : St) (mp : Mp) (lab : Lab) (ok : Bool) (h : Inv s) : Inv (mount s mp lab ok).st := by
  unfold mount
  split
  · exact h
  · rename_i hst
    have hrdy : s.status = .ready := by simpa using hst
    obtain ⟨hcur, _⟩ := h.ready_fs hrdy
    have hcfg := h.fs_cfg hcur
    rcases mountCore_cases s mp lab ok with
      ⟨g, hg, heq⟩ | ⟨_, hcn, _⟩ | ⟨f, hn, hc, hok, heq⟩ | ⟨f, hn, hc, hok, heq⟩
    · rw [heq]; simp only
      cases hc : s.cfg with
      | none => exact absurd hc hcfg
      | some c => exact inv_putRec s mp _ h (by simp [hg])
    · exact absurd hcn hcur
    · rw [heq]; simp only
      have : (s.mounted mp f).cfg = s.cfg := rfl
      rw [this]
      cases hc' : s.cfg with
      | none => exact absurd hc' hcfg
      | some c => exact inv_mounted_put s mp f _ h hn hc
    · rw [heq]; exact h

theorem inv_check (s : St) (mp : Mp) (lab : Lab) (ok : Bool) (h : Inv s) : Inv (check s mp lab ok).st := by
  unfold check
  split
  · exact h
  · split <;> exact h

/-- A successful `fs.Unmount` + `fsMap.Delete` (+ `removeFuseInfo` unless the store is closed). -/
theorem inv_unmounted (s : St) (mp : Mp) (f : FsId) (st' : List (Mp × Rec)) (h : Inv s)
    (hf : aget mp s.fsMap = some f) (hsorted : Sorted st')
    (hst : s.closed = false → ∀ m, aget m st' = if m = mp then none else aget m s.store) :
    Inv { s with fsMap := adel mp s.fsMap, live := s.live.filter (fun e => e != (f, mp)), store := st' } := by
  have hl := h.live_iff
  refine ⟨h.ready_fs, h.fs_cfg, ?_, ?_, ?_, h.cur_lt, ?_, ?_, ?_, hsorted⟩
  · intro g m
    simp only [List.mem_filter, aget_adel, bne_iff_ne, ne_eq, Prod.mk.injEq, not_and]
    have := hl g m
    grind
  · exact List.Nodup.sublist (List.Sublist.map _ List.filter_sublist) h.live_nodup
  · intro m g
    simp only [aget_adel]
    have := h.map_lt m g
    grind
  · intro m g
    simp only [aget_adel]
    have := h.map_cur m g
    grind
  · intro hcl m
    have := hst hcl m
    have := h.sub hcl m
    simp only [aget_adel]
    grind
  · intro hcl hli m
    have := hst hcl m
    have := h.sup hcl hli m
    simp only [aget_adel]
    grind

theorem inv_unmount (s : St) (mp : Mp) (ok isOs : Bool) (h : Inv s) : Inv (unmount s mp ok isOs).st := by
  unfold unmount
  split
  · exact h
  · split
    · exact h
    · rename_i f hf
      split
      · unfold delRec
        simp only
        split
        · rename_i hcl
          exact inv_unmounted s mp f s.store h hf h.sorted (by simp [hcl])
        · exact inv_unmounted s mp f (adel mp s.store) h hf (sorted_adel _ _ h.sorted)
            (by intro _ m; exact aget_adel mp m s.store)
      · exact h

theorem inv_close (s : St) (h : Inv s) : Inv (close s).st := by
  unfold close
  split
  · exact ⟨by simp, h.fs_cfg, h.live_iff, h.live_nodup, h.map_lt, h.cur_lt, h.map_cur, h.sub, h.sup, h.sorted⟩
  · exact ⟨by simp, h.fs_cfg, h.live_iff, h.live_nodup, h.map_lt, h.cur_lt, h.map_cur, by simp, by simp,
      sorted_nil⟩

theorem inv_restart (s : St) (h : Inv s) : Inv (restartManager s).st := by
  unfold restartManager
  exact ⟨by simp, by simp, by simp [aget], by simp, by simp [aget], by simp, by simp [aget],
    by simp [aget], by simp, h.sorted⟩

theorem inv_step (s : St) (op : Op) (h : Inv s) : Inv (step s op).st := by
  cases op with
  | init c st fm => exact inv_init s c st fm h
  | mount mp l ok => exact inv_mount s mp l ok h
  | check mp l ok => exact inv_check s mp l ok h
  | unmount mp ok os => exact inv_unmount s mp ok os h
  | close => exact inv_close s h
  | restart => exact inv_restart s h

theorem inv_run (ops : List Op) : ∀ s, Inv s → Inv (run s ops) := by
  induction ops with
  | nil => intro s h; exact h
  | cons op ops ih => intro s h; exact ih _ (inv_step s op h)

theorem inv_reachable (s : St) (h : Reachable s) : Inv s := by
  obtain ⟨ops, rfl⟩ := h
  exact inv_run ops _ inv_init0

theorem reachable_step (s : St) (op : Op) (h : Reachable s) : Reachable (step s op).st := by
  obtain ⟨ops, rfl⟩ := h
  exact ⟨ops ++ [op], by simp [run, runWith, step]⟩

/-! ## what `Init` does, in terms of its inputs -/

/-- Facts about one `Init` from a state satisfying the invariant. -/
structure InitSpec (s : St) (cfg : Cfg) (stage : Stage) (o : Out) : Prop where
  nopanic : o.resp ≠ .panic
  lastInit : o.st.lastInit = some o.resp
  closed : o.st.closed = s.closed
  store : o.st.store = s.store
  status : o.st.status = if o.st.curFs.isSome then .ready else .waitInit
  cur_ok : stage = .ok → o.st.curFs = some s.nextFs ∧ aget s.nextFs o.st.fsCfg = some cfg ∧
    o.st.nextFs = s.nextFs + 1 ∧ Call.newFs s.nextFs cfg ∈ o.calls
  cur_fail : stage ≠ .ok → o.st.curFs = s.curFs ∧ o.st.fsMap = s.fsMap ∧ o.st.live = s.live ∧
    o.st.nextFs = s.nextFs ∧ o.resp = .err
  mono : ∀ mp g, aget mp s.fsMap = some g → aget mp o.st.fsMap = some g
  fresh : ∀ mp g, aget mp o.st.fsMap = some g → aget mp s.fsMap = some g ∨
    (aget mp s.fsMap = none ∧ g = s.nextFs ∧
      ∃ r, aget mp s.store = some r ∧ Call.mount s.nextFs mp r.labels true ∈ o.calls)
  mounts : ∀ g mp lab ok, Call.mount g mp lab ok ∈ o.calls →
    stage = .ok ∧ g = s.nextFs ∧ aget mp s.fsMap = none ∧ aget mp s.store ≠ none
  others : ∀ c ∈ o.calls, (∀ g mp lab ok, c ≠ Call.check g mp lab ok) ∧ (∀ g mp ok, c ≠ Call.unmount g mp ok)
  onok : o.resp = .ok → stage = .ok ∧ s.closed = false ∧ ∀ mp r, aget mp s.store = some r →
    aget mp o.st.fsMap ≠ none ∧
    (aget mp s.fsMap = none → Call.mount s.nextFs mp r.labels true ∈ o.calls ∧
      aget mp o.st.fsMap = some s.nextFs)

theorem init_spec (s : St) (cfg : Cfg) (stage : Stage) (failMp : Mp → Bool) (h : Inv s) :
    InitSpec s cfg stage (init s cfg stage failMp) := by
  unfold init initWith
  cases stage with
  | parse =>
    simp only [finishInit, Bool.false_or]
    exact ⟨by simp, rfl, rfl, rfl, by simp, by simp, by simp, fun _ _ h => h, fun _ _ h => Or.inl h,
      by simp, by simp, by simp⟩
  | cfgfunc =>
    simp only [finishInit, Bool.false_or, St.withCfg]
    exact ⟨by simp, rfl, rfl, rfl, by simp, by simp, by simp, fun _ _ h => h, fun _ _ h => Or.inl h,
      by simp, by simp, by simp⟩
  | construct =>
    simp only [finishInit, Bool.false_or, St.withCfg]
    exact ⟨by simp, rfl, rfl, rfl, by simp, by simp, by simp, fun _ _ h => h, fun _ _ h => Or.inl h,
      by simp, by simp, by simp⟩
  | ok =>
    simp only
    split
    · rename_i hcl
      simp only [finishInit, Bool.false_or, St.installed]
      refine ⟨by simp, rfl, rfl, rfl, by simp, by simp [aget_ains], by simp, fun _ _ h => h,
        fun _ _ h => Or.inl h, by simp, by simp, by simp⟩
    · rename_i hcl
      have I := restore_spec failMp s.nextFs s.store _ (inv_installed s cfg h) rfl
        (by intro m r hm _; simp [St.installed, hm])
      generalize restore failMp s.store (s.installed cfg) = ro at I ⊢
      obtain ⟨F1, F2, F3, F4, F5, F6, F7, F8⟩ := I.frame
      have F2' : ro.st.curFs = some s.nextFs := F2
      have F4' : ro.st.store = s.store := F4
      have F5' : ro.st.closed = s.closed := F5
      have F6' : ro.st.nextFs = s.nextFs + 1 := F6
      have F7' : ro.st.fsCfg = ains s.nextFs cfg s.fsCfg := F7
      simp only [finishInit, Bool.false_or]
      refine ⟨I.nopanic, rfl, F5', F4', ?_, ?_, by simp, I.mono, ?_, ?_, ?_, ?_⟩
      · simp [F2']
      · intro _
        exact ⟨F2', by simp [F7', aget_ains], F6', by simp⟩
      · intro m g hm
        rcases I.fresh m g hm with h1 | ⟨h1, h2, r, h3, h4⟩
        · exact Or.inl h1
        · exact Or.inr ⟨h1, h2, r, h3, by simp [h4]⟩
      · intro g m lab ok hc
        simp only [List.cons_append, List.nil_append, List.mem_cons, reduceCtorEq, false_or] at hc
        obtain ⟨m', lab', ok', h1, h2, h3⟩ := I.calls _ hc
        simp only [Call.mount.injEq] at h1
        obtain ⟨rfl, rfl, rfl, rfl⟩ := h1
        exact ⟨rfl, rfl, h2, h3⟩
      · intro c hc
        simp only [List.cons_append, List.nil_append, List.mem_cons] at hc
        rcases hc with rfl | rfl | hc
        · simp
        · simp
        · obtain ⟨m', lab', ok', h1, _, _⟩ := I.calls _ hc
          subst h1; simp
      · intro hok
        refine ⟨rfl, by simpa using hcl, ?_⟩
        intro m r hm
        have := I.onok hok m r hm
        exact ⟨this.1, fun hn => by
          have := this.2 hn
          exact ⟨by simp [this.1], this.2⟩⟩

/-! ## a manager without a filesystem -/

/-- Requests that arrive before the next successful construction: failed `Init`s and
Mount/Check/Unmount (all rejected). -/
def Harmless : Op → Prop
  | .init _ st _ => st ≠ .ok
  | .mount .. | .check .. | .unmount .. => True
  | .close | .restart => False

/-- no `Init` that gets as far as constructing a filesystem. -/
def NoConstruct : Op → Prop
  | .init _ st _ => st ≠ .ok
  | _ => True

theorem reachable_run (s : St) (hs : Reachable s) (ops : List Op) : Reachable (run s ops) := by
  obtain ⟨ops0, rfl⟩ := hs
  exact ⟨ops0 ++ ops, by simp [run, runWith]⟩

/-- A manager without a filesystem rejects Mount, Check and Unmount without touching anything. -/
theorem rejects_of_no_fs (s : St) (hst : s.status ≠ .ready) :
    (∀ mp lab ok, mount s mp lab ok = ⟨s, .err, []⟩) ∧
    (∀ mp lab ok, check s mp lab ok = ⟨s, .err, []⟩) ∧
    (∀ mp ok os, unmount s mp ok os = ⟨s, .err, []⟩) := by
  refine ⟨?_, ?_, ?_⟩ <;> intros <;> simp [mount, check, unmount, hst]

theorem noconstruct_step (s : St) (op : Op) (hop : NoConstruct op) (hc : s.curFs = none)
    (hst : s.status ≠ .ready) : (step s op).st.curFs = none ∧ (step s op).st.status ≠ .ready := by
  have R := rejects_of_no_fs s hst
  cases op with
  | init c st fm =>
    simp only [NoConstruct] at hop
    simp only [step, stepWith]
    unfold initWith
    cases st with
    | ok => exact absurd rfl hop
    | parse => simp [finishInit, hc]
    | cfgfunc => simp [finishInit, St.withCfg, hc]
    | construct => simp [finishInit, St.withCfg, hc]
  | mount m l ok => simp only [step, stepWith, R.1]; exact ⟨hc, hst⟩
  | check m l ok => simp only [step, stepWith, R.2.1]; exact ⟨hc, hst⟩
  | unmount m ok os => simp only [step, stepWith, R.2.2]; exact ⟨hc, hst⟩
  | close => simp only [step, stepWith, close]; split <;> simp [hc]
  | restart => simp [step, stepWith, restartManager]

theorem noconstruct_run (ops : List Op) : ∀ (s : St), (∀ op ∈ ops, NoConstruct op) → s.curFs = none →
    s.status ≠ .ready → (run s ops).curFs = none ∧ (run s ops).status ≠ .ready := by
  induction ops with
  | nil => intro s _ hc hst; exact ⟨hc, hst⟩
  | cons op ops ih =>
    intro s hops hc hst
    have := noconstruct_step s op (hops op (List.mem_cons_self ..)) hc hst
    exact ih (step s op).st (fun o ho => hops o (List.mem_cons_of_mem _ ho)) this.1 this.2

theorem harmless_step (s : St) (op : Op) (hop : Harmless op) (hc : s.curFs = none)
    (hst : s.status ≠ .ready) :
    let t := (step s op).st
    t.curFs = none ∧ t.status ≠ .ready ∧ t.store = s.store ∧ t.fsMap = s.fsMap ∧ t.live = s.live ∧
    t.closed = s.closed ∧ t.nextFs = s.nextFs := by
  have R := rejects_of_no_fs s hst
  cases op with
  | init c st fm =>
    simp only [Harmless] at hop
    simp only [step, stepWith]
    unfold initWith
    cases st with
    | ok => exact absurd rfl hop
    | parse => simp [finishInit, hc]
    | cfgfunc => simp [finishInit, St.withCfg, hc]
    | construct => simp [finishInit, St.withCfg, hc]
  | mount m l ok => simp only [step, stepWith, R.1]; simp [hc, hst]
  | check m l ok => simp only [step, stepWith, R.2.1]; simp [hc, hst]
  | unmount m ok os => simp only [step, stepWith, R.2.2]; simp [hc, hst]
  | close => exact absurd hop (by simp [Harmless])
  | restart => exact absurd hop (by simp [Harmless])

theorem harmless_run (ops : List Op) : ∀ (s : St), (∀ op ∈ ops, Harmless op) → s.curFs = none →
    s.status ≠ .ready →
    (run s ops).store = s.store ∧ (run s ops).fsMap = s.fsMap ∧ (run s ops).live = s.live ∧
    (run s ops).closed = s.closed ∧ (run s ops).nextFs = s.nextFs := by
  induction ops with
  | nil => intro s _ _ _; exact ⟨rfl, rfl, rfl, rfl, rfl⟩
  | cons op ops ih =>
    intro s hops hc hst
    obtain ⟨h1, h2, h3, h4, h5, h6, h7⟩ := harmless_step s op (hops op (List.mem_cons_self ..)) hc hst
    have := ih (step s op).st (fun o ho => hops o (List.mem_cons_of_mem _ ho)) h1 h2
    simp only [h3, h4, h5, h6, h7] at this
    exact this

end SV.FuseMgr
