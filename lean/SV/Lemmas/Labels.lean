/-
Helper lemmas for the label-protocol model (`SV/Model/Labels.lean`), used by `SV/Props/C20.lean`.
Core Lean only.
-/
import SV.Model.Labels
namespace SV.Labels

theorem get_set (m : Labels) (k v k' : Str) :
    get (set m k v) k' = if k' = k then some v else get m k' := by
  simp [set, get]

theorem splitComma_ne_nil (s : Str) : splitComma s ≠ [] := by
  induction s with
  | nil => simp [splitComma]
  | cons c cs ih =>
    simp only [splitComma]
    split
    · simp
    · split <;> simp

theorem splitComma_noComma (x : Str) (h : ',' ∉ x) : splitComma x = [x] := by
  induction x with
  | nil => rfl
  | cons c cs ih =>
    have hc : c ≠ ',' := fun e => h (by simp [e])
    have hcs : ',' ∉ cs := fun e => h (by simp [e])
    simp [splitComma, hc, ih hcs]

theorem splitComma_append_comma (x r : Str) (h : ',' ∉ x) :
    splitComma (x ++ ',' :: r) = x :: splitComma r := by
  induction x with
  | nil => simp [splitComma]
  | cons c cs ih =>
    have hc : c ≠ ',' := fun e => h (by simp [e])
    have hcs : ',' ∉ cs := fun e => h (by simp [e])
    simp [splitComma, hc, ih hcs]

theorem trimSuffixComma_length_le (s : Str) : (trimSuffixComma s).length ≤ s.length := by
  induction s with
  | nil => simp [trimSuffixComma]
  | cons c cs ih =>
    cases cs with
    | nil => simp only [trimSuffixComma]; split <;> simp
    | cons d r => simp only [trimSuffixComma, List.length_cons] at *; omega

theorem trimSuffixComma_append (a b : Str) (hb : b ≠ []) :
    trimSuffixComma (a ++ b) = a ++ trimSuffixComma b := by
  induction a with
  | nil => rfl
  | cons c cs ih =>
    cases h : cs ++ b with
    | nil => simp at h; exact absurd h.2 hb
    | cons d r =>
      simp only [List.cons_append, h, trimSuffixComma]
      rw [← h, ih]

theorem trimSuffixComma_single_comma : trimSuffixComma [','] = [] := by simp [trimSuffixComma]

theorem catComma_ne_nil (x : Str) (xs : List Str) : catComma (x :: xs) ≠ [] := by
  simp [catComma]

theorem trim_catComma : ∀ (x : Str) (xs : List Str),
    trimSuffixComma (catComma (x :: xs)) = joinComma (x :: xs)
  | x, [] => by
    simp only [catComma, joinComma]
    rw [trimSuffixComma_append x [','] (by simp)]; simp [trimSuffixComma]
  | x, y :: r => by
    have ih := trim_catComma y r
    simp only [catComma, joinComma] at *
    rw [show x ++ ',' :: (y ++ ',' :: catComma r) = (x ++ [',']) ++ (y ++ ',' :: catComma r) by simp]
    rw [trimSuffixComma_append _ _ (by simp), ih]; simp

theorem trim_catComma_nil : trimSuffixComma (catComma []) = [] := rfl

theorem split_joinComma : ∀ (x : Str) (xs : List Str), (∀ y ∈ x :: xs, ',' ∉ y) →
    splitComma (joinComma (x :: xs)) = x :: xs
  | x, [], h => by simpa [joinComma] using splitComma_noComma x (h x (by simp))
  | x, y :: r, h => by
    simp only [joinComma]
    rw [splitComma_append_comma x _ (h x (by simp)), split_joinComma y r (fun z hz => h z (by simp [hz]))]


/-! ### `appendWithValidation` -/

/-- Number of leading values that the loop of `appendWithValidation` accepts when the
accumulator already holds `len` bytes. -/
def fitCount (key : Str) : Nat → List Str → Nat
  | _, [] => 0
  | len, u :: us =>
    if key.length + (len + (u.length + 1)) ≤ maxSize then fitCount key (len + (u.length + 1)) us + 1 else 0

theorem fitCount_le (key : Str) : ∀ (len : Nat) (us : List Str), fitCount key len us ≤ us.length
  | _, [] => by simp [fitCount]
  | len, u :: us => by
    simp only [fitCount]; split
    · have := fitCount_le key (len + (u.length + 1)) us; simp; omega
    · simp

theorem catComma_length_cons (x : Str) (xs : List Str) :
    (catComma (x :: xs)).length = x.length + 1 + (catComma xs).length := by
  simp [catComma]; omega

theorem fitCount_all (key : Str) : ∀ (len : Nat) (us : List Str),
    key.length + (len + (catComma us).length) ≤ maxSize → fitCount key len us = us.length
  | _, [], _ => by simp [fitCount]
  | len, u :: us, h => by
    rw [catComma_length_cons] at h
    simp only [fitCount]
    rw [if_pos (by omega), fitCount_all key _ us (by omega)]; simp

theorem appendLoop_eq (key : Str) : ∀ (v : Str) (us : List Str),
    appendLoop key v us = v ++ catComma (us.take (fitCount key v.length us))
  | v, [] => by simp [appendLoop, fitCount, catComma]
  | v, u :: us => by
    simp only [appendLoop, fitCount, validate, decide_eq_true_eq, List.length_append, List.length_cons,
      List.length_nil, Nat.zero_add]
    split
    · rw [appendLoop_eq key _ us]; simp [catComma, List.length_append]
    · simp [catComma]

theorem appendLoop_valid (key : Str) : ∀ (v : Str) (us : List Str),
    validate key v = true → validate key (appendLoop key v us) = true
  | v, [], h => by simpa [appendLoop] using h
  | v, u :: us, h => by
    simp only [appendLoop]
    split
    · rename_i h'; exact appendLoop_valid key _ us h'
    · exact h

theorem validate_trim (key v : Str) (h : validate key v = true) :
    validate key (trimSuffixComma v) = true := by
  have := trimSuffixComma_length_le v
  simp only [validate, decide_eq_true_eq] at *; omega

/-- `appendWithValidation` never produces an invalid label (provided the key alone fits). -/
theorem awv_valid (key : Str) (us : List Str) (hk : key.length ≤ maxSize) :
    validate key (appendWithValidation key us) = true := by
  unfold appendWithValidation
  exact validate_trim _ _ (appendLoop_valid key [] us (by simpa [validate] using hk))

theorem awv_eq (key : Str) (us : List Str) :
    appendWithValidation key us = trimSuffixComma (catComma (us.take (fitCount key 0 us))) := by
  unfold appendWithValidation; rw [appendLoop_eq]; simp

/-- What the readers make of a URL label written by `appendWithValidation`. -/
def readURLs (key : Str) (us : List Str) : List Str := splitComma (appendWithValidation key us)

theorem readURLs_spec (key : Str) (us : List Str) (hc : ∀ u ∈ us, ',' ∉ u) :
    readURLs key us = if fitCount key 0 us = 0 then [[]] else us.take (fitCount key 0 us) := by
  unfold readURLs; rw [awv_eq]
  split
  · rename_i h; rw [h]; rfl
  · rename_i h
    cases hx : us.take (fitCount key 0 us) with
    | nil =>
      have := fitCount_le key 0 us
      have : (us.take (fitCount key 0 us)).length = 0 := by rw [hx]; rfl
      rw [List.length_take] at this; omega
    | cons x xs =>
      rw [trim_catComma, split_joinComma]
      intro y hy; rw [← hx] at hy; exact hc y (List.mem_of_mem_take hy)


/-! ### keys -/

theorem natDec_inj {a b : Nat} (h : natDec a = natDec b) : a = b := by
  have ha := @Nat.ofDigitChars_ten_toDigits a
  have hb := @Nat.ofDigitChars_ten_toDigits b
  unfold natDec at h
  rw [h] at ha; omega

theorem urlsKey_inj {a b : Nat} (h : urlsKey a = urlsKey b) : a = b :=
  natDec_inj (List.append_cancel_left h)

theorem natDec_length_le (n k : Nat) (hk : 0 < k) (h : n < 10 ^ k) : (natDec n).length ≤ k :=
  (Nat.length_toDigits_le_iff (by decide) hk).mpr h

theorem natDec_length_pos (n : Nat) : 0 < (natDec n).length := Nat.length_toDigits_pos

theorem urlsKey_length (j : Nat) : (urlsKey j).length = 35 + (natDec j).length := by
  unfold urlsKey; rw [List.length_append]; rfl

/-- A key that does not start with the `urls.` prefix is none of the per-index URL keys. -/
theorem urlsKey_ne (k : Str) (h : ¬ kURLsPrefix <+: k) (j : Nat) : urlsKey j ≠ k := by
  intro e; apply h; rw [← e]; exact List.prefix_append _ _

theorem urlsKey_ne_kRef (j) : urlsKey j ≠ kRef := urlsKey_ne _ (by decide) j
theorem urlsKey_ne_kDigest (j) : urlsKey j ≠ kDigest := urlsKey_ne _ (by decide) j
theorem urlsKey_ne_kLayers (j) : urlsKey j ≠ kLayers := urlsKey_ne _ (by decide) j
theorem urlsKey_ne_kURLs (j) : urlsKey j ≠ kURLs := urlsKey_ne _ (by decide) j
theorem urlsKey_ne_kPrefetch (j) : urlsKey j ≠ kPrefetch := urlsKey_ne _ (by decide) j
theorem urlsKey_ne_kCriRef (j) : urlsKey j ≠ kCriRef := urlsKey_ne _ (by decide) j
theorem urlsKey_ne_kCriDigest (j) : urlsKey j ≠ kCriDigest := urlsKey_ne _ (by decide) j
theorem urlsKey_ne_kCriLayers (j) : urlsKey j ≠ kCriLayers := urlsKey_ne _ (by decide) j
theorem urlsKey_ne_kCriManifest (j) : urlsKey j ≠ kCriManifest := urlsKey_ne _ (by decide) j

/-! ### digests -/

theorem takeWhile_append_dropWhile' (p : Char → Bool) (s : Str) : s.takeWhile p ++ s.dropWhile p = s :=
  List.takeWhile_append_dropWhile

theorem dropWhile_head (p : Char → Bool) : ∀ (s : Str) (c : Char) (r : Str),
    s.dropWhile p = c :: r → p c = false
  | [], _, _, h => by simp at h
  | a :: t, c, r, h => by
    rw [List.dropWhile_cons] at h
    split at h
    · exact dropWhile_head p t c r h
    · rename_i hp
      simp only [List.cons.injEq] at h
      rw [← h.1]; simpa using hp

theorem isLowerHex_ne_comma (c : Char) (h : isLowerHex c = true) : c ≠ ',' := by
  intro e; subst e; revert h; decide

theorem algHexLen_pos (alg : Str) (h : algHexLen alg ≠ 0) :
    alg = ['s','h','a','2','5','6'] ∨ alg = ['s','h','a','3','8','4'] ∨ alg = ['s','h','a','5','1','2'] := by
  unfold algHexLen at h
  split at h
  · left; assumption
  · split at h
    · right; left; assumption
    · split at h
      · right; right; assumption
      · exact absurd rfl h

theorem algHexLen_le (alg : Str) : algHexLen alg ≤ 128 := by
  unfold algHexLen; repeat' split
  all_goals omega

/-- A parsable digest is `alg ++ ":" ++ hex` with a known algorithm. -/
theorem digestValid_shape (s : Str) (h : digestValid s = true) :
    ∃ alg enc, s = alg ++ ':' :: enc ∧
      (alg = ['s','h','a','2','5','6'] ∨ alg = ['s','h','a','3','8','4'] ∨ alg = ['s','h','a','5','1','2']) ∧
      enc.length = algHexLen alg ∧ algHexLen alg ≠ 0 ∧ ∀ c ∈ enc, isLowerHex c = true := by
  unfold digestValid at h
  split at h
  · exact absurd h (by simp)
  · rename_i c enc hd
    simp only [Bool.and_eq_true, bne_iff_ne, ne_eq, beq_iff_eq, List.all_eq_true] at h
    obtain ⟨⟨h1, h2⟩, h3⟩ := h
    have hc : c = ':' := by
      have := dropWhile_head _ s c enc hd
      simpa using this
    subst hc
    refine ⟨s.takeWhile (· ≠ ':'), enc, ?_, algHexLen_pos _ h1, h2, h1, h3⟩
    rw [← hd]; exact (List.takeWhile_append_dropWhile).symm

theorem digestValid_noComma (s : Str) (h : digestValid s = true) : ',' ∉ s := by
  obtain ⟨alg, enc, rfl, halg, _, _, henc⟩ := digestValid_shape s h
  intro hm
  rw [List.mem_append, List.mem_cons] at hm
  rcases hm with hm | hm | hm
  · rcases halg with e | e | e <;> (subst e; revert hm; decide)
  · exact absurd hm (by decide)
  · exact isLowerHex_ne_comma _ (henc _ hm) rfl

theorem digestValid_length (s : Str) (h : digestValid s = true) : 0 < s.length ∧ s.length ≤ 135 := by
  obtain ⟨alg, enc, rfl, halg, hl, _, _⟩ := digestValid_shape s h
  have := algHexLen_le alg
  have : alg.length = 6 := by rcases halg with e | e | e <;> (subst e; decide)
  simp only [List.length_append, List.length_cons]; omega

theorem digestValid_ne_nil (s : Str) (h : digestValid s = true) : s ≠ [] := by
  intro e; subst e; revert h; decide


/-! ### default writer: inner loop -/

/-- Keys other than the per-index URL keys pass through the inner loop (all manifests). -/
theorem defaultInner_get_other (key : Str) (hk : ∀ j, key ≠ urlsKey j) :
    ∀ (tail : List Desc) (j : Nat) (layers : Str) (ann : Labels),
      get (defaultInner j tail layers ann).2 key = get ann key
  | [], _, _, _ => rfl
  | l :: ls, j, layers, ann => by
    simp only [defaultInner]
    split
    · split
      · rw [defaultInner_get_other key hk ls, get_set, if_neg (hk j)]
      · rfl
    · exact defaultInner_get_other key hk ls _ _ _

/-- Every label the inner loop sets is valid and so is the accumulated layers string (all manifests). -/
theorem defaultInner_valid : ∀ (tail : List Desc) (j : Nat) (layers : Str) (ann : Labels),
    (∀ m, m < tail.length → (urlsKey (j + m)).length ≤ maxSize) →
    validate kLayers layers = true →
    validate kLayers (defaultInner j tail layers ann).1 = true ∧
    ∀ k v, get (defaultInner j tail layers ann).2 k = some v → get ann k = some v ∨ validate k v = true
  | [], _, _, _, _, hl => ⟨hl, fun _ _ h => Or.inl h⟩
  | l :: ls, j, layers, ann, hj, hl => by
    have hj' : ∀ m, m < ls.length → (urlsKey (j + 1 + m)).length ≤ maxSize := by
      intro m hm
      have := hj (m + 1) (by simp; omega)
      rwa [show j + (m + 1) = j + 1 + m by omega] at this
    simp only [defaultInner]
    split
    · split
      · rename_i hv
        obtain ⟨h1, h2⟩ := defaultInner_valid ls (j + 1) _
          (set ann (urlsKey j) (appendWithValidation (urlsKey j) l.urls)) hj' hv
        refine ⟨h1, ?_⟩
        intro k v hk
        rcases h2 k v hk with h | h
        · rw [get_set] at h
          split at h
          · rename_i e
            right; subst e
            simp only [Option.some.injEq] at h; subst h
            exact awv_valid _ _ (by simpa using hj 0 (by simp))
          · exact Or.inl h
        · exact Or.inr h
      · exact ⟨hl, fun _ _ h => Or.inl h⟩
    · exact defaultInner_valid ls (j + 1) layers ann hj' hl

/-- In the stated domain (every child of the tail is a layer) the inner loop writes the first
`k` digests and the URL label of index `j+m` holds the URLs of the `m`-th child of the tail. -/
theorem defaultInner_spec : ∀ (tail : List Desc), (∀ l ∈ tail, l.isLayer = true) →
    ∀ (j : Nat) (layers : Str) (ann : Labels),
    (defaultInner j tail layers ann).1 =
        layers ++ catComma ((tail.take (fitCount kLayers layers.length (tail.map (·.digest)))).map (·.digest)) ∧
    (∀ m, m < fitCount kLayers layers.length (tail.map (·.digest)) →
        get (defaultInner j tail layers ann).2 (urlsKey (j + m)) =
          (tail[m]?).map (fun l => appendWithValidation (urlsKey (j + m)) l.urls)) ∧
    (∀ key, (∀ m, m < fitCount kLayers layers.length (tail.map (·.digest)) → key ≠ urlsKey (j + m)) →
        get (defaultInner j tail layers ann).2 key = get ann key)
  | [], _, _, _, _ => by simp [defaultInner, fitCount, catComma]
  | l :: ls, hall, j, layers, ann => by
    have hl : l.isLayer = true := hall l (by simp)
    have hls : ∀ x ∈ ls, x.isLayer = true := fun x hx => hall x (by simp [hx])
    simp only [defaultInner, hl, if_true, List.map_cons, fitCount, validate, decide_eq_true_eq,
      List.length_append, List.length_cons, List.length_nil, Nat.zero_add]
    split
    · obtain ⟨h1, h2, h3⟩ := defaultInner_spec ls hls (j + 1) (layers ++ (l.digest ++ [',']))
        (set ann (urlsKey j) (appendWithValidation (urlsKey j) l.urls))
      simp only [List.length_append, List.length_cons, List.length_nil, Nat.zero_add] at h1 h2 h3
      refine ⟨?_, ?_, ?_⟩
      · rw [h1]; simp [catComma]
      · intro m hm
        cases m with
        | zero =>
          rw [h3 _ (fun m _ e => by have := urlsKey_inj e; omega), get_set]; simp
        | succ m =>
          have := h2 m (by omega)
          rw [show j + 1 + m = j + (m + 1) by omega] at this
          rw [this]; simp
      · intro key hkey
        rw [h3 key (fun m hm => by
          have := hkey (m + 1) (by omega)
          rwa [show j + (m + 1) = j + 1 + m by omega] at this), get_set]
        rw [if_neg (by simpa using hkey 0 (by omega))]
    · simp [catComma]

/-! ### reader: neighbour loop -/

/-- Specification of the neighbour list: walk the layers `ls` (manifest order) starting at label
index `j`, skip copies of the target digest, pair every other layer with `urlsOf <its own index>
<the layer itself>`. -/
def nbSpec (target : Str) (urlsOf : Nat → Desc → List Str) : Nat → List Desc → List (Str × List Str)
  | _, [] => []
  | j, l :: ls =>
    if l.digest ≠ target then (l.digest, urlsOf j l) :: nbSpec target urlsOf (j + 1) ls
    else nbSpec target urlsOf (j + 1) ls

theorem neighboursLoop_spec (labels : Labels) (target : Str) : ∀ (ls : List Desc) (j : Nat),
    (∀ l ∈ ls, digestValid l.digest = true) →
    neighboursLoop labels target j (ls.map (·.digest)) =
      some (nbSpec target (fun m _ => urlsAt labels m) j ls)
  | [], _, _ => rfl
  | l :: ls, j, h => by
    simp only [List.map_cons, neighboursLoop, h l (by simp), if_true]
    rw [neighboursLoop_spec labels target ls (j + 1) (fun x hx => h x (by simp [hx]))]
    simp only [nbSpec]
    split <;> rfl

/-- One unparsable entry anywhere in the layers label makes the reader fail. -/
theorem neighboursLoop_invalid (labels : Labels) (target : Str) : ∀ (ds : List Str) (j : Nat),
    (∃ d ∈ ds, digestValid d = false) → neighboursLoop labels target j ds = none
  | [], _, h => by obtain ⟨d, hd, _⟩ := h; simp at hd
  | d :: ds, j, h => by
    simp only [neighboursLoop]
    split
    · rename_i hv
      obtain ⟨x, hx, hxv⟩ := h
      rcases List.mem_cons.mp hx with e | e
      · subst e; rw [hv] at hxv; exact absurd hxv (by simp)
      · rw [neighboursLoop_invalid labels target ds (j + 1) ⟨x, e, hxv⟩]
    · rfl

theorem nbSpec_congr (target : Str) (f g : Nat → Desc → List Str) : ∀ (ls : List Desc) (j : Nat),
    (∀ m l, ls[m]? = some l → f (j + m) l = g (j + m) l) →
    nbSpec target f j ls = nbSpec target g j ls
  | [], _, _ => rfl
  | l :: ls, j, h => by
    have h0 := h 0 l (by simp)
    have ih := nbSpec_congr target f g ls (j + 1) (fun m x hx => by
      have := h (m + 1) x (by simpa using hx)
      rwa [show j + (m + 1) = j + 1 + m by omega] at this)
    simp only [nbSpec, ih]
    simp only [Nat.add_zero] at h0
    rw [h0]

/-- Digests of the reconstructed neighbours: the layers in manifest order, copies of the target removed. -/
theorem nbSpec_digests (target : Str) (f : Nat → Desc → List Str) : ∀ (ls : List Desc) (j : Nat),
    (nbSpec target f j ls).map (·.1) = (ls.map (·.digest)).filter (· ≠ target)
  | [], _ => rfl
  | l :: ls, j => by
    simp only [nbSpec, List.map_cons, List.filter_cons]
    split <;> simp_all [nbSpec_digests target f ls (j + 1)]

/-- Every reconstructed neighbour is a layer of the list, carrying the URLs computed from ITS OWN
descriptor and ITS OWN index. -/
theorem nbSpec_mem (target : Str) (f : Nat → Desc → List Str) : ∀ (ls : List Desc) (j : Nat) (p : Str × List Str),
    p ∈ nbSpec target f j ls → ∃ m l, ls[m]? = some l ∧ l.digest ≠ target ∧ p = (l.digest, f (j + m) l)
  | [], _, _, h => by simp [nbSpec] at h
  | l :: ls, j, p, h => by
    simp only [nbSpec] at h
    have tl : p ∈ nbSpec target f (j + 1) ls → ∃ m x, (l :: ls)[m]? = some x ∧ x.digest ≠ target ∧ p = (x.digest, f (j + m) x) := by
      intro h
      obtain ⟨m, x, h1, h2, h3⟩ := nbSpec_mem target f ls (j + 1) p h
      exact ⟨m + 1, x, by simpa using h1, h2, by rw [h3]; congr 2; omega⟩
    split at h
    · rename_i hne
      rcases List.mem_cons.mp h with e | e
      · exact ⟨0, l, by simp, hne, by simpa using e⟩
      · exact tl e
    · exact tl h


/-! ### default flavour: labels of one layer, and what the reader makes of them -/

theorem kLayers_length : kLayers.length = 43 := by decide
theorem kRef_length : kRef.length = 46 := by decide
theorem kDigest_length : kDigest.length = 43 := by decide
theorem kURLs_length : kURLs.length = 34 := by decide
theorem kPrefetch_length : kPrefetch.length = 45 := by decide

/-- The labels with fixed keys (all manifests, no hypothesis). -/
theorem defaultLabels_fixed (ref : Str) (pf : Int) (c : Desc) (tail : List Desc) :
    get (defaultLabels ref pf c tail) kRef = some ref ∧
    get (defaultLabels ref pf c tail) kDigest = some c.digest ∧
    get (defaultLabels ref pf c tail) kPrefetch = some (intDec pf) ∧
    get (defaultLabels ref pf c tail) kURLs = some (appendWithValidation kURLs c.urls) ∧
    get (defaultLabels ref pf c tail) kLayers =
      some (trimSuffixComma (defaultInner 0 tail []
        (set (set (c.ann.getD []) kRef ref) kDigest c.digest)).1) := by
  have e1 : kRef ≠ kURLs := by decide
  have e2 : kRef ≠ kPrefetch := by decide
  have e3 : kRef ≠ kLayers := by decide
  have e4 : kRef ≠ kDigest := by decide
  have e5 : kDigest ≠ kURLs := by decide
  have e6 : kDigest ≠ kPrefetch := by decide
  have e7 : kDigest ≠ kLayers := by decide
  have e8 : kPrefetch ≠ kURLs := by decide
  have e9 : kLayers ≠ kURLs := by decide
  have e10 : kLayers ≠ kPrefetch := by decide
  unfold defaultLabels
  refine ⟨?_, ?_, ?_, ?_, ?_⟩
  · simp only [get_set, if_neg e1, if_neg e2, if_neg e3]
    rw [defaultInner_get_other kRef (fun j => (urlsKey_ne_kRef j).symm)]
    simp [get_set, e4]
  · simp only [get_set, if_neg e5, if_neg e6, if_neg e7]
    rw [defaultInner_get_other kDigest (fun j => (urlsKey_ne_kDigest j).symm)]
    simp [get_set]
  · simp [get_set, e8]
  · simp [get_set]
  · simp [get_set, e9, e10]

theorem defaultLabels_urlsKey (ref : Str) (pf : Int) (c : Desc) (tail : List Desc) (m : Nat) :
    get (defaultLabels ref pf c tail) (urlsKey m) =
      get (defaultInner 0 tail [] (set (set (c.ann.getD []) kRef ref) kDigest c.digest)).2 (urlsKey m) := by
  unfold defaultLabels
  simp only [get_set, if_neg (urlsKey_ne_kURLs m), if_neg (urlsKey_ne_kPrefetch m), if_neg (urlsKey_ne_kLayers m)]

theorem urlsAt_of_get (labels : Labels) (m : Nat) (us : List Str)
    (h : get labels (urlsKey m) = some (appendWithValidation (urlsKey m) us)) :
    urlsAt labels m = readURLs (urlsKey m) us := by
  unfold urlsAt readURLs; rw [h]

/-- Reader ∘ default writer on one layer of a manifest whose tail `c :: rest` consists of layers with
parsable digests: the exact source that comes back. -/
theorem default_read_spec {R : Type} (parseRef : Str → Option R) (ref : Str) (pf : Int) (c : Desc)
    (rest : List Desc) (r : R)
    (hall : ∀ l ∈ c :: rest, l.isLayer = true) (hd : ∀ l ∈ c :: rest, digestValid l.digest = true)
    (hr : parseRef ref = some r) :
    0 < fitCount kLayers 0 ((c :: rest).map (·.digest)) ∧
    readSource parseRef defaultKeys (defaultLabels ref pf c (c :: rest)) =
      some { name := r, target := c.digest, urls := readURLs kURLs c.urls,
             neighbours := nbSpec c.digest (fun m l => readURLs (urlsKey m) l.urls) 1
               (rest.take (fitCount kLayers 0 ((c :: rest).map (·.digest)) - 1)) } := by
  obtain ⟨g1, g2, _, g4, g5⟩ := defaultLabels_fixed ref pf c (c :: rest)
  have hcd := hd c (by simp)
  have hlen := (digestValid_length _ hcd).2
  -- the target's own digest always fits: k ≥ 1
  have hk : fitCount kLayers 0 ((c :: rest).map (·.digest)) =
      fitCount kLayers (0 + (c.digest.length + 1)) (rest.map (·.digest)) + 1 := by
    simp only [List.map_cons, fitCount]
    rw [if_pos (by rw [kLayers_length]; simp [maxSize]; omega)]
  refine ⟨by omega, ?_⟩
  obtain ⟨s1, s2, _⟩ := defaultInner_spec (c :: rest) hall 0 []
    (set (set (c.ann.getD []) kRef ref) kDigest c.digest)
  simp only [List.length_nil, List.nil_append] at s1 s2
  generalize hkk : fitCount kLayers 0 ((c :: rest).map (·.digest)) = k at *
  obtain ⟨k', rfl⟩ : ∃ k', k = k' + 1 := ⟨_, hk⟩
  -- the layers label splits back into the first k digests
  have hsplit : splitComma (trimSuffixComma (defaultInner 0 (c :: rest) []
      (set (set (c.ann.getD []) kRef ref) kDigest c.digest)).1) =
      ((c :: rest).take (k' + 1)).map (·.digest) := by
    rw [s1]
    simp only [List.take_succ_cons, List.map_cons]
    rw [trim_catComma, split_joinComma]
    intro y hy
    have : y ∈ ((c :: rest).take (k' + 1)).map (·.digest) := by simpa using hy
    obtain ⟨l, hl, rfl⟩ := List.mem_map.mp this
    exact digestValid_noComma _ (hd l (List.mem_of_mem_take hl))
  unfold readSource
  simp only [defaultKeys, g1, hr, g2, hcd, if_true, g5, g4, hsplit]
  rw [neighboursLoop_spec _ _ _ _ (fun l hl => hd l (List.mem_of_mem_take hl))]
  simp only [List.take_succ_cons, nbSpec, ne_eq, not_true_eq_false, if_false, Nat.zero_add,
    Nat.add_sub_cancel]
  congr 2
  apply nbSpec_congr
  · intro m l hml
    rw [List.getElem?_take] at hml
    split at hml
    · rename_i hm
      apply urlsAt_of_get
      rw [defaultLabels_urlsKey]
      have := s2 (1 + m) (by omega)
      rw [Nat.zero_add] at this
      rw [this]
      rw [show (c :: rest)[1 + m]? = rest[m]? by rw [Nat.add_comm]; rfl, hml]; rfl
    · exact absurd hml (by simp)


/-! ### decimal rendering, prefetch label -/

theorem natDec_length_le_19 (n : Nat) (h : n < 2 ^ 63) : (natDec n).length ≤ 19 :=
  natDec_length_le n 19 (by omega) (by omega)

theorem intDec_length_le (n : Int) (h : -(2 ^ 63) ≤ n ∧ n < 2 ^ 63) : (intDec n).length ≤ 20 := by
  unfold intDec
  have hb : n.natAbs ≤ 2 ^ 63 := by omega
  have := natDec_length_le n.natAbs 19 (by omega) (by omega)
  split <;> simp <;> omega

theorem parseUint_natDec (m : Nat) : parseUint (natDec m) = some m := by
  unfold parseUint natDec
  rw [if_neg Nat.toDigits_ne_nil]
  rw [if_pos (by
    rw [List.all_eq_true]
    intro c hc
    exact Nat.isDigit_of_mem_toDigits (by omega) (by omega) hc)]
  simp

theorem natDec_head_digit (m : Nat) : ∃ c r, natDec m = c :: r ∧ c.isDigit = true := by
  cases h : natDec m with
  | nil => exact absurd h Nat.toDigits_ne_nil
  | cons c r =>
    exact ⟨c, r, rfl, Nat.isDigit_of_mem_toDigits (b := 10) (n := m) (by omega) (by omega)
      (by unfold natDec at h; rw [h]; simp)⟩

theorem parseInt64_digits (s : Str) (c : Char) (r : Str) (hs : s = c :: r) (hc : c.isDigit = true) :
    parseInt64 s = (parseUint s).bind fun n => if n < 2 ^ 63 then some (n : Int) else none := by
  subst hs
  have h1 : c ≠ '+' := by intro e; subst e; revert hc; decide
  have h2 : c ≠ '-' := by intro e; subst e; revert hc; decide
  unfold parseInt64
  split
  · rename_i heq; exact absurd heq (by simp)
  · rename_i heq; simp only [List.cons.injEq] at heq; exact absurd heq.1 h1
  · rename_i heq; simp only [List.cons.injEq] at heq; exact absurd heq.1 h2
  · rfl

/-- `strconv.ParseInt(fmt.Sprintf("%d", n), 10, 64) = n` for every int64. -/
theorem parseInt64_intDec (n : Int) (h : -(2 ^ 63) ≤ n ∧ n < 2 ^ 63) : parseInt64 (intDec n) = some n := by
  unfold intDec
  split
  · rename_i hneg
    show parseInt64 ('-' :: natDec n.natAbs) = some n
    unfold parseInt64
    simp only [parseUint_natDec, Option.bind_some]
    rw [if_pos (by omega)]
    congr 1; omega
  · rename_i hpos
    obtain ⟨c, r, hcr, hc⟩ := natDec_head_digit n.natAbs
    rw [parseInt64_digits _ c r hcr hc, parseUint_natDec]
    simp only [Option.bind_some]
    rw [if_pos (by omega)]
    congr 1; omega

/-! ### default flavour: validity of every emitted label (all manifests) -/

theorem urlsKey_length_le (m : Nat) (h : m < 2 ^ 63) : (urlsKey m).length ≤ maxSize := by
  rw [urlsKey_length]; have := natDec_length_le_19 m h; simp [maxSize]; omega

theorem defaultLabels_valid (ref : Str) (pf : Int) (c : Desc) (tail : List Desc)
    (hn : tail.length < 2 ^ 63) (href : kRef.length + ref.length ≤ maxSize)
    (hdig : kDigest.length + c.digest.length ≤ maxSize) (hpf : -(2 ^ 63) ≤ pf ∧ pf < 2 ^ 63) :
    ∀ k v, get (defaultLabels ref pf c tail) k = some v →
      get (c.ann.getD []) k = some v ∨ validate k v = true := by
  intro k v hkv
  obtain ⟨hl, hrest⟩ := defaultInner_valid tail 0 []
    (set (set (c.ann.getD []) kRef ref) kDigest c.digest)
    (fun m hm => urlsKey_length_le _ (by omega)) (by decide)
  unfold defaultLabels at hkv
  simp only [get_set] at hkv
  split at hkv
  · rename_i e; subst e
    simp only [Option.some.injEq] at hkv; subst hkv
    right; exact awv_valid _ _ (by decide)
  · split at hkv
    · rename_i e; subst e
      simp only [Option.some.injEq] at hkv; subst hkv
      right
      have := intDec_length_le pf hpf
      simp only [validate, decide_eq_true_eq, kPrefetch_length, maxSize]; omega
    · split at hkv
      · rename_i e; subst e
        simp only [Option.some.injEq] at hkv; subst hkv
        right; exact validate_trim _ _ hl
      · rcases hrest k v hkv with h | h
        · simp only [get_set] at h
          split at h
          · rename_i e; subst e
            simp only [Option.some.injEq] at h; subst h
            right; simpa [validate] using hdig
          · split at h
            · rename_i e; subst e
              simp only [Option.some.injEq] at h; subst h
              right; simpa [validate] using href
            · exact Or.inl h
        · exact Or.inr h

/-! ### reader: nothing is accepted without well-formed mandatory labels -/

theorem readSource_some {R : Type} (parseRef : Str → Option R) (ks : ReaderKeys) (labels : Labels)
    (s : Source R) (h : readSource parseRef ks labels = some s) :
    (∃ refStr, get labels ks.ref = some refStr ∧ parseRef refStr = some s.name) ∧
    get labels ks.digest = some s.target ∧ digestValid s.target = true ∧
    (∀ l, get labels ks.layers = some l → ∀ d ∈ splitComma l, digestValid d = true) := by
  unfold readSource at h
  split at h
  · exact absurd h (by simp)
  · rename_i refStr hrefs
    split at h
    · exact absurd h (by simp)
    · rename_i name hname
      split at h
      · exact absurd h (by simp)
      · rename_i d hd
        split at h
        · rename_i hv
          split at h
          · exact absurd h (by simp)
          · rename_i nb hnb
            simp only [Option.some.injEq] at h
            subst h
            refine ⟨⟨refStr, hrefs, hname⟩, hd, hv, ?_⟩
            intro l hl dd hdd
            rw [hl] at hnb
            simp only at hnb
            cases hvv : digestValid dd with
            | true => rfl
            | false =>
              rw [neighboursLoop_invalid labels d _ 0 ⟨dd, hdd, hvv⟩] at hnb
              exact absurd hnb (by simp)
        · exact absurd h (by simp)


/-! ### containerd's CRI labels (`AppendInfoHandlerWrapper`) -/

def layersOf (l : List Desc) : List Desc := l.filter (·.isLayer)

/-- `"," + x0 + "," + x1 …` -/
def preComma : List Str → Str
  | [] => []
  | x :: xs => ',' :: x ++ preComma xs

theorem joinComma_cons (x : Str) : ∀ (xs : List Str), joinComma (x :: xs) = x ++ preComma xs
  | [] => by simp [joinComma, preComma]
  | y :: r => by
    simp only [joinComma, preComma]; rw [joinComma_cons y r]; simp

theorem criGetLayers_layersOf (key : Str) : ∀ (tail : List Desc) (acc : Str),
    criGetLayers key tail acc = criGetLayers key (layersOf tail) acc
  | [], _ => rfl
  | l :: ls, acc => by
    unfold layersOf
    rw [List.filter_cons]
    cases hl : l.isLayer with
    | true =>
      simp only [if_true, criGetLayers, hl]
      have ih := fun acc => criGetLayers_layersOf key ls acc
      unfold layersOf at ih
      split <;> split <;> first | exact ih _ | rfl
    | false =>
      simp only [criGetLayers, hl]
      exact criGetLayers_layersOf key ls acc

/-- With a non-empty accumulator every further digest is charged one separator: same count as
`fitCount`. -/
theorem criGetLayers_acc (key : Str) : ∀ (ls : List Desc) (acc : Str), acc ≠ [] →
    (∀ l ∈ ls, l.isLayer = true) →
    criGetLayers key ls acc =
      acc ++ preComma ((ls.take (fitCount key acc.length (ls.map (·.digest)))).map (·.digest))
  | [], acc, _, _ => by simp [criGetLayers, fitCount, preComma]
  | l :: ls, acc, hacc, hall => by
    have hl := hall l (by simp)
    simp only [criGetLayers, hl, if_true, hacc, ne_eq, not_false_eq_true, List.map_cons, fitCount,
      validate, decide_eq_true_eq, List.length_append, List.length_cons]
    split
    · rw [criGetLayers_acc key ls _ (by simp) (fun x hx => hall x (by simp [hx]))]
      simp [preComma, List.length_append]
    · simp [preComma]

theorem criGetLayers_spec (key : Str) (c : Desc) (rest : List Desc) (hc : c.isLayer = true)
    (hne : c.digest ≠ []) (hfit : key.length + c.digest.length ≤ maxSize) :
    criGetLayers key (c :: rest) [] =
      joinComma (c.digest :: ((layersOf rest).take
        (fitCount key c.digest.length ((layersOf rest).map (·.digest)))).map (·.digest)) := by
  rw [criGetLayers_layersOf]
  have : layersOf (c :: rest) = c :: layersOf rest := by simp [layersOf, hc]
  rw [this]
  simp only [criGetLayers, hc, if_true, ne_eq, not_true_eq_false, if_false, List.nil_append, validate,
    decide_eq_true_eq]
  rw [if_pos hfit, criGetLayers_acc key _ _ hne (by intro l hl; simpa [layersOf] using (List.mem_filter.mp hl).2),
    joinComma_cons]

theorem layerFromDigest_cri (ref md : Str) (d : Str) : ∀ (cs : List Desc),
    (layerFromDigest (criChildren ref md cs) d).map (·.urls) = (layerFromDigest cs d).map (·.urls)
  | [] => rfl
  | c :: cs => by
    have ih := layerFromDigest_cri ref md d cs
    simp only [criChildren, layerFromDigest]
    cases hc : c.isLayer
    · simp only [Bool.false_eq_true, if_false, hc]
      split
      · rfl
      · exact ih
    · simp only [if_true]
      split
      · rfl
      · exact ih

/-! ### extra flavour: `AppendExtraLabelsHandler` -/

theorem extraInner_spec (children : List Desc) : ∀ (ds : List Str) (j : Nat) (a : Labels),
    (∀ d ∈ ds, digestValid d = true) →
    ∃ a', extraInner children j ds a = some a' ∧
      (∀ m d, ds[m]? = some d → get a' (urlsKey (j + m)) =
        match get a (urlsKey (j + m)) with
        | some v => some v
        | none => (layerFromDigest children d).map (fun l => appendWithValidation (urlsKey (j + m)) l.urls)) ∧
      (∀ key, (∀ m, m < ds.length → key ≠ urlsKey (j + m)) → get a' key = get a key)
  | [], _, a, _ => ⟨a, rfl, by simp, fun _ _ => rfl⟩
  | d :: ds, j, a, hv => by
    have hd := hv d (by simp)
    have hvs : ∀ x ∈ ds, digestValid x = true := fun x hx => hv x (by simp [hx])
    -- the accumulator after this entry
    let a1 : Labels := match layerFromDigest children d with
      | none => a
      | some l => if (get a (urlsKey j)).isNone then set a (urlsKey j) (appendWithValidation (urlsKey j) l.urls) else a
    have hstep : extraInner children j (d :: ds) a = extraInner children (j + 1) ds a1 := by
      simp only [extraInner, hd, if_true, a1]
      cases layerFromDigest children d <;> rfl
    obtain ⟨a', h1, h2, h3⟩ := extraInner_spec children ds (j + 1) a1 hvs
    have ha1 : ∀ key, key ≠ urlsKey j → get a1 key = get a key := by
      intro key hk
      simp only [a1]
      split
      · rfl
      · split
        · rw [get_set, if_neg hk]
        · rfl
    refine ⟨a', by rw [hstep, h1], ?_, ?_⟩
    · intro m x hm
      cases m with
      | zero =>
        simp only [List.getElem?_cons_zero, Option.some.injEq] at hm; subst hm
        rw [Nat.add_zero, h3 _ (fun m _ e => by have := urlsKey_inj e; omega)]
        simp only [a1]
        cases hl : layerFromDigest children d with
        | none => cases get a (urlsKey j) <;> simp
        | some l =>
          cases hg : get a (urlsKey j) with
          | none => simp [get_set]
          | some v => simp [hg]
      | succ m =>
        have := h2 m x (by simpa using hm)
        rw [show j + 1 + m = j + (m + 1) by omega] at this
        rw [this, ha1 _ (fun e => by have := urlsKey_inj e; omega)]
    · intro key hkey
      rw [h3 key (fun m hm => by
        have := hkey (m + 1) (by simp; omega)
        rwa [show j + (m + 1) = j + 1 + m by omega] at this)]
      exact ha1 key (by simpa using hkey 0 (by simp))


theorem kCriRef_length : kCriRef.length = 36 := by decide
theorem kCriDigest_length : kCriDigest.length = 39 := by decide
theorem kCriLayers_length : kCriLayers.length = 39 := by decide
theorem kCriManifest_length : kCriManifest.length = 42 := by decide

/-- The manifest's own annotations do not already carry the keys the extra handler fills in
("nop if this key is already set"). -/
def NoPreset (a : Labels) : Prop :=
  get a kURLs = none ∧ get a kPrefetch = none ∧ ∀ j, get a (urlsKey j) = none

theorem criLabels_get (ref md : Str) (c : Desc) (tail : List Desc) :
    get (criLabels ref md c tail) kCriRef = some ref ∧
    get (criLabels ref md c tail) kCriDigest = some c.digest ∧
    get (criLabels ref md c tail) kCriLayers = some (criGetLayers kCriLayers tail []) ∧
    get (criLabels ref md c tail) kCriManifest = some md ∧
    (∀ key, key ≠ kCriRef → key ≠ kCriDigest → key ≠ kCriLayers → key ≠ kCriManifest →
      get (criLabels ref md c tail) key = get (c.ann.getD []) key) := by
  have e1 : kCriRef ≠ kCriManifest := by decide
  have e2 : kCriRef ≠ kCriLayers := by decide
  have e3 : kCriRef ≠ kCriDigest := by decide
  have e4 : kCriDigest ≠ kCriManifest := by decide
  have e5 : kCriDigest ≠ kCriLayers := by decide
  have e6 : kCriLayers ≠ kCriManifest := by decide
  unfold criLabels
  refine ⟨by simp [get_set, e1, e2, e3], by simp [get_set, e4, e5], by simp [get_set, e6], by simp [get_set], ?_⟩
  intro key h1 h2 h3 h4
  simp [get_set, h1, h2, h3, h4]

theorem extraChildren_ok (all : List Desc) (pf : Int) : ∀ (cs out : List Desc),
    extraChildren all pf cs = .ok out →
    out.length = cs.length ∧ ∀ (i : Nat) (c : Desc), cs[i]? = some c → ∃ c', extraChild all pf c = .ok c' ∧ out[i]? = some c'
  | [], out, h => by
    simp only [extraChildren, Outcome.ok.injEq] at h; subst h; simp
  | c :: cs, out, h => by
    simp only [extraChildren] at h
    split at h
    · rename_i c' hc'
      split at h
      · rename_i r hr
        simp only [Outcome.ok.injEq] at h; subst h
        obtain ⟨ihl, ih⟩ := extraChildren_ok all pf cs r hr
        refine ⟨by simp [ihl], ?_⟩
        intro i x hx
        cases i with
        | zero => simp only [List.getElem?_cons_zero, Option.some.injEq] at hx; subst hx; exact ⟨c', hc', by simp⟩
        | succ i => simpa using ih i x (by simpa using hx)
      · exact absurd h (by simp)
      · exact absurd h (by simp)
    · exact absurd h (by simp)
    · exact absurd h (by simp)

theorem extraChildren_of_all_ok (all : List Desc) (pf : Int) : ∀ (cs : List Desc),
    (∀ c ∈ cs, ∃ c', extraChild all pf c = .ok c') → ∃ out, extraChildren all pf cs = .ok out
  | [], _ => ⟨[], rfl⟩
  | c :: cs, h => by
    obtain ⟨c', hc'⟩ := h c (by simp)
    obtain ⟨r, hr⟩ := extraChildren_of_all_ok all pf cs (fun x hx => h x (by simp [hx]))
    exact ⟨c' :: r, by simp [extraChildren, hc', hr]⟩

theorem criChildren_getElem (ref md : Str) : ∀ (cs : List Desc) (i : Nat) (c : Desc), cs[i]? = some c →
    (criChildren ref md cs)[i]? =
      some (if c.isLayer then { c with ann := some (criLabels ref md c (cs.drop i)) } else c)
  | [], _, _, h => by simp at h
  | x :: cs, 0, c, h => by
    simp only [List.getElem?_cons_zero, Option.some.injEq] at h; subst h
    simp [criChildren]
  | x :: cs, i + 1, c, h => by
    simp only [criChildren, List.getElem?_cons_succ, List.drop_succ_cons]
    exact criChildren_getElem ref md cs i c (by simpa using h)

theorem defaultChildren_getElem (ref : Str) (pf : Int) : ∀ (cs : List Desc) (i : Nat) (c : Desc), cs[i]? = some c →
    (defaultChildren ref pf cs)[i]? =
      some (if c.isLayer then { c with ann := some (defaultLabels ref pf c (cs.drop i)) } else c)
  | [], _, _, h => by simp at h
  | x :: cs, 0, c, h => by
    simp only [List.getElem?_cons_zero, Option.some.injEq] at h; subst h
    simp [defaultChildren]
  | x :: cs, i + 1, c, h => by
    simp only [defaultChildren, List.getElem?_cons_succ, List.drop_succ_cons]
    exact defaultChildren_getElem ref pf cs i c (by simpa using h)

theorem drop_eq_cons_of_getElem? {α : Type} : ∀ (l : List α) (i : Nat) (c : α), l[i]? = some c →
    l.drop i = c :: l.drop (i + 1)
  | [], _, _, h => by simp at h
  | x :: l, 0, c, h => by simp at h; simp [h]
  | x :: l, i + 1, c, h => by
    simp only [List.drop_succ_cons]
    exact drop_eq_cons_of_getElem? l i c (by simpa using h)


/-! ### extra flavour: validity (all manifests) -/

theorem splitComma_length_le : ∀ (s : Str), (splitComma s).length ≤ s.length + 1
  | [] => by simp [splitComma]
  | c :: cs => by
    have ih := splitComma_length_le cs
    simp only [splitComma]
    split
    · simp; omega
    · split
      · simp
      · rename_i h t heq; rw [heq] at ih; simp at ih ⊢; omega

theorem extraInner_valid (children : List Desc) : ∀ (ds : List Str) (j : Nat) (a a' : Labels),
    (∀ m, m < ds.length → (urlsKey (j + m)).length ≤ maxSize) →
    extraInner children j ds a = some a' →
    ∀ k v, get a' k = some v → get a k = some v ∨ validate k v = true
  | [], _, a, a', _, h => by
    simp only [extraInner, Option.some.injEq] at h; subst h; exact fun _ _ h => Or.inl h
  | d :: ds, j, a, a', hj, h => by
    have hj' : ∀ m, m < ds.length → (urlsKey (j + 1 + m)).length ≤ maxSize := by
      intro m hm
      have := hj (m + 1) (by simp; omega)
      rwa [show j + (m + 1) = j + 1 + m by omega] at this
    simp only [extraInner] at h
    split at h
    · split at h
      · exact extraInner_valid children ds (j + 1) a a' hj' h
      · rename_i l _
        intro k v hkv
        rcases extraInner_valid children ds (j + 1) _ a' hj' h k v hkv with h' | h'
        · split at h'
          · rw [get_set] at h'
            split at h'
            · rename_i e; subst e
              simp only [Option.some.injEq] at h'; subst h'
              right; exact awv_valid _ _ (by simpa using hj 0 (by simp))
            · exact Or.inl h'
          · exact Or.inl h'
        · exact Or.inr h'
    · exact absurd h (by simp)

theorem criGetLayers_valid (key : Str) : ∀ (tail : List Desc) (acc : Str),
    validate key acc = true → validate key (criGetLayers key tail acc) = true
  | [], _, h => by simpa [criGetLayers] using h
  | l :: ls, acc, h => by
    simp only [criGetLayers]
    split
    · generalize (if acc ≠ [] then ',' :: l.digest else l.digest) = item
      split
      · rename_i hv; exact criGetLayers_valid key ls _ hv
      · exact h
    · exact criGetLayers_valid key ls acc h

theorem criLabels_valid (ref md : Str) (c : Desc) (tail : List Desc)
    (href : kCriRef.length + ref.length ≤ maxSize) (hdig : kCriDigest.length + c.digest.length ≤ maxSize)
    (hmd : kCriManifest.length + md.length ≤ maxSize) :
    ∀ k v, get (criLabels ref md c tail) k = some v → get (c.ann.getD []) k = some v ∨ validate k v = true := by
  intro k v h
  unfold criLabels at h
  simp only [get_set] at h
  split at h
  · rename_i e; subst e; simp only [Option.some.injEq] at h; subst h
    right; simpa [validate] using hmd
  · split at h
    · rename_i e; subst e; simp only [Option.some.injEq] at h; subst h
      right; exact criGetLayers_valid _ _ _ (by decide)
    · split at h
      · rename_i e; subst e; simp only [Option.some.injEq] at h; subst h
        right; simpa [validate] using hdig
      · split at h
        · rename_i e; subst e; simp only [Option.some.injEq] at h; subst h
          right; simpa [validate] using href
        · exact Or.inl h

theorem extraChild_valid (all : List Desc) (pf : Int) (c c' : Desc) (a : Labels)
    (hpf : -(2 ^ 63) ≤ pf ∧ pf < 2 ^ 63) (hl : c.isLayer = true) (hc : c.ann = some a)
    (hnl : ∀ nl, get a kCriLayers = some nl → nl.length ≤ maxSize)
    (h : extraChild all pf c = .ok c') :
    ∃ a', c'.ann = some a' ∧ ∀ k v, get a' k = some v → get a k = some v ∨ validate k v = true := by
  unfold extraChild at h
  simp only [hl, Bool.not_true, Bool.false_eq_true, if_false, hc] at h
  -- the two conditional writes
  generalize ha1 : (if (get a kURLs).isNone = true then set a kURLs (appendWithValidation kURLs c.urls) else a) = a1 at h
  generalize ha2 : (if (get a1 kPrefetch).isNone = true then set a1 kPrefetch (intDec pf) else a1) = a2 at h
  have v1 : ∀ k v, get a1 k = some v → get a k = some v ∨ validate k v = true := by
    intro k v hk; rw [← ha1] at hk
    split at hk
    · rw [get_set] at hk
      split at hk
      · rename_i e; subst e; simp only [Option.some.injEq] at hk; subst hk
        right; exact awv_valid _ _ (by decide)
      · exact Or.inl hk
    · exact Or.inl hk
  have v2 : ∀ k v, get a2 k = some v → get a k = some v ∨ validate k v = true := by
    intro k v hk; rw [← ha2] at hk
    split at hk
    · rw [get_set] at hk
      split at hk
      · rename_i e; subst e; simp only [Option.some.injEq] at hk; subst hk
        right
        have := intDec_length_le pf hpf
        simp only [validate, decide_eq_true_eq, kPrefetch_length, maxSize]; omega
      · exact v1 k v hk
    · exact v1 k v hk
  have hcl : get a2 kCriLayers = get a kCriLayers := by
    have e1 : kCriLayers ≠ kURLs := by decide
    have e2 : kCriLayers ≠ kPrefetch := by decide
    rw [← ha2, ← ha1]
    split <;> split <;> simp [get_set, e1, e2]
  split at h
  · simp only [Outcome.ok.injEq] at h; subst h
    exact ⟨a2, rfl, v2⟩
  · rename_i nl hnl'
    split at h
    · exact absurd h (by simp)
    · rename_i a3 h3
      simp only [Outcome.ok.injEq] at h; subst h
      refine ⟨a3, rfl, ?_⟩
      intro k v hk
      have hlen := hnl nl (by rw [← hcl]; exact hnl')
      have hsl := splitComma_length_le nl
      rcases extraInner_valid all _ 0 a2 a3 (fun m hm => urlsKey_length_le _ (by
        simp only [maxSize] at hlen; omega)) h3 k v hk with h' | h'
      · exact v2 k v h'
      · exact Or.inr h'


/-! ### extra flavour: labels of one layer and what the CRI reader makes of them -/

/-- URLs the extra handler attaches to label index `m` for a neighbour with digest `d`: those of the
FIRST child carrying that digest, if that child is a layer. -/
def urlsByDigest (children : List Desc) (m : Nat) (d : Str) : List Str :=
  match layerFromDigest children d with
  | some x => readURLs (urlsKey m) x.urls
  | none => []

theorem extraChild_cri_spec (all children : List Desc)
    (hall : ∀ d, (layerFromDigest all d).map (·.urls) = (layerFromDigest children d).map (·.urls))
    (ref md : Str) (pf : Int) (c : Desc) (rest : List Desc) (hc : c.isLayer = true)
    (hd : ∀ l ∈ c :: layersOf rest, digestValid l.digest = true) (hnp : NoPreset (c.ann.getD [])) :
    ∃ a', extraChild all pf { c with ann := some (criLabels ref md c (c :: rest)) } =
        .ok { c with ann := some a' } ∧
      get a' kCriRef = some ref ∧ get a' kCriDigest = some c.digest ∧
      get a' kCriLayers = some (joinComma (c.digest :: ((layersOf rest).take
        (fitCount kCriLayers c.digest.length ((layersOf rest).map (·.digest)))).map (·.digest))) ∧
      get a' kURLs = some (appendWithValidation kURLs c.urls) ∧
      get a' kPrefetch = some (intDec pf) ∧
      ∀ (m : Nat) (l : Desc), (c :: (layersOf rest).take
          (fitCount kCriLayers c.digest.length ((layersOf rest).map (·.digest))))[m]? = some l →
        get a' (urlsKey m) =
          (layerFromDigest children l.digest).map (fun x => appendWithValidation (urlsKey m) x.urls) := by
  obtain ⟨c1, c2, c3, _, c5⟩ := criLabels_get ref md c (c :: rest)
  obtain ⟨n1, n2, n3⟩ := hnp
  have hcd := hd c (by simp)
  have hcl := digestValid_length _ hcd
  generalize hK : fitCount kCriLayers c.digest.length ((layersOf rest).map (·.digest)) = K
  generalize ha0 : criLabels ref md c (c :: rest) = a0 at *
  -- the layers label written by containerd
  have hlay : get a0 kCriLayers = some (joinComma (c.digest :: ((layersOf rest).take K).map (·.digest))) := by
    rw [c3, criGetLayers_spec kCriLayers c rest hc (digestValid_ne_nil _ hcd)
      (by rw [kCriLayers_length]; simp only [maxSize]; omega), hK]
  have g0U : get a0 kURLs = none := by
    rw [c5 kURLs (by decide) (by decide) (by decide) (by decide)]; exact n1
  have g0P : get a0 kPrefetch = none := by
    rw [c5 kPrefetch (by decide) (by decide) (by decide) (by decide)]; exact n2
  have g0I : ∀ m, get a0 (urlsKey m) = none := by
    intro m
    rw [c5 _ (urlsKey_ne_kCriRef m) (urlsKey_ne_kCriDigest m) (urlsKey_ne_kCriLayers m)
      (urlsKey_ne_kCriManifest m)]; exact n3 m
  -- the accumulator the inner loop starts from
  let a2 : Labels := set (set a0 kURLs (appendWithValidation kURLs c.urls)) kPrefetch (intDec pf)
  have hds : ∀ d ∈ (c :: (layersOf rest).take K).map (·.digest), digestValid d = true := by
    intro d hdm
    obtain ⟨l, hl, rfl⟩ := List.mem_map.mp hdm
    rcases List.mem_cons.mp hl with e | e
    · subst e; exact hcd
    · exact hd l (by simp [List.mem_of_mem_take e])
  obtain ⟨a', i1, i2, i3⟩ := extraInner_spec all ((c :: (layersOf rest).take K).map (·.digest)) 0 a2 hds
  have hsplit : splitComma (joinComma (c.digest :: ((layersOf rest).take K).map (·.digest))) =
      (c :: (layersOf rest).take K).map (·.digest) := by
    rw [List.map_cons]
    exact split_joinComma _ _ (fun y hy => digestValid_noComma _ (hds y (by simpa using hy)))
  have e1 : kPrefetch ≠ kURLs := by decide
  have e2 : kCriLayers ≠ kURLs := by decide
  have e3 : kCriLayers ≠ kPrefetch := by decide
  refine ⟨a', ?_, ?_, ?_, ?_, ?_, ?_, ?_⟩
  · unfold extraChild
    simp only [hc, Bool.not_true, Bool.false_eq_true, if_false, g0U, Option.isNone_none, if_true,
      get_set, if_neg e1, g0P, if_neg e2, if_neg e3, hlay, hsplit]
    show (match extraInner all 0 _ a2 with | none => Outcome.err | some a => Outcome.ok _) = _
    rw [i1]
  · rw [i3 _ (fun m _ => (urlsKey_ne_kCriRef _).symm)]
    simp only [a2, get_set]
    rw [if_neg (by decide), if_neg (by decide)]; exact c1
  · rw [i3 _ (fun m _ => (urlsKey_ne_kCriDigest _).symm)]
    simp only [a2, get_set]
    rw [if_neg (by decide), if_neg (by decide)]; exact c2
  · rw [i3 _ (fun m _ => (urlsKey_ne_kCriLayers _).symm)]
    simp only [a2, get_set]
    rw [if_neg e3, if_neg e2]; exact hlay
  · rw [i3 _ (fun m _ => (urlsKey_ne_kURLs _).symm)]
    simp only [a2, get_set]
    rw [if_neg (by decide)]; simp
  · rw [i3 _ (fun m _ => (urlsKey_ne_kPrefetch _).symm)]
    simp [a2, get_set]
  · intro m l hml
    have := i2 m l.digest (by rw [List.getElem?_map, hml]; rfl)
    rw [Nat.zero_add] at this
    rw [this]
    have : get a2 (urlsKey m) = none := by
      simp only [a2, get_set]
      rw [if_neg (urlsKey_ne_kPrefetch m), if_neg (urlsKey_ne_kURLs m)]; exact g0I m
    rw [this]
    show (layerFromDigest all l.digest).map _ = _
    have h1 := hall l.digest
    cases h2 : layerFromDigest all l.digest <;> cases h3 : layerFromDigest children l.digest <;>
      simp_all

/-- Reader ∘ (extra handler on containerd's CRI labels) on one layer: the exact source that comes back
(all manifests; non-layer children anywhere). -/
theorem extra_read_spec {R : Type} (parseRef : Str → Option R) (children : List Desc) (a' : Labels)
    (ref : Str) (c : Desc) (L : List Desc) (K : Nat) (r : R)
    (hd : ∀ l ∈ c :: L, digestValid l.digest = true) (hr : parseRef ref = some r)
    (g1 : get a' kCriRef = some ref) (g2 : get a' kCriDigest = some c.digest)
    (g3 : get a' kCriLayers = some (joinComma (c.digest :: (L.take K).map (·.digest))))
    (g4 : get a' kURLs = some (appendWithValidation kURLs c.urls))
    (g5 : ∀ (m : Nat) (l : Desc), (c :: L.take K)[m]? = some l → get a' (urlsKey m) =
          (layerFromDigest children l.digest).map (fun x => appendWithValidation (urlsKey m) x.urls)) :
    readSource parseRef criKeys a' =
      some { name := r, target := c.digest, urls := readURLs kURLs c.urls,
             neighbours := nbSpec c.digest (fun m l => urlsByDigest children m l.digest) 1 (L.take K) } := by
  have hcd := hd c (by simp)
  have hds : ∀ l ∈ c :: L.take K, digestValid l.digest = true := by
    intro l hl
    rcases List.mem_cons.mp hl with e | e
    · subst e; exact hcd
    · exact hd l (by simp [List.mem_of_mem_take e])
  have hsplit : splitComma (joinComma (c.digest :: (L.take K).map (·.digest))) =
      (c :: L.take K).map (·.digest) := by
    rw [List.map_cons]
    refine split_joinComma _ _ (fun y hy => ?_)
    have : y ∈ (c :: L.take K).map (·.digest) := by simpa using hy
    obtain ⟨l, hl, rfl⟩ := List.mem_map.mp this
    exact digestValid_noComma _ (hds l hl)
  unfold readSource
  simp only [criKeys, g1, hr, g2, hcd, if_true, g3, g4, hsplit]
  rw [neighboursLoop_spec _ _ _ _ hds]
  simp only [nbSpec, ne_eq, not_true_eq_false, if_false, Nat.zero_add]
  congr 2
  apply nbSpec_congr
  intro m l hml
  have := g5 (1 + m) l (by rw [Nat.add_comm]; simpa using hml)
  unfold urlsAt urlsByDigest
  rw [this]
  cases layerFromDigest children l.digest <;> rfl


/-! ### panics, consumption at mount, consistency of repeated digests -/

theorem extraChild_panic (all : List Desc) (pf : Int) (c : Desc) (h : extraChild all pf c = .panic) :
    c.isLayer = true ∧ c.ann = none := by
  unfold extraChild at h
  cases hl : c.isLayer with
  | false => simp [hl] at h
  | true =>
    simp only [hl, Bool.not_true, Bool.false_eq_true, if_false] at h
    cases ha : c.ann with
    | none => exact ⟨rfl, rfl⟩
    | some a =>
      simp only [ha] at h
      split at h
      · exact absurd h (by simp)
      · split at h <;> exact absurd h (by simp)

theorem extraChildren_panic (all : List Desc) (pf : Int) : ∀ (cs : List Desc),
    extraChildren all pf cs = .panic → ∃ c ∈ cs, extraChild all pf c = .panic
  | [], h => by simp [extraChildren] at h
  | c :: cs, h => by
    simp only [extraChildren] at h
    split at h
    · split at h
      · exact absurd h (by simp)
      · exact absurd h (by simp)
      · rename_i hp
        obtain ⟨x, hx, hxp⟩ := extraChildren_panic all pf cs hp
        exact ⟨x, by simp [hx], hxp⟩
    · exact absurd h (by simp)
    · rename_i hp; exact ⟨c, by simp, hp⟩

theorem criChildren_ann (ref md : Str) : ∀ (cs : List Desc) (c : Desc), c ∈ criChildren ref md cs →
    c.isLayer = true → c.ann ≠ none
  | [], _, h, _ => by simp [criChildren] at h
  | x :: cs, c, h, hl => by
    simp only [criChildren, List.mem_cons] at h
    rcases h with e | e
    · subst e
      cases hx : x.isLayer with
      | true => simp
      | false => simp [hx] at hl
    · exact criChildren_ann ref md cs c e hl

theorem neighboursLoop_ne_target (labels : Labels) (target : Str) : ∀ (ds : List Str) (j : Nat)
    (nb : List (Str × List Str)), neighboursLoop labels target j ds = some nb → ∀ p ∈ nb, p.1 ≠ target
  | [], _, nb, h => by
    simp only [neighboursLoop, Option.some.injEq] at h; subst h; simp
  | d :: ds, j, nb, h => by
    simp only [neighboursLoop] at h
    split at h
    · split at h
      · exact absurd h (by simp)
      · rename_i rest hrest
        have ih := neighboursLoop_ne_target labels target ds (j + 1) rest hrest
        split at h
        · rename_i hne
          simp only [Option.some.injEq] at h; subst h
          intro p hp
          rcases List.mem_cons.mp hp with e | e
          · subst e; exact hne
          · exact ih p e
        · simp only [Option.some.injEq] at h; subst h; exact ih
    · exact absurd h (by simp)

theorem readSource_neighbours_ne_target {R : Type} (parseRef : Str → Option R) (ks : ReaderKeys)
    (labels : Labels) (s : Source R) (h : readSource parseRef ks labels = some s) :
    ∀ p ∈ s.neighbours, p.1 ≠ s.target := by
  unfold readSource at h
  split at h
  · exact absurd h (by simp)
  · split at h
    · exact absurd h (by simp)
    · split at h
      · exact absurd h (by simp)
      · rename_i d _
        split at h
        · split at h
          · exact absurd h (by simp)
          · rename_i nb hnb
            simp only [Option.some.injEq] at h; subst h
            split at hnb
            · exact neighboursLoop_ne_target labels d _ 0 nb hnb
            · simp only [Option.some.injEq] at hnb; subst hnb; simp
        · exact absurd h (by simp)

/-- If equal digests carry equal descriptors (URLs, layer-ness) then looking a layer up by digest finds
its own URLs. -/
theorem layerFromDigest_consistent : ∀ (children : List Desc) (l : Desc), l ∈ children → l.isLayer = true →
    (∀ x ∈ children, x.digest = l.digest → x.isLayer = true ∧ x.urls = l.urls) →
    ∃ x, layerFromDigest children l.digest = some x ∧ x.urls = l.urls
  | [], _, h, _, _ => by simp at h
  | y :: ys, l, hmem, hl, hcons => by
    simp only [layerFromDigest]
    split
    · rename_i e
      obtain ⟨h1, h2⟩ := hcons y (by simp) e
      exact ⟨y, by simp [h1], h2⟩
    · rename_i ne
      rcases List.mem_cons.mp hmem with e | e
      · subst e; exact absurd rfl ne
      · exact layerFromDigest_consistent ys l e hl (fun x hx => hcons x (by simp [hx]))

theorem mem_layersOf {l : Desc} {cs : List Desc} (h : l ∈ layersOf cs) : l ∈ cs ∧ l.isLayer = true := by
  unfold layersOf at h; simpa using List.mem_filter.mp h


theorem criChildren_length (ref md : Str) : ∀ (cs : List Desc), (criChildren ref md cs).length = cs.length
  | [] => rfl
  | c :: cs => by simp [criChildren, criChildren_length ref md cs]

end SV.Labels
