import SV.Model.Region

namespace SV.Region

theorem cov_nil (x : Int) : ¬ cov x [] := by
  simp [cov]

theorem cov_cons (x : Int) (l : Region) (rs : List Region) :
    cov x (l :: rs) ↔ (l.b ≤ x ∧ x ≤ l.e) ∨ cov x rs := by
  simp [cov]

theorem cov_append (x : Int) (as bs : List Region) :
    cov x (as ++ bs) ↔ cov x as ∨ cov x bs := by
  simp only [cov, List.mem_append]
  constructor
  · rintro ⟨l, hl | hl, h⟩
    · exact Or.inl ⟨l, hl, h⟩
    · exact Or.inr ⟨l, hl, h⟩
  · rintro (⟨l, hl, h⟩ | ⟨l, hl, h⟩)
    · exact ⟨l, Or.inl hl, h⟩
    · exact ⟨l, Or.inr hl, h⟩

theorem cov_reverse (x : Int) (as : List Region) : cov x as.reverse ↔ cov x as := by
  simp [cov]

theorem covb_iff (x : Int) (rs : List Region) : covb x rs = true ↔ cov x rs := by
  simp [covb, cov]

/-- A descending list reversed and put in front of a well-formed list that lies above it
is well-formed. -/
theorem wf_rev_append (pre post : List Region)
    (hne : ∀ l ∈ pre, l.b ≤ l.e)
    (hpre : pre.Pairwise (fun a c => c.e + 1 < a.b))
    (hpost : WF post)
    (hx : ∀ l ∈ pre, ∀ p ∈ post, l.e + 1 < p.b) :
    WF (pre.reverse ++ post) := by
  refine ⟨?_, ?_⟩
  · intro l hl
    rcases List.mem_append.mp hl with h | h
    · exact hne l (List.mem_reverse.mp h)
    · exact hpost.1 l h
  · rw [List.pairwise_append]
    refine ⟨?_, hpost.2, ?_⟩
    · rw [List.pairwise_reverse]; exact hpre
    · intro a ha c hc
      exact hx a (List.mem_reverse.mp ha) c hc

/-- The loop invariant of `regionSet.add`. -/
theorem addScan_spec (pre : List Region) :
    ∀ (r : Region) (post : List Region),
      r.b ≤ r.e →
      (∀ l ∈ pre, l.b ≤ l.e) →
      pre.Pairwise (fun a c => c.e + 1 < a.b) →
      WF post →
      (∀ p ∈ post, r.e + 1 < p.b) →
      (∀ l ∈ pre, ∀ p ∈ post, l.e + 1 < p.b) →
      WF (addScan pre r post) ∧
        ∀ x, cov x (addScan pre r post) ↔ (cov x pre ∨ cov x post ∨ (r.b ≤ x ∧ x ≤ r.e)) := by
  induction pre with
  | nil =>
    intro r post hr _ _ hpost hrp _
    refine ⟨⟨?_, ?_⟩, ?_⟩
    · intro l hl
      rcases List.mem_cons.mp hl with h | h
      · subst h; exact hr
      · exact hpost.1 l h
    · exact List.pairwise_cons.mpr ⟨hrp, hpost.2⟩
    · intro x
      simp only [addScan, cov_cons]
      have := cov_nil x
      constructor
      · rintro (h | h)
        · exact Or.inr (Or.inr h)
        · exact Or.inr (Or.inl h)
      · rintro (h | h | h)
        · exact absurd h this
        · exact Or.inr h
        · exact Or.inl h
  | cons l pre ih =>
    intro r post hr hne hpre hpost hrp hx
    have hl : l.b ≤ l.e := hne l (List.mem_cons_self ..)
    have hne' : ∀ l' ∈ pre, l'.b ≤ l'.e := fun l' h => hne l' (List.mem_cons_of_mem _ h)
    have hpre' := (List.pairwise_cons.mp hpre).2
    have hlpre : ∀ c ∈ pre, c.e + 1 < l.b := (List.pairwise_cons.mp hpre).1
    have hx' : ∀ l' ∈ pre, ∀ p ∈ post, l'.e + 1 < p.b :=
      fun l' h => hx l' (List.mem_cons_of_mem _ h)
    have hxl : ∀ p ∈ post, l.e + 1 < p.b := hx l (List.mem_cons_self ..)
    unfold addScan
    split
    · -- l contains r
      rename_i hc
      have hwf := wf_rev_append (l :: pre) post hne hpre hpost hx
      simp only [List.reverse_cons, List.append_assoc, List.singleton_append] at hwf
      refine ⟨hwf, ?_⟩
      intro x
      rw [cov_append, cov_reverse, cov_cons, cov_cons]
      constructor
      · rintro (h | h | h)
        · exact Or.inl (Or.inr h)
        · exact Or.inl (Or.inl h)
        · exact Or.inr (Or.inl h)
      · rintro ((h | h) | h | h)
        · exact Or.inr (Or.inl h)
        · exact Or.inl h
        · exact Or.inr (Or.inr h)
        · exact Or.inr (Or.inl ⟨by omega, by omega⟩)
    · split
      · -- r.b := l.b
        rename_i _ hc
        obtain ⟨hw, hcov⟩ := ih { r with b := l.b } post (by simp; omega) hne' hpre' hpost
          (by simpa using hrp) hx'
        refine ⟨hw, ?_⟩
        intro x
        rw [hcov x, cov_cons]
        simp only
        constructor
        · rintro (h | h | h)
          · exact Or.inl (Or.inr h)
          · exact Or.inr (Or.inl h)
          · by_cases hxl' : x ≤ l.e
            · exact Or.inl (Or.inl ⟨h.1, hxl'⟩)
            · exact Or.inr (Or.inr ⟨by omega, h.2⟩)
        · rintro ((h | h) | h | h)
          · exact Or.inr (Or.inr ⟨h.1, by omega⟩)
          · exact Or.inl h
          · exact Or.inr (Or.inl h)
          · exact Or.inr (Or.inr ⟨by omega, h.2⟩)
      · split
        · -- r.e := l.e
          rename_i _ _ hc
          obtain ⟨hw, hcov⟩ := ih { r with e := l.e } post (by simp; omega) hne' hpre' hpost
            (by simpa using hxl) hx'
          refine ⟨hw, ?_⟩
          intro x
          rw [hcov x, cov_cons]
          simp only
          constructor
          · rintro (h | h | h)
            · exact Or.inl (Or.inr h)
            · exact Or.inr (Or.inl h)
            · by_cases hxl' : l.b ≤ x
              · exact Or.inl (Or.inl ⟨hxl', h.2⟩)
              · exact Or.inr (Or.inr ⟨h.1, by omega⟩)
          · rintro ((h | h) | h | h)
            · exact Or.inr (Or.inr ⟨by omega, h.2⟩)
            · exact Or.inl h
            · exact Or.inr (Or.inl h)
            · exact Or.inr (Or.inr ⟨h.1, by omega⟩)
        · split
          · -- r covers l
            rename_i _ _ _ hc
            obtain ⟨hw, hcov⟩ := ih r post hr hne' hpre' hpost hrp hx'
            refine ⟨hw, ?_⟩
            intro x
            rw [hcov x, cov_cons]
            constructor
            · rintro (h | h | h)
              · exact Or.inl (Or.inr h)
              · exact Or.inr (Or.inl h)
              · exact Or.inr (Or.inr h)
            · rintro ((h | h) | h | h)
              · exact Or.inr (Or.inr ⟨by omega, by omega⟩)
              · exact Or.inl h
              · exact Or.inr (Or.inl h)
              · exact Or.inr (Or.inr h)
          · split
            · -- insert r after l
              rename_i h1 h2 _ _ hc
              have hgap : l.e + 1 < r.b := by omega
              have hwfp : WF (r :: post) := by
                refine ⟨?_, List.pairwise_cons.mpr ⟨hrp, hpost.2⟩⟩
                intro l' hl'
                rcases List.mem_cons.mp hl' with h | h
                · subst h; exact hr
                · exact hpost.1 l' h
              have hxx : ∀ l' ∈ l :: pre, ∀ p ∈ r :: post, l'.e + 1 < p.b := by
                intro l' hl' p hp
                rcases List.mem_cons.mp hp with h | h
                · subst h
                  rcases List.mem_cons.mp hl' with h' | h'
                  · subst h'; exact hgap
                  · have := hlpre l' h'; omega
                · exact hx l' hl' p h
              have hwf := wf_rev_append (l :: pre) (r :: post) hne hpre hwfp hxx
              simp only [List.reverse_cons, List.append_assoc, List.singleton_append] at hwf
              refine ⟨hwf, ?_⟩
              intro x
              rw [cov_append, cov_reverse, cov_cons, cov_cons, cov_cons]
              constructor
              · rintro (h | h | h | h)
                · exact Or.inl (Or.inr h)
                · exact Or.inl (Or.inl h)
                · exact Or.inr (Or.inr h)
                · exact Or.inr (Or.inl h)
              · rintro ((h | h) | h | h)
                · exact Or.inr (Or.inl h)
                · exact Or.inl h
                · exact Or.inr (Or.inr (Or.inr h))
                · exact Or.inr (Or.inr (Or.inl h))
            · -- keep l, continue
              rename_i h1 h2 h3 h4 h5
              have hrl : r.e + 1 < l.b := by omega
              have hwfp : WF (l :: post) := by
                refine ⟨?_, List.pairwise_cons.mpr ⟨hxl, hpost.2⟩⟩
                intro l' hl'
                rcases List.mem_cons.mp hl' with h | h
                · subst h; exact hl
                · exact hpost.1 l' h
              obtain ⟨hw, hcov⟩ := ih r (l :: post) hr hne' hpre' hwfp
                (by
                  intro p hp
                  rcases List.mem_cons.mp hp with h | h
                  · subst h; exact hrl
                  · exact hrp p h)
                (by
                  intro l' hl' p hp
                  rcases List.mem_cons.mp hp with h | h
                  · subst h; have := hlpre l' hl'; omega
                  · exact hx' l' hl' p h)
              refine ⟨hw, ?_⟩
              intro x
              rw [hcov x, cov_cons, cov_cons]
              constructor
              · rintro (h | (h | h) | h)
                · exact Or.inl (Or.inr h)
                · exact Or.inl (Or.inl h)
                · exact Or.inr (Or.inl h)
                · exact Or.inr (Or.inr h)
              · rintro ((h | h) | h | h)
                · exact Or.inr (Or.inl (Or.inl h))
                · exact Or.inl h
                · exact Or.inr (Or.inl (Or.inr h))
                · exact Or.inr (Or.inr h)

end SV.Region

namespace SV.Region

/-- Number of byte positions in `[0,N)` covered by the set. -/
def countCov (N : Nat) (rs : List Region) : Nat :=
  (List.range N).countP (fun (x : Nat) => covb (x : Int) rs)

theorem countP_or_disjoint {α} (p q : α → Bool) (xs : List α)
    (h : ∀ x ∈ xs, ¬ (p x = true ∧ q x = true)) :
    xs.countP (fun x => p x || q x) = xs.countP p + xs.countP q := by
  induction xs with
  | nil => simp
  | cons a xs ih =>
    have ih' := ih (fun x hx => h x (List.mem_cons_of_mem _ hx))
    have ha := h a (List.mem_cons_self ..)
    simp only [List.countP_cons, ih']
    cases hp : p a <;> cases hq : q a <;> simp_all <;> omega

theorem countP_mono {α} (p q : α → Bool) (xs : List α)
    (h : ∀ x ∈ xs, p x = true → q x = true) :
    xs.countP p ≤ xs.countP q := by
  induction xs with
  | nil => simp
  | cons a xs ih =>
    have ih' := ih (fun x hx => h x (List.mem_cons_of_mem _ hx))
    have ha := h a (List.mem_cons_self ..)
    simp only [List.countP_cons]
    cases hp : p a <;> cases hq : q a <;> simp_all <;> omega

/-- Number of naturals below `N` inside `[b,e]`. -/
theorem count_interval (b e : Int) (hb : 0 ≤ b) (hbe : b ≤ e + 1) (N : Nat) :
    (((List.range N).countP (fun (x : Nat) => decide (b ≤ (x : Int)) && decide ((x : Int) ≤ e)) : Nat) : Int)
      = max 0 (min (e + 1) N - b) := by
  induction N with
  | zero => simp; omega
  | succ n ih =>
    rw [List.range_succ, List.countP_append]
    simp only [List.countP_cons, List.countP_nil, Nat.zero_add]
    push_cast
    rw [ih]
    by_cases h1 : b ≤ (n : Int) <;> by_cases h2 : (n : Int) ≤ e <;> simp [h1, h2] <;> omega

theorem countCov_cons (N : Nat) (l : Region) (rs : List Region) (h : WF (l :: rs)) :
    countCov N (l :: rs) = countCov N [l] + countCov N rs := by
  unfold countCov
  have : ∀ x : Nat, covb (x : Int) (l :: rs) = (covb (x : Int) [l] || covb (x : Int) rs) := by
    intro x; simp [covb]
  simp only [this]
  apply countP_or_disjoint
  intro x _ ⟨h1, h2⟩
  rw [covb_iff] at h1 h2
  obtain ⟨l', hl', h1⟩ := h1
  simp at hl'; subst hl'
  obtain ⟨c, hc, h2⟩ := h2
  have := (List.pairwise_cons.mp h.2).1 c hc
  omega

/-- Under `WF`, with all regions inside `[0,N)`, `totalSize` is the number of distinct covered bytes. -/
theorem totalSize_eq_count (N : Nat) (rs : List Region) (h : WF rs)
    (hin : ∀ l ∈ rs, 0 ≤ l.b ∧ l.e < N) :
    totalSize rs = (countCov N rs : Int) := by
  induction rs with
  | nil => simp [totalSize, countCov, covb]
  | cons l rs ih =>
    have hwf' : WF rs := ⟨fun l' h' => h.1 l' (List.mem_cons_of_mem _ h'), (List.pairwise_cons.mp h.2).2⟩
    rw [countCov_cons N l rs h, totalSize, ih hwf' (fun l' h' => hin l' (List.mem_cons_of_mem _ h'))]
    have hl := hin l (List.mem_cons_self ..)
    have hle := h.1 l (List.mem_cons_self ..)
    have hc := count_interval l.b l.e hl.1 (by omega) N
    have : countCov N [l] = (List.range N).countP (fun (x : Nat) => decide (l.b ≤ (x : Int)) && decide ((x : Int) ≤ l.e)) := by
      unfold countCov; congr 1; funext x; simp [covb]
    rw [this]; push_cast; rw [hc]; unfold Region.size; omega

theorem countCov_le (N : Nat) (rs : List Region) : countCov N rs ≤ N := by
  unfold countCov
  exact Nat.le_trans (List.countP_le_length ..) (by simp)

theorem countCov_mono (N : Nat) (rs rs' : List Region) (h : ∀ x, cov x rs → cov x rs') :
    countCov N rs ≤ countCov N rs' := by
  unfold countCov
  apply countP_mono
  intro x _ hx
  rw [covb_iff] at *
  exact h _ hx

end SV.Region
