/-
C02, metadata: the tree the memory store builds from the TOC the builder writes for a tar archive
shows, path by path, what `tarView` describes.  Bridges SV.Model.LazyRead (`tarView`, the
specification of C02) and SV.Model.Toc (`memTree` / `dbTree`, the TOC interpreters of C05, tied to
the real stores by C05's correspondence).  Core-only; imports C05's simulation lemmas, edits nothing.
-/
import SV.Model.LazyRead
import SV.Lemmas.TocAgree

namespace SV.MetaTar
open SV

/-! ## The builder's entry translation -/

def typeStr : LazyRead.EType → String
  | .reg => "reg" | .dir => "dir" | .symlink => "symlink" | .hardlink => "hardlink"
  | .char => "char" | .block => "block" | .fifo => "fifo"

/-- `estargz.(*Writer).appendTar`: the TOC entry written for one tar header (payload / chunk fields
left at their zero values: chunk tables are C02's other half).  `xv` renders an xattr value
(`[]byte` in Go) as the TOC model's string. -/
def tocOfEntry (xv : LazyRead.Bytes → String) (e : LazyRead.TarEntry) : Toc.Entry :=
  { name := Toc.renderPath e.name
    type := typeStr e.type
    size := if e.type = .reg then (e.size : Int) else 0
    linkName := if e.type = .symlink then e.link
                else if e.type = .hardlink then Toc.renderPath e.linkPath else ""
    mode := (e.mode : Int)
    uid := (e.uid : Int)
    gid := (e.gid : Int)
    devMajor := if e.type = .char ∨ e.type = .block then (e.devMajor : Int) else 0
    devMinor := if e.type = .char ∨ e.type = .block then (e.devMinor : Int) else 0
    xattrs := e.xattrs.map fun kv => (kv.1, xv kv.2) }

/-- `importTar`: an entry whose (clean) name is already present replaces it and moves to the end —
last duplicate wins, at the position of the last occurrence. -/
def importTar (tar : List LazyRead.TarEntry) : List (LazyRead.Path × LazyRead.TarEntry) :=
  LazyRead.dedupLast (tar.map fun e => (LazyRead.cleanName e.name, e))

/-- the TOC (non-chunk entries) `Build` writes for a tar -/
def tocOfTar (xv : LazyRead.Bytes → String) (tar : List LazyRead.TarEntry) : List Toc.Entry :=
  (importTar tar).map fun x => tocOfEntry xv x.2

/-! ## Names -/

/-- a name whose components are plain: not empty, not `.`, not `..`, no slash -/
def PlainPath (p : LazyRead.Path) : Prop := ∀ c ∈ p, Toc.Plain c.toList

instance (c : List Char) : Decidable (Toc.Plain c) := by unfold Toc.Plain; infer_instance
instance (p : LazyRead.Path) : Decidable (PlainPath p) := by unfold PlainPath; infer_instance

theorem clean_render (p : LazyRead.Path) (h : PlainPath p) : Toc.cleanName (Toc.renderPath p) = p := by
  unfold Toc.cleanName Toc.renderPath
  rw [String.toList_ofList]
  have hp : ∀ c ∈ p.map String.toList, Toc.Plain c := by
    intro c hc
    obtain ⟨s, hs, rfl⟩ := List.mem_map.mp hc
    exact h s hs
  have hcc : Toc.cleanChars (Toc.joinSlash (p.map String.toList)) = p.map String.toList := by
    by_cases hne : p.map String.toList = []
    · rw [hne]; simp [Toc.joinSlash, Toc.cleanChars, Toc.splitSlash, Toc.cleanComps]
    · unfold Toc.cleanChars
      rw [Toc.splitSlash_joinSlash _ hne (fun c hc => (hp c hc).2.2.2), Toc.cleanComps_of_plain _ [] hp]
      simp
  rw [hcc, List.map_map]
  have : (String.ofList ∘ String.toList) = id := by funext s; simp
  rw [this]; simp

theorem cleanGo_plain (p acc : List String) (h : PlainPath p) :
    LazyRead.cleanGo acc p = acc.reverse ++ p := by
  induction p generalizing acc with
  | nil => simp [LazyRead.cleanGo]
  | cons c cs ih =>
    have hc := h c (by simp)
    have h1 : ¬ (c = "" ∨ c = ".") := by
      rintro (e | e)
      · exact hc.1 (by rw [e]; rfl)
      · exact hc.2.1 (by rw [e]; rfl)
    have h2 : ¬ c = ".." := fun e => hc.2.2.1 (by rw [e]; rfl)
    unfold LazyRead.cleanGo
    rw [if_neg h1, if_neg h2, ih (c :: acc) (fun x hx => h x (List.mem_cons_of_mem _ hx))]
    simp

theorem cleanName_plain (p : LazyRead.Path) (h : PlainPath p) : LazyRead.cleanName p = p := by
  unfold LazyRead.cleanName; rw [cleanGo_plain p [] h]; simp


/-! ## Implicit directories of the memory store are ancestors of entries -/

open Toc in
theorem goc_imps (ms : List MEnt) : ∀ (rev : List String) (s : MState),
    ∀ d ∈ (mGetOrCreateDir ms s rev).1.imps, d ∈ s.imps ∨ ∃ n, n ≤ rev.length ∧ d = rev.reverse.take n := by
  intro rev
  induction rev with
  | nil =>
    intro s d hd
    unfold mGetOrCreateDir at hd
    cases hl : mLookup ms s [] with
    | some k => rw [hl] at hd; exact Or.inl hd
    | none =>
      rw [hl] at hd
      simp only [List.mem_cons] at hd
      rcases hd with hd | hd
      · exact Or.inr ⟨0, Nat.le_refl _, by simp [hd]⟩
      · exact Or.inl hd
  | cons b rest ih =>
    intro s d hd
    unfold mGetOrCreateDir at hd
    cases hl : mLookup ms s (b :: rest).reverse with
    | some k => simp only [hl] at hd; exact Or.inl hd
    | none =>
      simp only [hl] at hd
      have := ih _ d (by simpa [mAddChild] using hd)
      rcases this with h | ⟨n, hn, he⟩
      · simp only [List.mem_cons] at h
        rcases h with h | h
        · exact Or.inr ⟨(b :: rest).length, Nat.le_refl _, by rw [h]; simp only [List.reverse_cons, List.length_cons]; exact (List.take_of_length_le (by simp)).symm⟩
        · exact Or.inl h
      · refine Or.inr ⟨n, by simp; omega, ?_⟩
        rw [he, take_reverse_cons b rest n hn]

open Toc in
theorem step_imps (ms : List MEnt) (s s' : MState) (i : Nat) (m : MEnt)
    (h : pass2Step ms s i m = some s') :
    ∀ d ∈ s'.imps, d ∈ s.imps ∨ (m.e.type ≠ "chunk" ∧ ∃ n, n < m.path.length ∧ d = m.path.take n) := by
  intro d hd
  unfold pass2Step at h
  by_cases hc : m.e.type = "chunk"
  · rw [if_pos hc] at h; cases h; exact Or.inl hd
  · rw [if_neg hc] at h
    by_cases hp : m.path = []
    · rw [if_pos hp] at h; cases h; exact Or.inl hd
    · rw [if_neg hp] at h
      rcases hg : mGetOrCreateDir ms s (parentDir m.path).reverse with ⟨s1, pk⟩
      have hgi := goc_imps ms (parentDir m.path).reverse s
      rw [hg] at h hgi
      simp only at h hgi
      have hkey : d ∈ s1.imps := by
        by_cases hh : m.e.type = "hardlink"
        · rw [if_pos hh] at h
          split at h
          · cases h
          · split at h
            · cases h
            · cases h; simpa [mAddChild] using hd
        · rw [if_neg hh] at h
          cases h; simpa [mAddChild] using hd
      rcases hgi d hkey with h1 | ⟨n, hn, he⟩
      · exact Or.inl h1
      · refine Or.inr ⟨hc, n, ?_, ?_⟩
        · have : m.path.length ≠ 0 := by intro e; exact hp (List.eq_nil_of_length_eq_zero e)
          simp [parentDir] at hn; omega
        · rw [he]; simp only [List.reverse_reverse, parentDir]
          rw [List.dropLast_eq_take, List.take_take]
          congr 1
          simp [parentDir] at hn; omega

open Toc in
theorem pass2_imps (ms : List MEnt) : ∀ (l : List (Nat × MEnt)) (s s' : MState),
    pass2 ms l s = some s' →
    ∀ d ∈ s'.imps, d ∈ s.imps ∨ ∃ im ∈ l, im.2.e.type ≠ "chunk" ∧ ∃ n, n < im.2.path.length ∧ d = im.2.path.take n := by
  intro l
  induction l with
  | nil => intro s s' h d hd; simp [pass2] at h; subst h; exact Or.inl hd
  | cons im rest ih =>
    intro s s' h d hd
    obtain ⟨i, m⟩ := im
    unfold pass2 at h
    cases hst : pass2Step ms s i m with
    | none => rw [hst] at h; cases h
    | some s1 =>
      rw [hst] at h
      rcases ih s1 s' h d hd with h1 | ⟨im, him, hr⟩
      · rcases step_imps ms s s1 i m hst d h1 with h2 | ⟨hc, n, hn, he⟩
        · exact Or.inl h2
        · exact Or.inr ⟨(i, m), by simp, hc, n, hn, he⟩
      · exact Or.inr ⟨im, List.mem_cons_of_mem _ him, hr⟩

theorem mem_enumFrom' {α : Type} : ∀ (l : List α) (k i : Nat) (a : α), (i, a) ∈ Toc.enumFrom' k l →
    k ≤ i ∧ l[i - k]? = some a := by
  intro l
  induction l with
  | nil => intro k i a h; simp [Toc.enumFrom'] at h
  | cons x xs ih =>
    intro k i a h
    simp only [Toc.enumFrom', List.mem_cons, Prod.mk.injEq] at h
    rcases h with ⟨h1, h2⟩ | h
    · subst h1; subst h2; simp
    · obtain ⟨h1, h2⟩ := ih (k + 1) i a h
      refine ⟨by omega, ?_⟩
      have : i - k = (i - (k + 1)) + 1 := by omega
      rw [this]; simpa using h2


/-! ## What "the same node" means across the two models -/

def ntStr : LazyRead.NType → String
  | .reg => "reg" | .dir => "dir" | .symlink => "symlink" | .char => "char" | .block => "block"
  | .fifo => "fifo" | .socket => "socket"

/-- The attributes the metadata store holds for a node (`metadata.Attr`, TOC model) are the ones the
specification gives the node: Go file mode of (type, header mode), size, owner, device numbers,
symlink target, xattrs.  The link count is NOT part of this relation (see `MetadataEqualTar`). -/
structure AttrMatches (xv : LazyRead.Bytes → String) (a : Toc.Attr) (n : LazyRead.Node) : Prop where
  mode : a.mode = Toc.goFileMode (ntStr n.type) (n.mode : Int)
  size : a.size = (n.size : Int)
  uid : a.uid = (n.uid : Int)
  gid : a.gid = (n.gid : Int)
  devMajor : a.devMajor = (n.devMajor : Int)
  devMinor : a.devMinor = (n.devMinor : Int)
  link : n.type = .symlink → a.linkName = n.link
  xattrs : a.xattrs = n.xattrs.map fun kv => (kv.1, xv kv.2)

theorem goFileMode_mod (t : String) (m : Nat) :
    Toc.goFileMode t ((m % 4096 : Nat) : Int) = Toc.goFileMode t (m : Int) := by
  unfold Toc.goFileMode
  have : (((m % 4096 : Nat) : Int) % 4096).toNat = ((m : Int) % 4096).toNat := by omega
  simp only [this]

/-- all paths of the view: the root, the entry names, their proper ancestors -/
def allPaths (live : List (LazyRead.Path × LazyRead.TarEntry)) : List LazyRead.Path :=
  (([] : LazyRead.Path) :: live.map (·.1) ++ (live.map (·.1)).flatMap LazyRead.ancestors).eraseDups

theorem mem_allPaths (live : List (LazyRead.Path × LazyRead.TarEntry)) (p : LazyRead.Path) :
    (allPaths live).contains p = true ↔
      p = [] ∨ (∃ x ∈ live, x.1 = p) ∨ (∃ x ∈ live, ∃ n, n < x.1.length ∧ p = x.1.take n) := by
  unfold allPaths
  simp only [List.contains_eq_mem, List.mem_eraseDups, decide_eq_true_eq, List.cons_append, List.mem_cons,
    List.mem_append, List.mem_map, List.mem_flatMap, LazyRead.ancestors, List.mem_range]
  constructor
  · rintro (h | h | h)
    · exact Or.inl h
    · obtain ⟨x, hx, e⟩ := h; exact Or.inr (Or.inl ⟨x, hx, e⟩)
    · obtain ⟨q, ⟨x, hx, e⟩, n, hn, e2⟩ := h
      subst e
      exact Or.inr (Or.inr ⟨x, hx, n, hn, e2.symm⟩)
  · rintro (h | h | h)
    · exact Or.inl h
    · obtain ⟨x, hx, e⟩ := h; exact Or.inr (Or.inl ⟨x, hx, e⟩)
    · obtain ⟨x, hx, n, hn, e⟩ := h
      exact Or.inr (Or.inr ⟨x.1, ⟨x, hx, rfl⟩, n, hn, e.symm⟩)

/-- the implicit directory node of the specification, up to its link count -/
def IsImplicitDir (n : LazyRead.Node) : Prop :=
  n.type = .dir ∧ n.mode = 0o755 ∧ n.uid = 0 ∧ n.gid = 0 ∧ n.size = 0 ∧ n.link = "" ∧
    n.devMajor = 0 ∧ n.devMinor = 0 ∧ n.xattrs = []

/-- the node of the specification that carries the header `e`, up to its link count -/
def IsNodeOf (e : LazyRead.TarEntry) (n : LazyRead.Node) : Prop :=
  n.type = LazyRead.ntypeOf e.type ∧ n.mode = e.mode % 4096 ∧ n.uid = e.uid ∧ n.gid = e.gid ∧
    n.size = (if e.type = .reg then e.size else 0) ∧ n.link = (if e.type = .symlink then e.link else "") ∧
    n.devMajor = (if e.type = .char ∨ e.type = .block then e.devMajor else 0) ∧
    n.devMinor = (if e.type = .char ∨ e.type = .block then e.devMinor else 0) ∧ n.xattrs = e.xattrs

theorem tarView_none (tar : List LazyRead.TarEntry) (p : LazyRead.Path)
    (h : (allPaths (importTar tar)).contains p = false) : (LazyRead.tarView tar).node p = none := by
  unfold LazyRead.tarView
  unfold allPaths importTar at h
  simp only [h, Bool.not_false, if_true]

theorem tarView_implicit (tar : List LazyRead.TarEntry) (p : LazyRead.Path)
    (h : (allPaths (importTar tar)).contains p = true) (hf : LazyRead.findEntry (importTar tar) p = none) :
    ∃ n, (LazyRead.tarView tar).node p = some n ∧ IsImplicitDir n := by
  unfold LazyRead.tarView
  unfold allPaths importTar at h
  unfold importTar at hf
  simp only [h, hf, Bool.not_true, Bool.false_eq_true, if_false]
  exact ⟨_, rfl, rfl, rfl, rfl, rfl, rfl, rfl, rfl, rfl, rfl⟩

theorem tarView_entry (tar : List LazyRead.TarEntry) (p q : LazyRead.Path) (e0 e : LazyRead.TarEntry)
    (h : (allPaths (importTar tar)).contains p = true) (hf : LazyRead.findEntry (importTar tar) p = some e0)
    (hr : LazyRead.resolve (importTar tar) ((importTar tar).length + 1) p = some (q, e)) :
    ∃ n, (LazyRead.tarView tar).node p = some n ∧ IsNodeOf e n := by
  unfold LazyRead.tarView
  unfold allPaths importTar at h
  unfold importTar at hf hr
  simp only [h, hf, hr, Bool.not_true, Bool.false_eq_true, if_false]
  exact ⟨_, rfl, rfl, rfl, rfl, rfl, rfl, rfl, rfl, rfl, rfl⟩

theorem typeStr_ne_chunk (t : LazyRead.EType) : typeStr t ≠ "chunk" := by cases t <;> decide

theorem typeStr_hardlink (t : LazyRead.EType) : typeStr t = "hardlink" ↔ t = .hardlink := by
  cases t <;> simp [typeStr]

theorem ntStr_ntypeOf (t : LazyRead.EType) (h : t ≠ .hardlink) : ntStr (LazyRead.ntypeOf t) = typeStr t := by
  cases t <;> first | rfl | exact absurd rfl h

/-- the attributes the TOC entry of a header carries are the ones of the header's node -/
theorem entry_matches (xv : LazyRead.Bytes → String) (e : LazyRead.TarEntry) (he : e.type ≠ .hardlink)
    (n : LazyRead.Node) (hn : IsNodeOf e n) (nl : Int) :
    AttrMatches xv (Toc.attrOfEntry (tocOfEntry xv e) nl) n := by
  obtain ⟨h1, h2, h3, h4, h5, h6, h7, h8, h9⟩ := hn
  refine ⟨?_, ?_, ?_, ?_, ?_, ?_, ?_, ?_⟩
  · simp only [Toc.attrOfEntry, tocOfEntry]
    rw [h1, h2, ntStr_ntypeOf _ he, goFileMode_mod]
  · simp only [Toc.attrOfEntry, tocOfEntry, h5]; split <;> rfl
  · simp only [Toc.attrOfEntry, tocOfEntry, h3]
  · simp only [Toc.attrOfEntry, tocOfEntry, h4]
  · simp only [Toc.attrOfEntry, tocOfEntry, h7]; split <;> rfl
  · simp only [Toc.attrOfEntry, tocOfEntry, h8]; split <;> rfl
  · intro hs
    have : e.type = .symlink := by
      rw [h1] at hs; cases ht : e.type <;> rw [ht] at hs <;> simp [LazyRead.ntypeOf] at hs <;> rfl
    simp only [Toc.attrOfEntry, tocOfEntry, h6, this, if_true]
  · simp only [Toc.attrOfEntry, tocOfEntry, h9]

theorem implicit_matches (xv : LazyRead.Bytes → String) (n : LazyRead.Node) (hn : IsImplicitDir n) (nl : Int) :
    AttrMatches xv { mode := Toc.goFileMode "dir" 0o755, numLink := nl } n := by
  obtain ⟨h1, h2, h3, h4, h5, h6, h7, h8, h9⟩ := hn
  refine ⟨?_, ?_, ?_, ?_, ?_, ?_, ?_, ?_⟩ <;> simp [h1, h2, h3, h4, h5, h6, h7, h8, h9, ntStr]


/-! ## The fragment, and the TOC of a tar seen through pass 1 -/

/-- The decidable fragment of tars for which the theorem is proved:
  * every name (and hardlink target) is spelled plainly — any other spelling (`./`, `../`, `//`, a
    trailing slash) is reduced to this one by `cleanName`, which both stores and the specification
    apply first (C05 `cleanName_idem`);
  * the TOC of the tar — AFTER the builder's `importTar` dropped all but the last entry of every
    name — is `SpecConforming` (C05): supported types, no entry for the root itself, a directory
    entry precedes what is below it (other ancestors implicit), hardlinks (also chains) point at
    earlier non-directories, xattr keys unique. Duplicate names in the tar are fine. -/
structure TarOK (xv : LazyRead.Bytes → String) (tar : List LazyRead.TarEntry) : Prop where
  names : ∀ e ∈ tar, PlainPath e.name
  links : ∀ e ∈ tar, e.type = .hardlink → PlainPath e.linkPath
  spec : Toc.SpecConforming (tocOfTar xv tar)

instance (xv : LazyRead.Bytes → String) (tar : List LazyRead.TarEntry) : Decidable (TarOK xv tar) :=
  decidable_of_iff ((∀ e ∈ tar, PlainPath e.name) ∧ (∀ e ∈ tar, e.type = .hardlink → PlainPath e.linkPath) ∧
      Toc.SpecConforming (tocOfTar xv tar))
    ⟨fun ⟨a, b, c⟩ => ⟨a, b, c⟩, fun ⟨a, b, c⟩ => ⟨a, b, c⟩⟩

theorem dedupLast_sub (l : List (LazyRead.Path × LazyRead.TarEntry)) : ∀ x ∈ LazyRead.dedupLast l, x ∈ l := by
  induction l with
  | nil => intro x h; cases h
  | cons y ys ih =>
    intro x h
    unfold LazyRead.dedupLast at h
    split at h
    · exact List.mem_cons_of_mem _ (ih x h)
    · rcases List.mem_cons.mp h with h | h
      · exact h ▸ List.mem_cons_self
      · exact List.mem_cons_of_mem _ (ih x h)

theorem live_facts {xv : LazyRead.Bytes → String} {tar : List LazyRead.TarEntry} (ok : TarOK xv tar)
    {x : LazyRead.Path × LazyRead.TarEntry} (hx : x ∈ importTar tar) :
    x.1 = x.2.name ∧ PlainPath x.2.name ∧ (x.2.type = .hardlink → PlainPath x.2.linkPath) := by
  have := dedupLast_sub _ x hx
  obtain ⟨e, he, rfl⟩ := List.mem_map.mp this
  exact ⟨cleanName_plain _ (ok.names e he), ok.names e he, ok.links e he⟩

theorem ms_live {xv : LazyRead.Bytes → String} {tar : List LazyRead.TarEntry} (ok : TarOK xv tar)
    {i : Nat} {m : Toc.MEnt} (hm : (Toc.pass1 (tocOfTar xv tar))[i]? = some m) :
    ∃ x, (importTar tar)[i]? = some x ∧ m.e = tocOfEntry xv x.2 ∧ m.path = x.1 ∧ m.e.type ≠ "chunk" := by
  obtain ⟨he, hp⟩ := Toc.pass1_getElem _ i m hm
  unfold tocOfTar at he
  rw [List.getElem?_map] at he
  cases hl : (importTar tar)[i]? with
  | none => rw [hl] at he; cases he
  | some x =>
    rw [hl] at he
    simp only [Option.map_some, Option.some.injEq] at he
    have hc : m.e.type ≠ "chunk" := by rw [← he]; exact typeStr_ne_chunk _
    have hf := live_facts ok (List.mem_of_getElem? hl)
    refine ⟨x, rfl, he.symm, ?_, hc⟩
    rw [hp hc, ← he]
    simp only [tocOfEntry]
    rw [clean_render _ hf.2.1, hf.1]

theorem live_ms {xv : LazyRead.Bytes → String} {tar : List LazyRead.TarEntry} (ok : TarOK xv tar)
    {i : Nat} {x : LazyRead.Path × LazyRead.TarEntry} (hx : (importTar tar)[i]? = some x) :
    ∃ m, (Toc.pass1 (tocOfTar xv tar))[i]? = some m ∧ m.e = tocOfEntry xv x.2 ∧ m.path = x.1 ∧
      m.e.type ≠ "chunk" := by
  have hi : i < (Toc.pass1 (tocOfTar xv tar)).length := by
    rw [Toc.pass1_length]; unfold tocOfTar; rw [List.length_map]
    exact (List.getElem?_eq_some_iff.mp hx).1
  have hm : (Toc.pass1 (tocOfTar xv tar))[i]? = some (Toc.pass1 (tocOfTar xv tar))[i] :=
    List.getElem?_eq_getElem hi
  obtain ⟨x', hx', h1, h2, h3⟩ := ms_live ok hm
  rw [hx] at hx'; cases hx'
  exact ⟨_, hm, h1, h2, h3⟩

theorem nonChunkAt_iff {xv : LazyRead.Bytes → String} {tar : List LazyRead.TarEntry} (ok : TarOK xv tar)
    (j : Nat) (p : LazyRead.Path) :
    Toc.NonChunkAt (Toc.pass1 (tocOfTar xv tar)) j p ↔ ∃ x, (importTar tar)[j]? = some x ∧ x.1 = p := by
  constructor
  · rintro ⟨m, hm, _, hp⟩
    obtain ⟨x, hx, _, h2, _⟩ := ms_live ok hm
    exact ⟨x, hx, by rw [← h2, hp]⟩
  · rintro ⟨x, hx, hp⟩
    obtain ⟨m, hm, _, h2, h3⟩ := live_ms ok hx
    exact ⟨m, hm, h3, by rw [h2, hp]⟩

theorem findEntry_at {xv : LazyRead.Bytes → String} {tar : List LazyRead.TarEntry} (ok : TarOK xv tar)
    {j : Nat} {x : LazyRead.Path × LazyRead.TarEntry} (hx : (importTar tar)[j]? = some x) :
    LazyRead.findEntry (importTar tar) x.1 = some x.2 := by
  have nd := (Toc.spec_treeOK ok.spec).nodup
  unfold LazyRead.findEntry
  cases hf : List.find? (fun y => decide (y.1 = x.1)) (importTar tar) with
  | none =>
    have := List.find?_eq_none.mp hf x (List.mem_of_getElem? hx)
    simp at this
  | some y =>
    have hy := List.mem_of_find?_eq_some hf
    have hy1 : y.1 = x.1 := by have := List.find?_some hf; simpa using this
    obtain ⟨j', hj'⟩ := List.getElem?_of_mem hy
    have := nd j' j x.1 ((nonChunkAt_iff ok j' x.1).mpr ⟨y, hj', hy1⟩) ((nonChunkAt_iff ok j x.1).mpr ⟨x, hx, rfl⟩)
    subst this
    rw [hx] at hj'; cases hj'; rfl

theorem findEntry_none {xv : LazyRead.Bytes → String} {tar : List LazyRead.TarEntry} (ok : TarOK xv tar)
    {p : LazyRead.Path} (h : Toc.lastIdx (Toc.pass1 (tocOfTar xv tar)) p = none) :
    LazyRead.findEntry (importTar tar) p = none := by
  unfold LazyRead.findEntry
  have hn := (Toc.lastIdx_eq_none_iff _ p).mp h
  cases hf : List.find? (fun y => decide (y.1 = p)) (importTar tar) with
  | none => rfl
  | some y =>
    have hy := List.mem_of_find?_eq_some hf
    have hy1 : y.1 = p := by have := List.find?_some hf; simpa using this
    obtain ⟨j, hj⟩ := List.getElem?_of_mem hy
    exact absurd ((nonChunkAt_iff ok j p).mpr ⟨y, hj, hy1⟩) (hn j)


/-! ## Hardlinks: by-name resolution of the specification = `getSource` of the store -/

theorem resolve_agrees {xv : LazyRead.Bytes → String} {tar : List LazyRead.TarEntry} (ok : TarOK xv tar) :
    ∀ (j : Nat) (x : LazyRead.Path × LazyRead.TarEntry), (importTar tar)[j]? = some x →
      ∀ fuel, j < fuel →
        ∃ r xr, Toc.resolveKey (Toc.pass1 (tocOfTar xv tar)) j = .ent r ∧ (importTar tar)[r]? = some xr ∧
          xr.2.type ≠ .hardlink ∧ LazyRead.resolve (importTar tar) fuel x.1 = some (xr.1, xr.2) := by
  have tok := Toc.spec_treeOK ok.spec
  intro j
  induction j using Nat.strongRecOn with
  | _ j ih =>
    intro x hx fuel hfuel
    obtain ⟨m, hm, hme, hmp, hmc⟩ := live_ms ok hx
    cases fuel with
    | zero => omega
    | succ f =>
      unfold LazyRead.resolve
      rw [findEntry_at ok hx, Toc.resolveKey_unfold tok hm]
      simp only []
      by_cases hh : x.2.type = .hardlink
      · have hmh : m.e.type = "hardlink" := by rw [hme]; exact (typeStr_hardlink _).mpr hh
        rw [if_pos hh, if_pos hmh]
        obtain ⟨t, ht, hl, _⟩ := Toc.hardlink_target tok hm hmh
        have hf := live_facts ok (List.mem_of_getElem? hx)
        have hln : Toc.cleanName m.e.linkName = x.2.linkPath := by
          rw [hme]; simp only [tocOfEntry, hh]
          rw [if_neg (by decide), if_pos trivial, clean_render _ (hf.2.2 hh)]
        rw [hln] at hl ⊢
        simp only [hl]
        obtain ⟨xt, hxt, hxp⟩ := (nonChunkAt_iff ok t _).mp ((Toc.lastIdx_eq_some_iff _ tok.nodup _ t).mp hl)
        obtain ⟨r, xr, h1, h2, h3, h4⟩ := ih t ht xt hxt f (by omega)
        refine ⟨r, xr, h1, h2, h3, ?_⟩
        rw [cleanName_plain _ (hf.2.2 hh), ← hxp]; exact h4
      · have hmh : ¬ m.e.type = "hardlink" := by rw [hme]; exact fun e => hh ((typeStr_hardlink _).mp e)
        rw [if_neg hh, if_neg hmh]
        exact ⟨j, x, rfl, hx, hh, rfl⟩

/-! ## Walking the memory store's tree -/

theorem walk_prefix (kids : Toc.Key → Toc.Kids) : ∀ (p r : Toc.Path) (k c : Toc.Key),
    Toc.walkKids kids k (p ++ r) = some c → ∃ c', Toc.walkKids kids k p = some c' := by
  intro p
  induction p with
  | nil => intro r k c _; exact ⟨k, rfl⟩
  | cons b rest ih =>
    intro r k c h
    simp only [List.cons_append, Toc.walkKids] at h ⊢
    cases hg : Toc.getKid b (kids k) with
    | none => rw [hg] at h; cases h
    | some c1 => rw [hg] at h; exact ih r c1 c h

theorem mem_of_getKid {b : String} {l : Toc.Kids} {c : Toc.Key} (h : Toc.getKid b l = some c) : (b, c) ∈ l := by
  induction l with
  | nil => cases h
  | cons x xs ih =>
    unfold Toc.getKid at h
    by_cases hx : x.1 = b
    · rw [if_pos hx] at h; cases h
      have : x = (b, x.2) := by rw [← hx]
      rw [this]; exact List.mem_cons_self
    · rw [if_neg hx] at h; exact List.mem_cons_of_mem _ (ih h)

/-- along a walk that starts at an existing node the tree's children maps are the state's -/
theorem walk_mem (ms : List Toc.MEnt) (s : Toc.MState) (i : Nat)
    (hk : ∀ k kv, kv ∈ s.kids k → Toc.Created ms i s.imps kv.2) :
    ∀ (p : Toc.Path) (k : Toc.Key), Toc.Created ms i s.imps k →
      Toc.walkKids (fun k => (Toc.memNode ms s k).kids) k p = Toc.walkKids s.kids k p := by
  intro p
  induction p with
  | nil => intro k _; rfl
  | cons b rest ih =>
    intro k hc
    simp only [Toc.walkKids]
    rw [Toc.memNode_kids s k hc]
    cases hg : Toc.getKid b (s.kids k) with
    | none => rfl
    | some c => exact ih c (hk k (b, c) (mem_of_getKid hg))

/-! ## The theorem -/

/-- Path by path: the node the tree serves at `p` (walking children maps from the root, as `GetChild`
does) and the node the specification describes at `p` exist together and carry the same
attributes. -/
def PathMatches (xv : LazyRead.Bytes → String) (t : Toc.Tree) (tar : List LazyRead.TarEntry)
    (p : LazyRead.Path) : Prop :=
  match Toc.walkKids (fun k => (t.node k).kids) t.root p with
  | none => (LazyRead.tarView tar).node p = none
  | some k => ∃ n, (LazyRead.tarView tar).node p = some n ∧ AttrMatches xv (t.node k).attr n

theorem mem_tree_matches {xv : LazyRead.Bytes → String} {tar : List LazyRead.TarEntry} (ok : TarOK xv tar) :
    ∃ tm, Toc.memTree (tocOfTar xv tar) = .accept tm ∧ ∀ p, PathMatches xv tm tar p := by
  obtain ⟨smF, sdF, h1, _, inv, _, hroot, hhl⟩ := Toc.final_states ok.spec
  have tok := Toc.spec_treeOK ok.spec
  have hl0 : Toc.lastIdx (Toc.pass1 (tocOfTar xv tar)) [] = none := (Toc.lastIdx_eq_none_iff _ []).mpr tok.noRoot
  have hsrc : ∀ org, org ∈ smF.hlSources → smF.kids org = [] := by
    intro org horg
    rw [inv.kids]
    exact inv.noKids org (fun h => (hhl org horg).2 h.2)
  refine ⟨_, Toc.memTree_accept h1 hroot hl0 hsrc, ?_⟩
  intro p
  unfold PathMatches
  simp only []
  -- the walk is `look`
  have hkc : ∀ k kv, kv ∈ smF.kids k → Toc.Created (Toc.pass1 (tocOfTar xv tar)) (tocOfTar xv tar).length smF.imps kv.2 := by
    intro k kv h; rw [inv.kids] at h; exact inv.kidsCreated k kv h
  have hkeq : smF.kids = sdF.kids := funext inv.kids
  rw [walk_mem _ smF _ hkc p .root trivial, hkeq, inv.walk p]
  simp only [List.not_mem_nil, if_false]
  have hlen : (tocOfTar xv tar).length = (importTar tar).length := by unfold tocOfTar; rw [List.length_map]
  -- ancestors are implicit directories and vice versa
  have himps : ∀ d ∈ smF.imps, d = [] ∨ ∃ x ∈ importTar tar, ∃ n, n < x.1.length ∧ d = x.1.take n := by
    intro d hd
    rcases pass2_imps _ _ _ _ h1 d hd with h | ⟨im, him, _, n, hn, he⟩
    · cases h
    · obtain ⟨i, m⟩ := im
      obtain ⟨_, hm⟩ := mem_enumFrom' _ 0 i m him
      simp only [Nat.sub_zero] at hm
      obtain ⟨x, hx, _, hp, _⟩ := ms_live ok hm
      simp only at hn he
      rw [hp] at hn he
      exact Or.inr ⟨x, List.mem_of_getElem? hx, n, hn, he⟩
  unfold Toc.look
  by_cases hp : p = []
  · -- the root: no entry of its own, an implicit directory in both
    subst hp
    rw [if_pos rfl]
    simp only []
    have hc : (allPaths (importTar tar)).contains [] = true := (mem_allPaths _ _).mpr (Or.inl rfl)
    obtain ⟨n, hn, hi⟩ := tarView_implicit tar [] hc (findEntry_none ok hl0)
    exact ⟨n, hn, implicit_matches xv n hi _⟩
  · rw [if_neg hp]
    cases hl : Toc.lastIdx (Toc.pass1 (tocOfTar xv tar)) p with
    | some j =>
      -- a name of the archive
      simp only []
      obtain ⟨xj, hxj, hxp⟩ := (nonChunkAt_iff ok j p).mp ((Toc.lastIdx_eq_some_iff _ tok.nodup p j).mp hl)
      have hj : j < (importTar tar).length := (List.getElem?_eq_some_iff.mp hxj).1
      rw [if_pos (by omega)]
      simp only []
      obtain ⟨r, xr, hr1, hr2, hr3, hr4⟩ := resolve_agrees ok j xj hxj ((importTar tar).length + 1) (by omega)
      rw [hxp] at hr4
      have hc : (allPaths (importTar tar)).contains p = true :=
        (mem_allPaths _ _).mpr (Or.inr (Or.inl ⟨xj, List.mem_of_getElem? hxj, hxp⟩))
      have hf := findEntry_at ok hxj
      rw [hxp] at hf
      obtain ⟨n, hn, hi⟩ := tarView_entry tar p xr.1 xj.2 xr.2 hc hf hr4
      obtain ⟨mr, hmr, hme, _, _⟩ := live_ms ok hr2
      refine ⟨n, hn, ?_⟩
      rw [hr1]
      have : (Toc.memNode (Toc.pass1 (tocOfTar xv tar)) smF (.ent r)).attr =
          Toc.attrOfEntry mr.e (smF.nl (.ent r)) := by simp [Toc.memNode, hmr]
      rw [this, hme]
      exact entry_matches xv xr.2 hr3 n hi _
    | none =>
      simp only []
      have hfn := findEntry_none ok hl
      by_cases hi : p ∈ smF.imps
      · -- an implicit directory
        rw [if_pos hi]
        simp only []
        have hc : (allPaths (importTar tar)).contains p = true := by
          rcases himps p hi with h | h
          · exact absurd h hp
          · exact (mem_allPaths _ _).mpr (Or.inr (Or.inr h))
        obtain ⟨n, hn, hid⟩ := tarView_implicit tar p hc hfn
        refine ⟨n, hn, ?_⟩
        have : (Toc.memNode (Toc.pass1 (tocOfTar xv tar)) smF (.imp p)).attr =
            { mode := Toc.goFileMode "dir" 0o755, numLink := smF.nl (.imp p) } := rfl
        rw [this]
        exact implicit_matches xv n hid _
      · -- nothing there, in either
        rw [if_neg hi]
        simp only []
        apply tarView_none
        cases hcc : (allPaths (importTar tar)).contains p with
        | false => rfl
        | true =>
          exfalso
          rcases (mem_allPaths _ _).mp hcc with h | ⟨x, hx, e⟩ | ⟨x, hx, n, hn, e⟩
          · exact hp h
          · obtain ⟨j, hj⟩ := List.getElem?_of_mem hx
            have := (Toc.lastIdx_eq_some_iff _ tok.nodup p j).mpr ((nonChunkAt_iff ok j p).mpr ⟨x, hj, e⟩)
            rw [hl] at this; cases this
          · -- p is a proper ancestor of the name of entry x: the walk to x passes through p
            obtain ⟨j, hj⟩ := List.getElem?_of_mem hx
            have hjl : j < (importTar tar).length := (List.getElem?_eq_some_iff.mp hj).1
            have hlx := (Toc.lastIdx_eq_some_iff _ tok.nodup x.1 j).mpr ((nonChunkAt_iff ok j x.1).mpr ⟨x, hj, rfl⟩)
            have hx1 : x.1 ≠ [] := by intro e0; rw [e0] at hn; simp at hn
            have hw := inv.walk x.1
            simp only [List.not_mem_nil, if_false] at hw
            unfold Toc.look at hw
            rw [if_neg hx1, hlx] at hw
            simp only [] at hw
            rw [if_pos (by omega)] at hw
            have hsplit : x.1 = p ++ x.1.drop n := by rw [e]; exact (List.take_append_drop n x.1).symm
            rw [hsplit] at hw
            obtain ⟨c', hc'⟩ := walk_prefix _ _ _ _ _ hw
            have hw2 := inv.walk p
            simp only [List.not_mem_nil, if_false] at hw2
            rw [hc'] at hw2
            unfold Toc.look at hw2
            rw [if_neg hp, hl] at hw2
            simp only [] at hw2
            rw [if_neg hi] at hw2
            cases hw2


/-! ## The db store, through C05's simulation -/

/-- the db store's variant: what a container can observe of the node's attributes
(`Toc.normalise` = fs/layer `entryToAttr`) is what it observes of attributes matching the
specification -/
def PathMatchesN (xv : LazyRead.Bytes → String) (t : Toc.Tree) (tar : List LazyRead.TarEntry)
    (p : LazyRead.Path) : Prop :=
  match Toc.walkKids (fun k => (t.node k).kids) t.root p with
  | none => (LazyRead.tarView tar).node p = none
  | some k => ∃ n a, (LazyRead.tarView tar).node p = some n ∧ AttrMatches xv { a with numLink := 0 } n ∧
      { Toc.normalise (t.node k).attr with nlink := 0 } = { Toc.normalise a with nlink := 0 }

theorem walk_agree {t1 t2 : Toc.Tree} {C : Toc.Key → Prop} (ag : Toc.TreesAgree t1 t2 C) :
    ∀ (p : Toc.Path) (k : Toc.Key), C k →
      Toc.walkKids (fun k => (t2.node k).kids) k p = Toc.walkKids (fun k => (t1.node k).kids) k p ∧
      ∀ c, Toc.walkKids (fun k => (t1.node k).kids) k p = some c → C c := by
  intro p
  induction p with
  | nil => intro k hk; exact ⟨rfl, fun c h => by cases h; exact hk⟩
  | cons b rest ih =>
    intro k hk
    simp only [Toc.walkKids]
    rw [← (ag.node k hk).kids]
    cases hg : Toc.getKid b (t1.node k).kids with
    | none => exact ⟨rfl, fun c h => by cases h⟩
    | some c1 => exact ih c1 (ag.closed k hk (b, c1) (mem_of_getKid hg))

theorem both_trees_match {xv : LazyRead.Bytes → String} {tar : List LazyRead.TarEntry} (ok : TarOK xv tar) :
    ∃ tm td, Toc.memTree (tocOfTar xv tar) = .accept tm ∧ Toc.dbTree (tocOfTar xv tar) = .accept td ∧
      Toc.view tm = Toc.view td ∧ ∀ p, PathMatches xv tm tar p ∧ PathMatchesN xv td tar p := by
  obtain ⟨tm, hm, hpm⟩ := mem_tree_matches ok
  obtain ⟨smF, sdF, h1, h2, ag⟩ := Toc.trees_agree ok.spec
  rw [hm] at h1
  cases h1
  refine ⟨_, _, hm, h2, Toc.view_agree ag, fun p => ⟨hpm p, ?_⟩⟩
  have hw := walk_agree ag p .root ag.rootC
  have hp := hpm p
  unfold PathMatches at hp
  unfold PathMatchesN
  simp only [] at hp hw ⊢
  rw [hw.1]
  cases hwk : Toc.walkKids (fun k => (Toc.memNode (Toc.pass1 (tocOfTar xv tar)) smF k).kids) .root p with
  | none => rw [hwk] at hp; exact hp
  | some k =>
    rw [hwk] at hp
    obtain ⟨n, hn, ha⟩ := hp
    have hc := hw.2 k hwk
    have hna := (ag.node k hc).attr
    refine ⟨n, (Toc.memNode (Toc.pass1 (tocOfTar xv tar)) smF k).attr, hn, ?_, ?_⟩
    · exact ⟨ha.mode, ha.size, ha.uid, ha.gid, ha.devMajor, ha.devMinor, ha.link, ha.xattrs⟩
    · simp only [] at hna ⊢
      rw [← hna]

end SV.MetaTar
