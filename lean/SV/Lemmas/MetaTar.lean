/-
C02, metadata: the tree the memory store builds from the TOC the builder writes for a tar archive
shows, path by path, what `tarView` describes.  Bridges SV.Model.LazyRead (`tarView`, the
specification of C02) and SV.Model.Toc (`memTree` / `dbTree`, the TOC interpreters of C05, tied to
the real stores by C05's correspondence).  Core-only; imports C05's simulation lemmas, edits nothing.
-/
import SV.Model.LazyRead
import SV.Lemmas.TocAgree

namespace SV.MetaTar
open SV

/-! ## The builder's entry translation -/

def typeStr : LazyRead.EType → String
  | .reg => "reg" | .dir => "dir" | .symlink => "symlink" | .hardlink => "hardlink"
  | .char => "char" | .block => "block" | .fifo => "fifo"

/-- `estargz.(*Writer).appendTar`: the TOC entry written for one tar header (payload / chunk fields
left at their zero values: chunk tables are C02's other half).  `xv` renders an xattr value
(`[]byte` in Go) as the TOC model's string. -/
def tocOfEntry (xv : LazyRead.Bytes → String) (e : LazyRead.TarEntry) : Toc.Entry :=
  { name := Toc.renderPath e.name
    type := typeStr e.type
    size := if e.type = .reg then (e.size : Int) else 0
    linkName := if e.type = .symlink then e.link
                else if e.type = .hardlink then Toc.renderPath e.linkPath else ""
    mode := (e.mode : Int)
    uid := (e.uid : Int)
    gid := (e.gid : Int)
    devMajor := if e.type = .char ∨ e.type = .block then (e.devMajor : Int) else 0
    devMinor := if e.type = .char ∨ e.type = .block then (e.devMinor : Int) else 0
    xattrs := e.xattrs.map fun kv => (kv.1, xv kv.2) }

/-- `importTar`: an entry whose (clean) name is already present replaces it and moves to the end —
last duplicate wins, at the position of the last occurrence. -/
def importTar (tar : List LazyRead.TarEntry) : List (LazyRead.Path × LazyRead.TarEntry) :=
  LazyRead.dedupLast (tar.map fun e => (LazyRead.cleanName e.name, e))

/-- the TOC (non-chunk entries) `Build` writes for a tar -/
def tocOfTar (xv : LazyRead.Bytes → String) (tar : List LazyRead.TarEntry) : List Toc.Entry :=
  (importTar tar).map fun x => tocOfEntry xv x.2

/-! ## Names -/

/-- a name whose components are plain: not empty, not `.`, not `..`, no slash -/
def PlainPath (p : LazyRead.Path) : Prop := ∀ c ∈ p, Toc.Plain c.toList

instance (c : List Char) : Decidable (Toc.Plain c) := by unfold Toc.Plain; infer_instance
instance (p : LazyRead.Path) : Decidable (PlainPath p) := by unfold PlainPath; infer_instance

theorem clean_render (p : LazyRead.Path) (h : PlainPath p) : Toc.cleanName (Toc.renderPath p) = p := by
  unfold Toc.cleanName Toc.renderPath
  rw [String.toList_ofList]
  have hp : ∀ c ∈ p.map String.toList, Toc.Plain c := by
    intro c hc
    obtain ⟨s, hs, rfl⟩ := List.mem_map.mp hc
    exact h s hs
  have hcc : Toc.cleanChars (Toc.joinSlash (p.map String.toList)) = p.map String.toList := by
    by_cases hne : p.map String.toList = []
    · rw [hne]; simp [Toc.joinSlash, Toc.cleanChars, Toc.splitSlash, Toc.cleanComps]
    · unfold Toc.cleanChars
      rw [Toc.splitSlash_joinSlash _ hne (fun c hc => (hp c hc).2.2.2), Toc.cleanComps_of_plain _ [] hp]
      simp
  rw [hcc, List.map_map]
  have : (String.ofList ∘ String.toList) = id := by funext s; simp
  rw [this]; simp

theorem cleanGo_plain (p acc : List String) (h : PlainPath p) :
    LazyRead.cleanGo acc p = acc.reverse ++ p := by
  induction p generalizing acc with
  | nil => simp [LazyRead.cleanGo]
  | cons c cs ih =>
    have hc := h c (by simp)
    have h1 : ¬ (c = "" ∨ c = ".") := by
      rintro (e | e)
      · exact hc.1 (by rw [e]; rfl)
      · exact hc.2.1 (by rw [e]; rfl)
    have h2 : ¬ c = ".." := fun e => hc.2.2.1 (by rw [e]; rfl)
    unfold LazyRead.cleanGo
    rw [if_neg h1, if_neg h2, ih (c :: acc) (fun x hx => h x (List.mem_cons_of_mem _ hx))]
    simp

theorem cleanName_plain (p : LazyRead.Path) (h : PlainPath p) : LazyRead.cleanName p = p := by
  unfold LazyRead.cleanName; rw [cleanGo_plain p [] h]; simp


/-! ## Implicit directories of the memory store are ancestors of entries -/

open Toc in
theorem goc_imps (ms : List MEnt) : ∀ (rev : List String) (s : MState),
    ∀ d ∈ (mGetOrCreateDir ms s rev).1.imps, d ∈ s.imps ∨ ∃ n, n ≤ rev.length ∧ d = rev.reverse.take n := by
  intro rev
  induction rev with
  | nil =>
    intro s d hd
    unfold mGetOrCreateDir at hd
    cases hl : mLookup ms s [] with
    | some k => rw [hl] at hd; exact Or.inl hd
    | none =>
      rw [hl] at hd
      simp only [List.mem_cons] at hd
      rcases hd with hd | hd
      · exact Or.inr ⟨0, Nat.le_refl _, by simp [hd]⟩
      · exact Or.inl hd
  | cons b rest ih =>
    intro s d hd
    unfold mGetOrCreateDir at hd
    cases hl : mLookup ms s (b :: rest).reverse with
    | some k => simp only [hl] at hd; exact Or.inl hd
    | none =>
      simp only [hl] at hd
      have := ih _ d (by simpa [mAddChild] using hd)
      rcases this with h | ⟨n, hn, he⟩
      · simp only [List.mem_cons] at h
        rcases h with h | h
        · exact Or.inr ⟨(b :: rest).length, Nat.le_refl _, by rw [h]; simp only [List.reverse_cons, List.length_cons]; exact (List.take_of_length_le (by simp)).symm⟩
        · exact Or.inl h
      · refine Or.inr ⟨n, by simp; omega, ?_⟩
        rw [he, take_reverse_cons b rest n hn]

open Toc in
theorem step_imps (ms : List MEnt) (s s' : MState) (i : Nat) (m : MEnt)
    (h : pass2Step ms s i m = some s') :
    ∀ d ∈ s'.imps, d ∈ s.imps ∨ (m.e.type ≠ "chunk" ∧ ∃ n, n < m.path.length ∧ d = m.path.take n) := by
  intro d hd
  unfold pass2Step at h
  by_cases hc : m.e.type = "chunk"
  · rw [if_pos hc] at h; cases h; exact Or.inl hd
  · rw [if_neg hc] at h
    by_cases hp : m.path = []
    · rw [if_pos hp] at h; cases h; exact Or.inl hd
    · rw [if_neg hp] at h
      rcases hg : mGetOrCreateDir ms s (parentDir m.path).reverse with ⟨s1, pk⟩
      have hgi := goc_imps ms (parentDir m.path).reverse s
      rw [hg] at h hgi
      simp only at h hgi
      have hkey : d ∈ s1.imps := by
        by_cases hh : m.e.type = "hardlink"
        · rw [if_pos hh] at h
          split at h
          · cases h
          · split at h
            · cases h
            · cases h; simpa [mAddChild] using hd
        · rw [if_neg hh] at h
          cases h; simpa [mAddChild] using hd
      rcases hgi d hkey with h1 | ⟨n, hn, he⟩
      · exact Or.inl h1
      · refine Or.inr ⟨hc, n, ?_, ?_⟩
        · have : m.path.length ≠ 0 := by intro e; exact hp (List.eq_nil_of_length_eq_zero e)
          simp [parentDir] at hn; omega
        · rw [he]; simp only [List.reverse_reverse, parentDir]
          rw [List.dropLast_eq_take, List.take_take]
          congr 1
          simp [parentDir] at hn; omega

open Toc in
theorem pass2_imps (ms : List MEnt) : ∀ (l : List (Nat × MEnt)) (s s' : MState),
    pass2 ms l s = some s' →
    ∀ d ∈ s'.imps, d ∈ s.imps ∨ ∃ im ∈ l, im.2.e.type ≠ "chunk" ∧ ∃ n, n < im.2.path.length ∧ d = im.2.path.take n := by
  intro l
  induction l with
  | nil => intro s s' h d hd; simp [pass2] at h; subst h; exact Or.inl hd
  | cons im rest ih =>
    intro s s' h d hd
    obtain ⟨i, m⟩ := im
    unfold pass2 at h
    cases hst : pass2Step ms s i m with
    | none => rw [hst] at h; cases h
    | some s1 =>
      rw [hst] at h
      rcases ih s1 s' h d hd with h1 | ⟨im, him, hr⟩
      · rcases step_imps ms s s1 i m hst d h1 with h2 | ⟨hc, n, hn, he⟩
        · exact Or.inl h2
        · exact Or.inr ⟨(i, m), by simp, hc, n, hn, he⟩
      · exact Or.inr ⟨im, List.mem_cons_of_mem _ him, hr⟩

theorem mem_enumFrom' {α : Type} : ∀ (l : List α) (k i : Nat) (a : α), (i, a) ∈ Toc.enumFrom' k l →
    k ≤ i ∧ l[i - k]? = some a := by
  intro l
  induction l with
  | nil => intro k i a h; simp [Toc.enumFrom'] at h
  | cons x xs ih =>
    intro k i a h
    simp only [Toc.enumFrom', List.mem_cons, Prod.mk.injEq] at h
    rcases h with ⟨h1, h2⟩ | h
    · subst h1; subst h2; simp
    · obtain ⟨h1, h2⟩ := ih (k + 1) i a h
      refine ⟨by omega, ?_⟩
      have : i - k = (i - (k + 1)) + 1 := by omega
      rw [this]; simpa using h2


/-! ## What "the same node" means across the two models -/

def ntStr : LazyRead.NType → String
  | .reg => "reg" | .dir => "dir" | .symlink => "symlink" | .char => "char" | .block => "block"
  | .fifo => "fifo" | .socket => "socket"

/-- The attributes the metadata store holds for a node (`metadata.Attr`, TOC model) are the ones the
specification gives the node: Go file mode of (type, header mode), size, owner, device numbers,
symlink target, xattrs.  The link count is NOT part of this relation (see `MetadataEqualTar`). -/
structure AttrMatches (xv : LazyRead.Bytes → String) (a : Toc.Attr) (n : LazyRead.Node) : Prop where
  mode : a.mode = Toc.goFileMode (ntStr n.type) (n.mode : Int)
  size : a.size = (n.size : Int)
  uid : a.uid = (n.uid : Int)
  gid : a.gid = (n.gid : Int)
  devMajor : a.devMajor = (n.devMajor : Int)
  devMinor : a.devMinor = (n.devMinor : Int)
  link : n.type = .symlink → a.linkName = n.link
  xattrs : a.xattrs = n.xattrs.map fun kv => (kv.1, xv kv.2)

theorem goFileMode_mod (t : String) (m : Nat) :
    Toc.goFileMode t ((m % 4096 : Nat) : Int) = Toc.goFileMode t (m : Int) := by
  unfold Toc.goFileMode
  have : (((m % 4096 : Nat) : Int) % 4096).toNat = ((m : Int) % 4096).toNat := by omega
  simp only [this]

/-- all paths of the view: the root, the entry names, their proper ancestors -/
def allPaths (live : List (LazyRead.Path × LazyRead.TarEntry)) : List LazyRead.Path :=
  (([] : LazyRead.Path) :: live.map (·.1) ++ (live.map (·.1)).flatMap LazyRead.ancestors).eraseDups

theorem mem_allPaths (live : List (LazyRead.Path × LazyRead.TarEntry)) (p : LazyRead.Path) :
    (allPaths live).contains p = true ↔
      p = [] ∨ (∃ x ∈ live, x.1 = p) ∨ (∃ x ∈ live, ∃ n, n < x.1.length ∧ p = x.1.take n) := by
  unfold allPaths
  simp only [List.contains_eq_mem, List.mem_eraseDups, decide_eq_true_eq, List.cons_append, List.mem_cons,
    List.mem_append, List.mem_map, List.mem_flatMap, LazyRead.ancestors, List.mem_range]
  constructor
  · rintro (h | h | h)
    · exact Or.inl h
    · obtain ⟨x, hx, e⟩ := h; exact Or.inr (Or.inl ⟨x, hx, e⟩)
    · obtain ⟨q, ⟨x, hx, e⟩, n, hn, e2⟩ := h
      subst e
      exact Or.inr (Or.inr ⟨x, hx, n, hn, e2.symm⟩)
  · rintro (h | h | h)
    · exact Or.inl h
    · obtain ⟨x, hx, e⟩ := h; exact Or.inr (Or.inl ⟨x, hx, e⟩)
    · obtain ⟨x, hx, n, hn, e⟩ := h
      exact Or.inr (Or.inr ⟨x.1, ⟨x, hx, rfl⟩, n, hn, e.symm⟩)

/-- the implicit directory node of the specification, up to its link count -/
def IsImplicitDir (n : LazyRead.Node) : Prop :=
  n.type = .dir ∧ n.mode = 0o755 ∧ n.uid = 0 ∧ n.gid = 0 ∧ n.size = 0 ∧ n.link = "" ∧
    n.devMajor = 0 ∧ n.devMinor = 0 ∧ n.xattrs = []

/-- the node of the specification that carries the header `e`, up to its link count -/
def IsNodeOf (e : LazyRead.TarEntry) (n : LazyRead.Node) : Prop :=
  n.type = LazyRead.ntypeOf e.type ∧ n.mode = e.mode % 4096 ∧ n.uid = e.uid ∧ n.gid = e.gid ∧
    n.size = (if e.type = .reg then e.size else 0) ∧ n.link = (if e.type = .symlink then e.link else "") ∧
    n.devMajor = (if e.type = .char ∨ e.type = .block then e.devMajor else 0) ∧
    n.devMinor = (if e.type = .char ∨ e.type = .block then e.devMinor else 0) ∧ n.xattrs = e.xattrs

theorem tarView_none (tar : List LazyRead.TarEntry) (p : LazyRead.Path)
    (h : (allPaths (importTar tar)).contains p = false) : (LazyRead.tarView tar).node p = none := by
  unfold LazyRead.tarView
  unfold allPaths importTar at h
  simp only [h, Bool.not_false, if_true]

theorem tarView_implicit (tar : List LazyRead.TarEntry) (p : LazyRead.Path)
    (h : (allPaths (importTar tar)).contains p = true) (hf : LazyRead.findEntry (importTar tar) p = none) :
    ∃ n, (LazyRead.tarView tar).node p = some n ∧ IsImplicitDir n := by
  unfold LazyRead.tarView
  unfold allPaths importTar at h
  unfold importTar at hf
  simp only [h, hf, Bool.not_true, Bool.false_eq_true, if_false]
  exact ⟨_, rfl, rfl, rfl, rfl, rfl, rfl, rfl, rfl, rfl, rfl⟩

theorem tarView_entry (tar : List LazyRead.TarEntry) (p q : LazyRead.Path) (e0 e : LazyRead.TarEntry)
    (h : (allPaths (importTar tar)).contains p = true) (hf : LazyRead.findEntry (importTar tar) p = some e0)
    (hr : LazyRead.resolve (importTar tar) ((importTar tar).length + 1) p = some (q, e)) :
    ∃ n, (LazyRead.tarView tar).node p = some n ∧ IsNodeOf e n := by
  unfold LazyRead.tarView
  unfold allPaths importTar at h
  unfold importTar at hf hr
  simp only [h, hf, hr, Bool.not_true, Bool.false_eq_true, if_false]
  exact ⟨_, rfl, rfl, rfl, rfl, rfl, rfl, rfl, rfl, rfl, rfl⟩

theorem typeStr_ne_chunk (t : LazyRead.EType) : typeStr t ≠ "chunk" := by cases t <;> decide

theorem typeStr_hardlink (t : LazyRead.EType) : typeStr t = "hardlink" ↔ t = .hardlink := by
  cases t <;> simp [typeStr]

theorem ntStr_ntypeOf (t : LazyRead.EType) (h : t ≠ .hardlink) : ntStr (LazyRead.ntypeOf t) = typeStr t := by
  cases t <;> first | rfl | exact absurd rfl h

/-- the attributes the TOC entry of a header carries are the ones of the header's node -/
theorem entry_matches (xv : LazyRead.Bytes → String) (e : LazyRead.TarEntry) (he : e.type ≠ .hardlink)
    (n : LazyRead.Node) (hn : IsNodeOf e n) (nl : Int) :
    AttrMatches xv (Toc.attrOfEntry (tocOfEntry xv e) nl) n := by
  obtain ⟨h1, h2, h3, h4, h5, h6, h7, h8, h9⟩ := hn
  refine ⟨?_, ?_, ?_, ?_, ?_, ?_, ?_, ?_⟩
  · simp only [Toc.attrOfEntry, tocOfEntry]
    rw [h1, h2, ntStr_ntypeOf _ he, goFileMode_mod]
  · simp only [Toc.attrOfEntry, tocOfEntry, h5]; split <;> rfl
  · simp only [Toc.attrOfEntry, tocOfEntry, h3]
  · simp only [Toc.attrOfEntry, tocOfEntry, h4]
  · simp only [Toc.attrOfEntry, tocOfEntry, h7]; split <;> rfl
  · simp only [Toc.attrOfEntry, tocOfEntry, h8]; split <;> rfl
  · intro hs
    have : e.type = .symlink := by
      rw [h1] at hs; cases ht : e.type <;> rw [ht] at hs <;> simp [LazyRead.ntypeOf] at hs <;> rfl
    simp only [Toc.attrOfEntry, tocOfEntry, h6, this, if_true]
  · simp only [Toc.attrOfEntry, tocOfEntry, h9]

theorem implicit_matches (xv : LazyRead.Bytes → String) (n : LazyRead.Node) (hn : IsImplicitDir n) (nl : Int) :
    AttrMatches xv { mode := Toc.goFileMode "dir" 0o755, numLink := nl } n := by
  obtain ⟨h1, h2, h3, h4, h5, h6, h7, h8, h9⟩ := hn
  refine ⟨?_, ?_, ?_, ?_, ?_, ?_, ?_, ?_⟩ <;> simp [h1, h2, h3, h4, h5, h6, h7, h8, h9, ntStr]

end SV.MetaTar
