/-
Lemmas for the chunk-cache model (C11).  Part A: the refcounted LRU.  Part B: the state invariant and its
preservation by every step.  Part C: the `MemoryCache` model.
-/
import SV.Model.ChunkCache

namespace SV.ChunkCache

/-! ## Part A — refcounted LRU -/

/-- The `OnEvicted` callback of a refCounter has not run yet. -/
def RC.alive (r : RC) : Prop := 0 < r.refs

instance (r : RC) : Decidable r.alive := by unfold RC.alive; infer_instance

theorem find_some_mem {k i : Nat} : ∀ {o : List (Nat × Nat)}, find k o = some i → (k, i) ∈ o
  | [], h => by simp [find] at h
  | (k', i') :: rest, h => by
    simp only [find] at h
    split at h
    · simp_all
    · exact List.mem_cons_of_mem _ (find_some_mem h)

theorem popLast_eq {α : Type} : ∀ {l l' : List α} {z : α}, popLast l = some (l', z) → l = l' ++ [z]
  | [], _, _, h => by simp [popLast] at h
  | [x], _, _, h => by simp [popLast] at h; obtain ⟨rfl, rfl⟩ := h; rfl
  | x :: y :: t, l', z, h => by
    simp only [popLast] at h
    split at h
    · rename_i l0 z0 heq
      simp at h
      obtain ⟨rfl, rfl⟩ := h
      have := popLast_eq heq
      simp [this]
    · simp at h

/-- `h i` = number of `done` closures of refCounter `i` that were handed out and not yet called. -/
structure LRU.Inv (l : LRU) (h : Nat → Nat) : Prop where
  refs : ∀ i r, l.rcs[i]? = some r → r.refs = (if r.fin then 0 else 1) + (h i : Int)
  ord : ∀ e ∈ l.order, ∃ r, l.rcs[e.2]? = some r ∧ r.fin = false ∧ r.key = e.1
  nodup : (l.order.map Prod.snd).Nodup
  bound : ∀ j, l.rcs.length ≤ j → h j = 0

/-- What an LRU operation may do to the refCounters: keys and values never change, nothing comes back
to life, and the only counter that dies is the one whose value was handed to `OnEvicted`. -/
structure LRU.Eff (l l' : LRU) (fired : Option Nat) : Prop where
  len : l.rcs.length ≤ l'.rcs.length
  old : ∀ (j : Nat) (r : RC), l.rcs[j]? = some r → ∃ r' : RC, l'.rcs[j]? = some r' ∧ r'.key = r.key ∧ r'.val = r.val ∧
          (r'.alive → r.alive) ∧ (r.alive → ¬ r'.alive → fired = some r.val)
  fired_some : ∀ v, fired = some v →
          ∃ (j : Nat) (r r' : RC), l.rcs[j]? = some r ∧ l'.rcs[j]? = some r' ∧ r.val = v ∧ r.alive ∧ ¬ r'.alive
  cap : l'.cap = l.cap

theorem LRU.Eff.refl (l : LRU) : LRU.Eff l l none :=
  ⟨Nat.le_refl _, fun j r h => ⟨r, h, rfl, rfl, (fun x => x), fun a b => absurd a b⟩, by simp, rfl⟩

theorem LRU.Inv.alive_of_not_fin {l : LRU} {h : Nat → Nat} (hi : l.Inv h) {i : Nat} {r : RC}
    (hr : l.rcs[i]? = some r) (hf : r.fin = false) : r.alive := by
  have := hi.refs i r hr
  simp [hf] at this
  unfold RC.alive; omega

theorem LRU.Inv.alive_of_held {l : LRU} {h : Nat → Nat} (hi : l.Inv h) {i : Nat} {r : RC}
    (hr : l.rcs[i]? = some r) (hh : 1 ≤ h i) : r.alive := by
  have := hi.refs i r hr
  unfold RC.alive
  split at this <;> omega

theorem LRU.Inv.lt_of_held {l : LRU} {h : Nat → Nat} (hi : l.Inv h) {i : Nat}
    (hh : 1 ≤ h i) : i < l.rcs.length := by
  false_or_by_contra
  have := hi.bound i (by omega)
  omega

/-! ### touch / find -/

theorem touch_mem {o : List (Nat × Nat)} {k i : Nat} (hm : (k, i) ∈ o) :
    ∀ e, e ∈ touch o k i → e ∈ o := by
  intro e he
  simp only [touch, List.mem_cons, List.mem_filter] at he
  rcases he with rfl | ⟨h, _⟩
  · exact hm
  · exact h

theorem touch_nodup {o : List (Nat × Nat)} {k i : Nat} (hn : (o.map Prod.snd).Nodup) :
    ((touch o k i).map Prod.snd).Nodup := by
  simp only [touch, List.map_cons, List.nodup_cons]
  constructor
  · intro hmem
    simp only [List.mem_map, List.mem_filter] at hmem
    obtain ⟨e, ⟨_, hne⟩, rfl⟩ := hmem
    simp at hne
  · exact List.Nodup.sublist (List.Sublist.map _ List.filter_sublist) hn

/-! ### inc (inside Get / Add of an existing key) -/

theorem LRU.get_spec {l l' : LRU} {h h' : Nat → Nat} {k i : Nat} (hi : l.Inv h)
    (hg : l.get k = some (l', i))
    (hh : ∀ j, h' j = if j = i then h j + 1 else h j) :
    l'.Inv h' ∧ l.Eff l' none ∧ l'.rcs.length = l.rcs.length ∧
      ∃ r r' : RC, l.rcs[i]? = some r ∧ l'.rcs[i]? = some r' ∧ r.key = k ∧ r.alive ∧ r'.alive ∧
        r'.val = r.val ∧ r'.key = r.key ∧ find k l.order = some i := by
  unfold LRU.get at hg
  split at hg
  · rename_i i0 hf
    simp only [Option.some.injEq, Prod.mk.injEq] at hg
    obtain ⟨rfl, rfl⟩ := hg
    have hm := find_some_mem hf
    obtain ⟨r, hr, hfin, hkey⟩ := hi.ord _ hm
    simp only at hr hkey
    have halive := hi.alive_of_not_fin hr hfin
    have hlt : i0 < l.rcs.length := by
      have := (List.getElem?_eq_some_iff.mp hr).1; exact this
    simp only [LRU.inc, hr]
    refine ⟨⟨?_, ?_, ?_, ?_⟩, ⟨?_, ?_, ?_, rfl⟩, by simp, ?_⟩
    · intro j rj hj
      simp only [List.getElem?_set] at hj
      have := hh j
      split at hj
      · rename_i heq; subst heq
        simp [hlt] at hj; subst hj
        have := hi.refs _ r hr
        simp_all; omega
      · have h2 := hi.refs j rj hj
        rw [h2]; simp_all; omega
    · intro e he
      have he' := touch_mem hm e he
      obtain ⟨re, hre, hf1, hk1⟩ := hi.ord e he'
      by_cases hc : e.2 = i0
      · refine ⟨{ r with refs := r.refs + 1 }, ?_, ?_, ?_⟩
        · simp [List.getElem?_set, hc, hlt]
        · exact hfin
        · rw [hc, hr] at hre; simp at hre; subst hre; exact hk1
      · refine ⟨re, ?_, hf1, hk1⟩
        simp only [List.getElem?_set]
        rw [if_neg (fun h => hc h.symm)]; exact hre
    · exact touch_nodup hi.nodup
    · intro j hj
      simp only [List.length_set] at hj
      have := hi.bound j hj
      have := hh j
      have : j ≠ i0 := by omega
      simp_all
    · simp
    · intro j rj hj
      by_cases hc : j = i0
      · subst hc
        rw [hr] at hj; simp at hj; subst hj
        refine ⟨{ r with refs := r.refs + 1 }, by simp [List.getElem?_set, hlt], rfl, rfl, ?_, ?_⟩
        · intro _; exact halive
        · intro _ hn; exfalso; apply hn; unfold RC.alive at *; simp; omega
      · refine ⟨rj, ?_, rfl, rfl, (fun x => x), fun a b => absurd a b⟩
        simp only [List.getElem?_set]
        rw [if_neg (fun h => hc h.symm)]; exact hj
    · intro v hv; simp at hv
    · refine ⟨r, { r with refs := r.refs + 1 }, hr, by simp [List.getElem?_set, hlt], hkey, halive, ?_, rfl, rfl, hf⟩
      unfold RC.alive at *; simp; omega
  · simp at hg

/-! ### dec (a `done` closure) -/

theorem LRU.dec_spec {l : LRU} {h h' : Nat → Nat} {i : Nat} (hi : l.Inv h)
    (hheld : 1 ≤ h i)
    (hh : ∀ j, h' j + (if j = i then 1 else 0) = h j) :
    (l.dec i).1.Inv h' ∧ l.Eff (l.dec i).1 (l.dec i).2 ∧ (l.dec i).1.rcs.length = l.rcs.length ∧
      (l.dec i).1.order = l.order := by
  have hlt := hi.lt_of_held hheld
  obtain ⟨r, hr⟩ : ∃ r, l.rcs[i]? = some r := ⟨l.rcs[i], by simp [hlt]⟩
  have halive := hi.alive_of_held hr hheld
  have hrefs := hi.refs i r hr
  simp only [LRU.dec, hr]
  refine ⟨⟨?_, ?_, hi.nodup, ?_⟩, ⟨by simp, ?_, ?_, rfl⟩, by simp, rfl⟩
  · intro j rj hj
    simp only [List.getElem?_set] at hj
    have := hh j
    split at hj
    · rename_i heq; subst heq
      simp [hlt] at hj; subst hj
      simp_all; omega
    · have h2 := hi.refs j rj hj
      rw [h2]; simp_all
  · intro e he
    obtain ⟨re, hre, hf1, hk1⟩ := hi.ord e he
    by_cases hc : e.2 = i
    · refine ⟨{ r with refs := r.refs - 1 }, by simp [List.getElem?_set, hc, hlt], ?_, ?_⟩
      · rw [hc, hr] at hre; simp at hre; subst hre; exact hf1
      · rw [hc, hr] at hre; simp at hre; subst hre; exact hk1
    · refine ⟨re, ?_, hf1, hk1⟩
      simp only [List.getElem?_set]
      rw [if_neg (fun h => hc h.symm)]; exact hre
  · intro j hj
    simp only [List.length_set] at hj
    have := hi.bound j hj
    have := hh j
    omega
  · intro j rj hj
    by_cases hc : j = i
    · subst hc
      rw [hr] at hj; simp at hj; subst hj
      refine ⟨{ r with refs := r.refs - 1 }, by simp [List.getElem?_set, hlt], rfl, rfl, ?_, ?_⟩
      · intro _; exact halive
      · intro _ hn
        unfold RC.alive at hn; simp at hn
        simp [hn]
    · refine ⟨rj, ?_, rfl, rfl, (fun x => x), fun a b => absurd a b⟩
      simp only [List.getElem?_set]
      rw [if_neg (fun h => hc h.symm)]; exact hj
  · intro v hv
    split at hv
    · rename_i hle
      simp at hv; subst hv
      refine ⟨i, r, { r with refs := r.refs - 1 }, hr, by simp [List.getElem?_set, hlt], rfl, halive, ?_⟩
      unfold RC.alive; simp; omega
    · simp at hv

/-! ### finalize (capacity eviction) -/

theorem LRU.finalize_spec {l : LRU} {h : Nat → Nat} {i : Nat}
    (hrefs : ∀ i r, l.rcs[i]? = some r → r.refs = (if r.fin then 0 else 1) + (h i : Int))
    (hbound : ∀ j, l.rcs.length ≤ j → h j = 0) :
    (∀ j r, (l.finalize i).1.rcs[j]? = some r → r.refs = (if r.fin then 0 else 1) + (h j : Int)) ∧
    (∀ j, (l.finalize i).1.rcs.length ≤ j → h j = 0) ∧
    l.Eff (l.finalize i).1 (l.finalize i).2 ∧ (l.finalize i).1.rcs.length = l.rcs.length ∧
    (l.finalize i).1.order = l.order ∧
    (∀ j r, j ≠ i → l.rcs[j]? = some r → (l.finalize i).1.rcs[j]? = some r) := by
  unfold LRU.finalize
  split
  · rename_i r hr
    have hlt : i < l.rcs.length := (List.getElem?_eq_some_iff.mp hr).1
    have hr0 := hrefs i r hr
    split
    · rename_i hfin
      exact ⟨hrefs, hbound, LRU.Eff.refl l, rfl, rfl, fun _ _ _ h => h⟩
    · rename_i hfin
      simp only [Bool.not_eq_true] at hfin
      have halive : r.alive := by unfold RC.alive; simp [hfin] at hr0; omega
      refine ⟨?_, ?_, ⟨by simp, ?_, ?_, rfl⟩, by simp, rfl, ?_⟩
      · intro j rj hj
        simp only [List.getElem?_set] at hj
        split at hj
        · rename_i heq; subst heq
          simp [hlt] at hj; subst hj
          simp [hfin] at hr0 ⊢; omega
        · exact hrefs j rj hj
      · intro j hj
        simp only [List.length_set] at hj
        exact hbound j hj
      · intro j rj hj
        by_cases hc : j = i
        · subst hc
          rw [hr] at hj; simp at hj; subst hj
          refine ⟨{ r with refs := r.refs - 1, fin := true }, by simp [List.getElem?_set, hlt], rfl, rfl, ?_, ?_⟩
          · intro _; exact halive
          · intro _ hn
            unfold RC.alive at hn; simp at hn
            simp [hn]
        · refine ⟨rj, ?_, rfl, rfl, (fun x => x), fun a b => absurd a b⟩
          simp only [List.getElem?_set]
          rw [if_neg (fun h => hc h.symm)]; exact hj
      · intro v hv
        split at hv
        · simp at hv; subst hv
          refine ⟨i, r, { r with refs := r.refs - 1, fin := true }, hr, by simp [List.getElem?_set, hlt], rfl, halive, ?_⟩
          unfold RC.alive; simp; omega
        · simp at hv
      · intro j rj hne hj
        simp only [List.getElem?_set]
        rw [if_neg (fun h => hne h.symm)]; exact hj
  · exact ⟨hrefs, hbound, LRU.Eff.refl l, rfl, rfl, fun _ _ _ h => h⟩

end SV.ChunkCache
