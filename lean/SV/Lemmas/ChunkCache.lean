/-
Lemmas for the chunk-cache model (C11), part B2: every step preserves the invariant, hence every
reachable state satisfies it.  Part C: the `MemoryCache` model.
-/
import SV.Lemmas.ChunkCacheInv

namespace SV.ChunkCache

theorem LRU.Inv.congr {l : LRU} {h h' : Nat → Nat} (hi : l.Inv h) (he : ∀ i, h' i = h i) : l.Inv h' := by
  have : h' = h := funext he
  rw [this]; exact hi

theorem memHolders_append_reader (rs : List Reader) (ws : List Writer) (rd : Reader) (i : Nat) :
    memHolders (rs ++ [rd]) ws i = memHolders rs ws i + (if rd.holdsMem i then 1 else 0) := by
  simp only [memHolders, List.countP_append, List.countP_singleton]; omega

theorem memHolders_append_writer (rs : List Reader) (ws : List Writer) (wr : Writer) (i : Nat) :
    memHolders rs (ws ++ [wr]) i = memHolders rs ws i + (if wr.holdsMem i then 1 else 0) := by
  simp only [memHolders, List.countP_append, List.countP_singleton]; omega

theorem memHolders_set_reader {rs : List Reader} (ws : List Writer) {r : Nat} {rd : Reader} (rd' : Reader) (i : Nat)
    (h : rs[r]? = some rd) :
    memHolders (rs.set r rd') ws i + (if rd.holdsMem i then 1 else 0) =
      memHolders rs ws i + (if rd'.holdsMem i then 1 else 0) := by
  have := countP_set_get (p := Reader.holdsMem i) (y := rd') h
  simp only [memHolders]; omega

theorem memHolders_set_writer (rs : List Reader) {ws : List Writer} {w : Nat} {wr : Writer} (wr' : Writer) (i : Nat)
    (h : ws[w]? = some wr) :
    memHolders rs (ws.set w wr') i + (if wr.holdsMem i then 1 else 0) =
      memHolders rs ws i + (if wr'.holdsMem i then 1 else 0) := by
  have := countP_set_get (p := Writer.holdsMem i) (y := wr') h
  simp only [memHolders]; omega

theorem fdHolders_append (rs : List Reader) (rd : Reader) (i : Nat) :
    fdHolders (rs ++ [rd]) i = fdHolders rs i + (if rd.holdsFd i then 1 else 0) := by
  simp only [fdHolders, List.countP_append, List.countP_singleton]

theorem fdHolders_set {rs : List Reader} {r : Nat} {rd : Reader} (rd' : Reader) (i : Nat)
    (h : rs[r]? = some rd) :
    fdHolders (rs.set r rd') i + (if rd.holdsFd i then 1 else 0) =
      fdHolders rs i + (if rd'.holdsFd i then 1 else 0) := by
  have := countP_set_get (p := Reader.holdsFd i) (y := rd') h
  simp only [fdHolders]; omega

/-! ### generic preservation lemmas for the reader / writer tables -/

theorem memHolders_set_writer_same {rs : List Reader} {ws : List Writer} {w : Nat} {wr wr' : Writer}
    (hw : ws[w]? = some wr) (h : ∀ i, wr'.holdsMem i = wr.holdsMem i) (i : Nat) :
    memHolders rs (ws.set w wr') i = memHolders rs ws i := by
  have := memHolders_set_writer rs wr' i hw
  rw [h i] at this
  omega

theorem memHolders_set_reader_same {rs : List Reader} {ws : List Writer} {r : Nat} {rd rd' : Reader}
    (hr : rs[r]? = some rd) (h : ∀ i, rd'.holdsMem i = rd.holdsMem i) (i : Nat) :
    memHolders (rs.set r rd') ws i = memHolders rs ws i := by
  have := memHolders_set_reader ws rd' i hr
  rw [h i] at this
  omega

theorem fdHolders_set_same {rs : List Reader} {r : Nat} {rd rd' : Reader}
    (hr : rs[r]? = some rd) (h : ∀ i, rd'.holdsFd i = rd.holdsFd i) (i : Nat) :
    fdHolders (rs.set r rd') i = fdHolders rs i := by
  have := fdHolders_set rd' i hr
  rw [h i] at this
  omega

theorem CommInv.set {cm : Nat → List Bytes} {ws : List Writer} {w : Nat} {wr wr' : Writer}
    (h : CommInv cm ws) (hw : ws[w]? = some wr)
    (hk : wr.phase ≠ .opened → wr.phase ≠ .aborted →
      wr'.key = wr.key ∧ wr'.written = wr.written ∧ wr'.phase ≠ .opened ∧ wr'.phase ≠ .aborted) :
    CommInv cm (ws.set w wr') := by
  refine h.frame (fun w0 wr0 hw0 h1 h2 => ?_)
  by_cases hc : w0 = w
  · subst hc
    rw [hw] at hw0; simp at hw0; subst hw0
    obtain ⟨g1, g2, g3, g4⟩ := hk h1 h2
    exact ⟨wr', set_get_self (lt_of_get_some hw), g1, g2, g3, g4⟩
  · exact ⟨wr0, by rw [set_get_ne hc]; exact hw0, rfl, rfl, h1, h2⟩

theorem WrInv.set {ws : List Writer} {bufs bufs' : List Buf} {inodes inodes' : List Inode} {rcs rcs' : List RC}
    {cm cm' : Nat → List Bytes} {w : Nat} {wr' : Writer}
    (h : WrInv ws bufs inodes rcs cm)
    (hself : WrOk bufs' inodes' rcs' cm' w wr')
    (hb : ∀ w', w' ≠ w → ∀ (b : Nat) (bf : Buf), bufs[b]? = some bf → bf.owner = .writer w' → bufs'[b]? = some bf)
    (hi : ∀ w', w' ≠ w → ∀ (i : Nat) (ino : Inode), inodes[i]? = some ino → ino.st = .wip w' →
      inodes'[i]? = some ino)
    (hr : ∀ (i : Nat) (r : RC), rcs[i]? = some r → ∃ r' : RC, rcs'[i]? = some r' ∧ r'.key = r.key)
    (hle : CmLe cm cm') : WrInv (ws.set w wr') bufs' inodes' rcs' cm' := by
  intro w0 wr0 hw0
  rw [set_some_iff] at hw0
  rcases hw0 with ⟨rfl, _, rfl⟩ | ⟨hne, hw0⟩
  · exact hself
  · exact (h w0 wr0 hw0).frame (hb w0 hne) (hi w0 hne) hr hle

theorem WrInv.frame {ws : List Writer} {bufs bufs' : List Buf} {inodes inodes' : List Inode} {rcs rcs' : List RC}
    {cm cm' : Nat → List Bytes}
    (h : WrInv ws bufs inodes rcs cm)
    (hb : ∀ w', ∀ (b : Nat) (bf : Buf), bufs[b]? = some bf → bf.owner = .writer w' → bufs'[b]? = some bf)
    (hi : ∀ w', ∀ (i : Nat) (ino : Inode), inodes[i]? = some ino → ino.st = .wip w' → inodes'[i]? = some ino)
    (hr : ∀ (i : Nat) (r : RC), rcs[i]? = some r → ∃ r' : RC, rcs'[i]? = some r' ∧ r'.key = r.key)
    (hle : CmLe cm cm') : WrInv ws bufs' inodes' rcs' cm' :=
  fun w0 wr0 hw0 => (h w0 wr0 hw0).frame (hb w0) (hi w0) hr hle

theorem RdInv.set {rs : List Reader} {mrcs mrcs' frcs frcs' : List RC} {files files' : List FileObj}
    {r : Nat} {rd' : Reader}
    (h : RdInv rs mrcs frcs files)
    (hself : RdOk mrcs' frcs' files' r rd')
    (hm : ∀ (i : Nat) (x : RC), mrcs[i]? = some x → ∃ x' : RC, mrcs'[i]? = some x' ∧ x'.key = x.key ∧ x'.val = x.val)
    (hf : ∀ (i : Nat) (x : RC), frcs[i]? = some x → ∃ x' : RC, frcs'[i]? = some x' ∧ x'.key = x.key ∧ x'.val = x.val)
    (hfo : ∀ r', r' ≠ r → ∀ (f : Nat) (fo : FileObj), files[f]? = some fo → fo.owner = .reader r' →
      files'[f]? = some fo) : RdInv (rs.set r rd') mrcs' frcs' files' := by
  intro r0 rd0 hr0
  rw [set_some_iff] at hr0
  rcases hr0 with ⟨rfl, _, rfl⟩ | ⟨hne, hr0⟩
  · exact hself
  · exact (h r0 rd0 hr0).frame hm hf (hfo r0 hne)

theorem RdInv.frame {rs : List Reader} {mrcs mrcs' frcs frcs' : List RC} {files files' : List FileObj}
    (h : RdInv rs mrcs frcs files)
    (hm : ∀ (i : Nat) (x : RC), mrcs[i]? = some x → ∃ x' : RC, mrcs'[i]? = some x' ∧ x'.key = x.key ∧ x'.val = x.val)
    (hf : ∀ (i : Nat) (x : RC), frcs[i]? = some x → ∃ x' : RC, frcs'[i]? = some x' ∧ x'.key = x.key ∧ x'.val = x.val)
    (hfo : ∀ r', ∀ (f : Nat) (fo : FileObj), files[f]? = some fo → fo.owner = .reader r' →
      files'[f]? = some fo) : RdInv rs mrcs' frcs' files' :=
  fun r0 rd0 hr0 => (h r0 rd0 hr0).frame hm hf (hfo r0)

theorem RdInv.append {rs : List Reader} {mrcs mrcs' frcs frcs' : List RC} {files files' : List FileObj}
    {rd' : Reader}
    (h : RdInv rs mrcs frcs files)
    (hself : RdOk mrcs' frcs' files' rs.length rd')
    (hm : ∀ (i : Nat) (x : RC), mrcs[i]? = some x → ∃ x' : RC, mrcs'[i]? = some x' ∧ x'.key = x.key ∧ x'.val = x.val)
    (hf : ∀ (i : Nat) (x : RC), frcs[i]? = some x → ∃ x' : RC, frcs'[i]? = some x' ∧ x'.key = x.key ∧ x'.val = x.val)
    (hfo : ∀ r', r' ≠ rs.length → ∀ (f : Nat) (fo : FileObj), files[f]? = some fo → fo.owner = .reader r' →
      files'[f]? = some fo) : RdInv (rs ++ [rd']) mrcs' frcs' files' := by
  intro r0 rd0 hr0
  rw [append_some_iff] at hr0
  rcases hr0 with hr0 | ⟨rfl, rfl⟩
  · exact (h r0 rd0 hr0).frame hm hf (hfo r0 (by have := lt_of_get_some hr0; omega))
  · exact hself

/-- objects of other writers survive a change to a buffer this writer (or nobody) owns. -/
theorem bufs_set_frame {bufs : List Buf} {b0 : Nat} {bf0 : Buf} (x : Buf) (h0 : bufs[b0]? = some bf0)
    {w' : Nat} (hne : bf0.owner ≠ .writer w') :
    ∀ (b : Nat) (bf : Buf), bufs[b]? = some bf → bf.owner = .writer w' → (bufs.set b0 x)[b]? = some bf := by
  intro b bf hb ho
  have : b ≠ b0 := by
    intro hc; subst hc
    rw [h0] at hb; simp at hb; subst hb
    exact hne ho
  rw [set_get_ne this]; exact hb

theorem inodes_set_frame {inodes : List Inode} {i0 : Nat} {ino0 : Inode} (x : Inode) (h0 : inodes[i0]? = some ino0)
    {w' : Nat} (hne : ino0.st ≠ .wip w') :
    ∀ (i : Nat) (ino : Inode), inodes[i]? = some ino → ino.st = .wip w' → (inodes.set i0 x)[i]? = some ino := by
  intro i ino hi ho
  have : i ≠ i0 := by
    intro hc; subst hc
    rw [h0] at hi; simp at hi; subst hi
    exact hne ho
  rw [set_get_ne this]; exact hi

theorem files_set_frame {files : List FileObj} {f0 : Nat} {fo0 : FileObj} (x : FileObj) (h0 : files[f0]? = some fo0)
    {r' : Nat} (hne : fo0.owner ≠ .reader r') :
    ∀ (f : Nat) (fo : FileObj), files[f]? = some fo → fo.owner = .reader r' → (files.set f0 x)[f]? = some fo := by
  intro f fo hf ho
  have : f ≠ f0 := by
    intro hc; subst hc
    rw [h0] at hf; simp at hf; subst hf
    exact hne ho
  rw [set_get_ne this]; exact hf

/-- the buffer handed to `OnEvicted` is owned by a refCounter, not by a writer. -/
theorem evictBuf_frame {l l' : LRU} {fired : Option Nat} {bufs : List Buf} {cm : Nat → List Bytes}
    (hb : BufInv l.rcs bufs cm) (he : l.Eff l' fired) (w' : Nat) :
    ∀ (b : Nat) (bf : Buf), bufs[b]? = some bf → bf.owner = .writer w' → (evictBuf bufs fired)[b]? = some bf := by
  intro b bf hbf ho
  cases hf : fired with
  | none => exact hbf
  | some v =>
    obtain ⟨j, rj, _, hj, _, hval, haj, _⟩ := he.fired_some v hf
    obtain ⟨bfj, g1, g2, _⟩ := hb j rj hj haj
    have : b ≠ v := by
      intro hc; subst hc
      rw [hval, hbf] at g1; simp at g1; subst g1
      rw [ho] at g2; cases g2
    simp only [evictBuf]; rw [set_get_ne this]; exact hbf

theorem evictFile_frame {l l' : LRU} {fired : Option Nat} {files : List FileObj}
    (hb : FileInv l.rcs files) (he : l.Eff l' fired) (r' : Nat) :
    ∀ (f : Nat) (fo : FileObj), files[f]? = some fo → fo.owner = .reader r' →
      (evictFile files fired)[f]? = some fo := by
  intro f fo hfo ho
  cases hf : fired with
  | none => exact hfo
  | some v =>
    obtain ⟨j, rj, _, hj, _, hval, haj, _⟩ := he.fired_some v hf
    obtain ⟨foj, g1, g2, _⟩ := hb j rj hj haj
    have : f ≠ v := by
      intro hc; subst hc
      rw [hval, hfo] at g1; simp at g1; subst g1
      rw [ho] at g2; cases g2
    rw [evictFile_get_ne this]; exact hfo

/-! ### addOpen -/

theorem Inv.addOpen {s s' : State} {k : Nat} {o : Opts} {reuse : Option Nat} (hi : Inv s)
    (h : s.addOpen k o reuse = some s') : Inv s' := by
  unfold State.addOpen at h
  simp only at h
  have hInoAppend : ∀ (w : Nat) (i : Nat) (ino : Inode), s.inodes[i]? = some ino → ino.st = .wip w →
      (s.inodes ++ [{ data := [], st := .wip s.writers.length }])[i]? = some ino :=
    fun _ _ _ h _ => append_get_old h
  have hcomm : ∀ (x : Writer), CommInv s.committed (s.writers ++ [x]) :=
    fun x => hi.comm.frame (fun w wr hw h1 h2 => ⟨wr, append_get_old hw, rfl, rfl, h1, h2⟩)
  have hmem : ∀ (x : Writer), x.phase = .opened →
      s.mem.Inv (memHolders s.readers (s.writers ++ [x])) := by
    intro x hx
    refine hi.mem.congr (fun i => ?_)
    rw [memHolders_append_writer]
    simp [Writer.holdsMem, hx]
  have hwip : ∀ (x : Writer), x.wip = s.inodes.length →
      WipOk (s.inodes ++ [{ data := [], st := .wip s.writers.length }]) s.writers.length x (· = []) :=
    fun x hx => ⟨_, by rw [hx]; exact append_get_new, rfl, rfl⟩
  have hfi := hi.fileIno.of_same (inodes' := s.inodes ++ [{ data := [], st := .wip s.writers.length }])
    (fun f fo h => Or.inl ⟨fo, h, rfl, rfl⟩) (pub_append _)
  split at h
  · simp only [Option.some.injEq] at h; subst h
    refine ⟨hi.pool, hmem _ rfl, hi.fd, hi.buf, hi.file, hfi,
      hi.inoComm.append_wip _ _, hi.diskIno.of_pub (pub_append _), ?_, hi.rd, hcomm _⟩
    intro w wr hw
    rw [append_some_iff] at hw
    rcases hw with hw | ⟨rfl, rfl⟩
    · exact (hi.wr w wr hw).frame (fun _ _ h _ => h) (hInoAppend w) rcs_same (CmLe.refl _)
    · simp only [WrOk, if_true]
      exact hwip _ rfl
  · split at h
    · simp only [Option.some.injEq] at h; subst h
      refine ⟨hi.pool.append (fun hc => by cases hc), hmem _ rfl, hi.fd, hi.buf.append _, hi.file, hfi,
        hi.inoComm.append_wip _ _, hi.diskIno.of_pub (pub_append _), ?_, hi.rd, hcomm _⟩
      intro w wr hw
      rw [append_some_iff] at hw
      rcases hw with hw | ⟨rfl, rfl⟩
      · exact (hi.wr w wr hw).frame (fun _ _ h _ => append_get_old h) (hInoAppend w) rcs_same (CmLe.refl _)
      · simp only [WrOk]
        exact ⟨⟨_, append_get_new, rfl, rfl⟩, hwip _ rfl⟩
    · rename_i b
      split at h
      · rename_i bf hb
        split at h
        · rename_i hown
          simp only [Option.some.injEq] at h; subst h
          refine ⟨hi.pool.set b (fun hc => by cases hc), hmem _ rfl, hi.fd,
            hi.buf.set_noncached hb (by rw [hown]; intro i hc; cases hc) _, hi.file, hfi,
            hi.inoComm.append_wip _ _, hi.diskIno.of_pub (pub_append _), ?_, hi.rd, hcomm _⟩
          intro w wr hw
          rw [append_some_iff] at hw
          rcases hw with hw | ⟨rfl, rfl⟩
          · refine (hi.wr w wr hw).frame ?_ (hInoAppend w) rcs_same (CmLe.refl _)
            intro b' bf' hb' ho'
            have : b' ≠ b := by
              intro hc; subst hc
              rw [hb] at hb'; simp at hb'; subst hb'
              rw [hown] at ho'; cases ho'
            rw [set_get_ne this]; exact hb'
          · simp only [WrOk]
            exact ⟨⟨_, set_get_self (lt_of_get_some hb), rfl, hi.pool b bf hb hown⟩, hwip _ rfl⟩
        · simp at h
      · simp at h

/-! ### write -/

theorem Inv.write {s s' : State} {w : Nat} {p : Bytes} (hi : Inv s) (h : s.write w p = some s') : Inv s' := by
  unfold State.write at h
  split at h
  · rename_i wr hw
    split at h
    · rename_i hph
      obtain ⟨hopen, _⟩ := hph
      have hok := hi.wr w wr hw
      simp only [WrOk, hopen] at hok
      have hmem : s.mem.Inv (memHolders s.readers (s.writers.set w { wr with written := wr.written ++ p })) := by
        refine hi.mem.congr (fun i => ?_)
        have := memHolders_set_writer s.readers { wr with written := wr.written ++ p } i hw
        have h1 : Writer.holdsMem i wr = false := by simp [Writer.holdsMem, hopen]
        have h2 : Writer.holdsMem i { wr with written := wr.written ++ p } = false := by
          simp [Writer.holdsMem, hopen]
        rw [h1, h2] at this
        simpa using this
      have hcomm : CommInv s.committed (s.writers.set w { wr with written := wr.written ++ p }) := by
        refine hi.comm.frame (fun w' wr' hw' h1 h2 => ?_)
        by_cases hc : w' = w
        · subst hc; rw [hw] at hw'; simp at hw'; subst hw'; exact absurd hopen h1
        · exact ⟨wr', by rw [set_get_ne hc]; exact hw', rfl, rfl, h1, h2⟩
      simp only at h
      split at h
      · rename_i hd
        simp only [hd, if_true] at hok
        obtain ⟨ino0, hino0, hst0, hdata0⟩ := hok
        split at h
        · rename_i ino hino
          rw [hino0] at hino; simp at hino; subst hino
          simp only [Option.some.injEq] at h; subst h
          refine ⟨hi.pool, hmem, hi.fd, hi.buf, hi.file,
            hi.fileIno.of_same (fun f fo h => Or.inl ⟨fo, h, rfl, rfl⟩) (pub_set_wip hino0 hst0),
            hi.inoComm.set_wip hino0 hst0 (fun k hk => by simp [hst0] at hk),
            hi.diskIno.of_pub (pub_set_wip hino0 hst0), ?_, hi.rd, hcomm⟩
          intro w' wr' hw'
          rw [set_some_iff] at hw'
          rcases hw' with ⟨rfl, _, rfl⟩ | ⟨hne, hw'⟩
          · simp only [WrOk, hopen, hd, if_true]
            exact ⟨_, set_get_self (lt_of_get_some hino0), hst0, by simp [hdata0]⟩
          · refine (hi.wr w' wr' hw').frame (fun _ _ h _ => h) ?_ rcs_same (CmLe.refl _)
            intro i ino hi' hst'
            have : i ≠ wr.wip := by
              intro hc; subst hc
              rw [hino0] at hi'; simp at hi'; subst hi'
              rw [hst0] at hst'; simp at hst'; exact hne hst'.symm
            rw [set_get_ne this]; exact hi'
        · simp at h
      · rename_i hd
        simp only [hd] at hok
        obtain ⟨⟨bf0, hbf0, hown0, hdata0⟩, hwip0⟩ := hok
        split at h
        · rename_i bf hbf
          rw [hbf0] at hbf; simp at hbf; subst hbf
          simp only [Option.some.injEq] at h; subst h
          refine ⟨hi.pool.set _ (fun hc => by simp [hown0] at hc), hmem, hi.fd,
            hi.buf.set_noncached hbf0 (by rw [hown0]; intro i hc; cases hc) _, hi.file,
            hi.fileIno, hi.inoComm, hi.diskIno, ?_, hi.rd, hcomm⟩
          intro w' wr' hw'
          rw [set_some_iff] at hw'
          rcases hw' with ⟨rfl, _, rfl⟩ | ⟨hne, hw'⟩
          · simp only [WrOk, hopen, hd]
            exact ⟨⟨_, set_get_self (lt_of_get_some hbf0), hown0, by simp [hdata0]⟩, hwip0⟩
          · refine (hi.wr w' wr' hw').frame ?_ (fun _ _ h _ => h) rcs_same (CmLe.refl _)
            intro b bf' hb' ho'
            have : b ≠ wr.buf := by
              intro hc; subst hc
              rw [hbf0] at hb'; simp at hb'; subst hb'
              rw [hown0] at ho'; simp at ho'; exact hne ho'.symm
            rw [set_get_ne this]; exact hb'
        · simp at h
    · simp at h
  · simp at h

/-! ### abort / closeWriter / read -/

theorem Inv.abort {s s' : State} {w : Nat} (hi : Inv s) (h : s.abort w = some s') : Inv s' := by
  unfold State.abort at h
  split at h
  · rename_i wr hw
    split at h
    · rename_i hopen
      have hok := hi.wr w wr hw
      simp only [WrOk, hopen] at hok
      have hmem : s.mem.Inv (memHolders s.readers (setWPhase s.writers w wr .aborted)) :=
        hi.mem.congr (memHolders_set_writer_same hw (fun i => by simp [Writer.holdsMem, hopen]))
      have hcomm : CommInv s.committed (setWPhase s.writers w wr .aborted) :=
        hi.comm.set hw (fun h1 _ => absurd hopen h1)
      split at h
      · rename_i hd
        simp only [hd, if_true] at hok
        simp only [Option.some.injEq] at h; subst h
        refine ⟨hi.pool, hmem, hi.fd, hi.buf, hi.file, hi.fileIno, hi.inoComm, hi.diskIno, ?_, hi.rd, hcomm⟩
        refine hi.wr.set ?_ (fun _ _ _ _ h _ => h) (fun _ _ _ _ h _ => h) rcs_same (CmLe.refl _)
        simp only [WrOk]
        exact hok.imp (fun _ _ => trivial)
      · rename_i hd
        simp only [hd] at hok
        obtain ⟨⟨bf0, hbf0, hown0, _⟩, hwip0⟩ := hok
        simp only [Option.some.injEq] at h; subst h
        refine ⟨hi.pool.set _ (fun _ => rfl), hmem, hi.fd,
          hi.buf.set_noncached hbf0 (by rw [hown0]; intro i hc; cases hc) _, hi.file, hi.fileIno, hi.inoComm,
          hi.diskIno, ?_, hi.rd, hcomm⟩
        refine hi.wr.set ?_ (fun w' hne => bufs_set_frame _ hbf0 (by rw [hown0]; intro hc; cases hc; exact hne rfl))
          (fun _ _ _ _ h _ => h) rcs_same (CmLe.refl _)
        simp only [WrOk]
        exact hwip0.imp (fun _ _ => trivial)
    · simp at h
  · simp at h

theorem WrOk.closed {bufs : List Buf} {inodes : List Inode} {rcs : List RC} {cm : Nat → List Bytes} {w : Nat}
    {wr : Writer} (h : WrOk bufs inodes rcs cm w wr) : WrOk bufs inodes rcs cm w { wr with closed := true } := h

theorem Inv.closeWriter {s s' : State} {w : Nat} (hi : Inv s) (h : s.closeWriter w = some s') : Inv s' := by
  unfold State.closeWriter at h
  split at h
  · rename_i wr hw
    simp only [Option.some.injEq] at h; subst h
    refine ⟨hi.pool, hi.mem.congr (memHolders_set_writer_same hw (fun i => rfl)), hi.fd, hi.buf, hi.file,
      hi.fileIno, hi.inoComm, hi.diskIno, ?_, hi.rd, hi.comm.set hw (fun h1 h2 => ⟨rfl, rfl, h1, h2⟩)⟩
    exact hi.wr.set (hi.wr w wr hw).closed (fun _ _ _ _ h _ => h) (fun _ _ _ _ h _ => h) rcs_same (CmLe.refl _)
  · simp at h

theorem Inv.read {s s' : State} {r : Nat} (hi : Inv s) (h : s.read r = some s') : Inv s' := by
  unfold State.read at h
  split at h
  · split at h
    · simp at h; subst h; exact hi
    · simp at h
  · simp at h

/-! ### getOpen -/

theorem Inv.getOpen {s s' : State} {k : Nat} {o : Opts} (hi : Inv s) (h : s.getOpen k o = some s') : Inv s' := by
  unfold State.getOpen at h
  split at h
  · rename_i i hd
    simp only [Option.some.injEq] at h; subst h
    obtain ⟨ino, hino, hst⟩ := hi.diskIno k i hd
    refine ⟨hi.pool, ?_, ?_, hi.buf, hi.file.append _, ?_, hi.inoComm, hi.diskIno, hi.wr, ?_, hi.comm⟩
    · refine hi.mem.congr (fun j => ?_)
      rw [memHolders_append_reader]; simp [Reader.holdsMem]
    · refine hi.fd.congr (fun j => ?_)
      rw [fdHolders_append]; simp [Reader.holdsFd]
    · refine hi.fileIno.of_same (fun f fo hf => ?_) pub_same
      rw [append_some_iff] at hf
      rcases hf with hf | ⟨_, rfl⟩
      · exact Or.inl ⟨fo, hf, rfl, rfl⟩
      · exact Or.inr ⟨ino, hino, hst⟩
    · refine hi.rd.append ?_ rcs_same_kv rcs_same_kv (fun _ _ _ _ h _ => append_get_old h)
      simp only [RdOk]
      exact ⟨_, append_get_new, rfl, rfl, rfl⟩
  · simp at h

/-! ### getMem / getFd -/

theorem no_new_of_len {l l' : LRU} (hlen : l'.rcs.length = l.rcs.length) {P : Nat → RC → Prop} :
    ∀ (i : Nat) (r' : RC), l.rcs.length ≤ i → l'.rcs[i]? = some r' → r'.alive → P i r' := by
  intro i r' hle hr'
  have := lt_of_get_some hr'
  omega

theorem Inv.getMem {s s' : State} {k : Nat} {o : Opts} (hi : Inv s) (h : s.getMem k o = some s') : Inv s' := by
  unfold State.getMem at h
  split at h
  · simp at h
  · split at h
    · rename_i m id hg
      split at h
      · rename_i r hr
        simp only [Option.some.injEq] at h; subst h
        obtain ⟨h1, h2, h3, r0, r', g1, g2, g3, g4, g5, g6, g7, _⟩ :=
          LRU.get_spec (h' := memHolders (s.readers ++ [{ key := k, src := .mem r.val id, phase := .opened }]) s.writers)
            hi.mem hg
            (by rw [memHolders_append_reader]; simp [Reader.holdsMem])
            (fun j hj => by
              rw [memHolders_append_reader]
              have : (id == j) = false := by simp; exact fun h => hj h.symm
              simp [Reader.holdsMem, this])
        rw [hr] at g2; simp at g2; subst g2
        refine ⟨hi.pool, h1, ?_, ?_, hi.file, hi.fileIno, hi.inoComm, hi.diskIno, ?_, ?_, hi.comm⟩
        · refine hi.fd.congr (fun j => ?_)
          rw [fdHolders_append]; simp [Reader.holdsFd]
        · exact hi.buf.eff h2 (no_new_of_len h3)
        · exact hi.wr.frame (fun _ _ _ h _ => h) (fun _ _ _ h _ => h) h2.rcs_key (CmLe.refl _)
        · refine hi.rd.append ?_ h2.rcs_keyval rcs_same_kv (fun _ _ _ _ h _ => h)
          simp only [RdOk]
          exact ⟨r, hr, rfl, by rw [g7, g3]⟩
      · simp at h
    · simp at h

theorem Inv.getFd {s s' : State} {k : Nat} {o : Opts} (hi : Inv s) (h : s.getFd k o = some s') : Inv s' := by
  unfold State.getFd at h
  split at h
  · simp at h
  · split at h
    · rename_i m id hg
      split at h
      · rename_i r hr
        simp only [Option.some.injEq] at h; subst h
        obtain ⟨h1, h2, h3, r0, r', g1, g2, g3, g4, g5, g6, g7, _⟩ :=
          LRU.get_spec (h' := fdHolders (s.readers ++ [{ key := k, src := .fdc r.val id, phase := .opened }]))
            hi.fd hg
            (by rw [fdHolders_append]; simp [Reader.holdsFd])
            (fun j hj => by
              rw [fdHolders_append]
              have : (id == j) = false := by simp; exact fun h => hj h.symm
              simp [Reader.holdsFd, this])
        rw [hr] at g2; simp at g2; subst g2
        refine ⟨hi.pool, ?_, h1, hi.buf, ?_, ?_, hi.inoComm, hi.diskIno, hi.wr, ?_, hi.comm⟩
        · refine hi.mem.congr (fun j => ?_)
          rw [memHolders_append_reader]; simp [Reader.holdsMem]
        · exact hi.file.eff h2 (no_new_of_len h3)
        · exact hi.fileIno
        · refine hi.rd.append ?_ rcs_same_kv h2.rcs_keyval (fun _ _ _ _ h _ => h)
          simp only [RdOk]
          exact ⟨r, hr, rfl, by rw [g7, g3]⟩
      · simp at h
    · simp at h

/-! ### closeReader / closeReaderDone -/

theorem FileIno.evict {files : List FileObj} {inodes : List Inode} (h : FileIno files inodes) (f : Option Nat) :
    FileIno (evictFile files f) inodes :=
  h.of_same (fun f' fo' hf => Or.inl (evictFile_same f' fo' hf)) pub_same

theorem Inv.closeReader {s s' : State} {r : Nat} (hi : Inv s) (h : s.closeReader r = some s') : Inv s' := by
  unfold State.closeReader at h
  split at h
  · rename_i rd hrd
    split at h
    · rename_i hopen
      have hok := hi.rd r rd hrd
      simp only [RdOk, hopen] at hok
      split at h
      · -- memory reader: done()
        rename_i b rc hsrc
        simp only [hsrc] at hok
        simp only [Option.some.injEq] at h; subst h
        have hold : Reader.holdsMem rc rd = true := by simp [Reader.holdsMem, hopen, hsrc]
        have hheld : 1 ≤ memHolders s.readers s.writers rc := by
          have := countP_pos_of_get (p := Reader.holdsMem rc) hrd hold
          simp only [memHolders]; omega
        obtain ⟨h1, h2, h3, _⟩ := LRU.dec_spec (h' := memHolders (setRPhase s.readers r rd .closed) s.writers)
          hi.mem hheld
          (by
            have := memHolders_set_reader s.writers { rd with phase := .closed } rc hrd
            rw [hold] at this
            have h2 : Reader.holdsMem rc { rd with phase := .closed } = false := by simp [Reader.holdsMem]
            rw [h2] at this
            simpa [setRPhase] using this)
          (fun j hj => by
            have := memHolders_set_reader s.writers { rd with phase := .closed } j hrd
            have h1 : Reader.holdsMem j rd = false := by
              simp [Reader.holdsMem, hopen, hsrc]; exact fun h => hj h.symm
            have h2 : Reader.holdsMem j { rd with phase := .closed } = false := by simp [Reader.holdsMem]
            rw [h1, h2] at this
            simpa [setRPhase] using this)
        refine ⟨hi.pool.evict _, h1, ?_, hi.buf.eff h2 (no_new_of_len h3), hi.file, hi.fileIno, hi.inoComm,
          hi.diskIno, ?_, ?_, hi.comm⟩
        · refine hi.fd.congr (fdHolders_set_same hrd (fun j => ?_))
          simp [Reader.holdsFd, hopen, hsrc]
        · exact hi.wr.frame (evictBuf_frame hi.buf h2) (fun _ _ _ h _ => h) h2.rcs_key (CmLe.refl _)
        · exact hi.rd.set (by simp [RdOk]) h2.rcs_keyval rcs_same_kv (fun _ _ _ _ h _ => h)
      · -- descriptor-cache reader: done()
        rename_i f rc hsrc
        simp only [hsrc] at hok
        simp only [Option.some.injEq] at h; subst h
        have hold : Reader.holdsFd rc rd = true := by simp [Reader.holdsFd, hopen, hsrc]
        have hheld : 1 ≤ fdHolders s.readers rc := countP_pos_of_get (p := Reader.holdsFd rc) hrd hold
        obtain ⟨h1, h2, h3, _⟩ := LRU.dec_spec (h' := fdHolders (setRPhase s.readers r rd .closed))
          hi.fd hheld
          (by
            have := fdHolders_set { rd with phase := .closed } rc hrd
            rw [hold] at this
            have h2 : Reader.holdsFd rc { rd with phase := .closed } = false := by simp [Reader.holdsFd]
            rw [h2] at this
            simpa [setRPhase] using this)
          (fun j hj => by
            have := fdHolders_set { rd with phase := .closed } j hrd
            have h1 : Reader.holdsFd j rd = false := by
              simp [Reader.holdsFd, hopen, hsrc]; exact fun h => hj h.symm
            have h2 : Reader.holdsFd j { rd with phase := .closed } = false := by simp [Reader.holdsFd]
            rw [h1, h2] at this
            simpa [setRPhase] using this)
        refine ⟨hi.pool, ?_, h1, hi.buf, hi.file.eff h2 (no_new_of_len h3), hi.fileIno.evict _, hi.inoComm,
          hi.diskIno, hi.wr, ?_, hi.comm⟩
        · refine hi.mem.congr (memHolders_set_reader_same hrd (fun j => ?_))
          simp [Reader.holdsMem, hopen, hsrc]
        · exact hi.rd.set (by simp [RdOk]) rcs_same_kv h2.rcs_keyval (fun r' _ => evictFile_frame hi.file h2 r')
      · -- direct reader: file.Close()
        rename_i f hsrc
        simp only [hsrc] at hok
        obtain ⟨fo, hfo, hown, _, _⟩ := hok
        simp only [Option.some.injEq] at h; subst h
        simp only [evictFile, hfo]
        refine ⟨hi.pool, ?_, ?_, hi.buf, hi.file.set_noncached hfo (by rw [hown]; intro i hc; cases hc) _, ?_,
          hi.inoComm, hi.diskIno, hi.wr, ?_, hi.comm⟩
        · refine hi.mem.congr (memHolders_set_reader_same hrd (fun j => ?_))
          simp [Reader.holdsMem, hopen, hsrc]
        · refine hi.fd.congr (fdHolders_set_same hrd (fun j => ?_))
          simp [Reader.holdsFd, hopen, hsrc]
        · have := hi.fileIno.evict (some f)
          simpa [evictFile, hfo] using this
        · exact hi.rd.set (by simp [RdOk]) rcs_same_kv rcs_same_kv
            (fun r' hne => files_set_frame _ hfo (by rw [hown]; intro hc; cases hc; exact hne rfl))
      · -- freshly opened file: fileCache.Add
        rename_i f hsrc
        simp only [hsrc] at hok
        obtain ⟨fo, hfo, hown, hclosed, hkey⟩ := hok
        simp only [hfo] at h
        simp only [Option.some.injEq] at h; subst h
        obtain ⟨l', id, added, fired, ha⟩ : ∃ l' id added fired, s.fd.add rd.key f = (l', id, added, fired) :=
          ⟨_, _, _, _, rfl⟩
        simp only [ha]
        obtain ⟨h1, hspec⟩ := LRU.add_spec (h' := fdHolders (setRPhase s.readers r rd (.closing id)))
          hi.fd ha
          (by
            have := fdHolders_set { rd with phase := .closing id } id hrd
            have h1 : Reader.holdsFd id rd = false := by simp [Reader.holdsFd, hopen, hsrc]
            have h2 : Reader.holdsFd id { rd with phase := .closing id } = true := by simp [Reader.holdsFd]
            rw [h1, h2] at this
            simpa [setRPhase] using this)
          (fun j hj => by
            have := fdHolders_set { rd with phase := .closing id } j hrd
            have h1 : Reader.holdsFd j rd = false := by simp [Reader.holdsFd, hopen, hsrc]
            have h2 : Reader.holdsFd j { rd with phase := .closing id } = false := by
              simp [Reader.holdsFd]; exact fun h => hj h.symm
            rw [h1, h2] at this
            simpa [setRPhase] using this)
        have hmem : s.mem.Inv (memHolders (setRPhase s.readers r rd (.closing id)) s.writers) := by
          refine hi.mem.congr (memHolders_set_reader_same hrd (fun j => ?_))
          simp [Reader.holdsMem, hopen, hsrc]
        have hnc : ∀ i, fo.owner ≠ .cached i := by rw [hown]; intro i hc; cases hc
        cases added with
        | true =>
          obtain ⟨_, hid, hlen, ⟨r', hr', hk', hv', hal'⟩, _⟩ := hspec.fresh rfl
          simp only [if_true]
          have hf1 : FileInv s.fd.rcs (s.files.set f { fo with owner := .cached id }) :=
            hi.file.set_noncached hfo hnc _
          refine ⟨hi.pool, hmem, h1, hi.buf, ?_, ?_, hi.inoComm, hi.diskIno, hi.wr, ?_, hi.comm⟩
          · refine hf1.eff hspec.eff ?_
            intro i ri hle hri hali
            have hlt : i < l'.rcs.length := lt_of_get_some hri
            have : i = id := by omega
            subst this
            rw [hr'] at hri; simp at hri; subst hri
            exact ⟨{ fo with owner := .cached i }, by rw [hv']; exact set_get_self (lt_of_get_some hfo), rfl,
              hclosed, by rw [hk']; exact hkey⟩
          · refine (hi.fileIno.of_same (files' := s.files.set f { fo with owner := .cached id }) ?_ pub_same).evict _
            intro f' fo' hf'
            rw [set_some_iff] at hf'
            rcases hf' with ⟨rfl, _, rfl⟩ | ⟨_, hf'⟩
            · exact Or.inl ⟨fo, hfo, rfl, rfl⟩
            · exact Or.inl ⟨fo', hf', rfl, rfl⟩
          · refine hi.rd.set ?_ rcs_same_kv hspec.eff.rcs_keyval ?_
            · simp only [RdOk]; exact ⟨r', hr'⟩
            · intro r0 hne f0 fo0 hf0 ho0
              exact evictFile_frame hf1 hspec.eff r0 f0 fo0
                (files_set_frame _ hfo (by rw [hown]; intro hc; cases hc; exact hne rfl) f0 fo0 hf0 ho0) ho0
        | false =>
          obtain ⟨hfired, hlen, _, r0, r', hr0, hr', _⟩ := hspec.existing rfl
          subst hfired
          simp only [Bool.false_eq_true, if_false]
          have hf1 : FileInv l'.rcs s.files := hi.file.eff hspec.eff (no_new_of_len hlen)
          refine ⟨hi.pool, hmem, h1, hi.buf, hf1.set_noncached hfo hnc _, ?_, hi.inoComm, hi.diskIno, hi.wr, ?_,
            hi.comm⟩
          · have := hi.fileIno.evict (some f)
            simpa [evictFile, hfo] using this
          · refine hi.rd.set ?_ rcs_same_kv hspec.eff.rcs_keyval
              (fun r0 hne => files_set_frame _ hfo (by rw [hown]; intro hc; cases hc; exact hne rfl))
            simp only [RdOk]; exact ⟨r', hr'⟩
    · simp at h
  · simp at h

theorem Inv.closeReaderDone {s s' : State} {r : Nat} (hi : Inv s) (h : s.closeReaderDone r = some s') :
    Inv s' := by
  unfold State.closeReaderDone at h
  split at h
  · rename_i rd hrd
    split at h
    · rename_i rc hph
      simp only [Option.some.injEq] at h; subst h
      have hold : Reader.holdsFd rc rd = true := by simp [Reader.holdsFd, hph]
      have hheld : 1 ≤ fdHolders s.readers rc := countP_pos_of_get (p := Reader.holdsFd rc) hrd hold
      obtain ⟨h1, h2, h3, _⟩ := LRU.dec_spec (h' := fdHolders (setRPhase s.readers r rd .closed))
        hi.fd hheld
        (by
          have := fdHolders_set { rd with phase := .closed } rc hrd
          rw [hold] at this
          have h2 : Reader.holdsFd rc { rd with phase := .closed } = false := by simp [Reader.holdsFd]
          rw [h2] at this
          simpa [setRPhase] using this)
        (fun j hj => by
          have := fdHolders_set { rd with phase := .closed } j hrd
          have h1 : Reader.holdsFd j rd = false := by
            simp [Reader.holdsFd, hph]; exact fun h => hj h.symm
          have h2 : Reader.holdsFd j { rd with phase := .closed } = false := by simp [Reader.holdsFd]
          rw [h1, h2] at this
          simpa [setRPhase] using this)
      refine ⟨hi.pool, ?_, h1, hi.buf, hi.file.eff h2 (no_new_of_len h3), hi.fileIno.evict _, hi.inoComm,
        hi.diskIno, hi.wr, ?_, hi.comm⟩
      · refine hi.mem.congr (memHolders_set_reader_same hrd (fun j => ?_))
        simp [Reader.holdsMem, hph]
      · exact hi.rd.set (by simp [RdOk]) rcs_same_kv h2.rcs_keyval (fun r' _ => evictFile_frame hi.file h2 r')
    · simp at h
  · simp at h

/-! ### commitMemPublish -/

theorem Inv.commitMemPublish {s s' : State} {w : Nat} (hi : Inv s) (h : s.commitMemPublish w = some s') :
    Inv s' := by
  unfold State.commitMemPublish at h
  split at h
  · rename_i wr hw
    split at h
    · rename_i hph
      obtain ⟨hopen, hd⟩ := hph
      have hok := hi.wr w wr hw
      simp only [WrOk, hopen, hd] at hok
      obtain ⟨⟨bf0, hbf0, hown0, hdata0⟩, hwip0⟩ := hok
      simp only [hbf0] at h
      simp only [Option.some.injEq] at h; subst h
      obtain ⟨l', id, added, fired, ha⟩ : ∃ l' id added fired, s.mem.add wr.key wr.buf = (l', id, added, fired) :=
        ⟨_, _, _, _, rfl⟩
      simp only [ha]
      have hwold : ∀ j, Writer.holdsMem j wr = false := fun j => by simp [Writer.holdsMem, hopen]
      obtain ⟨h1, hspec⟩ := LRU.add_spec (h' := memHolders s.readers (setWPhase s.writers w wr (.published id)))
        hi.mem ha
        (by
          have := memHolders_set_writer s.readers { wr with phase := .published id } id hw
          have h2 : Writer.holdsMem id { wr with phase := .published id } = true := by simp [Writer.holdsMem]
          rw [hwold, h2] at this
          simpa [setWPhase] using this)
        (fun j hj => by
          have := memHolders_set_writer s.readers { wr with phase := .published id } j hw
          have h2 : Writer.holdsMem j { wr with phase := .published id } = false := by
            simp [Writer.holdsMem]; exact fun h => hj h.symm
          rw [hwold, h2] at this
          simpa [setWPhase] using this)
      have hnc : ∀ i, bf0.owner ≠ .cached i := by rw [hown0]; intro i hc; cases hc
      have hle := CmLe.add s.committed wr.key wr.written
      have hcomm : CommInv (addCommitted s.committed wr.key wr.written)
          (setWPhase s.writers w wr (.published id)) := by
        have h0 : CommInv s.committed (setWPhase s.writers w wr (.published id)) :=
          hi.comm.set hw (fun h1 _ => absurd hopen h1)
        exact h0.add (w := w) (wr := { wr with phase := .published id }) (set_get_self (lt_of_get_some hw))
          (by simp) (by simp)
      have hrc : ∃ r : RC, l'.rcs[id]? = some r ∧ r.key = wr.key := by
        cases added with
        | true =>
          obtain ⟨_, _, _, ⟨r', hr', hk', _⟩, _⟩ := hspec.fresh rfl
          exact ⟨r', hr', hk'⟩
        | false =>
          obtain ⟨_, _, _, r0, r', _, hr', hk0, _, _, _, hk', _⟩ := hspec.existing rfl
          exact ⟨r', hr', by rw [hk', hk0]⟩
      have hself : ∀ (bufs' : List Buf), WrOk bufs' s.inodes l'.rcs (addCommitted s.committed wr.key wr.written) w
          { wr with phase := .published id } := by
        intro bufs'
        simp only [WrOk]
        exact ⟨hd, hrc, hwip0⟩
      cases added with
      | true =>
        obtain ⟨_, hid, hlen, ⟨r', hr', hk', hv', hal'⟩, _⟩ := hspec.fresh rfl
        simp only [if_true]
        have hb1 : BufInv s.mem.rcs (s.bufs.set wr.buf { bf0 with owner := .cached id })
            (addCommitted s.committed wr.key wr.written) := (hi.buf.set_noncached hbf0 hnc _).mono hle
        refine ⟨(hi.pool.set _ (fun hc => by cases hc)).evict _, h1, hi.fd, ?_, hi.file, hi.fileIno,
          hi.inoComm.mono hle, hi.diskIno, ?_, ?_, hcomm⟩
        · refine hb1.eff hspec.eff ?_
          intro i ri hle' hri hali
          have hlt : i < l'.rcs.length := lt_of_get_some hri
          have : i = id := by omega
          subst this
          rw [hr'] at hri; simp at hri; subst hri
          refine ⟨{ bf0 with owner := .cached i }, by rw [hv']; exact set_get_self (lt_of_get_some hbf0), rfl, ?_⟩
          rw [hk']; simp only; rw [hdata0]; exact mem_addCommitted _ _ _
        · refine hi.wr.set (hself _) ?_ (fun _ _ _ _ h _ => h) hspec.eff.rcs_key hle
          intro w' hne b bf hb ho
          exact evictBuf_frame hb1 hspec.eff w' b bf
            (bufs_set_frame _ hbf0 (by rw [hown0]; intro hc; cases hc; exact hne rfl) b bf hb ho) ho
        · exact hi.rd.frame hspec.eff.rcs_keyval rcs_same_kv (fun _ _ _ h _ => h)
      | false =>
        obtain ⟨hfired, hlen, _⟩ := hspec.existing rfl
        subst hfired
        simp only [Bool.false_eq_true, if_false]
        have hb1 : BufInv l'.rcs s.bufs s.committed := hi.buf.eff hspec.eff (no_new_of_len hlen)
        refine ⟨hi.pool.set _ (fun _ => rfl), h1, hi.fd, (hb1.set_noncached hbf0 hnc _).mono hle, hi.file,
          hi.fileIno, hi.inoComm.mono hle, hi.diskIno, ?_, ?_, hcomm⟩
        · exact hi.wr.set (hself _)
            (fun w' hne => bufs_set_frame _ hbf0 (by rw [hown0]; intro hc; cases hc; exact hne rfl))
            (fun _ _ _ _ h _ => h) hspec.eff.rcs_key hle
        · exact hi.rd.frame hspec.eff.rcs_keyval rcs_same_kv (fun _ _ _ h _ => h)
    · simp at h
  · simp at h

/-! ### commitDiskWrite / commitRename / commitDone -/

theorem Inv.commitDiskWrite {s s' : State} {w : Nat} {fail : Option Nat} (hi : Inv s)
    (h : s.commitDiskWrite w fail = some s') : Inv s' := by
  unfold State.commitDiskWrite at h
  split at h
  · rename_i wr hw
    split at h
    · rename_i rc hph
      have hok := hi.wr w wr hw
      simp only [WrOk, hph] at hok
      obtain ⟨hd, ⟨r0, hr0, hk0⟩, ino0, hino0, hst0, hdata0⟩ := hok
      have hold : Writer.holdsMem rc wr = true := by simp [Writer.holdsMem, hph]
      have hheld : 1 ≤ memHolders s.readers s.writers rc := by
        have := countP_pos_of_get (p := Writer.holdsMem rc) hw hold
        simp only [memHolders]; omega
      have halive := hi.mem.alive_of_held hr0 hheld
      obtain ⟨bfc, hbfc, _, hdatac⟩ := hi.buf rc r0 hr0 halive
      split at h
      · rename_i r hr
        rw [hr0] at hr; simp at hr; subst hr
        split at h
        · rename_i bf ino hbf hino
          rw [hbfc] at hbf; simp at hbf; subst hbf
          rw [hino0] at hino; simp at hino; subst hino
          have hpub := pub_set_wip (x := { ino0 with data := ino0.data ++ bfc.data }) hino0 hst0
          have hframe : ∀ (x : Inode) (w' : Nat), w' ≠ w → ∀ (i : Nat) (ino : Inode), s.inodes[i]? = some ino →
              ino.st = .wip w' → (s.inodes.set wr.wip x)[i]? = some ino :=
            fun x w' hne => inodes_set_frame x hino0 (by rw [hst0]; intro hc; cases hc; exact hne rfl)
          split at h
          · simp only [Option.some.injEq] at h; subst h
            refine ⟨hi.pool, ?_, hi.fd, hi.buf, hi.file,
              hi.fileIno.of_same (fun f fo h => Or.inl ⟨fo, h, rfl, rfl⟩) (pub_set_wip hino0 hst0),
              hi.inoComm.set_wip hino0 hst0 (fun k hk => by simp [hst0] at hk),
              hi.diskIno.of_pub (pub_set_wip hino0 hst0), ?_, hi.rd, ?_⟩
            · refine hi.mem.congr (memHolders_set_writer_same hw (fun i => ?_))
              simp [Writer.holdsMem, hph]
            · refine hi.wr.set ?_ (fun _ _ _ _ h _ => h) (hframe _) rcs_same (CmLe.refl _)
              simp only [WrOk]
              refine ⟨⟨r0, hr0, hk0⟩, _, set_get_self (lt_of_get_some hino0), hst0, ?_⟩
              simp only [hdata0, List.nil_append]; rw [← hk0]; exact hdatac
            · exact hi.comm.set hw (fun _ _ => ⟨rfl, rfl, by simp, by simp⟩)
          · rename_i n
            simp only [Option.some.injEq] at h; subst h
            refine ⟨hi.pool, ?_, hi.fd, hi.buf, hi.file,
              hi.fileIno.of_same (fun f fo h => Or.inl ⟨fo, h, rfl, rfl⟩) (pub_set_wip hino0 hst0),
              hi.inoComm.set_wip hino0 hst0 (fun k hk => by simp [hst0] at hk),
              hi.diskIno.of_pub (pub_set_wip hino0 hst0), ?_, hi.rd, ?_⟩
            · refine hi.mem.congr (memHolders_set_writer_same hw (fun i => ?_))
              simp [Writer.holdsMem, hph]
            · refine hi.wr.set ?_ (fun _ _ _ _ h _ => h) (hframe _) rcs_same (CmLe.refl _)
              simp only [WrOk]
              exact ⟨r0, hr0⟩
            · exact hi.comm.set hw (fun _ _ => ⟨rfl, rfl, by simp, by simp⟩)
        · simp at h
      · simp at h
    · simp at h
  · simp at h

theorem Inv.commitRename {s s' : State} {w : Nat} (hi : Inv s) (h : s.commitRename w = some s') : Inv s' := by
  unfold State.commitRename at h
  split at h
  · rename_i wr hw
    split at h
    · rename_i ino hino
      simp only at h
      have hok := hi.wr w wr hw
      have hdisk : ∀ (st : IState) (hst : ino.st = st) (w0 : Nat), st = .wip w0 →
          DiskIno (fun k => if k = wr.key then some wr.wip else s.disk k)
            (s.inodes.set wr.wip { ino with st := .pub wr.key }) := by
        intro st hst w0 hw0 k i hk
        simp only at hk
        split at hk
        · rename_i hkk
          simp at hk; subst hk; subst hkk
          exact ⟨_, set_get_self (lt_of_get_some hino), rfl⟩
        · obtain ⟨ino', h1, h2⟩ := hi.diskIno k i hk
          exact pub_set_wip hino (by rw [hst, hw0]) i ino' k h1 h2
      split at h
      · rename_i rc hph
        simp only [WrOk, hph] at hok
        obtain ⟨⟨r0, hr0, hk0⟩, ino0, hino0, hst0, hdata0⟩ := hok
        rw [hino] at hino0; simp at hino0; subst hino0
        simp only [Option.some.injEq] at h; subst h
        refine ⟨hi.pool, ?_, hi.fd, hi.buf, hi.file,
          hi.fileIno.of_same (fun f fo h => Or.inl ⟨fo, h, rfl, rfl⟩) (pub_set_wip hino hst0),
          hi.inoComm.set_wip hino hst0 (fun k hk => by simp at hk; subst hk; exact hdata0),
          hdisk _ rfl w hst0, ?_, hi.rd, ?_⟩
        · refine hi.mem.congr (memHolders_set_writer_same hw (fun i => ?_))
          simp [Writer.holdsMem, hph]
        · refine hi.wr.set ?_ (fun _ _ _ _ h _ => h)
            (fun w' hne => inodes_set_frame _ hino (by rw [hst0]; intro hc; cases hc; exact hne rfl))
            rcs_same (CmLe.refl _)
          simp only [WrOk]
          exact ⟨r0, hr0⟩
        · exact hi.comm.set hw (fun _ _ => ⟨rfl, rfl, by simp, by simp⟩)
      · rename_i hph
        split at h
        · rename_i hd
          simp only [WrOk, hph, hd, if_true] at hok
          obtain ⟨ino0, hino0, hst0, hdata0⟩ := hok
          rw [hino] at hino0; simp at hino0; subst hino0
          simp only [Option.some.injEq] at h; subst h
          have hle := CmLe.add s.committed wr.key wr.written
          refine ⟨hi.pool, ?_, hi.fd, hi.buf.mono hle, hi.file,
            hi.fileIno.of_same (fun f fo h => Or.inl ⟨fo, h, rfl, rfl⟩) (pub_set_wip hino hst0),
            (hi.inoComm.mono hle).set_wip hino hst0 (fun k hk => by
              simp at hk; subst hk; simp only; rw [hdata0]; exact mem_addCommitted _ _ _),
            hdisk _ rfl w hst0, ?_, hi.rd, ?_⟩
          · refine hi.mem.congr (memHolders_set_writer_same hw (fun i => ?_))
            simp [Writer.holdsMem, hph]
          · refine hi.wr.set ?_ (fun _ _ _ _ h _ => h)
              (fun w' hne => inodes_set_frame _ hino (by rw [hst0]; intro hc; cases hc; exact hne rfl))
              rcs_same hle
            simp only [WrOk]
          · have h0 : CommInv s.committed (setWPhase s.writers w wr .committed) :=
              hi.comm.set hw (fun h1 _ => absurd hph h1)
            exact h0.add (w := w) (wr := { wr with phase := .committed }) (set_get_self (lt_of_get_some hw))
              (by simp) (by simp)
        · simp at h
      · simp at h
    · simp at h
  · simp at h

theorem Inv.commitDone {s s' : State} {w : Nat} (hi : Inv s) (h : s.commitDone w = some s') : Inv s' := by
  unfold State.commitDone at h
  split at h
  · rename_i wr hw
    split at h
    · rename_i rc hph
      simp only [Option.some.injEq] at h; subst h
      have hold : Writer.holdsMem rc wr = true := by simp [Writer.holdsMem, hph]
      have hheld : 1 ≤ memHolders s.readers s.writers rc := by
        have := countP_pos_of_get (p := Writer.holdsMem rc) hw hold
        simp only [memHolders]; omega
      obtain ⟨h1, h2, h3, _⟩ := LRU.dec_spec (h' := memHolders s.readers (setWPhase s.writers w wr .committed))
        hi.mem hheld
        (by
          have := memHolders_set_writer s.readers { wr with phase := .committed } rc hw
          rw [hold] at this
          have h2 : Writer.holdsMem rc { wr with phase := .committed } = false := by simp [Writer.holdsMem]
          rw [h2] at this
          simpa [setWPhase] using this)
        (fun j hj => by
          have := memHolders_set_writer s.readers { wr with phase := .committed } j hw
          have h1 : Writer.holdsMem j wr = false := by
            simp [Writer.holdsMem, hph]; exact fun h => hj h.symm
          have h2 : Writer.holdsMem j { wr with phase := .committed } = false := by simp [Writer.holdsMem]
          rw [h1, h2] at this
          simpa [setWPhase] using this)
      refine ⟨hi.pool.evict _, h1, hi.fd, hi.buf.eff h2 (no_new_of_len h3), hi.file, hi.fileIno, hi.inoComm,
        hi.diskIno, ?_, ?_, ?_⟩
      · refine hi.wr.set ?_ (fun w' _ => evictBuf_frame hi.buf h2 w') (fun _ _ _ _ h _ => h) h2.rcs_key (CmLe.refl _)
        simp only [WrOk]
      · exact hi.rd.frame h2.rcs_keyval rcs_same_kv (fun _ _ _ h _ => h)
      · exact hi.comm.set hw (fun _ _ => ⟨rfl, rfl, by simp, by simp⟩)
    · simp at h
  · simp at h

/-! ### every reachable state satisfies the invariant -/

theorem Inv.step? {s s' : State} {a : Step} (hi : Inv s) (h : s.step? a = some s') : Inv s' := by
  cases a with
  | addOpen k o reuse => exact hi.addOpen h
  | write w p => exact hi.write h
  | commitMemPublish w => exact hi.commitMemPublish h
  | commitDiskWrite w f => exact hi.commitDiskWrite h
  | commitRename w => exact hi.commitRename h
  | commitDone w => exact hi.commitDone h
  | abort w => exact hi.abort h
  | closeWriter w => exact hi.closeWriter h
  | getMem k o => exact hi.getMem h
  | getFd k o => exact hi.getFd h
  | getOpen k o => exact hi.getOpen h
  | read r => exact hi.read h
  | closeReader r => exact hi.closeReader h
  | closeReaderDone r => exact hi.closeReaderDone h

theorem Inv.step {s : State} (a : Step) (hi : Inv s) : Inv (s.step a) := by
  unfold State.step
  cases h : s.step? a with
  | none => exact hi
  | some s' => exact hi.step? h

theorem Inv.run {s : State} (steps : List Step) (hi : Inv s) : Inv (s.run steps) := by
  induction steps generalizing s with
  | nil => exact hi
  | cons a t ih => exact ih (hi.step a)

theorem Inv.new (memCap fdCap : Nat) (cfg : Config) : Inv (State.new memCap fdCap cfg) := by
  refine ⟨?_, ⟨?_, ?_, ?_, ?_⟩, ⟨?_, ?_, ?_, ?_⟩, ?_, ?_, ?_, ?_, ?_, ?_, ?_, ?_⟩ <;>
    simp [State.new, PoolInv, BufInv, FileInv, FileIno, InoComm, DiskIno, WrInv, RdInv, CommInv, memHolders,
      fdHolders]

/-! ### consequences of the invariant -/

theorem Inv.reader_mem_alive {s : State} (hi : Inv s) {r : Nat} {rd : Reader} (hr : s.readers[r]? = some rd)
    (ho : rd.phase = .opened) {b rc : Nat} (hs : rd.src = .mem b rc) :
    ∃ x : RC, s.mem.rcs[rc]? = some x ∧ x.val = b ∧ x.key = rd.key ∧ x.alive := by
  have hok := hi.rd r rd hr
  simp only [RdOk, ho, hs] at hok
  obtain ⟨x, h1, h2, h3⟩ := hok
  have hold : Reader.holdsMem rc rd = true := by simp [Reader.holdsMem, ho, hs]
  have hheld : 1 ≤ memHolders s.readers s.writers rc := by
    have := countP_pos_of_get (p := Reader.holdsMem rc) hr hold
    simp only [memHolders]; omega
  exact ⟨x, h1, h2, h3, hi.mem.alive_of_held h1 hheld⟩

theorem Inv.reader_fd_alive {s : State} (hi : Inv s) {r : Nat} {rd : Reader} (hr : s.readers[r]? = some rd)
    (ho : rd.phase = .opened) {f rc : Nat} (hs : rd.src = .fdc f rc) :
    ∃ x : RC, s.fd.rcs[rc]? = some x ∧ x.val = f ∧ x.key = rd.key ∧ x.alive := by
  have hok := hi.rd r rd hr
  simp only [RdOk, ho, hs] at hok
  obtain ⟨x, h1, h2, h3⟩ := hok
  have hold : Reader.holdsFd rc rd = true := by simp [Reader.holdsFd, ho, hs]
  have hheld : 1 ≤ fdHolders s.readers rc := countP_pos_of_get (p := Reader.holdsFd rc) hr hold
  exact ⟨x, h1, h2, h3, hi.fd.alive_of_held h1 hheld⟩

theorem Inv.writer_mem_alive {s : State} (hi : Inv s) {w : Nat} {wr : Writer} (hw : s.writers[w]? = some wr)
    {rc : Nat} (hp : wr.phase = .published rc ∨ wr.phase = .written rc ∨ wr.phase = .finishing rc) :
    ∃ x : RC, s.mem.rcs[rc]? = some x ∧ x.alive := by
  have hold : Writer.holdsMem rc wr = true := by
    rcases hp with hp | hp | hp <;> simp [Writer.holdsMem, hp]
  have hheld : 1 ≤ memHolders s.readers s.writers rc := by
    have := countP_pos_of_get (p := Writer.holdsMem rc) hw hold
    simp only [memHolders]; omega
  exact hi.mem.get_of_held hheld

/-- the file behind an open descriptor of key `k` holds a complete committed value of `k`. -/
theorem Inv.file_committed {s : State} (hi : Inv s) {f : Nat} {fo : FileObj} (hf : s.files[f]? = some fo) :
    ∃ ino : Inode, s.inodes[fo.inode]? = some ino ∧ ino.st = .pub fo.key ∧ ino.data ∈ s.committed fo.key := by
  obtain ⟨ino, h1, h2⟩ := hi.fileIno f fo hf
  exact ⟨ino, h1, h2, hi.inoComm _ ino _ h1 h2⟩

theorem Inv.visible_committed {s : State} (hi : Inv s) {r : Nat} {rd : Reader} (hr : s.readers[r]? = some rd)
    (ho : rd.phase = .opened) : ∃ v : Bytes, s.visible rd = some v ∧ v ∈ s.committed rd.key := by
  cases hs : rd.src with
  | mem b rc =>
    obtain ⟨x, h1, h2, h3, h4⟩ := hi.reader_mem_alive hr ho hs
    obtain ⟨bf, g1, _, g3⟩ := hi.buf rc x h1 h4
    refine ⟨bf.data, ?_, by rw [← h3]; exact g3⟩
    simp only [State.visible, hs]; rw [← h2, g1]; rfl
  | fdc f rc =>
    obtain ⟨x, h1, h2, h3, h4⟩ := hi.reader_fd_alive hr ho hs
    obtain ⟨fo, g1, _, g3, g4⟩ := hi.file rc x h1 h4
    obtain ⟨ino, k1, _, k3⟩ := hi.file_committed g1
    refine ⟨ino.data, ?_, by rw [← h3, ← g4]; exact k3⟩
    simp only [State.visible, hs]; rw [← h2, g1]; simp [g3, k1]
  | own f d =>
    have hok := hi.rd r rd hr
    simp only [RdOk, ho, hs] at hok
    obtain ⟨fo, g1, _, g3, g4⟩ := hok
    obtain ⟨ino, k1, _, k3⟩ := hi.file_committed g1
    refine ⟨ino.data, ?_, by rw [← g4]; exact k3⟩
    simp only [State.visible, hs]; rw [g1]; simp [g3, k1]

/-- a published inode is never written again. -/
theorem Inv.pub_immutable_step? {s s' : State} {a : Step} (hi : Inv s) (h : s.step? a = some s')
    {i : Nat} {ino : Inode} {k : Nat} (hino : s.inodes[i]? = some ino) (hst : ino.st = .pub k) :
    s'.inodes[i]? = some ino := by
  have hset : ∀ (w : Nat) (wr : Writer) (x : Inode), s.writers[w]? = some wr →
      (∃ ino0 : Inode, s.inodes[wr.wip]? = some ino0 ∧ ino0.st = .wip w) →
      (s.inodes.set wr.wip x)[i]? = some ino := by
    intro w wr x _ hw
    obtain ⟨ino0, h1, h2⟩ := hw
    have : i ≠ wr.wip := by
      intro hc; subst hc
      rw [hino] at h1; simp at h1; subst h1
      rw [hst] at h2; cases h2
    rw [set_get_ne this]; exact hino
  cases a with
  | addOpen k0 o reuse =>
    simp only [State.step?, State.addOpen] at h
    split at h
    · simp at h; subst h; exact append_get_old hino
    · split at h
      · simp at h; subst h; exact append_get_old hino
      · split at h
        · split at h
          · simp at h; subst h; exact append_get_old hino
          · simp at h
        · simp at h
  | write w p =>
    simp only [State.step?, State.write] at h
    split at h
    · rename_i wr hw
      split at h
      · rename_i hph
        have hok := hi.wr w wr hw
        simp only [WrOk, hph.1] at hok
        split at h
        · rename_i hd
          simp only [hd, if_true] at hok
          obtain ⟨ino0, h1, h2, _⟩ := hok
          split at h
          · simp at h; subst h; exact hset w wr _ hw ⟨ino0, h1, h2⟩
          · simp at h
        · split at h
          · simp at h; subst h; exact hino
          · simp at h
      · simp at h
    · simp at h
  | commitMemPublish w =>
    simp only [State.step?, State.commitMemPublish] at h
    split at h
    · split at h
      · split at h
        · simp at h; subst h; exact hino
        · simp at h
      · simp at h
    · simp at h
  | commitDiskWrite w f =>
    simp only [State.step?, State.commitDiskWrite] at h
    split at h
    · rename_i wr hw
      split at h
      · rename_i rc hph
        have hok := hi.wr w wr hw
        simp only [WrOk, hph] at hok
        obtain ⟨_, _, ino0, h1, h2, _⟩ := hok
        split at h
        · split at h
          · split at h
            · simp at h; subst h; exact hset w wr _ hw ⟨ino0, h1, h2⟩
            · simp at h; subst h; exact hset w wr _ hw ⟨ino0, h1, h2⟩
          · simp at h
        · simp at h
      · simp at h
    · simp at h
  | commitRename w =>
    simp only [State.step?, State.commitRename] at h
    split at h
    · rename_i wr hw
      split at h
      · have hok := hi.wr w wr hw
        split at h
        · rename_i rc hph
          simp only [WrOk, hph] at hok
          obtain ⟨_, ino0, h1, h2, _⟩ := hok
          simp at h; subst h; exact hset w wr _ hw ⟨ino0, h1, h2⟩
        · rename_i hph
          split at h
          · rename_i hd
            simp only [WrOk, hph, hd, if_true] at hok
            obtain ⟨ino0, h1, h2, _⟩ := hok
            simp at h; subst h; exact hset w wr _ hw ⟨ino0, h1, h2⟩
          · simp at h
        · simp at h
      · simp at h
    · simp at h
  | commitDone w =>
    simp only [State.step?, State.commitDone] at h
    split at h
    · split at h
      · simp at h; subst h; exact hino
      · simp at h
    · simp at h
  | abort w =>
    simp only [State.step?, State.abort] at h
    split at h
    · split at h
      · split at h
        · simp at h; subst h; exact hino
        · simp at h; subst h; exact hino
      · simp at h
    · simp at h
  | closeWriter w =>
    simp only [State.step?, State.closeWriter] at h
    split at h
    · simp at h; subst h; exact hino
    · simp at h
  | getMem k0 o =>
    simp only [State.step?, State.getMem] at h
    split at h
    · simp at h
    · split at h
      · split at h
        · simp at h; subst h; exact hino
        · simp at h
      · simp at h
  | getFd k0 o =>
    simp only [State.step?, State.getFd] at h
    split at h
    · simp at h
    · split at h
      · split at h
        · simp at h; subst h; exact hino
        · simp at h
      · simp at h
  | getOpen k0 o =>
    simp only [State.step?, State.getOpen] at h
    split at h
    · simp at h; subst h; exact hino
    · simp at h
  | read r =>
    simp only [State.step?, State.read] at h
    split at h
    · split at h
      · simp at h; subst h; exact hino
      · simp at h
    · simp at h
  | closeReader r =>
    simp only [State.step?, State.closeReader] at h
    split at h
    · split at h
      · split at h
        · simp at h; subst h; exact hino
        · simp at h; subst h; exact hino
        · simp at h; subst h; exact hino
        · split at h
          · simp at h; subst h; exact hino
          · simp at h
      · simp at h
    · simp at h
  | closeReaderDone r =>
    simp only [State.step?, State.closeReaderDone] at h
    split at h
    · split at h
      · simp at h; subst h; exact hino
      · simp at h
    · simp at h

theorem Inv.pub_immutable_step {s : State} (a : Step) (hi : Inv s)
    {i : Nat} {ino : Inode} {k : Nat} (hino : s.inodes[i]? = some ino) (hst : ino.st = .pub k) :
    (s.step a).inodes[i]? = some ino := by
  unfold State.step
  cases h : s.step? a with
  | none => exact hino
  | some s' => exact hi.pub_immutable_step? h hino hst

theorem Inv.pub_immutable_run {s : State} (steps : List Step) (hi : Inv s)
    {i : Nat} {ino : Inode} {k : Nat} (hino : s.inodes[i]? = some ino) (hst : ino.st = .pub k) :
    (s.run steps).inodes[i]? = some ino := by
  induction steps generalizing s with
  | nil => exact hino
  | cons a t ih => exact ih (hi.step a) (hi.pub_immutable_step a hino hst)

/-! ## Part C — `MemoryCache` -/

namespace MemCache

structure MInv (s : MState) : Prop where
  wr : ∀ (w : Nat) (wr : MWriter), s.writers[w]? = some wr → wr.opened = true →
    ∃ d : MBuf, s.bufs[wr.buf]? = some d ∧ d.owner = some w ∧ d.data = wr.written
  map : ∀ (k b : Nat), s.membuf k = some b →
    ∃ d : MBuf, s.bufs[b]? = some d ∧ d.owner = none ∧ d.data ∈ s.committed k
  rd : ∀ (r : Nat) (rd : MReader), s.readers[r]? = some rd →
    ∃ d : MBuf, s.bufs[rd.buf]? = some d ∧ d.owner = none ∧ d.data ∈ s.committed rd.key
  comm : ∀ (k : Nat) (v : Bytes), v ∈ s.committed k →
    ∃ (w : Nat) (wr : MWriter), s.writers[w]? = some wr ∧ wr.key = k ∧ wr.written = v ∧ wr.opened = false

theorem MInv.init : MInv {} := by
  refine ⟨?_, ?_, ?_, ?_⟩ <;> simp

theorem MInv.step? {s s' : MState} {a : MStep} (hi : MInv s) (h : s.step? a = some s') : MInv s' := by
  cases a with
  | add k =>
    simp only [MState.step?, MState.add, Option.some.injEq] at h; subst h
    refine ⟨?_, ?_, ?_, ?_⟩
    · intro w wr hw ho
      rw [append_some_iff] at hw
      rcases hw with hw | ⟨rfl, rfl⟩
      · obtain ⟨d, h1, h2⟩ := hi.wr w wr hw ho
        exact ⟨d, append_get_old h1, h2⟩
      · exact ⟨_, append_get_new, rfl, rfl⟩
    · intro k0 b hb
      obtain ⟨d, h1, h2⟩ := hi.map k0 b hb
      exact ⟨d, append_get_old h1, h2⟩
    · intro r rd hr
      obtain ⟨d, h1, h2⟩ := hi.rd r rd hr
      exact ⟨d, append_get_old h1, h2⟩
    · intro k0 v hv
      obtain ⟨w, wr, h1, h2⟩ := hi.comm k0 v hv
      exact ⟨w, wr, append_get_old h1, h2⟩
  | write w p =>
    simp only [MState.step?, MState.write] at h
    split at h
    · rename_i wr hw
      split at h
      · rename_i hopen
        obtain ⟨d0, hd0, hown0, hdata0⟩ := hi.wr w wr hw hopen
        simp only [hd0, Option.some.injEq] at h; subst h
        have hother : ∀ (b : Nat) (d : MBuf), s.bufs[b]? = some d → d.owner ≠ some w →
            (s.bufs.set wr.buf { d0 with data := d0.data ++ p })[b]? = some d := by
          intro b d hb hne
          have : b ≠ wr.buf := by
            intro hc; subst hc
            rw [hd0] at hb; simp at hb; subst hb
            exact hne hown0
          rw [set_get_ne this]; exact hb
        refine ⟨?_, ?_, ?_, ?_⟩
        · intro w' wr' hw' ho'
          rw [set_some_iff] at hw'
          rcases hw' with ⟨rfl, _, rfl⟩ | ⟨hne, hw'⟩
          · exact ⟨_, set_get_self (lt_of_get_some hd0), hown0, by simp [hdata0]⟩
          · obtain ⟨d, h1, h2, h3⟩ := hi.wr w' wr' hw' ho'
            exact ⟨d, hother _ d h1 (by rw [h2]; intro hc; simp at hc; exact hne hc), h2, h3⟩
        · intro k0 b hb
          obtain ⟨d, h1, h2, h3⟩ := hi.map k0 b hb
          exact ⟨d, hother _ d h1 (by rw [h2]; simp), h2, h3⟩
        · intro r rd hr
          obtain ⟨d, h1, h2, h3⟩ := hi.rd r rd hr
          exact ⟨d, hother _ d h1 (by rw [h2]; simp), h2, h3⟩
        · intro k0 v hv
          obtain ⟨w', wr', h1, h2, h3, h4⟩ := hi.comm k0 v hv
          have : w' ≠ w := by
            intro hc; subst hc
            rw [hw] at h1; simp at h1; subst h1
            rw [hopen] at h4; simp at h4
          exact ⟨w', wr', by rw [set_get_ne this]; exact h1, h2, h3, h4⟩
      · simp at h
    · simp at h
  | commit w =>
    simp only [MState.step?, MState.commit] at h
    split at h
    · rename_i wr hw
      split at h
      · rename_i hopen
        obtain ⟨d0, hd0, hown0, hdata0⟩ := hi.wr w wr hw hopen
        simp only [hd0, Option.some.injEq] at h; subst h
        have hle := CmLe.add s.committed wr.key wr.written
        have hother : ∀ (b : Nat) (d : MBuf), s.bufs[b]? = some d → d.owner ≠ some w →
            (s.bufs.set wr.buf { d0 with owner := none })[b]? = some d := by
          intro b d hb hne
          have : b ≠ wr.buf := by
            intro hc; subst hc
            rw [hd0] at hb; simp at hb; subst hb
            exact hne hown0
          rw [set_get_ne this]; exact hb
        refine ⟨?_, ?_, ?_, ?_⟩
        · intro w' wr' hw' ho'
          rw [set_some_iff] at hw'
          rcases hw' with ⟨rfl, _, rfl⟩ | ⟨hne, hw'⟩
          · simp at ho'
          · obtain ⟨d, h1, h2, h3⟩ := hi.wr w' wr' hw' ho'
            exact ⟨d, hother _ d h1 (by rw [h2]; intro hc; simp at hc; exact hne hc), h2, h3⟩
        · intro k0 b hb
          simp only at hb
          split at hb
          · rename_i hk
            simp at hb; subst hb; subst hk
            exact ⟨_, set_get_self (lt_of_get_some hd0), rfl, by simp only; rw [hdata0]; exact mem_addCommitted _ _ _⟩
          · obtain ⟨d, h1, h2, h3⟩ := hi.map k0 b hb
            exact ⟨d, hother _ d h1 (by rw [h2]; simp), h2, hle _ _ h3⟩
        · intro r rd hr
          obtain ⟨d, h1, h2, h3⟩ := hi.rd r rd hr
          exact ⟨d, hother _ d h1 (by rw [h2]; simp), h2, hle _ _ h3⟩
        · intro k0 v hv
          simp only [addCommitted] at hv
          have hold : ∀ v, v ∈ s.committed k0 → ∃ (w0 : Nat) (wr0 : MWriter),
              (s.writers.set w { wr with opened := false })[w0]? = some wr0 ∧ wr0.key = k0 ∧ wr0.written = v ∧
                wr0.opened = false := by
            intro v hv
            obtain ⟨w', wr', h1, h2, h3, h4⟩ := hi.comm k0 v hv
            have : w' ≠ w := by
              intro hc; subst hc
              rw [hw] at h1; simp at h1; subst h1
              rw [hopen] at h4; simp at h4
            exact ⟨w', wr', by rw [set_get_ne this]; exact h1, h2, h3, h4⟩
          split at hv
          · rename_i hk
            rw [List.mem_append] at hv
            rcases hv with hv | hv
            · exact hold v hv
            · simp at hv; subst hv
              exact ⟨w, _, set_get_self (lt_of_get_some hw), hk.symm, rfl, rfl⟩
          · exact hold v hv
      · simp at h
    · simp at h
  | abort w =>
    simp only [MState.step?, MState.abort] at h
    split at h
    · rename_i wr hw
      split at h
      · rename_i hopen
        simp only [Option.some.injEq] at h; subst h
        refine ⟨?_, hi.map, hi.rd, ?_⟩
        · intro w' wr' hw' ho'
          rw [set_some_iff] at hw'
          rcases hw' with ⟨rfl, _, rfl⟩ | ⟨hne, hw'⟩
          · simp at ho'
          · exact hi.wr w' wr' hw' ho'
        · intro k0 v hv
          obtain ⟨w', wr', h1, h2, h3, h4⟩ := hi.comm k0 v hv
          have : w' ≠ w := by
            intro hc; subst hc
            rw [hw] at h1; simp at h1; subst h1
            rw [hopen] at h4; simp at h4
          exact ⟨w', wr', by rw [set_get_ne this]; exact h1, h2, h3, h4⟩
      · simp at h
    · simp at h
  | get k =>
    simp only [MState.step?, MState.get] at h
    split at h
    · rename_i b hb
      simp only [Option.some.injEq] at h; subst h
      refine ⟨hi.wr, hi.map, ?_, hi.comm⟩
      intro r rd hr
      rw [append_some_iff] at hr
      rcases hr with hr | ⟨_, rfl⟩
      · exact hi.rd r rd hr
      · exact hi.map k b hb
    · simp at h

theorem MInv.step {s : MState} (a : MStep) (hi : MInv s) : MInv (s.step a) := by
  unfold MState.step
  cases h : s.step? a with
  | none => exact hi
  | some s' => exact hi.step? h

theorem MInv.run {s : MState} (steps : List MStep) (hi : MInv s) : MInv (s.run steps) := by
  induction steps generalizing s with
  | nil => exact hi
  | cons a t ih => exact ih (hi.step a)

end MemCache

end SV.ChunkCache
