/-
Helper lemmas for C06 part B: the model of fs/remote/blob.go (`SV/Model/Blob.lean`).
Core-only.
-/
import SV.Model.Blob
import SV.Lemmas.Region
import SV.Props.C06

namespace SV.Blob
open SV.Region

/-! ### floor / ceil arithmetic -/

theorem floorU_le (n c : Nat) : floorU n c ≤ n := Nat.div_mul_le_self n c

theorem lt_floorU_add (n c : Nat) (h : 0 < c) : n < floorU n c + c := Nat.lt_div_mul_add h

theorem floorU_mod (n c : Nat) : floorU n c % c = 0 := Nat.mul_mod_left ..

theorem ceilU_eq (n c : Nat) : ceilU n c = floorU n c + c := Nat.succ_mul ..

/-- A multiple of `c` that is at most `x` is at most `floorU x c`. -/
theorem aligned_le_floorU {i x c : Nat} (hi : i % c = 0) (h : i ≤ x) :
    i ≤ floorU x c := by
  have hq : i / c * c = i := Nat.div_mul_cancel (Nat.dvd_of_mod_eq_zero hi)
  have h1 : i / c ≤ x / c := Nat.div_le_div_right h
  have h2 : i / c * c ≤ x / c * c := Nat.mul_le_mul_right c h1
  unfold floorU; omega

/-- For an aligned loop variable the bound `ceil(x) - 1` is the same as the bound `x`. -/
theorem aligned_le_ceil {i x c : Nat} (hc : 0 < c) (hi : i % c = 0) :
    i ≤ ceilU x c - 1 ↔ i ≤ x := by
  have hf := floorU_le x c
  have hl := lt_floorU_add x c hc
  rw [ceilU_eq]
  constructor
  · intro h
    by_cases hx : i ≤ x
    · exact hx
    · exfalso
      -- i and floorU x c + c are both multiples of c, and floorU x c + c - 1 ≥ i > x ≥ floorU x c
      have hq : i / c * c = i := Nat.div_mul_cancel (Nat.dvd_of_mod_eq_zero hi)
      have h3 : i < (x / c + 1) * c := by rw [Nat.succ_mul]; unfold floorU at h; omega
      rw [← hq] at h3
      have h4 : i / c < x / c + 1 := Nat.lt_of_mul_lt_mul_right h3
      have h5 : i / c * c ≤ x / c * c := Nat.mul_le_mul_right c (by omega)
      unfold floorU at hf; omega
  · intro h; omega

/-! ### slices -/

@[simp] theorem slice_length (b : Bytes) (lo len : Nat) :
    (slice b lo len).length = min len (b.length - lo) := by
  simp [slice]

theorem slice_zero (b : Bytes) (lo : Nat) : slice b lo 0 = [] := by simp [slice]

theorem slice_slice (b : Bytes) (lo len lo' len' : Nat) (h : lo' + len' ≤ len) :
    slice (slice b lo len) lo' len' = slice b (lo + lo') len' := by
  unfold slice
  rw [List.drop_take, List.take_take, List.drop_drop]
  congr 1; omega

theorem slice_append (b : Bytes) (a m l : Nat) :
    slice b a m ++ slice b (a + m) l = slice b a (m + l) := by
  unfold slice
  rw [List.take_add, List.drop_drop]

theorem take_slice (b : Bytes) (lo len m : Nat) :
    (slice b lo len).take m = slice b lo (min m len) := by
  unfold slice; rw [List.take_take]

theorem drop_slice (b : Bytes) (lo len m : Nat) :
    (slice b lo len).drop m = slice b (lo + m) (len - m) := by
  unfold slice; rw [List.drop_take, List.drop_drop]

/-! ### walkChunks -/

/-- The chunk of the grid that starts at `i`. -/
def chunkAt (P : Params) (i : Nat) : Chunk := ⟨i, min (i + P.chunk - 1) (P.size - 1)⟩

/-- Number of iterations of `for i := b; i <= e && i < size; i += chunk`. -/
def numChunks (P : Params) (b e : Nat) : Nat :=
  if b ≤ e ∧ b < P.size then (min e (P.size - 1) - b) / P.chunk + 1 else 0

/-- Closed form of the chunk walk, without fuel. -/
def chunkList (P : Params) (b e : Nat) : List Chunk :=
  (List.range (numChunks P b e)).map (fun j => chunkAt P (b + j * P.chunk))

/-- A chunk of the grid: aligned start inside the blob, end clipped at the blob end. -/
def GridChunk (P : Params) (c : Chunk) : Prop :=
  c.b % P.chunk = 0 ∧ c.b < P.size ∧ c.e = min (c.b + P.chunk - 1) (P.size - 1)

instance (P : Params) (c : Chunk) : Decidable (GridChunk P c) := by
  unfold GridChunk; infer_instance

theorem lt_numChunks_iff (P : Params) (hc : 0 < P.chunk) (b e j : Nat) :
    j < numChunks P b e ↔ (b + j * P.chunk ≤ e ∧ b + j * P.chunk < P.size) := by
  unfold numChunks
  split
  · rename_i h
    rw [Nat.lt_succ_iff, Nat.le_div_iff_mul_le hc]
    omega
  · rename_i h
    have : 0 ≤ j * P.chunk := Nat.zero_le _
    omega

theorem numChunks_step (P : Params) (hc : 0 < P.chunk) (i e : Nat) (h1 : i ≤ e) (h2 : i < P.size) :
    numChunks P i e = numChunks P (i + P.chunk) e + 1 := by
  unfold numChunks
  rw [if_pos ⟨h1, h2⟩]
  split
  · rename_i h
    have : min e (P.size - 1) - i = (min e (P.size - 1) - (i + P.chunk)) + P.chunk := by omega
    rw [this, Nat.add_div_right _ hc]
  · rename_i h
    have : min e (P.size - 1) - i < P.chunk := by omega
    rw [Nat.div_eq_of_lt this]

theorem numChunks_zero (P : Params) (i e : Nat) (h : ¬ (i ≤ e ∧ i < P.size)) :
    numChunks P i e = 0 := by
  unfold numChunks; rw [if_neg h]

theorem chunkList_step (P : Params) (hc : 0 < P.chunk) (i e : Nat) (h1 : i ≤ e) (h2 : i < P.size) :
    chunkList P i e = chunkAt P i :: chunkList P (i + P.chunk) e := by
  unfold chunkList
  rw [numChunks_step P hc i e h1 h2, List.range_succ_eq_map, List.map_cons, List.map_map]
  congr 1
  · simp
  · apply List.map_congr_left
    intro j _
    simp only [Function.comp, Nat.succ_eq_add_one, Nat.succ_mul]
    congr 1; omega

/-- Fuel independence: any fuel `≥ size - i` gives the closed form. -/
theorem chunksFrom_eq_chunkList (P : Params) (hc : 0 < P.chunk) (e : Nat) :
    ∀ fuel i, P.size - i ≤ fuel → chunksFrom P e fuel i = chunkList P i e := by
  intro fuel
  induction fuel with
  | zero =>
    intro i h
    have : numChunks P i e = 0 := numChunks_zero P i e (by omega)
    simp [chunksFrom, chunkList, this]
  | succ fuel ih =>
    intro i h
    unfold chunksFrom
    split
    · rename_i hcond
      rw [ih (i + P.chunk) (by omega), chunkList_step P hc i e hcond.1 hcond.2]
      rfl
    · rename_i hcond
      simp [chunkList, numChunks_zero P i e hcond]

theorem chunksFrom_fuel_indep (P : Params) (hc : 0 < P.chunk) (e i f1 f2 : Nat)
    (h1 : P.size - i ≤ f1) (h2 : P.size - i ≤ f2) :
    chunksFrom P e f1 i = chunksFrom P e f2 i := by
  rw [chunksFrom_eq_chunkList P hc e f1 i h1, chunksFrom_eq_chunkList P hc e f2 i h2]

theorem walkChunks_eq (P : Params) (hc : 0 < P.chunk) (b e : Nat) :
    walkChunks P b e = if b % P.chunk = 0 then some (chunkList P b e) else none := by
  unfold walkChunks
  by_cases h : b % P.chunk = 0
  · simp [h, chunksFrom_eq_chunkList P hc e (P.size + 1) b (by omega)]
  · simp [h]

theorem chunkList_length (P : Params) (b e : Nat) : (chunkList P b e).length = numChunks P b e := by
  simp [chunkList]

theorem chunkList_getElem (P : Params) (b e j : Nat) (h : j < (chunkList P b e).length) :
    (chunkList P b e)[j] = chunkAt P (b + j * P.chunk) := by
  simp [chunkList]

theorem mem_chunkList (P : Params) (b e : Nat) (c : Chunk) :
    c ∈ chunkList P b e ↔ ∃ j, j < numChunks P b e ∧ c = chunkAt P (b + j * P.chunk) := by
  simp only [chunkList, List.mem_map, List.mem_range]
  constructor
  · rintro ⟨j, hj, rfl⟩; exact ⟨j, hj, rfl⟩
  · rintro ⟨j, hj, rfl⟩; exact ⟨j, hj, rfl⟩

theorem gridChunk_chunkAt (P : Params) (i : Nat) (hi : i % P.chunk = 0) (h : i < P.size) :
    GridChunk P (chunkAt P i) := ⟨hi, h, rfl⟩

theorem GridChunk.eq_chunkAt {P : Params} {c : Chunk} (h : GridChunk P c) : c = chunkAt P c.b := by
  cases c; simp only [chunkAt]; congr 1; exact h.2.2

theorem GridChunk.le {P : Params} {c : Chunk} (hc : 0 < P.chunk) (h : GridChunk P c) :
    c.b ≤ c.e ∧ c.e < P.size ∧ c.e < c.b + P.chunk := by
  obtain ⟨_, h2, h3⟩ := h
  omega

theorem gridChunk_of_mem_chunkList (P : Params) (hc : 0 < P.chunk) (b e : Nat)
    (hb : b % P.chunk = 0) (c : Chunk) (h : c ∈ chunkList P b e) :
    GridChunk P c ∧ b ≤ c.b ∧ c.b ≤ e := by
  obtain ⟨j, hj, rfl⟩ := (mem_chunkList P b e c).mp h
  have := (lt_numChunks_iff P hc b e j).mp hj
  refine ⟨gridChunk_chunkAt P _ ?_ this.2, ?_, this.1⟩
  · rw [Nat.add_mul_mod_self_right]; exact hb
  · simp only [chunkAt]; omega

/-- The chunks of a walk cover exactly `[b, min (ceil e - 1) (size - 1)]`. -/
theorem chunkList_cover (P : Params) (hc : 0 < P.chunk) (b e : Nat) (hb : b % P.chunk = 0) (x : Nat) :
    (∃ c ∈ chunkList P b e, c.b ≤ x ∧ x ≤ c.e) ↔
      (b ≤ x ∧ x ≤ ceilU e P.chunk - 1 ∧ x < P.size) := by
  constructor
  · rintro ⟨c, hmem, h1, h2⟩
    obtain ⟨j, hj, rfl⟩ := (mem_chunkList P b e c).mp hmem
    have hlt := (lt_numChunks_iff P hc b e j).mp hj
    have hal : (b + j * P.chunk) % P.chunk = 0 := by rw [Nat.add_mul_mod_self_right]; exact hb
    have := aligned_le_floorU hal hlt.1
    simp only [chunkAt] at h1 h2
    rw [ceilU_eq]
    omega
  · rintro ⟨h1, h2, h3⟩
    let j := (x - b) / P.chunk
    have hj1 : j * P.chunk ≤ x - b := Nat.div_mul_le_self _ _
    have hj2 : x - b < j * P.chunk + P.chunk := Nat.lt_div_mul_add hc
    have hal : (b + j * P.chunk) % P.chunk = 0 := by rw [Nat.add_mul_mod_self_right]; exact hb
    have hle : b + j * P.chunk ≤ e := (aligned_le_ceil hc hal).mp (by omega)
    refine ⟨chunkAt P (b + j * P.chunk), ?_, ?_, ?_⟩
    · exact (mem_chunkList P b e _).mpr ⟨j, (lt_numChunks_iff P hc b e j).mpr ⟨hle, by omega⟩, rfl⟩
    · simp only [chunkAt]; omega
    · simp only [chunkAt]; omega

theorem chunksFrom_of_size_le (P : Params) (e fuel i : Nat) (h : P.size ≤ i) :
    chunksFrom P e fuel i = [] := by
  cases fuel with
  | zero => rfl
  | succ f => unfold chunksFrom; rw [if_neg (by omega)]

/-- For an aligned start, the loop bound `ceil(x) - 1` can be replaced by `x`. -/
theorem chunksFrom_ceil (P : Params) (hc : 0 < P.chunk) (x : Nat) :
    ∀ fuel i, i % P.chunk = 0 →
      chunksFrom P (ceilU x P.chunk - 1) fuel i = chunksFrom P x fuel i := by
  intro fuel
  induction fuel with
  | zero => intro i _; rfl
  | succ fuel ih =>
    intro i hi
    unfold chunksFrom
    have hal : (i + P.chunk) % P.chunk = 0 := by rw [Nat.add_mod_right]; exact hi
    rw [ih _ hal]
    have := aligned_le_ceil (x := x) hc hi
    by_cases h : i ≤ x
    · have h' := this.mpr h
      simp only [h, h', true_and]
    · have h' : ¬ i ≤ ceilU x P.chunk - 1 := fun hh => h (this.mp hh)
      simp only [h, h', false_and, if_false]

/-! ### placement of a chunk in the caller's buffer -/

/-- The piece of the chunk data copied to the buffer is the piece of the blob that belongs at
`o + base`.  Holds for every chunk, not only for those of the walk. -/
theorem place_slice (B : Bytes) (o n : Nat) (c : Chunk) :
    slice (slice B c.b c.size) (place o n c).lower (place o n c).expected =
      slice B (o + (place o n c).base) (place o n c).expected := by
  by_cases h0 : (place o n c).expected = 0
  · rw [h0, slice_zero, slice_zero]
  · rw [slice_slice]
    · congr 1; simp only [place]; omega
    · simp only [place, Chunk.size] at h0 ⊢; omega

/-- `Tiles a ps k`: the intervals `[base, base+expected)` of `ps` are consecutive, start at `a`
and end at `k`. -/
def Tiles : Nat → List Place → Nat → Prop
  | a, [], k => a = k
  | a, p :: ps, k => p.base = a ∧ Tiles (a + p.expected) ps k

instance : ∀ (a : Nat) (ps : List Place) (k : Nat), Decidable (Tiles a ps k)
  | a, [], k => by unfold Tiles; infer_instance
  | a, p :: ps, k => by
    unfold Tiles
    have := instDecidableTiles (a + p.expected) ps k
    infer_instance

theorem Tiles.le : ∀ {a : Nat} {ps : List Place} {k : Nat}, Tiles a ps k → a ≤ k
  | a, [], k, h => by unfold Tiles at h; omega
  | a, p :: ps, k, h => by
    unfold Tiles at h
    have := Tiles.le h.2
    omega

/-- Bytes of the buffer already final when the walk is at chunk start `i`. -/
def progress (P : Params) (o n i : Nat) : Nat := min i (min (o + n) P.size) - o

theorem adjust_eq (P : Params) (n o : Nat) : adjust P n o = min n (P.size - o) := by
  unfold adjust; split <;> omega

theorem tiles_chunksFrom (P : Params) (hc : 0 < P.chunk) (o n : Nat) (hn : 0 < n)
    (ho : o ≤ P.size) :
    ∀ fuel i, P.size - i ≤ fuel → o < i + P.chunk →
      Tiles (progress P o n i) ((chunksFrom P (o + n - 1) fuel i).map (place o n)) (adjust P n o) := by
  intro fuel
  induction fuel with
  | zero =>
    intro i hf _
    simp only [chunksFrom, List.map_nil, Tiles, progress, adjust_eq]
    omega
  | succ fuel ih =>
    intro i hf hi
    unfold chunksFrom
    split
    · rename_i hcond
      have ih' := ih (i + P.chunk) (by omega) (by omega)
      simp only [List.map_cons, Tiles]
      refine ⟨?_, ?_⟩
      · simp only [place, progress]; omega
      · have : progress P o n i + (place o n ⟨i, min (i + P.chunk - 1) (P.size - 1)⟩).expected
            = progress P o n (i + P.chunk) := by
          simp only [place, progress, Chunk.size]; omega
        rw [this]; exact ih'
    · rename_i hcond
      simp only [List.map_nil, Tiles, progress, adjust_eq]
      omega

/-- The chunk list of `ReadAt(o, n)`. -/
theorem walk_readAt (P : Params) (hc : 0 < P.chunk) (o n : Nat) :
    walkChunks P (floorU o P.chunk) (ceilU (o + n - 1) P.chunk - 1) =
      some (chunksFrom P (o + n - 1) (P.size + 1) (floorU o P.chunk)) := by
  unfold walkChunks
  rw [if_neg (by rw [floorU_mod]; simp), chunksFrom_ceil P hc _ _ _ (floorU_mod ..)]

theorem tiles_readAt (P : Params) (hc : 0 < P.chunk) (o n : Nat) (hn : 0 < n) (ho : o ≤ P.size) :
    Tiles 0 ((chunksFrom P (o + n - 1) (P.size + 1) (floorU o P.chunk)).map (place o n))
      (adjust P n o) := by
  have := tiles_chunksFrom P hc o n hn ho (P.size + 1) (floorU o P.chunk) (by omega)
    (lt_floorU_add o _ hc)
  have h0 : progress P o n (floorU o P.chunk) = 0 := by
    have := floorU_le o P.chunk
    unfold progress; omega
  rwa [h0] at this

/-! ### writes into the buffer -/

theorem writeAt_length (buf : Bytes) (base : Nat) (seg : Bytes) (h : base + seg.length ≤ buf.length) :
    (writeAt buf base seg).length = buf.length := by
  simp [writeAt]; omega

theorem writeAt_take (buf : Bytes) (base : Nat) (seg : Bytes) (h : base ≤ buf.length) :
    (writeAt buf base seg).take (base + seg.length) = buf.take base ++ seg := by
  unfold writeAt
  apply List.take_left'
  simp; omega

/-- Writing exact pieces that tile `[a, k)` onto a buffer whose first `a` bytes are exact gives
a buffer whose first `k` bytes are exact. -/
theorem assemble_tiles (B : Bytes) (o n k : Nat) (hk : k ≤ n) (hB : o + k ≤ B.length) :
    ∀ (cds : List (Chunk × Bytes)) (a : Nat) (buf : Bytes),
      buf.length = n →
      Tiles a (cds.map (fun cd => place o n cd.1)) k →
      (∀ cd ∈ cds, slice cd.2 (place o n cd.1).lower (place o n cd.1).expected =
        slice B (o + (place o n cd.1).base) (place o n cd.1).expected) →
      buf.take a = slice B o a →
      (assemble o n buf cds).take k = slice B o k ∧ (assemble o n buf cds).length = n := by
  intro cds
  induction cds with
  | nil =>
    intro a buf hlen ht _ hpre
    simp only [List.map_nil, Tiles] at ht
    subst ht
    exact ⟨hpre, hlen⟩
  | cons cd cds ih =>
    intro a buf hlen ht hex hpre
    obtain ⟨c, d⟩ := cd
    simp only [List.map_cons, Tiles] at ht
    obtain ⟨hbase, ht'⟩ := ht
    have hle := Tiles.le ht'
    have hseg := hex (c, d) (List.mem_cons_self ..)
    simp only at hseg
    unfold assemble
    simp only
    rw [hseg]
    have hsl : (slice B (o + (place o n c).base) (place o n c).expected).length
        = (place o n c).expected := by
      rw [slice_length]; omega
    apply ih (a + (place o n c).expected)
    · rw [writeAt_length _ _ _ (by rw [hsl]; omega)]; exact hlen
    · exact ht'
    · intro cd' hcd'; exact hex cd' (List.mem_cons_of_mem _ hcd')
    · have := writeAt_take buf (place o n c).base
        (slice B (o + (place o n c).base) (place o n c).expected) (by omega)
      rw [hsl] at this
      rw [← hbase, this, hbase, hpre, ← hbase, slice_append]

/-! ### state invariants -/

/-- Every cache entry holds the true bytes of a chunk of the grid. -/
def CacheOK (P : Params) (B : Bytes) (cache : Cache) : Prop :=
  ∀ c d, cache.get c = some d → d = slice B c.b c.size ∧ GridChunk P c

/-- The body of a part is a prefix of the blob bytes starting at the announced offset
(possibly shorter than announced: a short body must give an error, never wrong bytes). -/
def HonestPart (B : Bytes) (p : Part) : Prop := p.data = slice B p.b p.data.length

def HonestReply (B : Bytes) : Reply → Prop
  | .fail => True
  | .parts ps => ∀ p ∈ ps, HonestPart B p

structure Inv (P : Params) (B : Bytes) (s : St) : Prop where
  cacheOK : CacheOK P B s.cache
  wf : WF s.fetched
  inBlob : SV.Props.C06.InBlob P.size s.fetched

/-- Fetched coverage only grows. -/
def CovSub (s s' : St) : Prop := ∀ x, cov x s.fetched → cov x s'.fetched

theorem CovSub.refl (s : St) : CovSub s s := fun _ h => h
theorem CovSub.trans {a b c : St} (h1 : CovSub a b) (h2 : CovSub b c) : CovSub a c :=
  fun x h => h2 x (h1 x h)

/-- Delivered chunk data is the true data of grid chunks. -/
def Exact (P : Params) (B : Bytes) (got : List (Chunk × Bytes)) : Prop :=
  ∀ cd ∈ got, cd.2 = slice B cd.1.b cd.1.size ∧ GridChunk P cd.1

theorem inv_init (P : Params) (B : Bytes) : Inv P B {} :=
  ⟨by intro c d h; simp [Cache.get] at h, ⟨by simp, by simp⟩, by intro l hl; simp at hl⟩

theorem Cache.get_put_some (cache : Cache) (c c' : Chunk) (d d' : Bytes)
    (h : (cache.put c d).get c' = some d') : cache.get c' = some d' ∨ (c' = c ∧ d' = d) := by
  unfold Cache.put at h
  split at h
  · exact Or.inl h
  · unfold Cache.get at h ⊢
    rw [List.find?_append] at h
    cases hf : cache.find? (fun kv => decide (kv.1 = c')) with
    | some kv => rw [hf] at h; exact Or.inl (by simpa using h)
    | none =>
      rw [hf] at h
      right
      by_cases hcc : c = c'
      · subst hcc; simp [List.find?_cons] at h; exact ⟨rfl, h.symm⟩
      · simp [List.find?_cons, hcc] at h

theorem inv_commit (P : Params) (B : Bytes) (hc : 0 < P.chunk) (s : St) (c : Chunk) (d : Bytes)
    (hs : Inv P B s) (hg : GridChunk P c) (hd : d = slice B c.b c.size) :
    Inv P B { cache := s.cache.put c d, fetched := add s.fetched c.toRegion } ∧
      CovSub s { cache := s.cache.put c d, fetched := add s.fetched c.toRegion } := by
  have hle := hg.le hc
  have hr : c.toRegion.b ≤ c.toRegion.e := by simp only [Chunk.toRegion]; omega
  refine ⟨⟨?_, ?_, ?_⟩, ?_⟩
  · intro c' d' h
    rcases Cache.get_put_some _ _ _ _ _ h with h | ⟨rfl, rfl⟩
    · exact hs.cacheOK c' d' h
    · exact ⟨hd, hg⟩
  · exact SV.Props.C06.add_wf _ _ hs.wf hr
  · exact SV.Props.C06.add_inBlob _ _ _ hs.wf hr hs.inBlob
      (by simp only [Chunk.toRegion]; omega)
  · intro x hx
    exact (SV.Props.C06.add_cov _ _ hs.wf hr x).mpr (Or.inl hx)

theorem storeChunks_cons (s : St) (stream : Bytes) (c : Chunk) (cs : List Chunk) :
    storeChunks s stream (c :: cs) =
      if stream.length < c.size then (s, none)
      else
        let R := storeChunks
          { cache := s.cache.put c (stream.take c.size), fetched := add s.fetched c.toRegion }
          (stream.drop c.size) cs
        (R.1, R.2.map ((c, stream.take c.size) :: ·)) := by
  simp only [storeChunks]

theorem storeChunks_spec (P : Params) (B : Bytes) (hc : 0 < P.chunk) (e : Nat) :
    ∀ fuel i (s : St) (stream : Bytes), Inv P B s → i % P.chunk = 0 →
      (i < P.size → stream = slice B i stream.length) →
      Inv P B (storeChunks s stream (chunksFrom P e fuel i)).1 ∧
      CovSub s (storeChunks s stream (chunksFrom P e fuel i)).1 ∧
      ∀ got, (storeChunks s stream (chunksFrom P e fuel i)).2 = some got → Exact P B got := by
  intro fuel
  induction fuel with
  | zero =>
    intro i s stream hs _ _
    simp only [chunksFrom, storeChunks]
    exact ⟨hs, CovSub.refl s, by intro got h; cases h; intro cd hcd; simp at hcd⟩
  | succ fuel ih =>
    intro i s stream hs hi hst
    unfold chunksFrom
    split
    · rename_i hcond
      rw [storeChunks_cons]
      split
      · exact ⟨hs, CovSub.refl s, by intro got h; cases h⟩
      · rename_i hlen
        have hg : GridChunk P ⟨i, min (i + P.chunk - 1) (P.size - 1)⟩ := ⟨hi, hcond.2, rfl⟩
        have hst' := hst hcond.2
        have hd : stream.take (Chunk.size ⟨i, min (i + P.chunk - 1) (P.size - 1)⟩)
            = slice B i (Chunk.size ⟨i, min (i + P.chunk - 1) (P.size - 1)⟩) := by
          conv => lhs; rw [hst']
          rw [take_slice]; congr 1; omega
        obtain ⟨hinv', hsub'⟩ := inv_commit P B hc s _ _ hs hg hd
        have hal : (i + P.chunk) % P.chunk = 0 := by rw [Nat.add_mod_right]; exact hi
        have hnext : i + P.chunk < P.size →
            stream.drop (Chunk.size ⟨i, min (i + P.chunk - 1) (P.size - 1)⟩) =
              slice B (i + P.chunk)
                (stream.drop (Chunk.size ⟨i, min (i + P.chunk - 1) (P.size - 1)⟩)).length := by
          intro hlt
          have hsz : Chunk.size ⟨i, min (i + P.chunk - 1) (P.size - 1)⟩ = P.chunk := by
            simp only [Chunk.size]; omega
          rw [hsz]
          conv => lhs; rw [hst']
          rw [drop_slice, List.length_drop]
        obtain ⟨h1, h2, h3⟩ := ih (i + P.chunk) _ _ hinv' hal hnext
        refine ⟨h1, CovSub.trans hsub' h2, ?_⟩
        intro got hgot
        simp only [Option.map_eq_some_iff] at hgot
        obtain ⟨got', hg', rfl⟩ := hgot
        intro cd hcd
        rcases List.mem_cons.mp hcd with rfl | hcd
        · exact ⟨hd, hg⟩
        · exact h3 got' hg' cd hcd
    · simp only [storeChunks]
      exact ⟨hs, CovSub.refl s, by intro got h; cases h; intro cd hcd; simp at hcd⟩

theorem storeParts_cons (P : Params) (s : St) (p : Part) (ps : List Part) :
    storeParts P s (p :: ps) =
      if p.b % P.chunk ≠ 0 then (s, none)
      else
        let R := storeChunks s p.data (chunksFrom P p.e (P.size + 1) p.b)
        match R.2 with
        | none => (R.1, none)
        | some got =>
          let R' := storeParts P R.1 ps
          (R'.1, R'.2.map (got ++ ·)) := by
  simp only [storeParts, walkChunks]
  split
  · rfl
  · simp only
    rcases storeChunks s p.data (chunksFrom P p.e (P.size + 1) p.b) with ⟨s', _ | got⟩ <;> rfl

theorem storeParts_spec (P : Params) (B : Bytes) (hc : 0 < P.chunk) :
    ∀ (ps : List Part) (s : St), Inv P B s → (∀ p ∈ ps, HonestPart B p) →
      Inv P B (storeParts P s ps).1 ∧ CovSub s (storeParts P s ps).1 ∧
      ∀ got, (storeParts P s ps).2 = some got → Exact P B got := by
  intro ps
  induction ps with
  | nil =>
    intro s hs _
    simp only [storeParts]
    exact ⟨hs, CovSub.refl s, by intro got h; cases h; intro cd hcd; simp at hcd⟩
  | cons p ps ih =>
    intro s hs hh
    rw [storeParts_cons]
    split
    · exact ⟨hs, CovSub.refl s, by intro got h; cases h⟩
    · rename_i hal
      have hal : p.b % P.chunk = 0 := by simpa using hal
      have hp : HonestPart B p := hh p (List.mem_cons_self ..)
      obtain ⟨h1, h2, h3⟩ := storeChunks_spec P B hc p.e (P.size + 1) p.b s p.data hs hal
        (fun _ => hp)
      simp only
      generalize storeChunks s p.data (chunksFrom P p.e (P.size + 1) p.b) = R at h1 h2 h3
      obtain ⟨s1, r1⟩ := R
      cases r1 with
      | none => exact ⟨h1, h2, by intro got h; cases h⟩
      | some got1 =>
        simp only
        obtain ⟨k1, k2, k3⟩ := ih s1 h1 (fun p' hp' => hh p' (List.mem_cons_of_mem _ hp'))
        refine ⟨k1, CovSub.trans h2 k2, ?_⟩
        intro got hgot
        simp only [Option.map_eq_some_iff] at hgot
        obtain ⟨got', hg', rfl⟩ := hgot
        intro cd hcd
        rcases List.mem_append.mp hcd with hcd | hcd
        · exact h3 got1 rfl cd hcd
        · exact k3 got' hg' cd hcd

theorem fetchMissing_spec (P : Params) (B : Bytes) (hc : 0 < P.chunk) (s : St)
    (missing : List Chunk) (reply : Reply) (hs : Inv P B s) (hr : HonestReply B reply) :
    Inv P B (fetchMissing P s missing reply).1 ∧ CovSub s (fetchMissing P s missing reply).1 ∧
    ∀ got, (fetchMissing P s missing reply).2 = some got →
      Exact P B got ∧ ∀ c ∈ missing, ∃ cd ∈ got, cd.1 = c := by
  unfold fetchMissing
  split
  · rename_i hemp
    refine ⟨hs, CovSub.refl s, ?_⟩
    intro got h; cases h
    refine ⟨by intro cd hcd; simp at hcd, ?_⟩
    intro c hc'
    simp [List.isEmpty_iff] at hemp; subst hemp; simp at hc'
  · cases reply with
    | fail => exact ⟨hs, CovSub.refl s, by intro got h; cases h⟩
    | parts ps =>
      simp only
      obtain ⟨h1, h2, h3⟩ := storeParts_spec P B hc ps s hs hr
      generalize storeParts P s ps = R at h1 h2 h3
      obtain ⟨s1, r1⟩ := R
      cases r1 with
      | none => exact ⟨h1, h2, by intro got h; cases h⟩
      | some got1 =>
        simp only
        split
        · rename_i hall
          refine ⟨h1, h2, ?_⟩
          intro got h; cases h
          refine ⟨h3 got1 rfl, ?_⟩
          intro c hc'
          rw [List.all_eq_true] at hall
          have := hall c hc'
          rw [List.any_eq_true] at this
          obtain ⟨g, hg, hgc⟩ := this
          exact ⟨g, hg, by simpa using hgc⟩
        · exact ⟨h1, h2, by intro got h; cases h⟩

end SV.Blob
