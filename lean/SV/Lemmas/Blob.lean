/-
Helper lemmas for C06 part B: the model of fs/remote/blob.go (`SV/Model/Blob.lean`).
Core-only.
-/
import SV.Model.Blob
import SV.Lemmas.Region
import SV.Props.C06

namespace SV.Blob
open SV.Region

/-! ### floor / ceil arithmetic -/

theorem floorU_le (n c : Nat) : floorU n c ≤ n := Nat.div_mul_le_self n c

theorem lt_floorU_add (n c : Nat) (h : 0 < c) : n < floorU n c + c := Nat.lt_div_mul_add h

theorem floorU_mod (n c : Nat) : floorU n c % c = 0 := Nat.mul_mod_left ..

theorem ceilU_eq (n c : Nat) : ceilU n c = floorU n c + c := Nat.succ_mul ..

/-- A multiple of `c` that is at most `x` is at most `floorU x c`. -/
theorem aligned_le_floorU {i x c : Nat} (hi : i % c = 0) (h : i ≤ x) :
    i ≤ floorU x c := by
  have hq : i / c * c = i := Nat.div_mul_cancel (Nat.dvd_of_mod_eq_zero hi)
  have h1 : i / c ≤ x / c := Nat.div_le_div_right h
  have h2 : i / c * c ≤ x / c * c := Nat.mul_le_mul_right c h1
  unfold floorU; omega

/-- For an aligned loop variable the bound `ceil(x) - 1` is the same as the bound `x`. -/
theorem aligned_le_ceil {i x c : Nat} (hc : 0 < c) (hi : i % c = 0) :
    i ≤ ceilU x c - 1 ↔ i ≤ x := by
  have hf := floorU_le x c
  have hl := lt_floorU_add x c hc
  rw [ceilU_eq]
  constructor
  · intro h
    by_cases hx : i ≤ x
    · exact hx
    · exfalso
      -- i and floorU x c + c are both multiples of c, and floorU x c + c - 1 ≥ i > x ≥ floorU x c
      have hq : i / c * c = i := Nat.div_mul_cancel (Nat.dvd_of_mod_eq_zero hi)
      have h3 : i < (x / c + 1) * c := by rw [Nat.succ_mul]; unfold floorU at h; omega
      rw [← hq] at h3
      have h4 : i / c < x / c + 1 := Nat.lt_of_mul_lt_mul_right h3
      have h5 : i / c * c ≤ x / c * c := Nat.mul_le_mul_right c (by omega)
      unfold floorU at hf; omega
  · intro h; omega

/-! ### slices -/

@[simp] theorem slice_length (b : Bytes) (lo len : Nat) :
    (slice b lo len).length = min len (b.length - lo) := by
  simp [slice]

theorem slice_zero (b : Bytes) (lo : Nat) : slice b lo 0 = [] := by simp [slice]

theorem slice_slice (b : Bytes) (lo len lo' len' : Nat) (h : lo' + len' ≤ len) :
    slice (slice b lo len) lo' len' = slice b (lo + lo') len' := by
  unfold slice
  rw [List.drop_take, List.take_take, List.drop_drop]
  congr 1; omega

theorem slice_append (b : Bytes) (a m l : Nat) :
    slice b a m ++ slice b (a + m) l = slice b a (m + l) := by
  unfold slice
  rw [List.take_add, List.drop_drop]

theorem take_slice (b : Bytes) (lo len m : Nat) :
    (slice b lo len).take m = slice b lo (min m len) := by
  unfold slice; rw [List.take_take]

theorem drop_slice (b : Bytes) (lo len m : Nat) :
    (slice b lo len).drop m = slice b (lo + m) (len - m) := by
  unfold slice; rw [List.drop_take, List.drop_drop]

/-! ### walkChunks -/

/-- The chunk of the grid that starts at `i`. -/
def chunkAt (P : Params) (i : Nat) : Chunk := ⟨i, min (i + P.chunk - 1) (P.size - 1)⟩

/-- Number of iterations of `for i := b; i <= e && i < size; i += chunk`. -/
def numChunks (P : Params) (b e : Nat) : Nat :=
  if b ≤ e ∧ b < P.size then (min e (P.size - 1) - b) / P.chunk + 1 else 0

/-- Closed form of the chunk walk, without fuel. -/
def chunkList (P : Params) (b e : Nat) : List Chunk :=
  (List.range (numChunks P b e)).map (fun j => chunkAt P (b + j * P.chunk))

/-- A chunk of the grid: aligned start inside the blob, end clipped at the blob end. -/
def GridChunk (P : Params) (c : Chunk) : Prop :=
  c.b % P.chunk = 0 ∧ c.b < P.size ∧ c.e = min (c.b + P.chunk - 1) (P.size - 1)

instance (P : Params) (c : Chunk) : Decidable (GridChunk P c) := by
  unfold GridChunk; infer_instance

theorem lt_numChunks_iff (P : Params) (hc : 0 < P.chunk) (b e j : Nat) :
    j < numChunks P b e ↔ (b + j * P.chunk ≤ e ∧ b + j * P.chunk < P.size) := by
  unfold numChunks
  split
  · rename_i h
    rw [Nat.lt_succ_iff, Nat.le_div_iff_mul_le hc]
    omega
  · rename_i h
    have : 0 ≤ j * P.chunk := Nat.zero_le _
    omega

theorem numChunks_step (P : Params) (hc : 0 < P.chunk) (i e : Nat) (h1 : i ≤ e) (h2 : i < P.size) :
    numChunks P i e = numChunks P (i + P.chunk) e + 1 := by
  unfold numChunks
  rw [if_pos ⟨h1, h2⟩]
  split
  · rename_i h
    have : min e (P.size - 1) - i = (min e (P.size - 1) - (i + P.chunk)) + P.chunk := by omega
    rw [this, Nat.add_div_right _ hc]
  · rename_i h
    have : min e (P.size - 1) - i < P.chunk := by omega
    rw [Nat.div_eq_of_lt this]

theorem numChunks_zero (P : Params) (i e : Nat) (h : ¬ (i ≤ e ∧ i < P.size)) :
    numChunks P i e = 0 := by
  unfold numChunks; rw [if_neg h]

theorem chunkList_step (P : Params) (hc : 0 < P.chunk) (i e : Nat) (h1 : i ≤ e) (h2 : i < P.size) :
    chunkList P i e = chunkAt P i :: chunkList P (i + P.chunk) e := by
  unfold chunkList
  rw [numChunks_step P hc i e h1 h2, List.range_succ_eq_map, List.map_cons, List.map_map]
  congr 1
  · simp
  · apply List.map_congr_left
    intro j _
    simp only [Function.comp, Nat.succ_eq_add_one, Nat.succ_mul]
    congr 1; omega

/-- Fuel independence: any fuel `≥ size - i` gives the closed form. -/
theorem chunksFrom_eq_chunkList (P : Params) (hc : 0 < P.chunk) (e : Nat) :
    ∀ fuel i, P.size - i ≤ fuel → chunksFrom P e fuel i = chunkList P i e := by
  intro fuel
  induction fuel with
  | zero =>
    intro i h
    have : numChunks P i e = 0 := numChunks_zero P i e (by omega)
    simp [chunksFrom, chunkList, this]
  | succ fuel ih =>
    intro i h
    unfold chunksFrom
    split
    · rename_i hcond
      rw [ih (i + P.chunk) (by omega), chunkList_step P hc i e hcond.1 hcond.2]
      rfl
    · rename_i hcond
      simp [chunkList, numChunks_zero P i e hcond]

theorem chunksFrom_fuel_indep (P : Params) (hc : 0 < P.chunk) (e i f1 f2 : Nat)
    (h1 : P.size - i ≤ f1) (h2 : P.size - i ≤ f2) :
    chunksFrom P e f1 i = chunksFrom P e f2 i := by
  rw [chunksFrom_eq_chunkList P hc e f1 i h1, chunksFrom_eq_chunkList P hc e f2 i h2]

theorem walkChunks_eq (P : Params) (hc : 0 < P.chunk) (b e : Nat) :
    walkChunks P b e = if b % P.chunk = 0 then some (chunkList P b e) else none := by
  unfold walkChunks
  by_cases h : b % P.chunk = 0
  · simp [h, chunksFrom_eq_chunkList P hc e (P.size + 1) b (by omega)]
  · simp [h]

theorem chunkList_length (P : Params) (b e : Nat) : (chunkList P b e).length = numChunks P b e := by
  simp [chunkList]

theorem chunkList_getElem (P : Params) (b e j : Nat) (h : j < (chunkList P b e).length) :
    (chunkList P b e)[j] = chunkAt P (b + j * P.chunk) := by
  simp [chunkList]

theorem mem_chunkList (P : Params) (b e : Nat) (c : Chunk) :
    c ∈ chunkList P b e ↔ ∃ j, j < numChunks P b e ∧ c = chunkAt P (b + j * P.chunk) := by
  simp only [chunkList, List.mem_map, List.mem_range]
  constructor
  · rintro ⟨j, hj, rfl⟩; exact ⟨j, hj, rfl⟩
  · rintro ⟨j, hj, rfl⟩; exact ⟨j, hj, rfl⟩

theorem gridChunk_chunkAt (P : Params) (i : Nat) (hi : i % P.chunk = 0) (h : i < P.size) :
    GridChunk P (chunkAt P i) := ⟨hi, h, rfl⟩

theorem GridChunk.eq_chunkAt {P : Params} {c : Chunk} (h : GridChunk P c) : c = chunkAt P c.b := by
  cases c; simp only [chunkAt]; congr 1; exact h.2.2

theorem GridChunk.le {P : Params} {c : Chunk} (hc : 0 < P.chunk) (h : GridChunk P c) :
    c.b ≤ c.e ∧ c.e < P.size ∧ c.e < c.b + P.chunk := by
  obtain ⟨_, h2, h3⟩ := h
  omega

theorem gridChunk_of_mem_chunkList (P : Params) (hc : 0 < P.chunk) (b e : Nat)
    (hb : b % P.chunk = 0) (c : Chunk) (h : c ∈ chunkList P b e) :
    GridChunk P c ∧ b ≤ c.b ∧ c.b ≤ e := by
  obtain ⟨j, hj, rfl⟩ := (mem_chunkList P b e c).mp h
  have := (lt_numChunks_iff P hc b e j).mp hj
  refine ⟨gridChunk_chunkAt P _ ?_ this.2, ?_, this.1⟩
  · rw [Nat.add_mul_mod_self_right]; exact hb
  · simp only [chunkAt]; omega

/-- The chunks of a walk cover exactly `[b, min (ceil e - 1) (size - 1)]`. -/
theorem chunkList_cover (P : Params) (hc : 0 < P.chunk) (b e : Nat) (hb : b % P.chunk = 0) (x : Nat) :
    (∃ c ∈ chunkList P b e, c.b ≤ x ∧ x ≤ c.e) ↔
      (b ≤ x ∧ x ≤ ceilU e P.chunk - 1 ∧ x < P.size) := by
  constructor
  · rintro ⟨c, hmem, h1, h2⟩
    obtain ⟨j, hj, rfl⟩ := (mem_chunkList P b e c).mp hmem
    have hlt := (lt_numChunks_iff P hc b e j).mp hj
    have hal : (b + j * P.chunk) % P.chunk = 0 := by rw [Nat.add_mul_mod_self_right]; exact hb
    have := aligned_le_floorU hal hlt.1
    simp only [chunkAt] at h1 h2
    rw [ceilU_eq]
    omega
  · rintro ⟨h1, h2, h3⟩
    let j := (x - b) / P.chunk
    have hj1 : j * P.chunk ≤ x - b := Nat.div_mul_le_self _ _
    have hj2 : x - b < j * P.chunk + P.chunk := Nat.lt_div_mul_add hc
    have hal : (b + j * P.chunk) % P.chunk = 0 := by rw [Nat.add_mul_mod_self_right]; exact hb
    have hle : b + j * P.chunk ≤ e := (aligned_le_ceil hc hal).mp (by omega)
    refine ⟨chunkAt P (b + j * P.chunk), ?_, ?_, ?_⟩
    · exact (mem_chunkList P b e _).mpr ⟨j, (lt_numChunks_iff P hc b e j).mpr ⟨hle, by omega⟩, rfl⟩
    · simp only [chunkAt]; omega
    · simp only [chunkAt]; omega

theorem chunksFrom_of_size_le (P : Params) (e fuel i : Nat) (h : P.size ≤ i) :
    chunksFrom P e fuel i = [] := by
  cases fuel with
  | zero => rfl
  | succ f => unfold chunksFrom; rw [if_neg (by omega)]

/-- For an aligned start, the loop bound `ceil(x) - 1` can be replaced by `x`. -/
theorem chunksFrom_ceil (P : Params) (hc : 0 < P.chunk) (x : Nat) :
    ∀ fuel i, i % P.chunk = 0 →
      chunksFrom P (ceilU x P.chunk - 1) fuel i = chunksFrom P x fuel i := by
  intro fuel
  induction fuel with
  | zero => intro i _; rfl
  | succ fuel ih =>
    intro i hi
    unfold chunksFrom
    have hal : (i + P.chunk) % P.chunk = 0 := by rw [Nat.add_mod_right]; exact hi
    rw [ih _ hal]
    have := aligned_le_ceil (x := x) hc hi
    by_cases h : i ≤ x
    · have h' := this.mpr h
      simp only [h, h', true_and]
    · have h' : ¬ i ≤ ceilU x P.chunk - 1 := fun hh => h (this.mp hh)
      simp only [h, h', false_and, if_false]

/-! ### placement of a chunk in the caller's buffer -/

/-- The piece of the chunk data copied to the buffer is the piece of the blob that belongs at
`o + base`.  Holds for every chunk, not only for those of the walk. -/
theorem place_slice (B : Bytes) (o n : Nat) (c : Chunk) :
    slice (slice B c.b c.size) (place o n c).lower (place o n c).expected =
      slice B (o + (place o n c).base) (place o n c).expected := by
  by_cases h0 : (place o n c).expected = 0
  · rw [h0, slice_zero, slice_zero]
  · rw [slice_slice]
    · congr 1; simp only [place]; omega
    · simp only [place, Chunk.size] at h0 ⊢; omega

/-- `Tiles a ps k`: the intervals `[base, base+expected)` of `ps` are consecutive, start at `a`
and end at `k`. -/
def Tiles : Nat → List Place → Nat → Prop
  | a, [], k => a = k
  | a, p :: ps, k => p.base = a ∧ Tiles (a + p.expected) ps k

instance : ∀ (a : Nat) (ps : List Place) (k : Nat), Decidable (Tiles a ps k)
  | a, [], k => by unfold Tiles; infer_instance
  | a, p :: ps, k => by
    unfold Tiles
    have := instDecidableTiles (a + p.expected) ps k
    infer_instance

theorem Tiles.le : ∀ {a : Nat} {ps : List Place} {k : Nat}, Tiles a ps k → a ≤ k
  | a, [], k, h => by unfold Tiles at h; omega
  | a, p :: ps, k, h => by
    unfold Tiles at h
    have := Tiles.le h.2
    omega

/-- Bytes of the buffer already final when the walk is at chunk start `i`. -/
def progress (P : Params) (o n i : Nat) : Nat := min i (min (o + n) P.size) - o

theorem adjust_eq (P : Params) (n o : Nat) : adjust P n o = min n (P.size - o) := by
  unfold adjust; split <;> omega

/-- Closed form of `place` for a chunk that meets the read window. -/
theorem place_closed (o n : Nat) (c : Chunk) (h1 : c.b ≤ c.e) (h2 : o ≤ c.e + 1)
    (h3 : c.b ≤ o + n) :
    (place o n c).expected + max c.b o = min (c.e + 1) (o + n) ∧
      (place o n c).base + o = max c.b o := by
  simp only [place, Chunk.size]
  rcases Nat.le_total c.b o with h | h
  · rw [Nat.max_eq_right h]
    rcases Nat.le_total (c.e + 1) (o + n) with h' | h'
    · rw [Nat.min_eq_left h']; omega
    · rw [Nat.min_eq_right h']; omega
  · rw [Nat.max_eq_left h]
    rcases Nat.le_total (c.e + 1) (o + n) with h' | h'
    · rw [Nat.min_eq_left h']; omega
    · rw [Nat.min_eq_right h']; omega

theorem progress_step (P : Params) (o n i : Nat) (hc : 0 < P.chunk) (ho : o ≤ P.size)
    (hi : o < i + P.chunk) (hcond : i ≤ o + n - 1 ∧ i < P.size) :
    (place o n ⟨i, min (i + P.chunk - 1) (P.size - 1)⟩).base = progress P o n i ∧
    progress P o n i + (place o n ⟨i, min (i + P.chunk - 1) (P.size - 1)⟩).expected
      = progress P o n (i + P.chunk) := by
  have hce : min (i + P.chunk - 1) (P.size - 1) + 1 = min (i + P.chunk) P.size := by omega
  obtain ⟨h1, h2⟩ := place_closed o n ⟨i, min (i + P.chunk - 1) (P.size - 1)⟩
    (by simp only; omega) (by simp only; omega) (by simp only; omega)
  simp only [hce] at h1 h2
  generalize (place o n ⟨i, min (i + P.chunk - 1) (P.size - 1)⟩).expected = ex at *
  generalize (place o n ⟨i, min (i + P.chunk - 1) (P.size - 1)⟩).base = ba at *
  unfold progress
  have e1 : min i (min (o + n) P.size) = i := by omega
  have e2 : min (min (i + P.chunk) P.size) (o + n) = min (i + P.chunk) (min (o + n) P.size) := by
    omega
  have e3 : o ≤ min (i + P.chunk) (min (o + n) P.size) := by omega
  rw [e1]
  rw [e2] at h1
  generalize min (i + P.chunk) (min (o + n) P.size) = E at *
  omega

theorem tiles_chunksFrom (P : Params) (hc : 0 < P.chunk) (o n : Nat) (hn : 0 < n)
    (ho : o ≤ P.size) :
    ∀ fuel i, P.size - i ≤ fuel → o < i + P.chunk →
      Tiles (progress P o n i) ((chunksFrom P (o + n - 1) fuel i).map (place o n)) (adjust P n o) := by
  intro fuel
  induction fuel with
  | zero =>
    intro i hf _
    simp only [chunksFrom, List.map_nil, Tiles, progress, adjust_eq]
    omega
  | succ fuel ih =>
    intro i hf hi
    unfold chunksFrom
    split
    · rename_i hcond
      have ih' := ih (i + P.chunk) (by omega) (by omega)
      obtain ⟨hb, hstep⟩ := progress_step P o n i hc ho hi hcond
      simp only [List.map_cons, Tiles]
      refine ⟨hb, ?_⟩
      rw [hstep]; exact ih'
    · rename_i hcond
      simp only [List.map_nil, Tiles, progress, adjust_eq]
      omega

/-- The chunk list of `ReadAt(o, n)`. -/
theorem walk_readAt (P : Params) (hc : 0 < P.chunk) (o n : Nat) :
    walkChunks P (floorU o P.chunk) (ceilU (o + n - 1) P.chunk - 1) =
      some (chunksFrom P (o + n - 1) (P.size + 1) (floorU o P.chunk)) := by
  unfold walkChunks
  rw [if_neg (by rw [floorU_mod]; simp), chunksFrom_ceil P hc _ _ _ (floorU_mod ..)]

theorem tiles_readAt (P : Params) (hc : 0 < P.chunk) (o n : Nat) (hn : 0 < n) (ho : o ≤ P.size) :
    Tiles 0 ((chunksFrom P (o + n - 1) (P.size + 1) (floorU o P.chunk)).map (place o n))
      (adjust P n o) := by
  have := tiles_chunksFrom P hc o n hn ho (P.size + 1) (floorU o P.chunk) (by omega)
    (lt_floorU_add o _ hc)
  have h0 : progress P o n (floorU o P.chunk) = 0 := by
    have := floorU_le o P.chunk
    unfold progress; omega
  rwa [h0] at this

/-- For the chunks of `ReadAt(o, n)` the Go expression
`chunk.size() - upperUnread - lowerUnread` never goes negative (so the truncated subtraction of
the model is the Go integer arithmetic) and `p[base : base+expectedSize]` is inside `p`. -/
theorem place_bounds (P : Params) (hc : 0 < P.chunk) (o n : Nat) (hn : 0 < n) (ho : o ≤ P.size)
    (c : Chunk) (h : c ∈ chunksFrom P (o + n - 1) (P.size + 1) (floorU o P.chunk)) :
    (o - c.b) + ((c.e + 1) - (o + n)) ≤ c.size ∧
    (place o n c).base + (place o n c).expected ≤ n ∧
    (place o n c).lower + (place o n c).expected ≤ c.size := by
  rw [chunksFrom_eq_chunkList P hc _ _ _ (by omega)] at h
  obtain ⟨hg, h1, h2⟩ := gridChunk_of_mem_chunkList P hc _ _ (floorU_mod ..) c h
  have hle := hg.le hc
  have hfl := lt_floorU_add o P.chunk hc
  obtain ⟨_, _, hg3⟩ := hg
  obtain ⟨p1, p2⟩ := place_closed o n c hle.1 (by omega) (by omega)
  refine ⟨?_, by omega, ?_⟩
  · simp only [Chunk.size]; omega
  · simp only [place, Chunk.size] at p1 p2 ⊢; omega

/-! ### writes into the buffer -/

theorem writeAt_length (buf : Bytes) (base : Nat) (seg : Bytes) (h : base + seg.length ≤ buf.length) :
    (writeAt buf base seg).length = buf.length := by
  simp [writeAt]; omega

theorem writeAt_take (buf : Bytes) (base : Nat) (seg : Bytes) (h : base ≤ buf.length) :
    (writeAt buf base seg).take (base + seg.length) = buf.take base ++ seg := by
  unfold writeAt
  apply List.take_left'
  simp; omega

/-- Writing exact pieces that tile `[a, k)` onto a buffer whose first `a` bytes are exact gives
a buffer whose first `k` bytes are exact. -/
theorem assemble_tiles (B : Bytes) (o n k : Nat) (hk : k ≤ n) (hB : o + k ≤ B.length) :
    ∀ (cds : List (Chunk × Bytes)) (a : Nat) (buf : Bytes),
      buf.length = n →
      Tiles a (cds.map (fun cd => place o n cd.1)) k →
      (∀ cd ∈ cds, slice cd.2 (place o n cd.1).lower (place o n cd.1).expected =
        slice B (o + (place o n cd.1).base) (place o n cd.1).expected) →
      buf.take a = slice B o a →
      (assemble o n buf cds).take k = slice B o k ∧ (assemble o n buf cds).length = n := by
  intro cds
  induction cds with
  | nil =>
    intro a buf hlen ht _ hpre
    simp only [List.map_nil, Tiles] at ht
    subst ht
    exact ⟨hpre, hlen⟩
  | cons cd cds ih =>
    intro a buf hlen ht hex hpre
    obtain ⟨c, d⟩ := cd
    simp only [List.map_cons, Tiles] at ht
    obtain ⟨hbase, ht'⟩ := ht
    have hle := Tiles.le ht'
    have hseg := hex (c, d) (List.mem_cons_self ..)
    simp only at hseg
    unfold assemble
    simp only
    rw [hseg]
    have hsl : (slice B (o + (place o n c).base) (place o n c).expected).length
        = (place o n c).expected := by
      rw [slice_length]; omega
    apply ih (a + (place o n c).expected)
    · rw [writeAt_length _ _ _ (by rw [hsl]; omega)]; exact hlen
    · exact ht'
    · intro cd' hcd'; exact hex cd' (List.mem_cons_of_mem _ hcd')
    · have := writeAt_take buf (place o n c).base
        (slice B (o + (place o n c).base) (place o n c).expected) (by omega)
      rw [hsl] at this
      rw [← hbase, this, hbase, hpre, ← hbase, slice_append]

/-! ### state invariants -/

/-- Every cache entry holds the true bytes of a chunk of the grid. -/
def CacheOK (P : Params) (B : Bytes) (cache : Cache) : Prop :=
  ∀ c d, cache.get c = some d → d = slice B c.b c.size ∧ GridChunk P c

/-- The body of a part is a prefix of the blob bytes starting at the announced offset
(possibly shorter than announced: a short body must give an error, never wrong bytes). -/
def HonestPart (B : Bytes) (p : Part) : Prop := p.data = slice B p.b p.data.length

instance (B : Bytes) (p : Part) : Decidable (HonestPart B p) := by
  unfold HonestPart; infer_instance

def HonestReply (B : Bytes) : Reply → Prop
  | .fail => True
  | .parts ps => ∀ p ∈ ps, HonestPart B p

instance (B : Bytes) : (r : Reply) → Decidable (HonestReply B r)
  | .fail => by unfold HonestReply; infer_instance
  | .parts ps => by unfold HonestReply; infer_instance

structure Inv (P : Params) (B : Bytes) (s : St) : Prop where
  cacheOK : CacheOK P B s.cache
  wf : WF s.fetched
  inBlob : SV.Props.C06.InBlob P.size s.fetched

/-- Generic form of the invariant: `Q c d` is what is known about a cache entry `d` stored under
key `c`. -/
structure InvQ (P : Params) (Q : Chunk → Bytes → Prop) (s : St) : Prop where
  cacheQ : ∀ c d, s.cache.get c = some d → Q c d
  wf : WF s.fetched
  inBlob : SV.Props.C06.InBlob P.size s.fetched

/-- What the proofs need from `Q`: the true data of a grid chunk may be stored, and every entry is
at least a prefix of the true blob bytes from the chunk start. -/
structure GoodQ (P : Params) (B : Bytes) (Q : Chunk → Bytes → Prop) : Prop where
  put : ∀ c, GridChunk P c → Q c (slice B c.b c.size)
  pre : ∀ c d, Q c d → d = slice B c.b d.length

/-- Entry is exactly the chunk data (`CacheOK`). -/
def QExact (P : Params) (B : Bytes) (c : Chunk) (d : Bytes) : Prop :=
  d = slice B c.b c.size ∧ GridChunk P c

/-- Entry is a (possibly truncated) prefix of the true bytes at the chunk start: what a cache
that may return short data still guarantees. -/
def QPrefix (P : Params) (B : Bytes) (c : Chunk) (d : Bytes) : Prop :=
  d = slice B c.b d.length ∧ GridChunk P c

/-- Weak cache invariant: entries may be truncated, but never hold wrong bytes. -/
def CachePrefixOK (P : Params) (B : Bytes) (cache : Cache) : Prop :=
  ∀ c d, cache.get c = some d → QPrefix P B c d

/-- Fetched coverage only grows. -/
def CovSub (s s' : St) : Prop := ∀ x, cov x s.fetched → cov x s'.fetched

theorem CovSub.refl (s : St) : CovSub s s := fun _ h => h
theorem CovSub.trans {a b c : St} (h1 : CovSub a b) (h2 : CovSub b c) : CovSub a c :=
  fun x h => h2 x (h1 x h)

/-- Delivered chunk data is the true data of grid chunks. -/
def Exact (P : Params) (B : Bytes) (got : List (Chunk × Bytes)) : Prop :=
  ∀ cd ∈ got, cd.2 = slice B cd.1.b cd.1.size ∧ GridChunk P cd.1

theorem inv_init (P : Params) (B : Bytes) : Inv P B {} :=
  ⟨by intro c d h; simp [Cache.get] at h, ⟨by simp, by simp⟩, by intro l hl; simp at hl⟩

theorem invQ_init (P : Params) (Q : Chunk → Bytes → Prop) : InvQ P Q {} :=
  ⟨by intro c d h; simp [Cache.get] at h, ⟨by simp, by simp⟩, by intro l hl; simp at hl⟩

theorem inv_iff (P : Params) (B : Bytes) (s : St) : Inv P B s ↔ InvQ P (QExact P B) s :=
  ⟨fun h => ⟨h.cacheOK, h.wf, h.inBlob⟩, fun h => ⟨h.cacheQ, h.wf, h.inBlob⟩⟩

theorem slice_self_length (B : Bytes) (lo len : Nat) :
    slice B lo len = slice B lo (slice B lo len).length := by
  rw [slice_length]
  unfold slice
  apply List.ext_getElem?
  intro j
  rw [List.getElem?_take, List.getElem?_take, List.getElem?_drop]
  by_cases h1 : j < len
  · by_cases h2 : j < min len (B.length - lo)
    · rw [if_pos h1, if_pos h2]
    · rw [if_pos h1, if_neg h2, List.getElem?_eq_none (by omega)]
  · rw [if_neg h1, if_neg (by omega)]

theorem goodQ_exact (P : Params) (B : Bytes) : GoodQ P B (QExact P B) :=
  ⟨fun _ hg => ⟨rfl, hg⟩, fun _ _ h => by rw [h.1]; exact slice_self_length B _ _⟩

theorem goodQ_prefix (P : Params) (B : Bytes) : GoodQ P B (QPrefix P B) :=
  ⟨fun _ hg => ⟨slice_self_length B _ _, hg⟩, fun _ _ h => h.1⟩

theorem qprefix_take (P : Params) (B : Bytes) (c : Chunk) (d : Bytes) (k : Nat)
    (h : QPrefix P B c d) : QPrefix P B c (d.take k) := by
  refine ⟨?_, h.2⟩
  conv => lhs; rw [h.1]
  rw [take_slice, List.length_take]

theorem Cache.get_put_some (cache : Cache) (c c' : Chunk) (d d' : Bytes)
    (h : (cache.put c d).get c' = some d') : cache.get c' = some d' ∨ (c' = c ∧ d' = d) := by
  unfold Cache.put at h
  split at h
  · exact Or.inl h
  · unfold Cache.get at h ⊢
    rw [List.find?_append] at h
    cases hf : cache.find? (fun kv => decide (kv.1 = c')) with
    | some kv => rw [hf] at h; exact Or.inl (by simpa using h)
    | none =>
      rw [hf] at h
      right
      by_cases hcc : c = c'
      · subst hcc; simp at h; exact ⟨rfl, h.symm⟩
      · simp [hcc] at h

theorem inv_commit (P : Params) (B : Bytes) (Q : Chunk → Bytes → Prop) (hQ : GoodQ P B Q)
    (hc : 0 < P.chunk) (s : St) (c : Chunk) (d : Bytes)
    (hs : InvQ P Q s) (hg : GridChunk P c) (hd : d = slice B c.b c.size) :
    InvQ P Q { cache := s.cache.put c d, fetched := add s.fetched c.toRegion } ∧
      CovSub s { cache := s.cache.put c d, fetched := add s.fetched c.toRegion } := by
  have hle := hg.le hc
  have hr : c.toRegion.b ≤ c.toRegion.e := by simp only [Chunk.toRegion]; omega
  refine ⟨⟨?_, ?_, ?_⟩, ?_⟩
  · intro c' d' h
    rcases Cache.get_put_some _ _ _ _ _ h with h | ⟨rfl, rfl⟩
    · exact hs.cacheQ c' d' h
    · rw [hd]; exact hQ.put _ hg
  · exact SV.Props.C06.add_wf _ _ hs.wf hr
  · exact SV.Props.C06.add_inBlob _ _ _ hs.wf hr hs.inBlob
      (by simp only [Chunk.toRegion]; omega)
  · intro x hx
    exact (SV.Props.C06.add_cov _ _ hs.wf hr x).mpr (Or.inl hx)

theorem storeChunks_cons (s : St) (stream : Bytes) (c : Chunk) (cs : List Chunk) :
    storeChunks s stream (c :: cs) =
      if stream.length < c.size then (s, none)
      else
        let R := storeChunks
          { cache := s.cache.put c (stream.take c.size), fetched := add s.fetched c.toRegion }
          (stream.drop c.size) cs
        (R.1, R.2.map ((c, stream.take c.size) :: ·)) := by
  simp only [storeChunks]

theorem storeChunks_spec (P : Params) (B : Bytes) (Q : Chunk → Bytes → Prop) (hQ : GoodQ P B Q)
    (hc : 0 < P.chunk) (e : Nat) :
    ∀ fuel i (s : St) (stream : Bytes), InvQ P Q s → i % P.chunk = 0 →
      (i < P.size → stream = slice B i stream.length) →
      InvQ P Q (storeChunks s stream (chunksFrom P e fuel i)).1 ∧
      CovSub s (storeChunks s stream (chunksFrom P e fuel i)).1 ∧
      ∀ got, (storeChunks s stream (chunksFrom P e fuel i)).2 = some got → Exact P B got := by
  intro fuel
  induction fuel with
  | zero =>
    intro i s stream hs _ _
    simp only [chunksFrom, storeChunks]
    exact ⟨hs, CovSub.refl s, by intro got h; cases h; intro cd hcd; simp at hcd⟩
  | succ fuel ih =>
    intro i s stream hs hi hst
    unfold chunksFrom
    split
    · rename_i hcond
      rw [storeChunks_cons]
      split
      · exact ⟨hs, CovSub.refl s, by intro got h; cases h⟩
      · rename_i hlen
        have hg : GridChunk P ⟨i, min (i + P.chunk - 1) (P.size - 1)⟩ := ⟨hi, hcond.2, rfl⟩
        have hst' := hst hcond.2
        have hd : stream.take (Chunk.size ⟨i, min (i + P.chunk - 1) (P.size - 1)⟩)
            = slice B i (Chunk.size ⟨i, min (i + P.chunk - 1) (P.size - 1)⟩) := by
          conv => lhs; rw [hst']
          rw [take_slice]; congr 1; omega
        obtain ⟨hinv', hsub'⟩ := inv_commit P B Q hQ hc s _ _ hs hg hd
        have hal : (i + P.chunk) % P.chunk = 0 := by rw [Nat.add_mod_right]; exact hi
        have hnext : i + P.chunk < P.size →
            stream.drop (Chunk.size ⟨i, min (i + P.chunk - 1) (P.size - 1)⟩) =
              slice B (i + P.chunk)
                (stream.drop (Chunk.size ⟨i, min (i + P.chunk - 1) (P.size - 1)⟩)).length := by
          intro hlt
          have hsz : Chunk.size ⟨i, min (i + P.chunk - 1) (P.size - 1)⟩ = P.chunk := by
            simp only [Chunk.size]; omega
          rw [hsz]
          conv => lhs; rw [hst']
          rw [drop_slice, List.length_drop]
        obtain ⟨h1, h2, h3⟩ := ih (i + P.chunk) _ _ hinv' hal hnext
        refine ⟨h1, CovSub.trans hsub' h2, ?_⟩
        intro got hgot
        simp only [Option.map_eq_some_iff] at hgot
        obtain ⟨got', hg', rfl⟩ := hgot
        intro cd hcd
        rcases List.mem_cons.mp hcd with rfl | hcd
        · exact ⟨hd, hg⟩
        · exact h3 got' hg' cd hcd
    · simp only [storeChunks]
      exact ⟨hs, CovSub.refl s, by intro got h; cases h; intro cd hcd; simp at hcd⟩

theorem storeParts_cons (P : Params) (s : St) (p : Part) (ps : List Part) :
    storeParts P s (p :: ps) =
      if p.b % P.chunk ≠ 0 then (s, none)
      else
        let R := storeChunks s p.data (chunksFrom P p.e (P.size + 1) p.b)
        match R.2 with
        | none => (R.1, none)
        | some got =>
          let R' := storeParts P R.1 ps
          (R'.1, R'.2.map (got ++ ·)) := by
  by_cases h : p.b % P.chunk ≠ 0
  · simp only [storeParts, walkChunks, if_pos h]
  · simp only [storeParts, walkChunks, if_neg h]
    rcases storeChunks s p.data (chunksFrom P p.e (P.size + 1) p.b) with ⟨s', _ | got⟩ <;> rfl

theorem storeParts_spec (P : Params) (B : Bytes) (Q : Chunk → Bytes → Prop) (hQ : GoodQ P B Q)
    (hc : 0 < P.chunk) :
    ∀ (ps : List Part) (s : St), InvQ P Q s → (∀ p ∈ ps, HonestPart B p) →
      InvQ P Q (storeParts P s ps).1 ∧ CovSub s (storeParts P s ps).1 ∧
      ∀ got, (storeParts P s ps).2 = some got → Exact P B got := by
  intro ps
  induction ps with
  | nil =>
    intro s hs _
    simp only [storeParts]
    exact ⟨hs, CovSub.refl s, by intro got h; cases h; intro cd hcd; simp at hcd⟩
  | cons p ps ih =>
    intro s hs hh
    rw [storeParts_cons]
    split
    · exact ⟨hs, CovSub.refl s, by intro got h; cases h⟩
    · rename_i hal
      have hal : p.b % P.chunk = 0 := by simpa using hal
      have hp : HonestPart B p := hh p (List.mem_cons_self ..)
      obtain ⟨h1, h2, h3⟩ := storeChunks_spec P B Q hQ hc p.e (P.size + 1) p.b s p.data hs hal
        (fun _ => hp)
      simp only
      generalize storeChunks s p.data (chunksFrom P p.e (P.size + 1) p.b) = R at h1 h2 h3
      obtain ⟨s1, r1⟩ := R
      cases r1 with
      | none => exact ⟨h1, h2, by intro got h; cases h⟩
      | some got1 =>
        simp only
        obtain ⟨k1, k2, k3⟩ := ih s1 h1 (fun p' hp' => hh p' (List.mem_cons_of_mem _ hp'))
        refine ⟨k1, CovSub.trans h2 k2, ?_⟩
        intro got hgot
        simp only [Option.map_eq_some_iff] at hgot
        obtain ⟨got', hg', rfl⟩ := hgot
        intro cd hcd
        rcases List.mem_append.mp hcd with hcd | hcd
        · exact h3 got1 rfl cd hcd
        · exact k3 got' hg' cd hcd

theorem fetchMissing_spec (P : Params) (B : Bytes) (Q : Chunk → Bytes → Prop) (hQ : GoodQ P B Q)
    (hc : 0 < P.chunk) (s : St)
    (missing : List Chunk) (reply : Reply) (hs : InvQ P Q s) (hr : HonestReply B reply) :
    InvQ P Q (fetchMissing P s missing reply).1 ∧ CovSub s (fetchMissing P s missing reply).1 ∧
    ∀ got, (fetchMissing P s missing reply).2 = some got →
      Exact P B got ∧ ∀ c ∈ missing, ∃ cd ∈ got, cd.1 = c := by
  unfold fetchMissing
  split
  · rename_i hemp
    refine ⟨hs, CovSub.refl s, ?_⟩
    intro got h; cases h
    refine ⟨by intro cd hcd; simp at hcd, ?_⟩
    intro c hc'
    simp [List.isEmpty_iff] at hemp; subst hemp; simp at hc'
  · cases reply with
    | fail => exact ⟨hs, CovSub.refl s, by intro got h; cases h⟩
    | parts ps =>
      simp only
      obtain ⟨h1, h2, h3⟩ := storeParts_spec P B Q hQ hc ps s hs hr
      generalize storeParts P s ps = R at h1 h2 h3
      obtain ⟨s1, r1⟩ := R
      cases r1 with
      | none => exact ⟨h1, h2, by intro got h; cases h⟩
      | some got1 =>
        simp only
        split
        · rename_i hall
          refine ⟨h1, h2, ?_⟩
          intro got h; cases h
          refine ⟨h3 got1 rfl, ?_⟩
          intro c hc'
          rw [List.all_eq_true] at hall
          have := hall c hc'
          rw [List.any_eq_true] at this
          obtain ⟨g, hg, hgc⟩ := this
          exact ⟨g, hg, by simpa using hgc⟩
        · exact ⟨h1, h2, by intro got h; cases h⟩

/-! ### classify / lookupData / readAt -/

theorem classify_cons (o n : Nat) (cache : Cache) (c : Chunk) (cs : List Chunk) :
    classify o n cache (c :: cs) =
      match cache.get c with
      | some d =>
        if (slice d (place o n c).lower (place o n c).expected).length = (place o n c).expected
        then ((c, d) :: (classify o n cache cs).1, (classify o n cache cs).2)
        else ((classify o n cache cs).1, c :: (classify o n cache cs).2)
      | none => ((classify o n cache cs).1, c :: (classify o n cache cs).2) := by
  simp only [classify]
  rcases classify o n cache cs with ⟨hs, ms⟩
  rfl

theorem classify_spec (o n : Nat) (cache : Cache) :
    ∀ cs : List Chunk,
      (∀ cd ∈ (classify o n cache cs).1, cache.get cd.1 = some cd.2 ∧ cd.1 ∈ cs ∧
        (slice cd.2 (place o n cd.1).lower (place o n cd.1).expected).length
          = (place o n cd.1).expected) ∧
      (∀ c ∈ (classify o n cache cs).2, c ∈ cs) ∧
      (∀ c ∈ cs, (∃ d, (c, d) ∈ (classify o n cache cs).1) ∨ c ∈ (classify o n cache cs).2) := by
  intro cs
  induction cs with
  | nil => simp [classify]
  | cons c cs ih =>
    obtain ⟨ih1, ih2, ih3⟩ := ih
    rw [classify_cons]
    cases hget : cache.get c with
    | none =>
      simp only
      refine ⟨?_, ?_, ?_⟩
      · intro cd hcd; exact ⟨(ih1 cd hcd).1, List.mem_cons_of_mem _ (ih1 cd hcd).2.1, (ih1 cd hcd).2.2⟩
      · intro c' hc'
        rcases List.mem_cons.mp hc' with rfl | h
        · exact List.mem_cons_self ..
        · exact List.mem_cons_of_mem _ (ih2 c' h)
      · intro c' hc'
        rcases List.mem_cons.mp hc' with rfl | h
        · exact Or.inr (List.mem_cons_self ..)
        · rcases ih3 c' h with h' | h'
          · exact Or.inl h'
          · exact Or.inr (List.mem_cons_of_mem _ h')
    | some d =>
      simp only
      split
      · rename_i hcond
        refine ⟨?_, ?_, ?_⟩
        · intro cd hcd
          rcases List.mem_cons.mp hcd with rfl | h
          · exact ⟨hget, List.mem_cons_self .., hcond⟩
          · exact ⟨(ih1 cd h).1, List.mem_cons_of_mem _ (ih1 cd h).2.1, (ih1 cd h).2.2⟩
        · intro c' hc'; exact List.mem_cons_of_mem _ (ih2 c' hc')
        · intro c' hc'
          rcases List.mem_cons.mp hc' with rfl | h
          · exact Or.inl ⟨d, List.mem_cons_self ..⟩
          · rcases ih3 c' h with ⟨d', h'⟩ | h'
            · exact Or.inl ⟨d', List.mem_cons_of_mem _ h'⟩
            · exact Or.inr h'
      · refine ⟨?_, ?_, ?_⟩
        · intro cd hcd; exact ⟨(ih1 cd hcd).1, List.mem_cons_of_mem _ (ih1 cd hcd).2.1, (ih1 cd hcd).2.2⟩
        · intro c' hc'
          rcases List.mem_cons.mp hc' with rfl | h
          · exact List.mem_cons_self ..
          · exact List.mem_cons_of_mem _ (ih2 c' h)
        · intro c' hc'
          rcases List.mem_cons.mp hc' with rfl | h
          · exact Or.inr (List.mem_cons_self ..)
          · rcases ih3 c' h with h' | h'
            · exact Or.inl h'
            · exact Or.inr (List.mem_cons_of_mem _ h')

/-- The piece of `cd.2` that `assemble` copies is the piece of the blob that belongs there. -/
def WindowOK (B : Bytes) (o n : Nat) (cd : Chunk × Bytes) : Prop :=
  slice cd.2 (place o n cd.1).lower (place o n cd.1).expected =
    slice B (o + (place o n cd.1).base) (place o n cd.1).expected

/-- A cache hit on a (possibly truncated) prefix of the true data delivers the right window. -/
theorem windowOK_of_prefix (B : Bytes) (o n : Nat) (c : Chunk) (d : Bytes)
    (hd : d = slice B c.b d.length)
    (hhit : (slice d (place o n c).lower (place o n c).expected).length = (place o n c).expected) :
    WindowOK B o n (c, d) := by
  unfold WindowOK
  simp only
  by_cases h0 : (place o n c).expected = 0
  · rw [h0, slice_zero, slice_zero]
  · rw [slice_length] at hhit
    rw [hd, slice_slice _ _ _ _ _ (by omega)]
    congr 1; simp only [place]; omega

theorem windowOK_of_exact (P : Params) (B : Bytes) (o n : Nat) (got : List (Chunk × Bytes))
    (h : Exact P B got) : ∀ cd ∈ got, WindowOK B o n cd := by
  intro cd hcd
  unfold WindowOK
  rw [(h cd hcd).1]
  exact place_slice B o n cd.1

theorem lookupData_window (B : Bytes) (o n : Nat) (hits got : List (Chunk × Bytes)) (c : Chunk)
    (hh : ∀ cd ∈ hits, WindowOK B o n cd) (hg : ∀ cd ∈ got, WindowOK B o n cd)
    (hc : (∃ d, (c, d) ∈ hits) ∨ ∃ cd ∈ got, cd.1 = c) :
    ∃ d, lookupData hits got c = some d ∧ WindowOK B o n (c, d) := by
  unfold lookupData
  cases hf : hits.find? (fun kv => decide (kv.1 = c)) with
  | some kv =>
    simp only
    have hm := List.mem_of_find?_eq_some hf
    have hp := List.find?_some hf
    simp only [decide_eq_true_eq] at hp
    refine ⟨kv.2, rfl, ?_⟩
    have := hh kv hm
    rw [← hp]; exact this
  | none =>
    simp only
    rw [List.find?_eq_none] at hf
    rcases hc with ⟨d, hd⟩ | ⟨cd, hcd, hcdc⟩
    · exact absurd (by simp) (hf (c, d) hd)
    · cases hf2 : got.find? (fun kv => decide (kv.1 = c)) with
      | none =>
        rw [List.find?_eq_none] at hf2
        exact absurd (by simp [hcdc]) (hf2 cd hcd)
      | some kv =>
        have hm := List.mem_of_find?_eq_some hf2
        have hp := List.find?_some hf2
        simp only [decide_eq_true_eq] at hp
        refine ⟨kv.2, rfl, ?_⟩
        have := hg kv hm
        rw [← hp]; exact this

theorem filterMap_eq_map_of {α β} (f : α → Option β) (g : α → β) (l : List α)
    (h : ∀ a ∈ l, f a = some (g a)) : l.filterMap f = l.map g := by
  induction l with
  | nil => rfl
  | cons a l ih =>
    rw [List.filterMap_cons, h a (List.mem_cons_self ..), List.map_cons,
      ih (fun a' ha' => h a' (List.mem_cons_of_mem _ ha'))]

theorem readAt_unfold (P : Params) (s : St) (o n : Nat) (reply : Reply) (hc : 0 < P.chunk)
    (h : ¬ (n = 0 ∨ o > P.size)) :
    readAt P s o n reply =
      let cs := chunksFrom P (o + n - 1) (P.size + 1) (floorU o P.chunk)
      let R := fetchMissing P s (classify o n s.cache cs).2 reply
      match R.2 with
      | none => (R.1, none)
      | some got =>
        (R.1, some (adjust P n o, assemble o n (List.replicate n 0)
          (cs.filterMap (fun c => (lookupData (classify o n s.cache cs).1 got c).map
            (fun d => (c, d)))))) := by
  unfold readAt
  rw [if_neg h, walk_readAt P hc]
  simp only
  rcases classify o n s.cache (chunksFrom P (o + n - 1) (P.size + 1) (floorU o P.chunk))
    with ⟨hits, missing⟩
  simp only
  rcases fetchMissing P s missing reply with ⟨s', _ | got⟩ <;> rfl

/-- Main lemma for `ReadAt`, for any cache invariant `Q` that is at least "prefix of the true
bytes". -/
theorem readAt_specQ (P : Params) (B : Bytes) (Q : Chunk → Bytes → Prop) (hQ : GoodQ P B Q)
    (hc : 0 < P.chunk) (hB : B.length = P.size)
    (s : St) (hs : InvQ P Q s) (o n : Nat) (reply : Reply) (hr : HonestReply B reply) :
    InvQ P Q (readAt P s o n reply).1 ∧ CovSub s (readAt P s o n reply).1 ∧
    ((readAt P s o n reply).2 = none ∨
      ∃ buf, (readAt P s o n reply).2 = some (min n (P.size - o), buf) ∧ buf.length = n ∧
        buf.take (min n (P.size - o)) = slice B o (min n (P.size - o))) := by
  by_cases h : n = 0 ∨ o > P.size
  · unfold readAt
    rw [if_pos h]
    refine ⟨hs, CovSub.refl s, Or.inr ⟨List.replicate n 0, ?_, by simp, ?_⟩⟩
    · have : min n (P.size - o) = 0 := by omega
      rw [this]
    · have : min n (P.size - o) = 0 := by omega
      rw [this]; simp [slice]
  · rw [readAt_unfold P s o n reply hc h]
    simp only
    generalize hcs : chunksFrom P (o + n - 1) (P.size + 1) (floorU o P.chunk) = cs
    obtain ⟨hcl1, hcl2, hcl3⟩ := classify_spec o n s.cache cs
    obtain ⟨h1, h2, h3⟩ := fetchMissing_spec P B Q hQ hc s (classify o n s.cache cs).2 reply hs hr
    generalize fetchMissing P s (classify o n s.cache cs).2 reply = R at h1 h2 h3
    obtain ⟨s1, r1⟩ := R
    cases r1 with
    | none => exact ⟨h1, h2, Or.inl rfl⟩
    | some got =>
      simp only
      refine ⟨h1, h2, Or.inr ?_⟩
      obtain ⟨hex, hall⟩ := h3 got rfl
      have hhits : ∀ cd ∈ (classify o n s.cache cs).1, WindowOK B o n cd := by
        intro cd hcd
        obtain ⟨hget, _, hhit⟩ := hcl1 cd hcd
        exact windowOK_of_prefix B o n cd.1 cd.2 (hQ.pre _ _ (hs.cacheQ cd.1 cd.2 hget)) hhit
      have hgot := windowOK_of_exact P B o n got hex
      have hlook : ∀ c ∈ cs, ∃ d, lookupData (classify o n s.cache cs).1 got c = some d ∧
          WindowOK B o n (c, d) := by
        intro c hcm
        apply lookupData_window B o n _ _ _ hhits hgot
        rcases hcl3 c hcm with h' | h'
        · exact Or.inl h'
        · exact Or.inr (hall c h')
      have hdatas : cs.filterMap (fun c => (lookupData (classify o n s.cache cs).1 got c).map
            (fun d => (c, d))) =
          cs.map (fun c => (c, (lookupData (classify o n s.cache cs).1 got c).getD [])) := by
        apply filterMap_eq_map_of
        intro c hcm
        obtain ⟨d, hd, _⟩ := hlook c hcm
        rw [hd]; rfl
      rw [hdatas, adjust_eq]
      have hn : 0 < n := by omega
      have ho : o ≤ P.size := by omega
      have ht := tiles_readAt P hc o n hn ho
      rw [hcs, adjust_eq] at ht
      have := assemble_tiles B o n (min n (P.size - o)) (by omega) (by omega)
        (cs.map (fun c => (c, (lookupData (classify o n s.cache cs).1 got c).getD []))) 0
        (List.replicate n 0) (by simp)
        (by rw [List.map_map]; exact ht)
        (by
          intro cd hcd
          obtain ⟨c, hcm, rfl⟩ := List.mem_map.mp hcd
          obtain ⟨d, hd, hw⟩ := hlook c hcm
          rw [hd]; exact hw)
        (by simp [slice])
      exact ⟨_, rfl, this.2, this.1⟩

theorem cacheAt_specQ (P : Params) (B : Bytes) (Q : Chunk → Bytes → Prop) (hQ : GoodQ P B Q)
    (hc : 0 < P.chunk)
    (s : St) (hs : InvQ P Q s) (o n : Nat) (reply : Reply) (hr : HonestReply B reply) :
    InvQ P Q (cacheAt P s o n reply).1 ∧ CovSub s (cacheAt P s o n reply).1 := by
  unfold cacheAt
  cases walkChunks P (floorU o P.chunk) (ceilU (o + n - 1) P.chunk - 1) with
  | none => exact ⟨hs, CovSub.refl s⟩
  | some cs =>
    simp only
    obtain ⟨h1, h2, _⟩ := fetchMissing_spec P B Q hQ hc s
      (cs.filter (fun c => (s.cache.get c).isNone)) reply hs hr
    generalize fetchMissing P s (cs.filter (fun c => (s.cache.get c).isNone)) reply = R at h1 h2
    obtain ⟨s1, r1⟩ := R
    cases r1 <;> exact ⟨h1, h2⟩

/-- Eviction / loss of one cache entry (the `drop` op of the driver). -/
def dropEntry (s : St) (c : Chunk) : St :=
  { s with cache := s.cache.filter fun kv => kv.1 ≠ c }

theorem dropEntry_specQ (P : Params) (Q : Chunk → Bytes → Prop) (s : St) (hs : InvQ P Q s)
    (c : Chunk) :
    InvQ P Q (dropEntry s c) ∧ CovSub s (dropEntry s c) := by
  refine ⟨⟨?_, hs.wf, hs.inBlob⟩, CovSub.refl s⟩
  intro c' d h
  apply hs.cacheQ c' d
  simp only [dropEntry, Cache.get, List.find?_filter] at h ⊢
  rw [Option.map_eq_some_iff] at h ⊢
  obtain ⟨kv, hkv, rfl⟩ := h
  have hp := List.find?_some hkv
  simp only [decide_eq_true_eq] at hp
  refine ⟨kv, ?_, rfl⟩
  have hm := List.mem_of_find?_eq_some hkv
  rw [List.find?_eq_some_iff_append] at hkv ⊢
  obtain ⟨_, as, bs, hab, hnot⟩ := hkv
  refine ⟨by simpa using hp.2, as, bs, hab, ?_⟩
  intro a ha
  have := hnot a ha
  simp only [decide_eq_true_eq, Bool.not_eq_eq_eq_not, Bool.not_true, decide_eq_false_iff_not] at this ⊢
  intro hac
  exact this ⟨by rw [hac, ← hp.2]; exact hp.1, hac⟩

/-- A cache that returns short data for one entry (the `trunc` op of the driver): the entry is
cut to its first `keep` bytes. -/
def truncEntry (s : St) (c : Chunk) (keep : Nat) : St :=
  { s with cache := s.cache.map fun kv => if kv.1 = c then (kv.1, kv.2.take keep) else kv }

/-- `Q` survives truncation of an entry. -/
def TruncClosed (Q : Chunk → Bytes → Prop) : Prop := ∀ c d k, Q c d → Q c (d.take k)

theorem truncEntry_specQ (P : Params) (Q : Chunk → Bytes → Prop) (hT : TruncClosed Q)
    (s : St) (hs : InvQ P Q s) (c : Chunk) (keep : Nat) :
    InvQ P Q (truncEntry s c keep) ∧ CovSub s (truncEntry s c keep) := by
  refine ⟨⟨?_, hs.wf, hs.inBlob⟩, CovSub.refl s⟩
  intro c' d h
  simp only [truncEntry, Cache.get, List.find?_map] at h
  have hfun : ((fun kv : Chunk × Bytes => decide (kv.1 = c')) ∘
      fun kv : Chunk × Bytes => if kv.1 = c then (kv.1, kv.2.take keep) else kv)
      = fun kv => decide (kv.1 = c') := by
    funext kv; simp only [Function.comp]; split <;> rfl
  rw [hfun] at h
  cases hf : s.cache.find? (fun kv => decide (kv.1 = c')) with
  | none => rw [hf] at h; simp at h
  | some kv =>
    rw [hf] at h
    simp only [Option.map_some, Option.some.injEq] at h
    have hp := List.find?_some hf
    simp only [decide_eq_true_eq] at hp
    have hq : Q c' kv.2 := hs.cacheQ c' kv.2 (by simp only [Cache.get, hf, Option.map_some])
    split at h
    · subst h; exact hT _ _ _ hq
    · subst h; exact hq

/-! ### histories -/

inductive Op
  | read (o n : Nat) (reply : Reply)
  | cache (o n : Nat) (reply : Reply)
  | drop (c : Chunk)
  | trunc (c : Chunk) (keep : Nat)

def Op.Honest (B : Bytes) : Op → Prop
  | .read _ _ r => HonestReply B r
  | .cache _ _ r => HonestReply B r
  | .drop _ => True
  | .trunc _ _ => True

instance (B : Bytes) : (op : Op) → Decidable (op.Honest B)
  | .read _ _ r => by unfold Op.Honest; infer_instance
  | .cache _ _ r => by unfold Op.Honest; infer_instance
  | .drop _ => by unfold Op.Honest; infer_instance
  | .trunc _ _ => by unfold Op.Honest; infer_instance

def Op.isTrunc : Op → Bool
  | .trunc _ _ => true
  | _ => false

/-- One operation on the blob; for a read the triple `(o, n, result)` is reported. -/
def stepOp (P : Params) (s : St) : Op → St × Option (Nat × Nat × Option (Nat × Bytes))
  | .read o n r => ((readAt P s o n r).1, some (o, n, (readAt P s o n r).2))
  | .cache o n r => ((cacheAt P s o n r).1, none)
  | .drop c => (dropEntry s c, none)
  | .trunc c k => (truncEntry s c k, none)

/-- State after a history. -/
def runOps (P : Params) (s : St) (ops : List Op) : St := ops.foldl (fun s op => (stepOp P s op).1) s

/-- All read results of a history, in order. -/
def trace (P : Params) : St → List Op → List (Nat × Nat × Option (Nat × Bytes))
  | _, [] => []
  | s, op :: ops =>
    match (stepOp P s op).2 with
    | some r => r :: trace P (stepOp P s op).1 ops
    | none => trace P (stepOp P s op).1 ops

/-- A read result is exact: an error, or the right count and the right bytes. -/
def ReadExact (P : Params) (B : Bytes) (o n : Nat) (r : Option (Nat × Bytes)) : Prop :=
  r = none ∨ ∃ buf, r = some (min n (P.size - o), buf) ∧ buf.length = n ∧
    buf.take (min n (P.size - o)) = slice B o (min n (P.size - o))

theorem stepOp_specQ (P : Params) (B : Bytes) (Q : Chunk → Bytes → Prop) (hQ : GoodQ P B Q)
    (hc : 0 < P.chunk) (hB : B.length = P.size)
    (s : St) (hs : InvQ P Q s) (op : Op) (ho : op.Honest B)
    (hT : op.isTrunc = false ∨ TruncClosed Q) :
    InvQ P Q (stepOp P s op).1 ∧ CovSub s (stepOp P s op).1 ∧
      ∀ o n r, (stepOp P s op).2 = some (o, n, r) → ReadExact P B o n r := by
  cases op with
  | read o n r =>
    obtain ⟨h1, h2, h3⟩ := readAt_specQ P B Q hQ hc hB s hs o n r ho
    refine ⟨h1, h2, ?_⟩
    intro o' n' r' h
    simp only [stepOp, Option.some.injEq, Prod.mk.injEq] at h
    obtain ⟨rfl, rfl, rfl⟩ := h
    exact h3
  | cache o n r =>
    obtain ⟨h1, h2⟩ := cacheAt_specQ P B Q hQ hc s hs o n r ho
    exact ⟨h1, h2, by intro o' n' r' h; simp [stepOp] at h⟩
  | drop c =>
    obtain ⟨h1, h2⟩ := dropEntry_specQ P Q s hs c
    exact ⟨h1, h2, by intro o' n' r' h; simp [stepOp] at h⟩
  | trunc c k =>
    rcases hT with hT | hT
    · simp [Op.isTrunc] at hT
    · obtain ⟨h1, h2⟩ := truncEntry_specQ P Q hT s hs c k
      exact ⟨h1, h2, by intro o' n' r' h; simp [stepOp] at h⟩

theorem runOps_specQ (P : Params) (B : Bytes) (Q : Chunk → Bytes → Prop) (hQ : GoodQ P B Q)
    (hc : 0 < P.chunk) (hB : B.length = P.size) :
    ∀ (ops : List Op) (s : St), InvQ P Q s → (∀ op ∈ ops, op.Honest B) →
      ((∀ op ∈ ops, op.isTrunc = false) ∨ TruncClosed Q) →
      InvQ P Q (runOps P s ops) ∧ CovSub s (runOps P s ops) ∧
      ∀ t ∈ trace P s ops, ReadExact P B t.1 t.2.1 t.2.2 := by
  intro ops
  induction ops with
  | nil => intro s hs _ _; exact ⟨hs, CovSub.refl s, by intro t ht; simp [trace] at ht⟩
  | cons op ops ih =>
    intro s hs hh hT
    have hT1 : op.isTrunc = false ∨ TruncClosed Q := by
      rcases hT with h | h
      · exact Or.inl (h op (List.mem_cons_self ..))
      · exact Or.inr h
    have hT2 : (∀ op ∈ ops, op.isTrunc = false) ∨ TruncClosed Q := by
      rcases hT with h | h
      · exact Or.inl (fun op' h' => h op' (List.mem_cons_of_mem _ h'))
      · exact Or.inr h
    obtain ⟨h1, h2, h3⟩ := stepOp_specQ P B Q hQ hc hB s hs op (hh op (List.mem_cons_self ..)) hT1
    obtain ⟨k1, k2, k3⟩ := ih (stepOp P s op).1 h1
      (fun op' h' => hh op' (List.mem_cons_of_mem _ h')) hT2
    refine ⟨k1, CovSub.trans h2 k2, ?_⟩
    intro t ht
    unfold trace at ht
    cases hr : (stepOp P s op).2 with
    | none => rw [hr] at ht; exact k3 t ht
    | some r =>
      rw [hr] at ht
      rcases List.mem_cons.mp ht with rfl | ht
      · obtain ⟨o, n, r⟩ := t; exact h3 o n r hr
      · exact k3 t ht

/-! ### the two instances: exact cache (`Inv`) and possibly truncated cache -/

theorem readAt_spec (P : Params) (B : Bytes) (hc : 0 < P.chunk) (hB : B.length = P.size)
    (s : St) (hs : Inv P B s) (o n : Nat) (reply : Reply) (hr : HonestReply B reply) :
    Inv P B (readAt P s o n reply).1 ∧ CovSub s (readAt P s o n reply).1 ∧
    ((readAt P s o n reply).2 = none ∨
      ∃ buf, (readAt P s o n reply).2 = some (min n (P.size - o), buf) ∧ buf.length = n ∧
        buf.take (min n (P.size - o)) = slice B o (min n (P.size - o))) := by
  obtain ⟨h1, h2, h3⟩ := readAt_specQ P B _ (goodQ_exact P B) hc hB s ((inv_iff P B s).mp hs)
    o n reply hr
  exact ⟨(inv_iff P B _).mpr h1, h2, h3⟩

theorem cacheAt_spec (P : Params) (B : Bytes) (hc : 0 < P.chunk)
    (s : St) (hs : Inv P B s) (o n : Nat) (reply : Reply) (hr : HonestReply B reply) :
    Inv P B (cacheAt P s o n reply).1 ∧ CovSub s (cacheAt P s o n reply).1 := by
  obtain ⟨h1, h2⟩ := cacheAt_specQ P B _ (goodQ_exact P B) hc s ((inv_iff P B s).mp hs)
    o n reply hr
  exact ⟨(inv_iff P B _).mpr h1, h2⟩

theorem runOps_spec (P : Params) (B : Bytes) (hc : 0 < P.chunk) (hB : B.length = P.size)
    (ops : List Op) (s : St) (hs : Inv P B s) (hh : ∀ op ∈ ops, op.Honest B)
    (hnt : ∀ op ∈ ops, op.isTrunc = false) :
    Inv P B (runOps P s ops) ∧ CovSub s (runOps P s ops) ∧
      ∀ t ∈ trace P s ops, ReadExact P B t.1 t.2.1 t.2.2 := by
  obtain ⟨h1, h2, h3⟩ := runOps_specQ P B _ (goodQ_exact P B) hc hB ops s
    ((inv_iff P B s).mp hs) hh (Or.inl hnt)
  exact ⟨(inv_iff P B _).mpr h1, h2, h3⟩

theorem truncClosed_prefix (P : Params) (B : Bytes) : TruncClosed (QPrefix P B) :=
  fun c d k h => qprefix_take P B c d k h

theorem invQ_of_inv (P : Params) (B : Bytes) (s : St) (hs : Inv P B s) :
    InvQ P (QPrefix P B) s :=
  ⟨fun c d h => ⟨(goodQ_exact P B).pre c d (hs.cacheOK c d h), (hs.cacheOK c d h).2⟩,
    hs.wf, hs.inBlob⟩

/-- `FetchedSize` of a state satisfying the invariant counts distinct bytes, so coverage growth
means size growth, bounded by the blob size. -/
theorem fetchedSize_of_inv (P : Params) (Q : Chunk → Bytes → Prop) (s s' : St)
    (hs : InvQ P Q s) (hs' : InvQ P Q s')
    (hsub : CovSub s s') :
    totalSize s.fetched ≤ totalSize s'.fetched ∧ totalSize s'.fetched ≤ P.size := by
  rw [totalSize_eq_count P.size _ hs.wf hs.inBlob, totalSize_eq_count P.size _ hs'.wf hs'.inBlob]
  have h1 := countCov_mono P.size _ _ hsub
  have h2 := countCov_le P.size s'.fetched
  omega

/-- Index form of `Tiles`. -/
theorem Tiles.index : ∀ {a : Nat} {ps : List Place} {k : Nat}, Tiles a ps k →
    (∀ h : 0 < ps.length, ps[0].base = a) ∧
    (∀ j (h : j + 1 < ps.length), ps[j + 1].base = ps[j].base + ps[j].expected) ∧
    (∀ h : ps ≠ [], (ps.getLast h).base + (ps.getLast h).expected = k) ∧ (ps = [] → a = k)
  | a, [], k, h => by
    unfold Tiles at h
    exact ⟨by intro h; simp at h, by intro j h; simp at h, by intro h; exact absurd rfl h, fun _ => h⟩
  | a, p :: ps, k, h => by
    unfold Tiles at h
    obtain ⟨hb, ht⟩ := h
    obtain ⟨i1, i2, i3, i4⟩ := Tiles.index ht
    refine ⟨fun _ => hb, ?_, ?_, by intro h; cases h⟩
    · intro j hj
      cases j with
      | zero =>
        have := i1 (by simpa using hj)
        simp only [List.getElem_cons_succ, List.getElem_cons_zero]
        omega
      | succ j =>
        simp only [List.getElem_cons_succ]
        exact i2 j (by simpa using hj)
    · intro _
      cases ps with
      | nil => simp only [List.getLast_singleton]; have := i4 rfl; omega
      | cons q qs => rw [List.getLast_cons (by simp)]; exact i3 (by simp)

/-! ### bytesWriter -/

theorem writeAt_getElem? (buf : Bytes) (base : Nat) (seg : Bytes) (h : base ≤ buf.length) (j : Nat) :
    (writeAt buf base seg)[j]? =
      if j < base then buf[j]? else if j < base + seg.length then seg[j - base]? else buf[j]? := by
  unfold writeAt
  rw [List.getElem?_append, List.getElem?_append]
  simp only [List.length_append, List.length_take, Nat.min_eq_left h, List.getElem?_take,
    List.getElem?_drop]
  by_cases h1 : j < base
  · have : j < base + seg.length := by omega
    simp [h1, this]
  · by_cases h2 : j < base + seg.length
    · simp [h1, h2]
    · simp only [h1, h2, if_false]
      congr 1; omega

theorem BW.write_fields (w : BW) (p : Bytes) :
    (w.write p).destOff = w.destOff ∧ (w.write p).current = w.current + p.length ∧
      (w.write p).dest.length = w.dest.length := by
  unfold BW.write
  simp only
  split
  · simp
  · split
    · simp
    · refine ⟨rfl, rfl, ?_⟩
      simp only
      rw [writeAt_length]
      simp only [List.length_take]
      omega

theorem BW.write_getElem? (w : BW) (p : Bytes) (j : Nat) :
    (w.write p).dest[j]? =
      if w.current ≤ w.destOff + j ∧ w.destOff + j < w.current + p.length ∧ j < w.dest.length
      then p[w.destOff + j - w.current]? else w.dest[j]? := by
  unfold BW.write
  simp only
  split
  · rw [if_neg (by omega)]
  · split
    · rw [if_neg (by omega)]
    · rename_i h1 h2
      simp only
      rw [writeAt_getElem? _ _ _ (by omega)]
      simp only [List.length_take, List.length_drop, List.getElem?_take, List.getElem?_drop]
      rcases Nat.le_total w.current w.destOff with hle | hle
      · have e0 : w.current - w.destOff = 0 := by omega
        simp only [e0, Nat.zero_add, Nat.sub_zero, Nat.not_lt_zero, if_false]
        by_cases hpe : w.destOff + w.dest.length - w.current > p.length
        · simp only [hpe, if_true]
          repeat' split
          all_goals first | (exfalso; omega) | rfl | (congr 1; omega)
        · simp only [hpe, if_false]
          repeat' split
          all_goals first | (exfalso; omega) | rfl | (congr 1; omega)
      · have e0 : w.destOff - w.current = 0 := by omega
        simp only [e0, Nat.zero_add, Nat.sub_zero]
        by_cases hpe : w.destOff + w.dest.length - w.current > p.length
        · simp only [hpe, if_true]
          repeat' split
          all_goals first | (exfalso; omega) | rfl | (congr 1; omega)
        · simp only [hpe, if_false]
          repeat' split
          all_goals first | (exfalso; omega) | rfl | (congr 1; omega)

theorem BW.fold_spec : ∀ (ps : List Bytes) (w : BW),
    (ps.foldl BW.write w).destOff = w.destOff ∧
    (ps.foldl BW.write w).current = w.current + ps.flatten.length ∧
    (ps.foldl BW.write w).dest.length = w.dest.length ∧
    ∀ j, (ps.foldl BW.write w).dest[j]? =
      if w.current ≤ w.destOff + j ∧ w.destOff + j < w.current + ps.flatten.length ∧
          j < w.dest.length
      then ps.flatten[w.destOff + j - w.current]? else w.dest[j]? := by
  intro ps
  induction ps with
  | nil =>
    intro w
    refine ⟨rfl, rfl, rfl, ?_⟩
    intro j
    rw [if_neg]; · rfl
    simp only [List.flatten_nil, List.length_nil]; omega
  | cons p ps ih =>
    intro w
    obtain ⟨f1, f2, f3⟩ := BW.write_fields w p
    obtain ⟨i1, i2, i3, i4⟩ := ih (w.write p)
    simp only [List.foldl_cons, List.flatten_cons, List.length_append]
    refine ⟨by rw [i1, f1], by rw [i2, f2]; omega, by rw [i3, f3], ?_⟩
    intro j
    rw [i4 j, BW.write_getElem? w p j, f1, f2, f3, List.getElem?_append]
    generalize ps.flatten = F
    repeat' split
    all_goals first | (exfalso; omega) | rfl | (congr 1; omega)

theorem bytesWriter_fold (len destOff : Nat) (ps : List Bytes) :
    let w := ps.foldl BW.write { dest := List.replicate len 0, destOff := destOff, current := 0 }
    w.dest.length = len ∧
    w.dest.take (min len (ps.flatten.length - destOff)) =
      slice ps.flatten destOff (min len (ps.flatten.length - destOff)) ∧
    (destOff + len ≤ ps.flatten.length → w.dest = slice ps.flatten destOff len) := by
  obtain ⟨_, _, h3, h4⟩ := BW.fold_spec ps
    { dest := List.replicate len 0, destOff := destOff, current := 0 }
  simp only [List.length_replicate] at h3 h4
  have hmain : ∀ m, m ≤ min len (ps.flatten.length - destOff) →
      (ps.foldl BW.write { dest := List.replicate len 0, destOff := destOff, current := 0 }).dest.take m
        = slice ps.flatten destOff m := by
    intro m hm
    apply List.ext_getElem?
    intro j
    unfold slice
    rw [List.getElem?_take, List.getElem?_take, List.getElem?_drop, h4 j]
    split
    · rw [if_pos (by omega)]; congr 1
    · rfl
  refine ⟨h3, hmain _ (Nat.le_refl _), ?_⟩
  intro hle
  have := hmain len (by omega)
  rwa [List.take_of_length_le (by omega)] at this

/-! ### retry state machine of `httpFetcher.fetch` -/

/-- Status 200 or 206. -/
def isOK : Status → Bool
  | .ok200 | .partial206 => true
  | _ => false

theorem fetchSM_le_two (st : FSt) (retry : Bool) (script : List Status) (refresh : Option Bool) :
    (fetchSM st retry script refresh).2.2 ≤ 2 ∧
    (fetchSM st retry script refresh).2.2 ≤ script.length := by
  obtain ⟨sr, rd⟩ := st
  rcases script with _ | ⟨s, _ | ⟨s2, rest⟩⟩
  · simp [fetchSM]
  · cases s
    case forbidden403 => cases retry <;> cases refresh <;> simp [fetchSM]
    case badReq400 => cases retry <;> cases sr <;> simp [fetchSM]
    all_goals simp [fetchSM]
  · cases s
    case forbidden403 => cases retry <;> cases refresh <;> cases s2 <;> simp [fetchSM]
    case badReq400 => cases retry <;> cases sr <;> cases s2 <;> simp [fetchSM]
    all_goals simp [fetchSM]

theorem fetchSM_no_retry (st : FSt) (script : List Status) (refresh : Option Bool) :
    (fetchSM st false script refresh).2.2 ≤ 1 ∧ (fetchSM st false script refresh).1 = st := by
  rcases script with _ | ⟨s, rest⟩
  · simp [fetchSM]
  · cases s <;> simp [fetchSM]

theorem fetchSM_single_mono (st : FSt) (retry : Bool) (script : List Status) (refresh : Option Bool)
    (h : st.singleRange = true) : (fetchSM st retry script refresh).1.singleRange = true := by
  obtain ⟨sr, rd⟩ := st
  simp only at h; subst h
  rcases script with _ | ⟨s, _ | ⟨s2, rest⟩⟩
  · simp [fetchSM]
  · cases s
    case forbidden403 => cases retry <;> cases refresh <;> simp [fetchSM]
    case badReq400 => cases retry <;> simp [fetchSM]
    all_goals simp [fetchSM]
  · cases s
    case forbidden403 => cases retry <;> cases refresh <;> cases s2 <;> simp [fetchSM]
    case badReq400 => cases retry <;> cases s2 <;> simp [fetchSM]
    all_goals simp [fetchSM]

theorem fetchSM_body_iff (st : FSt) (retry : Bool) (script : List Status) (refresh : Option Bool) :
    (fetchSM st retry script refresh).2.1 = .body ↔
      ∃ s, (script.take (fetchSM st retry script refresh).2.2).getLast? = some s ∧ isOK s = true := by
  obtain ⟨sr, rd⟩ := st
  rcases script with _ | ⟨s, _ | ⟨s2, rest⟩⟩
  · simp [fetchSM]
  · cases s
    case forbidden403 => cases retry <;> cases refresh <;> simp [fetchSM, isOK]
    case badReq400 => cases retry <;> cases sr <;> simp [fetchSM, isOK]
    all_goals simp [fetchSM, isOK]
  · cases s
    case forbidden403 => cases retry <;> cases refresh <;> cases s2 <;> simp [fetchSM, isOK]
    case badReq400 => cases retry <;> cases sr <;> cases s2 <;> simp [fetchSM, isOK]
    all_goals simp [fetchSM, isOK]

/-- Two requests are sent only after a 403 (with retry and a successful URL refresh) or after a 400
(with retry, not yet in single-range mode); in the latter case the mode is switched on. -/
theorem fetchSM_two (st : FSt) (retry : Bool) (script : List Status) (refresh : Option Bool)
    (h : (fetchSM st retry script refresh).2.2 = 2) :
    retry = true ∧
    ((script.head? = some .forbidden403 ∧ refresh.isSome ∧
        (fetchSM st retry script refresh).1.singleRange = st.singleRange) ∨
     (script.head? = some .badReq400 ∧ st.singleRange = false ∧
        (fetchSM st retry script refresh).1 = { st with singleRange := true })) := by
  obtain ⟨sr, rd⟩ := st
  rcases script with _ | ⟨s, _ | ⟨s2, rest⟩⟩
  · simp [fetchSM] at h
  · revert h; cases s
    case forbidden403 => cases retry <;> cases refresh <;> simp [fetchSM]
    case badReq400 => cases retry <;> cases sr <;> simp [fetchSM]
    all_goals simp [fetchSM]
  · revert h; cases s
    case forbidden403 => cases retry <;> cases refresh <;> cases s2 <;> simp [fetchSM]
    case badReq400 => cases retry <;> cases sr <;> cases s2 <;> simp [fetchSM]
    all_goals simp [fetchSM]

/-- The url is only changed by a successful refresh after a 403. -/
theorem fetchSM_redirect (st : FSt) (retry : Bool) (script : List Status) (refresh : Option Bool) :
    (fetchSM st retry script refresh).1.redirected = st.redirected ∨
      (retry = true ∧ script.head? = some .forbidden403 ∧
        refresh = some (fetchSM st retry script refresh).1.redirected) := by
  obtain ⟨sr, rd⟩ := st
  rcases script with _ | ⟨s, _ | ⟨s2, rest⟩⟩
  · simp [fetchSM]
  · cases s
    case forbidden403 => cases retry <;> cases refresh <;> simp [fetchSM]
    case badReq400 => cases retry <;> cases sr <;> simp [fetchSM]
    all_goals simp [fetchSM]
  · cases s
    case forbidden403 => cases retry <;> cases refresh <;> cases s2 <;> simp [fetchSM]
    case badReq400 => cases retry <;> cases sr <;> cases s2 <;> simp [fetchSM]
    all_goals simp [fetchSM]

/-! ### requested ranges -/

/-- The squashed request set of `httpFetcher.fetch`. -/
def reqSet (missing : List Chunk) : List Region :=
  missing.foldl (fun acc c => add acc c.toRegion) []

theorem requestRanges_eq (single : Bool) (missing : List Chunk) :
    requestRanges single missing =
      if single then (match superRegion (reqSet missing) with | some r => [r] | none => [])
      else reqSet missing := rfl

theorem pairwise_mem {α} {R : α → α → Prop} : ∀ {l : List α}, l.Pairwise R →
    ∀ {a b}, a ∈ l → b ∈ l → a = b ∨ R a b ∨ R b a := by
  intro l
  induction l with
  | nil => intro _ a b ha; simp at ha
  | cons x xs ih =>
    intro hp a b ha hb
    rw [List.pairwise_cons] at hp
    rcases List.mem_cons.mp ha with rfl | ha' <;> rcases List.mem_cons.mp hb with rfl | hb'
    · exact Or.inl rfl
    · exact Or.inr (Or.inl (hp.1 b hb'))
    · exact Or.inr (Or.inr (hp.1 a ha'))
    · exact ih hp.2 ha' hb'

/-- In a well-formed set the bytes just outside a region are not covered. -/
theorem wf_not_cov_ends (rs : List Region) (h : WF rs) (l : Region) (hl : l ∈ rs) :
    ¬ cov (l.b - 1) rs ∧ ¬ cov (l.e + 1) rs := by
  have hle := h.1 l hl
  constructor
  · rintro ⟨l', hl', h1, h2⟩
    have hle' := h.1 l' hl'
    rcases pairwise_mem h.2 hl hl' with rfl | h3 | h3 <;> omega
  · rintro ⟨l', hl', h1, h2⟩
    have hle' := h.1 l' hl'
    rcases pairwise_mem h.2 hl hl' with rfl | h3 | h3 <;> omega

/-- The end points of the regions of `add rs r` are end points of `rs` or of `r`. -/
theorem add_ends (Sb Se : Int → Prop) (rs : List Region) (r : Region) (h : WF rs)
    (hr : r.b ≤ r.e) (he : ∀ l ∈ rs, Sb l.b ∧ Se l.e) (hb : Sb r.b) (hee : Se r.e) :
    ∀ l ∈ add rs r, Sb l.b ∧ Se l.e := by
  intro l hl
  have hwf := SV.Props.C06.add_wf rs r h hr
  have hle := hwf.1 l hl
  obtain ⟨hn1, hn2⟩ := wf_not_cov_ends _ hwf l hl
  have hc1 : cov l.b (add rs r) := ⟨l, hl, by omega, hle⟩
  have hc2 : cov l.e (add rs r) := ⟨l, hl, hle, by omega⟩
  rw [SV.Props.C06.add_cov rs r h hr] at hn1 hn2 hc1 hc2
  constructor
  · rcases hc1 with ⟨l', hl', h1, h2⟩ | ⟨h1, h2⟩
    · have : l'.b = l.b := by
        by_cases hlt : l'.b < l.b
        · exact absurd (Or.inl ⟨l', hl', by omega, by omega⟩) hn1
        · omega
      rw [← this]; exact (he l' hl').1
    · have : r.b = l.b := by
        by_cases hlt : r.b < l.b
        · exact absurd (Or.inr ⟨by omega, by omega⟩) hn1
        · omega
      rw [← this]; exact hb
  · rcases hc2 with ⟨l', hl', h1, h2⟩ | ⟨h1, h2⟩
    · have : l'.e = l.e := by
        by_cases hlt : l.e < l'.e
        · exact absurd (Or.inl ⟨l', hl', by omega, by omega⟩) hn2
        · omega
      rw [← this]; exact (he l' hl').2
    · have : r.e = l.e := by
        by_cases hlt : l.e < r.e
        · exact absurd (Or.inr ⟨by omega, by omega⟩) hn2
        · omega
      rw [← this]; exact hee

theorem reqSet_spec (Sb Se : Int → Prop) :
    ∀ (missing : List Chunk) (acc : List Region), WF acc →
      (∀ c ∈ missing, c.b ≤ c.e) →
      (∀ l ∈ acc, Sb l.b ∧ Se l.e) → (∀ c ∈ missing, Sb c.b ∧ Se c.e) →
      WF (missing.foldl (fun acc c => add acc c.toRegion) acc) ∧
      (∀ x, cov x (missing.foldl (fun acc c => add acc c.toRegion) acc) ↔
        cov x acc ∨ ∃ c ∈ missing, (c.b : Int) ≤ x ∧ x ≤ c.e) ∧
      ∀ l ∈ missing.foldl (fun acc c => add acc c.toRegion) acc, Sb l.b ∧ Se l.e := by
  intro missing
  induction missing with
  | nil => intro acc h _ he _; exact ⟨h, by intro x; simp, he⟩
  | cons c cs ih =>
    intro acc h hne he hm
    have hr : c.toRegion.b ≤ c.toRegion.e := by
      have := hne c (List.mem_cons_self ..)
      simp only [Chunk.toRegion]; omega
    have hmc := hm c (List.mem_cons_self ..)
    obtain ⟨h1, h2, h3⟩ := ih (add acc c.toRegion) (SV.Props.C06.add_wf _ _ h hr)
      (fun c' h' => hne c' (List.mem_cons_of_mem _ h'))
      (add_ends Sb Se acc c.toRegion h hr he hmc.1 hmc.2)
      (fun c' h' => hm c' (List.mem_cons_of_mem _ h'))
    refine ⟨h1, ?_, h3⟩
    intro x
    simp only [List.foldl_cons]
    rw [h2 x, SV.Props.C06.add_cov _ _ h hr]
    simp only [Chunk.toRegion, List.mem_cons]
    constructor
    · rintro ((h' | h') | ⟨c', hc', h'⟩)
      · exact Or.inl h'
      · exact Or.inr ⟨c, Or.inl rfl, h'⟩
      · exact Or.inr ⟨c', Or.inr hc', h'⟩
    · rintro (h' | ⟨c', rfl | hc', h'⟩)
      · exact Or.inl (Or.inl h')
      · exact Or.inl (Or.inr h')
      · exact Or.inr ⟨c', hc', h'⟩

/-- One step of the `superRegion` loop. -/
def superStep (s reg : Region) : Region :=
  let s := if reg.b < s.b then { s with b := reg.b } else s
  if reg.e > s.e then { s with e := reg.e } else s

theorem superStep_spec (s reg : Region) :
    (superStep s reg).b ≤ s.b ∧ (superStep s reg).b ≤ reg.b ∧
    ((superStep s reg).b = s.b ∨ (superStep s reg).b = reg.b) ∧
    s.e ≤ (superStep s reg).e ∧ reg.e ≤ (superStep s reg).e ∧
    ((superStep s reg).e = s.e ∨ (superStep s reg).e = reg.e) := by
  unfold superStep
  by_cases h1 : reg.b < s.b <;> by_cases h2 : reg.e > s.e <;> simp [h1, h2] <;> omega

theorem superFold_spec : ∀ (l : List Region) (s : Region),
    (l.foldl superStep s).b ≤ s.b ∧ s.e ≤ (l.foldl superStep s).e ∧
    (∀ x ∈ l, (l.foldl superStep s).b ≤ x.b ∧ x.e ≤ (l.foldl superStep s).e) ∧
    ((l.foldl superStep s).b = s.b ∨ ∃ x ∈ l, (l.foldl superStep s).b = x.b) ∧
    ((l.foldl superStep s).e = s.e ∨ ∃ x ∈ l, (l.foldl superStep s).e = x.e) := by
  intro l
  induction l with
  | nil => intro s; simp
  | cons a l ih =>
    intro s
    obtain ⟨i1, i2, i3, i4, i5⟩ := ih (superStep s a)
    obtain ⟨s1, s2, s3, s4, s5, s6⟩ := superStep_spec s a
    simp only [List.foldl_cons]
    refine ⟨by omega, by omega, ?_, ?_, ?_⟩
    · intro x hx
      rcases List.mem_cons.mp hx with rfl | hx
      · constructor <;> omega
      · exact i3 x hx
    · rcases i4 with h | ⟨x, hx, h⟩
      · rcases s3 with h' | h'
        · exact Or.inl (by omega)
        · exact Or.inr ⟨a, List.mem_cons_self .., by omega⟩
      · exact Or.inr ⟨x, List.mem_cons_of_mem _ hx, h⟩
    · rcases i5 with h | ⟨x, hx, h⟩
      · rcases s6 with h' | h'
        · exact Or.inl (by omega)
        · exact Or.inr ⟨a, List.mem_cons_self .., by omega⟩
      · exact Or.inr ⟨x, List.mem_cons_of_mem _ hx, h⟩

theorem superRegion_spec (rs : List Region) :
    (rs = [] → superRegion rs = none) ∧
    (rs ≠ [] → ∃ r, superRegion rs = some r ∧ (∀ x ∈ rs, r.b ≤ x.b ∧ x.e ≤ r.e) ∧
      (∃ x ∈ rs, r.b = x.b) ∧ (∃ x ∈ rs, r.e = x.e)) := by
  cases rs with
  | nil => exact ⟨fun _ => rfl, fun h => absurd rfl h⟩
  | cons r0 rest =>
    refine ⟨fun h => (by cases h), fun _ => ?_⟩
    obtain ⟨_, _, i3, i4, i5⟩ := superFold_spec (r0 :: rest) r0
    refine ⟨(r0 :: rest).foldl superStep r0, rfl, i3, ?_, ?_⟩
    · rcases i4 with h | h
      · exact ⟨r0, List.mem_cons_self .., h⟩
      · exact h
    · rcases i5 with h | h
      · exact ⟨r0, List.mem_cons_self .., h⟩
      · exact h

/-- The requested ranges cover every byte of every missing chunk, in both modes. -/
theorem request_covers (missing : List Chunk) (hne : ∀ c ∈ missing, c.b ≤ c.e) (single : Bool) :
    ∀ c ∈ missing, ∀ x : Int, (c.b : Int) ≤ x → x ≤ c.e → cov x (requestRanges single missing) := by
  intro c hc x h1 h2
  obtain ⟨_, hcov, _⟩ := reqSet_spec (fun _ => True) (fun _ => True) missing []
    ⟨by simp, by simp⟩ hne (by simp) (by simp)
  have hx : cov x (reqSet missing) := (hcov x).mpr (Or.inr ⟨c, hc, h1, h2⟩)
  rw [requestRanges_eq]
  cases single with
  | false => exact hx
  | true =>
    simp only [if_true]
    obtain ⟨l, hl, hl1, hl2⟩ := hx
    have hne' : reqSet missing ≠ [] := by intro h; rw [h] at hl; simp at hl
    obtain ⟨r, hr, hall, _, _⟩ := (superRegion_spec (reqSet missing)).2 hne'
    rw [hr]
    have := hall l hl
    exact ⟨r, List.mem_cons_self .., by omega, by omega⟩

/-- Start / end of a region coincide with the start / end of a grid chunk. -/
def GridStart (P : Params) (x : Int) : Prop := ∃ m : Chunk, GridChunk P m ∧ (m.b : Int) = x
def GridEnd (P : Params) (x : Int) : Prop := ∃ m : Chunk, GridChunk P m ∧ (m.e : Int) = x

theorem requestRanges_grid (P : Params) (hc : 0 < P.chunk) (missing : List Chunk)
    (hm : ∀ c ∈ missing, GridChunk P c) (single : Bool) :
    ∀ r ∈ requestRanges single missing, r.b ≤ r.e ∧ GridStart P r.b ∧ GridEnd P r.e := by
  obtain ⟨hwf, _, hends⟩ := reqSet_spec (GridStart P) (GridEnd P) missing []
    ⟨by simp, by simp⟩ (fun c h => ((hm c h).le hc).1) (by simp)
    (fun c h => ⟨⟨c, hm c h, rfl⟩, ⟨c, hm c h, rfl⟩⟩)
  intro r hr
  rw [requestRanges_eq] at hr
  cases single with
  | false => exact ⟨hwf.1 r hr, hends r hr⟩
  | true =>
    simp only [if_true] at hr
    by_cases hne' : reqSet missing = []
    · rw [(superRegion_spec _).1 hne'] at hr; simp at hr
    · obtain ⟨r', hr', hall, ⟨x, hx, hxb⟩, ⟨y, hy, hye⟩⟩ := (superRegion_spec _).2 hne'
      rw [hr'] at hr
      simp only [List.mem_singleton] at hr
      subst hr
      have h1 := hall x hx
      have h2 := hwf.1 x hx
      refine ⟨by omega, ?_, ?_⟩
      · rw [hxb]; exact (hends x hx).1
      · rw [hye]; exact (hends y hy).2

theorem aligned_add_le {a b c : Nat} (ha : a % c = 0) (hb : b % c = 0) (h : a < b) :
    a + c ≤ b := by
  have ea : a / c * c = a := Nat.div_mul_cancel (Nat.dvd_of_mod_eq_zero ha)
  have eb : b / c * c = b := Nat.div_mul_cancel (Nat.dvd_of_mod_eq_zero hb)
  have hlt : a / c < b / c := by
    by_cases h' : a / c < b / c
    · exact h'
    · have := Nat.mul_le_mul_right c (Nat.le_of_not_lt h'); omega
  have := Nat.mul_le_mul_right c (Nat.succ_le_of_lt hlt)
  rw [Nat.succ_mul] at this
  omega

/-- A stream that reaches to the end `e` of a grid chunk is long enough for the whole walk. -/
theorem storeChunks_ok (P : Params) (hc : 0 < P.chunk) (e : Nat)
    (he : ∃ m, GridChunk P m ∧ m.e = e) :
    ∀ fuel i (s : St) (stream : Bytes), i % P.chunk = 0 → e + 1 - i ≤ stream.length →
      ∃ got, (storeChunks s stream (chunksFrom P e fuel i)).2 = some got ∧
        got.map (·.1) = chunksFrom P e fuel i := by
  obtain ⟨m, ⟨hm1, hm2, hm3⟩, rfl⟩ := he
  intro fuel
  induction fuel with
  | zero => intro i s stream _ _; exact ⟨[], rfl, rfl⟩
  | succ fuel ih =>
    intro i s stream hi hlen
    unfold chunksFrom
    split
    · rename_i hcond
      have hij : i ≤ m.b := by
        by_cases h : i ≤ m.b
        · exact h
        · have := aligned_add_le hm1 hi (by omega); omega
      rw [storeChunks_cons]
      have hsz : Chunk.size ⟨i, min (i + P.chunk - 1) (P.size - 1)⟩ ≤ stream.length := by
        simp only [Chunk.size]; omega
      rw [if_neg (by omega)]
      have hal : (i + P.chunk) % P.chunk = 0 := by rw [Nat.add_mod_right]; exact hi
      obtain ⟨got, hg1, hg2⟩ := ih (i + P.chunk)
        { cache := s.cache.put ⟨i, min (i + P.chunk - 1) (P.size - 1)⟩
            (stream.take (Chunk.size ⟨i, min (i + P.chunk - 1) (P.size - 1)⟩)),
          fetched := add s.fetched (Chunk.toRegion ⟨i, min (i + P.chunk - 1) (P.size - 1)⟩) }
        (stream.drop (Chunk.size ⟨i, min (i + P.chunk - 1) (P.size - 1)⟩)) hal
        (by rw [List.length_drop]; simp only [Chunk.size] at hsz ⊢; omega)
      simp only
      rw [hg1]
      exact ⟨_, rfl, by simp [hg2]⟩
    · exact ⟨[], rfl, rfl⟩

theorem storeParts_ok (P : Params) (hc : 0 < P.chunk) :
    ∀ (ps : List Part) (s : St),
      (∀ p ∈ ps, p.b % P.chunk = 0 ∧ (∃ m, GridChunk P m ∧ m.e = p.e) ∧
        p.e + 1 - p.b ≤ p.data.length) →
      ∃ got, (storeParts P s ps).2 = some got ∧
        ∀ p ∈ ps, ∀ ch ∈ chunksFrom P p.e (P.size + 1) p.b, ∃ g ∈ got, g.1 = ch := by
  intro ps
  induction ps with
  | nil => intro s _; exact ⟨[], rfl, by intro p hp; simp at hp⟩
  | cons p ps ih =>
    intro s hps
    obtain ⟨hp1, hp2, hp3⟩ := hps p (List.mem_cons_self ..)
    rw [storeParts_cons, if_neg (by omega)]
    obtain ⟨got1, hg1, hg2⟩ := storeChunks_ok P hc p.e hp2 (P.size + 1) p.b s p.data hp1 hp3
    simp only [hg1]
    obtain ⟨got2, hk1, hk2⟩ := ih (storeChunks s p.data (chunksFrom P p.e (P.size + 1) p.b)).1
      (fun p' h' => hps p' (List.mem_cons_of_mem _ h'))
    rw [hk1]
    refine ⟨got1 ++ got2, rfl, ?_⟩
    intro p' hp' ch hch
    rcases List.mem_cons.mp hp' with rfl | hp'
    · rw [← hg2] at hch
      obtain ⟨g, hg, rfl⟩ := List.mem_map.mp hch
      exact ⟨g, List.mem_append_left _ hg, rfl⟩
    · obtain ⟨g, hg, hgc⟩ := hk2 p' hp' ch hch
      exact ⟨g, List.mem_append_right _ hg, hgc⟩

/-- The part an honest server sends for a requested range: the announced range and all its
bytes. -/
def fullPart (B : Bytes) (r : Region) : Part :=
  ⟨r.b.toNat, r.e.toNat, slice B r.b.toNat (r.e.toNat + 1 - r.b.toNat)⟩

/-- An honest server answering exactly the requested ranges. -/
def honestAnswer (B : Bytes) (rs : List Region) : Reply := .parts (rs.map (fullPart B))

theorem honestAnswer_honest (B : Bytes) (rs : List Region) : HonestReply B (honestAnswer B rs) := by
  intro p hp
  obtain ⟨r, _, rfl⟩ := List.mem_map.mp hp
  exact slice_self_length B _ _

/-- An honest server that answers exactly the requested ranges makes the fetch succeed. -/
theorem fetchMissing_honest_ok (P : Params) (B : Bytes) (hc : 0 < P.chunk) (hB : B.length = P.size)
    (missing : List Chunk) (hm : ∀ c ∈ missing, GridChunk P c) (single : Bool) (s : St) :
    ∃ got, (fetchMissing P s missing (honestAnswer B (requestRanges single missing))).2 = some got := by
  unfold fetchMissing
  split
  · exact ⟨[], rfl⟩
  · simp only [honestAnswer]
    have hgrid := requestRanges_grid P hc missing hm single
    have hparts : ∀ p ∈ (requestRanges single missing).map (fullPart B),
        p.b % P.chunk = 0 ∧ (∃ m, GridChunk P m ∧ m.e = p.e) ∧ p.e + 1 - p.b ≤ p.data.length := by
      intro p hp
      obtain ⟨r, hr, rfl⟩ := List.mem_map.mp hp
      obtain ⟨hle, ⟨mb, hmb, hmbe⟩, ⟨me, hme, hmee⟩⟩ := hgrid r hr
      have h1 := hme.le hc
      simp only [fullPart, slice_length]
      refine ⟨?_, ⟨me, hme, by omega⟩, by omega⟩
      have : r.b.toNat = mb.b := by omega
      rw [this]; exact hmb.1
    obtain ⟨got, hg1, hg2⟩ := storeParts_ok P hc _ s hparts
    generalize storeParts P s ((requestRanges single missing).map (fullPart B)) = R at hg1
    obtain ⟨s1, r1⟩ := R
    simp only at hg1
    subst hg1
    simp only
    rw [if_pos]
    · exact ⟨got, rfl⟩
    · rw [List.all_eq_true]
      intro c hcm
      rw [List.any_eq_true]
      have hg := hm c hcm
      have hle := hg.le hc
      obtain ⟨r, hr, hr1, hr2⟩ := request_covers missing (fun c h => ((hm c h).le hc).1) single
        c hcm (c.b : Int) (by omega) (by omega)
      obtain ⟨_, ⟨mb, hmb, hmbe⟩, _⟩ := hgrid r hr
      have hpm : fullPart B r ∈ (requestRanges single missing).map (fullPart B) :=
        List.mem_map.mpr ⟨r, hr, rfl⟩
      have hrb : r.b.toNat = mb.b := by omega
      have hal : r.b.toNat % P.chunk = 0 := by rw [hrb]; exact hmb.1
      have hmem : c ∈ chunksFrom P (fullPart B r).e (P.size + 1) (fullPart B r).b := by
        rw [chunksFrom_eq_chunkList P hc _ _ _ (by omega), mem_chunkList]
        simp only [fullPart]
        have hdiv : (c.b - r.b.toNat) / P.chunk * P.chunk = c.b - r.b.toNat :=
          Nat.div_mul_cancel (Nat.dvd_of_mod_eq_zero (by
            rw [Nat.sub_mod_eq_zero_of_mod_eq (by rw [hg.1, hal])]))
        refine ⟨(c.b - r.b.toNat) / P.chunk, ?_, ?_⟩
        · rw [lt_numChunks_iff P hc, hdiv]; omega
        · rw [hdiv]
          have : r.b.toNat + (c.b - r.b.toNat) = c.b := by omega
          rw [this]; exact hg.eq_chunkAt
      obtain ⟨g, hgm, hgc⟩ := hg2 _ hpm c hmem
      exact ⟨g, hgm, by simpa using hgc⟩

/-- `ReadAt` cannot fail against an honest server that answers exactly the ranges requested
for the missing chunks (whatever the cache holds). -/
theorem readAt_honest_ok (P : Params) (B : Bytes) (hc : 0 < P.chunk) (hB : B.length = P.size)
    (s : St) (o n : Nat) (single : Bool) :
    ∃ ms, missingFor P s o n = some ms ∧
      (readAt P s o n (honestAnswer B (requestRanges single ms))).2 ≠ none := by
  by_cases h : n = 0 ∨ o > P.size
  · refine ⟨[], by unfold missingFor; rw [if_pos h], ?_⟩
    unfold readAt; rw [if_pos h]; simp
  · refine ⟨(classify o n s.cache
        (chunksFrom P (o + n - 1) (P.size + 1) (floorU o P.chunk))).2, ?_, ?_⟩
    · unfold missingFor; rw [if_neg h, walk_readAt P hc]; rfl
    · rw [readAt_unfold P s o n _ hc h]
      simp only
      have hm : ∀ c ∈ (classify o n s.cache
          (chunksFrom P (o + n - 1) (P.size + 1) (floorU o P.chunk))).2, GridChunk P c := by
        intro c hcm
        have := (classify_spec o n s.cache _).2.1 c hcm
        rw [chunksFrom_eq_chunkList P hc _ _ _ (by omega)] at this
        exact (gridChunk_of_mem_chunkList P hc _ _ (floorU_mod ..) c this).1
      obtain ⟨got, hg⟩ := fetchMissing_honest_ok P B hc hB _ hm single s
      rw [hg]
      simp

/-- `Cache` cannot fail against such a server either. -/
theorem cacheAt_honest_ok (P : Params) (B : Bytes) (hc : 0 < P.chunk) (hB : B.length = P.size)
    (s : St) (o n : Nat) (single : Bool) :
    (cacheAt P s o n (honestAnswer B (requestRanges single
      ((chunksFrom P (o + n - 1) (P.size + 1) (floorU o P.chunk)).filter
        (fun c => (s.cache.get c).isNone))))).2 = true := by
  unfold cacheAt
  rw [walk_readAt P hc]
  simp only
  have hm : ∀ c ∈ (chunksFrom P (o + n - 1) (P.size + 1) (floorU o P.chunk)).filter
      (fun c => (s.cache.get c).isNone), GridChunk P c := by
    intro c hcm
    have := (List.mem_filter.mp hcm).1
    rw [chunksFrom_eq_chunkList P hc _ _ _ (by omega)] at this
    exact (gridChunk_of_mem_chunkList P hc _ _ (floorU_mod ..) c this).1
  obtain ⟨got, hg⟩ := fetchMissing_honest_ok P B hc hB _ hm single s
  generalize fetchMissing P s _ _ = R at hg
  obtain ⟨s1, r1⟩ := R
  simp only at hg
  subst hg
  rfl

/-! ### fixtures for the non-vacuity examples -/

/-- Blob `0..9`. -/
def exB : Bytes := [0, 1, 2, 3, 4, 5, 6, 7, 8, 9]
/-- Chunk size 4: chunk `[4,7]` cached, bytes `[0,7]` fetched before. -/
def exS : St := { cache := [(⟨4, 7⟩, [4, 5, 6, 7])], fetched := [⟨0, 7⟩] }

end SV.Blob
